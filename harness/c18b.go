package main

// C18B <get|down|sub> <size,size,...> ; <stats events> <http status> <body bytes>
//
// The stats events of HTTP calls whose replies are google.api.HttpBody messages (sent as their raw data bytes):
// get = unary GET /c18b/get, down = server stream GET /c18b/down (one reply per size), sub = unary GET /c18b/sub whose
// rule selects an HttpBody field with response_body. One out-payload event per reply, with the length of what was sent.

import (
	"context"
	"fmt"
	"net/http/httptest"
	"strings"

	"google.golang.org/grpc"
	"google.golang.org/protobuf/proto"
	"google.golang.org/protobuf/reflect/protoreflect"
	"google.golang.org/protobuf/types/dynamicpb"
	"larking.io/larking"
)

type c18bEnv struct {
	rec   *c18Env
	mux   *larking.Mux
	sizes []int
}

var c18benv *c18bEnv

func c18bBody(d protoreflect.MessageDescriptor, n int) *dynamicpb.Message {
	m := dynamicpb.NewMessage(d)
	m.Set(d.Fields().ByName("content_type"), protoreflect.ValueOfString("application/x-c18b"))
	m.Set(d.Fields().ByName("data"), protoreflect.ValueOfBytes([]byte(strings.Repeat("d", n))))
	return m
}

func c18bSetup() *c18bEnv {
	if c18benv != nil {
		return c18benv
	}
	e := &c18bEnv{rec: &c18Env{}}
	msg, hb := "larking.testpb.Message", "google.api.HttpBody"
	f := dynFile{Path: "verif/c18b.proto", Pkg: "verif.c18b", Services: []dynService{{Name: "Svc", Methods: []dynMethod{
		{Name: "Mget", In: msg, Out: hb, Rule: &dynRule{Verb: "GET", Tmpl: "/c18b/get"}},
		{Name: "Mdown", In: msg, Out: hb, ServerStream: true, Rule: &dynRule{Verb: "GET", Tmpl: "/c18b/down"}},
		{Name: "Msub", In: msg, Out: "larking.testpb.UploadFileRequest", Rule: &dynRule{Verb: "GET", Tmpl: "/c18b/sub", RespBody: "file"}},
	}}}}
	fd, err := f.build()
	if err != nil {
		panic(err)
	}
	impl := &dynImpl{
		Unary: func(ctx context.Context, method string, req proto.Message, out protoreflect.MessageDescriptor) (proto.Message, error) {
			if out.FullName() == "google.api.HttpBody" {
				return c18bBody(out, e.sizes[0]), nil
			}
			m := dynamicpb.NewMessage(out)
			fdFile := out.Fields().ByName("file")
			m.Set(fdFile, protoreflect.ValueOfMessage(c18bBody(fdFile.Message(), e.sizes[0])))
			return m, nil
		},
		Stream: func(method string, in, out protoreflect.MessageDescriptor, ss grpc.ServerStream) error {
			if err := ss.RecvMsg(dynamicpb.NewMessage(in)); err != nil {
				return err
			}
			for _, n := range e.sizes {
				if err := ss.SendMsg(c18bBody(out, n)); err != nil {
					return err
				}
			}
			return nil
		},
	}
	e.mux, err = dynMux([]protoreflect.FileDescriptor{fd}, impl, larking.StatsOption(c18Stats{e.rec}))
	if err != nil {
		panic(err)
	}
	c18benv = e
	return e
}

func c18bRun(o *out, input string) {
	f := strings.Fields(input)
	e := c18bSetup()
	e.sizes = unints(f[2])
	e.rec.ev = nil
	w, p := serveRec(e.mux, httptest.NewRequest("GET", "/c18b/"+f[1], nil))
	if p != "" {
		o.emit(input, "panic 0 0")
		return
	}
	o.emit(input, fmt.Sprintf("%s %d %d", c18Join(e.rec.ev), w.Code, w.Body.Len()))
}

func c18bGen(o *out, r *rng) {
	for _, n := range []int{0, 1, 2, 5, 64, 300, 5000} {
		for _, k := range []string{"get", "sub"} {
			o.count("httpbody/" + k)
			c18bRun(o, fmt.Sprintf("C18B %s %d", k, n))
		}
		o.count("httpbody/down")
		c18bRun(o, fmt.Sprintf("C18B down %d", n))
		o.count("httpbody/down")
		c18bRun(o, fmt.Sprintf("C18B down %d,%d,%d", n, r.intn(40), n+1))
	}
}

func init() {
	p := props["C18"]
	g, rn := p.gen, p.run
	props["C18"] = prop{
		gen: func(o *out, r *rng, tier string) { g(o, r, tier); c18bGen(o, r) },
		run: func(o *out, in string) {
			if strings.HasPrefix(in, "C18B") {
				c18bRun(o, in)
			} else {
				rn(o, in)
			}
		},
	}
}
