package main

import (
	"context"
	"encoding/base64"
	"fmt"
	"io"
	"net"
	"net/http/httptest"
	"strings"
	"sync"
	"time"

	"google.golang.org/grpc"
	"google.golang.org/grpc/credentials/insecure"
	"google.golang.org/grpc/metadata"
	"google.golang.org/grpc/reflection"
	rpb "google.golang.org/grpc/reflection/grpc_reflection_v1alpha"
	"google.golang.org/protobuf/proto"
	"google.golang.org/protobuf/reflect/protoreflect"
	"google.golang.org/protobuf/reflect/protoregistry"
	"google.golang.org/protobuf/types/dynamicpb"
	"larking.io/larking"
)

// C15: grpc-timeout strings through the gRPC entry of the real Mux; the handler records
// ctx.Deadline(), bracketed by clock readings (no equality on times).

type c15Env struct {
	mux     *larking.Mux
	muxS    *larking.Mux // the same service behind a stats handler and interceptors (cases "C15T <hex> s")
	muxP    *larking.Mux // the same service on a backend behind RegisterConn (cases "C15T <hex> p")
	mu      sync.Mutex
	caseID  int
	invoked bool
	has     bool
	dl      time.Time
	at      time.Time
}

var c15env *c15Env

func c15Setup() *c15Env {
	if c15env != nil {
		return c15env
	}
	e := &c15Env{}
	f := dynFile{Path: "verif/c15.proto", Pkg: "verif.c15", Services: []dynService{{Name: "Tsvc", Methods: []dynMethod{
		{Name: "Unary", In: "larking.testpb.Message", Out: "larking.testpb.Message"},
	}}}}
	fd, err := f.build()
	if err != nil {
		panic(err)
	}
	impl := &dynImpl{Unary: func(ctx context.Context, method string, req proto.Message, out protoreflect.MessageDescriptor) (proto.Message, error) {
		e.invoked = true
		e.at = time.Now()
		e.dl, e.has = ctx.Deadline()
		return dynamicpb.NewMessage(out), nil
	}}
	e.mux, err = dynMux([]protoreflect.FileDescriptor{fd}, impl)
	if err != nil {
		panic(err)
	}
	e.muxS, err = dynMux([]protoreflect.FileDescriptor{fd}, impl, larking.StatsOption(c14Stats{}),
		larking.UnaryServerInterceptorOption(func(ctx context.Context, req interface{}, info *grpc.UnaryServerInfo, h grpc.UnaryHandler) (interface{}, error) {
			return h(ctx, req)
		}))
	if err != nil {
		panic(err)
	}
	// the same service on a grpc-go backend on loopback, reached through RegisterConn (cases "C15T <hex> p"): there the
	// handler of the RPC is the backend's, and the deadline it runs under is the one the call came with
	files := &protoregistry.Files{}
	if err := files.RegisterFile(fd); err != nil {
		panic(err)
	}
	// (a backend call may outlive the front call that gave up on it: the backend's handler records only for the case whose
	// number it finds in the forwarded request metadata)
	bimpl := &dynImpl{Unary: func(ctx context.Context, method string, req proto.Message, out protoreflect.MessageDescriptor) (proto.Message, error) {
		now := time.Now()
		md, _ := metadata.FromIncomingContext(ctx)
		e.mu.Lock()
		if v := md.Get("x-c15-case"); len(v) == 1 && v[0] == fmt.Sprint(e.caseID) {
			e.invoked, e.at = true, now
			e.dl, e.has = ctx.Deadline()
		}
		e.mu.Unlock()
		return dynamicpb.NewMessage(out), nil
	}}
	gs := grpc.NewServer()
	gs.RegisterService(serviceDesc(fd.Services().Get(0), bimpl), nil)
	rpb.RegisterServerReflectionServer(gs, reflection.NewServer(reflection.ServerOptions{Services: gs, DescriptorResolver: c18pResolver{files}}))
	lis, err := net.Listen("tcp", "127.0.0.1:0")
	if err != nil {
		panic(err)
	}
	go gs.Serve(lis)
	conn, err := grpc.Dial(lis.Addr().String(), grpc.WithTransportCredentials(insecure.NewCredentials()))
	if err != nil {
		panic(err)
	}
	if e.muxP, err = larking.NewMux(); err != nil {
		panic(err)
	}
	if err := e.muxP.RegisterConn(context.Background(), conn); err != nil {
		panic(err)
	}
	c15env = e
	return e
}

// c15SlowBody: a request body whose bytes arrive d after the first Read
type c15SlowBody struct {
	d    time.Duration
	data []byte
	off  int
}

func (b *c15SlowBody) Read(p []byte) (int, error) {
	if b.off == 0 {
		time.Sleep(b.d)
	}
	if b.off >= len(b.data) {
		return 0, io.EOF
	}
	n := copy(p, b.data[b.off:])
	b.off += n
	return n, nil
}

func grpcFrame(payload []byte) []byte {
	n := len(payload)
	return append([]byte{0, byte(n >> 24), byte(n >> 16), byte(n >> 8), byte(n)}, payload...)
}

func c15Run(o *out, input string) {
	f := strings.Fields(input)
	if f[0] == "C15C" {
		c15cRun(o, input)
		return
	}
	if f[0] != "C15T" {
		panic("bad C15 case " + input)
	}
	e := c15Setup()
	e.mu.Lock()
	e.caseID++
	e.invoked, e.has = false, false
	e.mu.Unlock()
	val := string(unhx(f[1]))
	r := httptest.NewRequest("POST", "/verif.c15.Tsvc/Unary", strings.NewReader(string(grpcFrame(nil))))
	r.ProtoMajor, r.ProtoMinor = 2, 0
	r.Header.Set("Content-Type", "application/grpc")
	web := len(f) > 2 && f[2] == "w"
	if web {
		// the same header on the gRPC-web entry
		r.ProtoMajor, r.ProtoMinor = 1, 1
		r.Header.Set("Content-Type", "application/grpc-web+proto")
	}
	if len(f) > 2 && f[2] == "x" {
		// gRPC-web in its text form, the upload arriving 400 ms after the request: the deadline counts from receipt of the
		// request, not from the end of its body
		r = httptest.NewRequest("POST", "/verif.c15.Tsvc/Unary", &c15SlowBody{d: 400 * time.Millisecond, data: []byte(base64.StdEncoding.EncodeToString(grpcFrame(nil)))})
		r.Header.Set("Content-Type", "application/grpc-web-text+proto")
		web = true
	}
	if len(f) > 2 && f[2] == "d" {
		// a server in front of the mux that bounds every request (here: far away); the nearer of the two deadlines is the
		// handler's, and that is the call's own
		dctx, dcancel := context.WithDeadline(r.Context(), time.Now().Add(1<<62))
		defer dcancel()
		r = r.WithContext(dctx)
	}
	r.Header["Grpc-Timeout"] = []string{val}
	r.Header.Set("X-C15-Case", fmt.Sprint(e.caseID))
	w := httptest.NewRecorder()
	t0 := time.Now()
	func() {
		defer func() {
			if p := recover(); p != nil {
				e.invoked = false
				w.Code = 599
			}
		}()
		if len(f) > 2 && f[2] == "s" {
			e.muxS.ServeHTTP(w, r)
		} else if len(f) > 2 && f[2] == "p" {
			e.muxP.ServeHTTP(w, r)
		} else {
			e.mux.ServeHTTP(w, r)
		}
	}()
	e.mu.Lock()
	defer e.mu.Unlock()
	gs := w.Result().Header.Get("Grpc-Status") // (the header as it went out)
	if gs == "" {
		gs = w.Result().Trailer.Get("Grpc-Status")
	}
	if gs == "" && web {
		if v := webTrailers(w.Body.Bytes())["grpc-status"]; len(v) > 0 {
			gs = v[0]
		}
	}
	if gs == "" {
		gs = "none"
	}
	switch {
	case !e.invoked && w.Code == 200:
		// not a refusal of the header: the deadline passed before the handler could be called
		o.emit(input, fmt.Sprintf("expired %s 0 0", gs))
	case !e.invoked:
		o.emit(input, fmt.Sprintf("refused %d 0 0", w.Code))
	case !e.has:
		o.emit(input, "nodeadline 0 0 0")
	default:
		lo := e.dl.Sub(e.at) // time left when the handler looked
		hi := e.dl.Sub(t0)   // time left measured from before the call
		o.emit(input, fmt.Sprintf("ok %d %d %d", w.Code, int64(lo), int64(hi)))
	}
}

func c15Gen(o *out, r *rng, tier string) {
	nemit := 0
	emit := func(s string, tag string) {
		o.count(tag)
		c15Run(o, "C15T "+hx([]byte(s)))
		if nemit++; nemit%5 == 0 {
			// the same header on a mux with a stats handler and an interceptor
			o.count("behind-stats/" + tag)
			c15Run(o, "C15T "+hx([]byte(s))+" s")
		}
		if nemit%5 == 3 {
			o.count("proxied-backend/" + tag)
			c15Run(o, "C15T "+hx([]byte(s))+" p")
		}
		if nemit%5 == 4 {
			o.count("behind-a-server-deadline/" + tag)
			c15Run(o, "C15T "+hx([]byte(s))+" d")
		}
		if nemit%5 == 2 {
			o.count("grpc-web/" + tag)
			c15Run(o, "C15T "+hx([]byte(s))+" w")
		}
	}
	units := "HMSmun"
	c15cGen(o)
	for _, v := range []string{"1S", "700m", "2000000u", "5S", "1M", "3H", "1x", "S"} {
		o.count("grpc-web-text-slow-upload")
		c15Run(o, "C15T "+hx([]byte(v))+" x")
	}
	// digit counts 1..9 x units + bad units, leading zeros, all nines
	for n := 1; n <= 9; n++ {
		for _, u := range units + "sh x" {
			emit(strings.Repeat("9", n)+string(u), "digits-nines")
			emit(strings.Repeat("0", n-1)+"7"+string(u), "digits-leading-zero")
			emit("1"+strings.Repeat("0", n-1)+string(u), "digits-power10")
		}
	}
	// every string of length <= 3 over a boundary alphabet
	alpha := []string{"0", "1", "9", "+", "-", " ", "H", "S", "m", "x"}
	var rec func(prefix string, depth int)
	rec = func(prefix string, depth int) {
		if prefix != "" {
			emit(prefix, "exhaustive-len<=3")
		}
		if depth == 3 {
			return
		}
		for _, a := range alpha {
			rec(prefix+a, depth+1)
		}
	}
	rec("", 0)
	for _, s := range []string{"2562047H", "2562048H", "99999999H", "99999999M", "1 S", " 1S", "1S ", "１S", "1.5S", "1e3S", "0x1S", "1_0S", "+1234567S", "-1n", "00000000n", "000000001n"} {
		emit(s, "hand-picked")
	}
	// hours: a sweep across the 8-digit range, and both sides of every multiple of 2^63 ns (where a
	// product computed in int64 changes sign) and of 2^64 ns (where it wraps to small positive values)
	for h := 1999999; h < 100000000; h += 617283 {
		emit(fmt.Sprintf("%dH", h), "hours-sweep")
	}
	for k := 1; k <= 39; k++ {
		edge := uint64(k) * (1 << 62) / 1800000000000 // k * 2^63 ns in hours
		for _, d := range []int64{-1, 0, 1, 2} {
			if v := int64(edge) + d; v > 0 && v < 100000000 {
				emit(fmt.Sprintf("%dH", v), "hours-edges")
				emit(fmt.Sprintf("%08dH", v), "hours-edges")
			}
		}
	}
	n := 400
	if tier == "thorough" {
		n = 20000
	}
	chars := "0123456789HMSmun+- xs."
	for i := 0; i < n; i++ {
		l := 1 + r.intn(10)
		b := make([]byte, l)
		for j := range b {
			if r.intn(4) > 0 {
				b[j] = byte('0' + r.intn(10))
			} else {
				b[j] = chars[r.intn(len(chars))]
			}
		}
		if r.intn(3) > 0 {
			b[l-1] = units[r.intn(6)]
		}
		emit(string(b), "random")
	}
}

func init() { props["C15"] = prop{gen: c15Gen, run: c15Run} }

var _ = grpc.Version
