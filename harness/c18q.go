package main

// C18Q <cs|bi> <n1> <n2> ; <stats events> <grpc-status> <late 0|1>
//
// A proxied (RegisterConn) client-streaming / bidi call over gRPC whose backend answers after the first request message
// and returns without reading on, while the client has not half-closed: its second message becomes readable only at
// the moment the stats handler is told the RPC ended (and that handler takes its time). Nothing may be reported for
// an RPC after its End event: no in-payload for a message that arrives afterwards. n1, n2: sizes of the two messages.
// late = 1 when an event was recorded after ServeHTTP had returned.

import (
	"context"
	"fmt"
	"io"
	"net"
	"net/http/httptest"
	"strings"
	"sync"
	"time"

	"google.golang.org/grpc"
	"google.golang.org/grpc/credentials/insecure"
	"google.golang.org/grpc/reflection"
	rpb "google.golang.org/grpc/reflection/grpc_reflection_v1alpha"
	"google.golang.org/grpc/stats"
	"google.golang.org/protobuf/proto"
	"google.golang.org/protobuf/reflect/protoreflect"
	"google.golang.org/protobuf/reflect/protoregistry"
	"google.golang.org/protobuf/types/dynamicpb"
	"larking.io/larking"
)

type c18qEnv struct {
	mu    sync.Mutex
	rec   *c18Env
	inner c18Stats
	gate  chan struct{}
	mux   *larking.Mux
}

var c18qenv *c18qEnv

// the recording stats handler of C18 behind a lock (the pump goroutine reports too), opening the gate at End
type c18qStats struct{ e *c18qEnv }

func (s c18qStats) TagRPC(ctx context.Context, info *stats.RPCTagInfo) context.Context {
	s.e.mu.Lock()
	defer s.e.mu.Unlock()
	return s.e.inner.TagRPC(ctx, info)
}
func (s c18qStats) HandleRPC(ctx context.Context, st stats.RPCStats) {
	s.e.mu.Lock()
	s.e.inner.HandleRPC(ctx, st)
	s.e.mu.Unlock()
	if _, ok := st.(*stats.End); ok {
		select {
		case <-s.e.gate:
		default:
			close(s.e.gate)
		}
		time.Sleep(120 * time.Millisecond)
	}
}
func (s c18qStats) TagConn(ctx context.Context, _ *stats.ConnTagInfo) context.Context { return ctx }
func (s c18qStats) HandleConn(context.Context, stats.ConnStats)                       {}

// request body: the first frame at once, the second once the gate opens, then nothing until closed
type c18qBody struct {
	first, second []byte
	gate, closed  chan struct{}
	once          sync.Once
}

func (b *c18qBody) Read(p []byte) (int, error) {
	if len(b.first) > 0 {
		n := copy(p, b.first)
		b.first = b.first[n:]
		return n, nil
	}
	if len(b.second) > 0 {
		select {
		case <-b.gate:
		case <-b.closed:
			return 0, io.ErrClosedPipe
		case <-time.After(5 * time.Second):
			return 0, io.ErrUnexpectedEOF
		}
		n := copy(p, b.second)
		b.second = b.second[n:]
		return n, nil
	}
	select {
	case <-b.closed:
		return 0, io.ErrClosedPipe
	case <-time.After(1 * time.Second):
		return 0, io.EOF
	}
}
func (b *c18qBody) Close() error { b.once.Do(func() { close(b.closed) }); return nil }

func c18qSetup() *c18qEnv {
	if c18qenv != nil {
		return c18qenv
	}
	e := &c18qEnv{rec: &c18Env{}}
	e.inner = c18Stats{e.rec}
	msg := "larking.testpb.Message"
	f := dynFile{Path: "verif/c18q.proto", Pkg: "verif.c18q", Services: []dynService{{Name: "Svc", Methods: []dynMethod{
		{Name: "Mcs", In: msg, Out: msg, ClientStream: true}, {Name: "Mbi", In: msg, Out: msg, ClientStream: true, ServerStream: true},
	}}}}
	fd, err := f.build()
	if err != nil {
		panic(err)
	}
	files := &protoregistry.Files{}
	if err := files.RegisterFile(fd); err != nil {
		panic(err)
	}
	impl := &dynImpl{
		Unary: func(ctx context.Context, method string, req proto.Message, out protoreflect.MessageDescriptor) (proto.Message, error) {
			return dynamicpb.NewMessage(out), nil
		},
		Stream: func(method string, in, out protoreflect.MessageDescriptor, ss grpc.ServerStream) error {
			m := dynamicpb.NewMessage(in)
			if err := ss.RecvMsg(m); err != nil {
				return err
			}
			return ss.SendMsg(m) // echo of the first message, then OK without reading on
		},
	}
	gs := grpc.NewServer()
	gs.RegisterService(serviceDesc(fd.Services().Get(0), impl), nil)
	rpb.RegisterServerReflectionServer(gs, reflection.NewServer(reflection.ServerOptions{Services: gs, DescriptorResolver: c18pResolver{files}}))
	lis, err := net.Listen("tcp", "127.0.0.1:0")
	if err != nil {
		panic(err)
	}
	go gs.Serve(lis)
	conn, err := grpc.Dial(lis.Addr().String(), grpc.WithTransportCredentials(insecure.NewCredentials()))
	if err != nil {
		panic(err)
	}
	e.mux, err = larking.NewMux(larking.StatsOption(c18qStats{e}))
	if err != nil {
		panic(err)
	}
	if err := e.mux.RegisterConn(context.Background(), conn); err != nil {
		panic(err)
	}
	c18qenv = e
	return e
}

func c18qRun(o *out, input string) {
	f := strings.Fields(input)
	e := c18qSetup()
	r := &rng{s: uint64(atoi(f[2])*131 + atoi(f[3]))}
	e.mu.Lock()
	e.rec.ev = nil
	e.gate = make(chan struct{})
	e.mu.Unlock()
	body := &c18qBody{first: grpcFrame(c18Payload(atoi(f[2]), r)), second: grpcFrame(c18Payload(atoi(f[3]), r)), gate: e.gate, closed: make(chan struct{})}
	req := httptest.NewRequest("POST", "/verif.c18q.Svc/M"+f[1], body)
	req.ProtoMajor, req.ProtoMinor = 2, 0
	req.Header.Set("Content-Type", "application/grpc")
	req.ContentLength = -1
	w, p := serveRec(e.mux, req)
	if p != "" {
		o.emit(input, "panic - 0")
		return
	}
	e.mu.Lock()
	n0 := len(e.rec.ev)
	e.mu.Unlock()
	time.Sleep(150 * time.Millisecond)
	body.Close()
	e.mu.Lock()
	evs := c18Join(e.rec.ev)
	late := b2i(len(e.rec.ev) != n0)
	e.mu.Unlock()
	gs := w.Result().Trailer.Get("Grpc-Status")
	if gs == "" {
		gs = w.Result().Header.Get("Grpc-Status")
	}
	if gs == "" {
		gs = "-"
	}
	o.emit(input, fmt.Sprintf("%s %s %d", evs, gs, late))
}

func c18qGen(o *out) {
	for _, sh := range []string{"cs", "bi"} {
		for _, n := range [][2]int{{0, 0}, {3, 5}, {64, 2}, {5, 300}} {
			o.count("proxied-message-after-end/" + sh)
			c18qRun(o, fmt.Sprintf("C18Q %s %d %d", sh, n[0], n[1]))
		}
	}
}

func init() {
	p := props["C18"]
	g, rn := p.gen, p.run
	props["C18"] = prop{
		gen: func(o *out, r *rng, tier string) { g(o, r, tier); c18qGen(o) },
		run: func(o *out, in string) {
			if strings.HasPrefix(in, "C18Q") {
				c18qRun(o, in)
			} else {
				rn(o, in)
			}
		},
	}
}
