package main

// C10X <shape cs|bi> <k> <how> ; <backend msgs> <backend end eof|err|none> <flag>
//
// A proxied client stream that the client does NOT complete: k messages arrive, then the request body
// fails (how = reset: the body reader returns an error, as net/http's does when the peer resets the
// stream or goes away) and, a little later, the request context is cancelled -- the order in which an
// HTTP/2 server reports a reset. Called directly, the backend handler's Recv ends with an error in
// that situation, never with io.EOF ("the client finished sending"). Through the proxy it must be the
// same: the backend must not be told that the stream was completed. how = close is the control: the
// body ends normally and the backend sees io.EOF.
// Driven in-process (ServeHTTP with a pipe as the body) so that the order of the two events is fixed.

import (
	"context"
	"errors"
	"fmt"
	"io"
	"net/http/httptest"
	"strings"
	"time"

	"google.golang.org/protobuf/proto"
)

func c10xRun(o *out, input string) {
	f := strings.Fields(input)
	shape, k, how := f[1], atoi(f[2]), f[3]
	e := c10Setup()
	sc := &c10Script{shape: shape, front: "grpc", bops: []c10Op{{'e', ""}}}
	if shape == "bi" {
		sc.bops = append(sc.bops, c10Op{'s', "reply"})
	}
	e.mu.Lock()
	e.cur, e.rec, e.started = sc, nil, make(chan struct{})
	e.mu.Unlock()

	pr, pw := io.Pipe()
	ctx, cancel := context.WithCancel(context.Background())
	defer cancel()
	method := map[string]string{"cs": "/c10.Svc/Cs", "bi": "/c10.Svc/Bi"}[shape]
	r := httptest.NewRequest("POST", method, pr).WithContext(ctx)
	r.ProtoMajor, r.ProtoMinor = 2, 0
	r.Header.Set("Content-Type", "application/grpc")
	r.Header.Set("Te", "trailers")
	w := httptest.NewRecorder()
	done := make(chan string, 1)
	go func() {
		defer func() {
			if p := recover(); p != nil {
				done <- "panic"
			}
		}()
		e.mux.ServeHTTP(w, r)
		done <- "ok"
	}()
	for i := 0; i < k; i++ {
		b, _ := proto.Marshal(e.newMsg(fmt.Sprintf("m%d", i)))
		pw.Write(grpcFrame(b))
	}
	time.Sleep(30 * time.Millisecond) // let the messages travel to the backend
	if how == "close" {
		pw.Close()
	} else {
		pw.CloseWithError(errors.New("stream reset by peer"))
		time.Sleep(150 * time.Millisecond)
		cancel()
	}
	flag := "ok"
	select {
	case flag = <-done:
	case <-time.After(5 * time.Second):
		flag = "hang"
	}
	e.mu.Lock()
	rec := e.rec
	e.mu.Unlock()
	msgs, end := "-", "none"
	if rec != nil {
		select {
		case <-rec.done:
		case <-time.After(3 * time.Second):
			flag = "backend-stuck"
		}
		if len(rec.msgs) > 0 {
			msgs = strings.Join(rec.msgs, ",")
		}
		switch {
		case rec.eof:
			end = "eof"
		case rec.aborted:
			end = "err"
		}
	}
	o.emit(input, fmt.Sprintf("%s %s %s", msgs, end, flag))
}

func c10xGen(o *out) {
	for _, shape := range []string{"cs", "bi"} {
		for _, k := range []int{0, 1, 3} {
			for _, how := range []string{"close", "reset", "reset"} {
				o.count("incomplete-client-stream/" + how)
				c10xRun(o, fmt.Sprintf("C10X %s %d %s", shape, k, how))
			}
		}
	}
}

func init() {
	p := props["C10"]
	g, rn := p.gen, p.run
	props["C10"] = prop{
		gen: func(o *out, r *rng, tier string) { g(o, r, tier); c10xGen(o) },
		run: func(o *out, in string) {
			if strings.HasPrefix(in, "C10X") {
				c10xRun(o, in)
			} else {
				rn(o, in)
			}
		},
	}
}
