package main

import (
	"bytes"
	"context"
	"encoding/base64"
	"fmt"
	"net/http"
	"net/http/httptest"
	"sort"
	"strings"
	"time"

	"google.golang.org/grpc"
	"google.golang.org/grpc/codes"
	"google.golang.org/grpc/metadata"
	"google.golang.org/grpc/stats"
	"google.golang.org/grpc/status"
	"google.golang.org/protobuf/proto"
	"google.golang.org/protobuf/reflect/protoreflect"
	"google.golang.org/protobuf/types/dynamicpb"
	"larking.io/larking"
)

// C14: request headers -> incoming metadata, handler header/trailer metadata -> response.
//   C14I <proto> <hdrs>                       ; <metadata the handler saw>
//   C14O <proto> <ok|fail> <hdr md> <trl md>  ; <resp headers> <resp trailers> <baseline headers> <baseline trailers>
//   C14S <proto> <ok|fail> <steps>            ; <resp headers call 1> <resp headers call 2> <app metadata changed 0|1>
//       steps: s<map>+s<map>+S<map>: SetHeader calls, then optionally one SendHeader, with metadata objects
//       the application keeps and hands over again for the next call (two calls in a row)
// maps are written  hexkey=hexval|hexval;hexkey=...  sorted by key (keys lower-cased on the observation side)

type c14Env struct {
	mux      *larking.Mux
	muxPlain *larking.Mux
	muxStats *larking.Mux // the same service behind a stats handler and interceptors (protocol names ending in "+s")
	seen     metadata.MD
	hdr      metadata.MD
	trl      metadata.MD
	fail     bool
	late     bool // the handler waits for the end of its context before it sets its metadata
	// C14S: the handler's own, long-lived metadata objects, handed to SetHeader / SendHeader as they are
	steps []c14Step
}

type c14Step struct {
	send bool
	md   metadata.MD
}

var c14env *c14Env

func encMap(m map[string][]string) string {
	if len(m) == 0 {
		return "-"
	}
	keys := make([]string, 0, len(m))
	for k := range m {
		keys = append(keys, k)
	}
	sort.Strings(keys)
	var parts []string
	for _, k := range keys {
		vs := make([]string, len(m[k]))
		for i, v := range m[k] {
			vs[i] = hx([]byte(v))
		}
		parts = append(parts, hx([]byte(k))+"="+strings.Join(vs, "|"))
	}
	return strings.Join(parts, ";")
}

func decMap(s string) map[string][]string {
	m := map[string][]string{}
	if s == "-" || s == "" {
		return m
	}
	for _, p := range strings.Split(s, ";") {
		k, vs, _ := strings.Cut(p, "=")
		var vals []string
		if vs != "" {
			for _, v := range strings.Split(vs, "|") {
				vals = append(vals, string(unhx(v)))
			}
		}
		m[string(unhx(k))] = vals
	}
	return m
}

func lowerMap(h map[string][]string) map[string][]string {
	m := map[string][]string{}
	for k, v := range h {
		m[strings.ToLower(k)] = append(m[strings.ToLower(k)], v...)
	}
	return m
}

func c14Setup() *c14Env {
	if c14env != nil {
		return c14env
	}
	e := &c14Env{}
	msg := "larking.testpb.Message"
	f := dynFile{Path: "verif/c14.proto", Pkg: "verif.c14", Services: []dynService{{Name: "Msvc", Methods: []dynMethod{
		{Name: "Unary", In: msg, Out: msg, Rule: &dynRule{Verb: "GET", Tmpl: "/c14/unary"}},
		{Name: "Down", In: msg, Out: "google.api.HttpBody", ServerStream: true, Rule: &dynRule{Verb: "GET", Tmpl: "/c14/down"}},
	}}}}
	fd, err := f.build()
	if err != nil {
		panic(err)
	}
	impl := &dynImpl{Unary: func(ctx context.Context, method string, req proto.Message, out protoreflect.MessageDescriptor) (proto.Message, error) {
		md, _ := metadata.FromIncomingContext(ctx)
		e.seen = md.Copy()
		for _, st := range e.steps {
			var err error
			if st.send {
				err = grpc.SendHeader(ctx, st.md)
			} else {
				err = grpc.SetHeader(ctx, st.md)
			}
			if err != nil {
				return nil, status.Error(codes.Internal, "header step: "+err.Error())
			}
		}
		if e.late {
			// the handler reports in its header after the call's deadline has passed (next to the error it returns)
			select {
			case <-ctx.Done():
			case <-time.After(2 * time.Second):
			}
		}
		if e.hdr != nil {
			if err := grpc.SetHeader(ctx, e.hdr.Copy()); err != nil {
				return nil, status.Error(codes.Internal, "SetHeader: "+err.Error())
			}
		}
		if e.trl != nil {
			if err := grpc.SetTrailer(ctx, e.trl.Copy()); err != nil {
				return nil, status.Error(codes.Internal, "SetTrailer: "+err.Error())
			}
		}
		if e.fail {
			return nil, status.Error(codes.FailedPrecondition, "scripted failure")
		}
		return dynamicpb.NewMessage(out), nil
	}, Stream: func(method string, in, out protoreflect.MessageDescriptor, ss grpc.ServerStream) error {
		// a download written through larking.AsHTTPBodyWriter after the handler set its header metadata
		if err := ss.RecvMsg(dynamicpb.NewMessage(in)); err != nil {
			return err
		}
		if e.hdr != nil {
			if err := ss.SetHeader(e.hdr.Copy()); err != nil {
				return err
			}
		}
		if e.trl != nil {
			ss.SetTrailer(e.trl.Copy())
		}
		first := dynamicpb.NewMessage(out)
		first.Set(out.Fields().ByName("content_type"), protoreflect.ValueOfString("application/x-c14"))
		w, err := larking.AsHTTPBodyWriter(ss, first)
		if err != nil {
			return err
		}
		if _, err := w.Write([]byte("the bytes of the download")); err != nil {
			return err
		}
		if e.fail {
			return status.Error(codes.FailedPrecondition, "scripted failure")
		}
		return nil
	}}
	e.mux, err = dynMux([]protoreflect.FileDescriptor{fd}, impl)
	if err != nil {
		panic(err)
	}
	e.muxPlain = e.mux
	e.muxStats, err = dynMux([]protoreflect.FileDescriptor{fd}, impl, larking.StatsOption(c14Stats{}),
		larking.UnaryServerInterceptorOption(func(ctx context.Context, req interface{}, info *grpc.UnaryServerInfo, h grpc.UnaryHandler) (interface{}, error) {
			return h(ctx, req)
		}))
	if err != nil {
		panic(err)
	}
	c14env = e
	return e
}

type c14Stats struct{}
type c14TagKey struct{}

func (c14Stats) TagRPC(ctx context.Context, _ *stats.RPCTagInfo) context.Context {
	return context.WithValue(ctx, c14TagKey{}, true)
}
func (c14Stats) HandleRPC(_ context.Context, st stats.RPCStats) {
	// a logging handler that redacts its view of the request header: that view is the handler's own
	if ih, ok := st.(*stats.InHeader); ok && ih.Header != nil {
		for k := range ih.Header {
			ih.Header[k] = []string{"redacted"}
		}
		ih.Header["x-added-by-stats"] = []string{"1"}
	}
}
func (c14Stats) TagConn(ctx context.Context, _ *stats.ConnTagInfo) context.Context { return ctx }
func (c14Stats) HandleConn(context.Context, stats.ConnStats)                       {}

func c14Request(proto_ string, hdrs map[string][]string) *http.Request {
	var r *http.Request
	proto_ = strings.TrimSuffix(proto_, "+s")
	switch proto_ {
	case "grpc":
		r = httptest.NewRequest("POST", "/verif.c14.Msvc/Unary", bytes.NewReader(grpcFrame(nil)))
		r.ProtoMajor, r.ProtoMinor = 2, 0
		r.Header.Set("Content-Type", "application/grpc")
	case "web":
		r = httptest.NewRequest("POST", "/verif.c14.Msvc/Unary", bytes.NewReader(grpcFrame(nil)))
		r.Header.Set("Content-Type", "application/grpc-web+proto")
	case "http":
		r = httptest.NewRequest("GET", "/c14/unary", nil)
	case "bodywriter":
		r = httptest.NewRequest("GET", "/c14/down", nil)
	case "twirp":
		r = httptest.NewRequest("POST", "/verif.c14.Msvc/Unary", strings.NewReader("{}"))
		r.Header.Set("Content-Type", "application/json")
		r.Header.Set("Twirp-Version", "7.0.0")
	default:
		panic(proto_)
	}
	for k, vs := range hdrs {
		for _, v := range vs {
			r.Header.Add(k, v) // canonicalises the key as net/http does on receipt
		}
	}
	return r
}

// splitWeb separates the trailer frame of a gRPC-web body
func webTrailers(body []byte) map[string][]string {
	m := map[string][]string{}
	for len(body) >= 5 {
		l := int(body[1])<<24 | int(body[2])<<16 | int(body[3])<<8 | int(body[4])
		if len(body) < 5+l {
			break
		}
		if body[0]&0x80 != 0 {
			for _, line := range strings.Split(string(body[5:5+l]), "\r\n") {
				if k, v, ok := strings.Cut(line, ":"); ok {
					k = strings.ToLower(k)
					m[k] = append(m[k], strings.TrimPrefix(v, " "))
				}
			}
		}
		body = body[5+l:]
	}
	return m
}

func c14Call(proto_ string, hdrs map[string][]string) (hdr, trl map[string][]string, panicked bool) {
	e := c14env
	if p, ok := strings.CutSuffix(proto_, "+l"); ok {
		// the call carries a short grpc-timeout and the handler outlives it
		proto_, e.late = p, true
		defer func() { e.late = false }()
		h2 := map[string][]string{"Grpc-Timeout": {"20m"}}
		for k, v := range hdrs {
			h2[k] = v
		}
		hdrs = h2
	}
	e.mux = e.muxPlain
	if strings.HasSuffix(proto_, "+s") {
		e.mux = e.muxStats
	}
	w, p := serveRec(e.mux, c14Request(proto_, hdrs))
	proto_ = strings.TrimSuffix(proto_, "+s")
	if p != "" {
		return nil, nil, true
	}
	res := w.Result()
	hdr = lowerMap(res.Header)
	trl = lowerMap(res.Trailer)
	if proto_ == "web" {
		// what a gRPC-web client sees: the trailer frame, or the headers of a trailers-only response
		trl = webTrailers(w.Body.Bytes())
		if len(trl) == 0 {
			trl = hdr
		}
	}
	return hdr, trl, false
}

func c14Run(o *out, input string) {
	f := strings.Fields(input)
	e := c14Setup()
	switch f[0] {
	case "C14S":
		e.hdr, e.trl, e.seen = nil, nil, nil
		e.fail = f[2] == "fail"
		e.steps = nil
		var orig []string
		for _, st := range strings.Split(f[3], "+") {
			e.steps = append(e.steps, c14Step{send: st[0] == 'S', md: metadata.MD(decMap(st[1:]))})
			orig = append(orig, st[1:])
		}
		defer func() { e.steps = nil }()
		h1, _, p1 := c14Call(f[1], nil)
		h2, _, p2 := c14Call(f[1], nil)
		if p1 || p2 {
			o.emit(input, "panic")
			return
		}
		changed := 0
		for i, st := range e.steps {
			if encMap(st.md) != orig[i] {
				changed = 1
			}
		}
		keep := func(h map[string][]string) map[string][]string {
			out := map[string][]string{}
			for k, v := range h {
				if strings.HasPrefix(k, "x-") {
					out[k] = v
				}
			}
			return out
		}
		o.emit(input, fmt.Sprintf("%s %s %d", encMap(keep(h1)), encMap(keep(h2)), changed))
	case "C14I":
		e.steps = nil
		e.hdr, e.trl, e.fail, e.seen = nil, nil, false, nil
		_, _, p := c14Call(f[1], decMap(f[2]))
		if p {
			o.emit(input, "panic")
			return
		}
		o.emit(input, encMap(e.seen))
	case "C14O":
		e.steps = nil
		e.fail = f[2] == "fail"
		e.hdr, e.trl = metadata.MD(decMap(f[3])), metadata.MD(decMap(f[4]))
		h1, t1, p := c14Call(f[1], nil)
		if p {
			o.emit(input, "panic")
			return
		}
		// baseline: the same call with only the keys no protocol cares about
		strip := func(md metadata.MD) metadata.MD {
			out := metadata.MD{}
			for k, v := range md {
				if strings.HasPrefix(k, "x-") {
					out[k] = v
				}
			}
			return out
		}
		e.hdr, e.trl = strip(e.hdr), strip(e.trl)
		h0, t0, p := c14Call(f[1], nil)
		if p {
			o.emit(input, "panic")
			return
		}
		o.emit(input, fmt.Sprintf("%s %s %s %s", encMap(h1), encMap(t1), encMap(h0), encMap(t0)))
	default:
		panic("bad C14 case")
	}
}

func c14Gen(o *out, r *rng, tier string) {
	protos := []string{"grpc", "web", "http"}
	names := []string{"x-a", "X-Custom", "x-MiXed-Case", "x-multi", "x-trace-id", "X-Data-Bin", "x-k-bin", "authorization", "x-bin", "x-binary",
		// application keys that merely resemble protocol names: the tails of the grpc-* headers, and names that begin like hop-by-hop headers
		"Status", "message", "Timeout", "encoding", "message-type", "Upgrade-Insecure-Requests", "Connection-Id", "keep-alive-budget", "Te-Deum"}
	reservedIn := []string{"Content-Type", "User-Agent", "Grpc-Timeout", "Grpc-Encoding", "Te", "Grpc-Message-Type", "Grpc-Status", "Grpc-Message", "Grpc-Status-Details"}
	text := []string{"v", "value one", "a,b", "with;semi", "100%", "UPPER", "0", "x=y"}
	binVals := func(n int) [][]byte {
		var out [][]byte
		// all byte strings of length 0..2 over a small alphabet, then random ones of length 0..n
		alpha := []byte{0x00, 0x01, 0x7f, 0x80, 0xff, 'a'}
		out = append(out, nil)
		for _, a := range alpha {
			out = append(out, []byte{a})
			for _, b := range alpha {
				out = append(out, []byte{a, b})
			}
		}
		for i := 0; i < n; i++ {
			out = append(out, r.bytes(r.intn(9)))
		}
		return out
	}
	bv := binVals(40)
	spell := func(b []byte, padded bool) string {
		if padded {
			return base64.StdEncoding.EncodeToString(b)
		}
		return base64.RawStdEncoding.EncodeToString(b)
	}
	emitI := func(p string, m map[string][]string, tag string) {
		o.count("in/" + p + "/" + tag)
		c14Run(o, fmt.Sprintf("C14I %s %s", p, encMap(m)))
	}
	for _, p := range protos {
		// every -bin value in both spellings
		for _, b := range bv {
			emitI(p, map[string][]string{"X-Data-Bin": {spell(b, true)}}, "bin-padded")
			emitI(p, map[string][]string{"X-Data-Bin": {spell(b, false)}}, "bin-raw")
		}
		emitI(p, map[string][]string{"X-Data-Bin": {spell([]byte{1}, true), spell([]byte{2, 3}, false), spell([]byte{4, 5, 6}, true)}}, "bin-multi")
		for _, n := range names {
			emitI(p, map[string][]string{n: {"one"}}, "single")
			emitI(p, map[string][]string{n: {"one", "two", "three"}}, "multi")
			// the same behind a stats handler (whose TagRPC derives a context) and an interceptor
			emitI(p+"+s", map[string][]string{n: {"one", "two"}, "X-Keep": {"keep"}}, "with-stats")
		}
		for _, n := range reservedIn {
			v := "5S"
			if n == "Grpc-Encoding" {
				v = "identity" // an unknown encoding is refused before the handler runs
			}
			emitI(p, map[string][]string{n: {v}, "X-A": {"keep"}}, "reserved")
		}
	}
	n := 200
	if tier == "thorough" {
		n = 4000
	}
	for i := 0; i < n; i++ {
		m := map[string][]string{}
		for j, l := 0, 1+r.intn(4); j < l; j++ {
			k := names[r.intn(len(names))]
			if r.intn(8) == 0 {
				k = reservedIn[r.intn(len(reservedIn))]
				if k == "Grpc-Timeout" || k == "Content-Type" || k == "Grpc-Encoding" {
					continue
				}
			}
			var vs []string
			for q, c := 0, 1+r.intn(3); q < c; q++ {
				if strings.HasSuffix(strings.ToLower(k), "-bin") {
					vs = append(vs, spell(bv[r.intn(len(bv))], r.bool()))
				} else {
					vs = append(vs, text[r.intn(len(text))])
				}
			}
			m[k] = vs
		}
		emitI(protos[r.intn(3)], m, "random")
	}

	// ---- outgoing ----
	outKeys := []string{"x-a", "x-multi", "x-resp-bin", "x-bin", "custom-key", "x-trace", "status", "message", "timeout", "encoding", "connection-id", "upgrade-hint"}
	protected := []string{"content-type", "grpc-status", "grpc-message", "grpc-encoding", "grpc-status-details-bin", "grpc-timeout", "te", "user-agent",
		"trailer", "content-length", "transfer-encoding", "content-encoding", "connection"}
	emitO := func(p string, fail bool, h, t map[string][]string, tag string) {
		o.count("out/" + p + "/" + tag)
		st := "ok"
		if fail {
			st = "fail"
		}
		c14Run(o, fmt.Sprintf("C14O %s %s %s %s", p, st, encMap(h), encMap(t)))
	}
	// header metadata of a download written through AsHTTPBodyWriter; a trailer value that tries to continue on a new line
	for _, k := range outKeys {
		v := []string{"v1", "v2"}
		if strings.HasSuffix(k, "-bin") {
			v = []string{string([]byte{0, 1, 0xff})}
		}
		emitO("bodywriter", false, map[string][]string{k: v}, nil, "httpbody-writer")
	}
	for _, k := range outKeys {
		v := []string{"v1", "v2"}
		if strings.HasSuffix(k, "-bin") {
			v = []string{string([]byte{0, 1, 0xff})}
		}
		emitO("grpc+l", true, map[string][]string{k: v}, map[string][]string{"x-t": {"t"}}, "header-set-after-the-deadline")
	}
	for _, p := range protos {
		for _, inj := range []string{"bye\r\ngrpc-status: 13", "a\ngrpc-message: forged", "x\r\nx-other: y"} {
			emitO(p, false, map[string][]string{"x-a": {"keep"}}, map[string][]string{"x-t": {inj}}, "trailer-value-with-line-break")
			emitO(p, true, nil, map[string][]string{"x-t": {inj}}, "trailer-value-with-line-break")
		}
	}
	for _, p := range append(append([]string{}, protos...), "twirp") {
		for _, fail := range []bool{false, true} {
			for _, k := range outKeys {
				v := []string{"v1", "v2"}
				if strings.HasSuffix(k, "-bin") {
					v = []string{string([]byte{0, 1, 0xff}), "", string([]byte{0x80})}
				}
				emitO(p, fail, map[string][]string{k: v}, nil, "header")
				emitO(p, fail, nil, map[string][]string{k: v}, "trailer")
				emitO(p, fail, map[string][]string{k: v}, map[string][]string{k: {"t"}}, "both")
			}
			for _, k := range protected {
				forged := map[string][]string{k: {"forged"}, "x-a": {"keep"}}
				emitO(p, fail, forged, nil, "forge-header")
				emitO(p, fail, nil, forged, "forge-trailer")
			}
			for _, b := range bv[:50] {
				emitO(p, fail, map[string][]string{"x-resp-bin": {string(b)}}, map[string][]string{"x-t-bin": {string(b)}}, "bin")
			}
		}
	}
	// header metadata built up in several steps from objects the application keeps
	stepKeys := []string{"x-a", "x-step", "x-common", "x-req-id"}
	emitS := func(p string, fail bool, steps []string) {
		o.count("steps/" + p)
		st := "ok"
		if fail {
			st = "fail"
		}
		c14Run(o, fmt.Sprintf("C14S %s %s %s", p, st, strings.Join(steps, "+")))
	}
	for _, p := range protos {
		for _, fail := range []bool{false, true} {
			emitS(p, fail, []string{"s" + encMap(map[string][]string{"x-step": {"first"}}), "S" + encMap(map[string][]string{"x-step": {"second"}})})
			emitS(p, fail, []string{"s" + encMap(map[string][]string{"x-common": {"c"}}), "s" + encMap(map[string][]string{"x-req-id": {"r1"}})})
			emitS(p, fail, []string{"s" + encMap(map[string][]string{"x-common": {"c"}, "x-a": {"1"}}), "s" + encMap(map[string][]string{"x-a": {"2", "3"}}), "S" + encMap(map[string][]string{"x-a": {"4"}, "x-req-id": {"r"}})})
		}
	}
	for i := 0; i < n/2; i++ {
		var steps []string
		k := 1 + r.intn(3)
		for j := 0; j < k; j++ {
			m := map[string][]string{}
			for q, c := 0, 1+r.intn(2); q < c; q++ {
				key := stepKeys[r.intn(len(stepKeys))]
				for v, vc := 0, 1+r.intn(2); v < vc; v++ {
					m[key] = append(m[key], fmt.Sprintf("%s%d%d", text[r.intn(len(text))], j, v))
				}
			}
			op := "s"
			if j == k-1 && r.bool() {
				op = "S"
			}
			steps = append(steps, op+encMap(m))
		}
		emitS(protos[r.intn(3)], r.intn(3) == 0, steps)
	}
	for i := 0; i < n; i++ {
		mk := func() map[string][]string {
			m := map[string][]string{}
			for j, l := 0, r.intn(4); j < l; j++ {
				k := outKeys[r.intn(len(outKeys))]
				if r.intn(5) == 0 {
					k = protected[r.intn(len(protected))]
				}
				var vs []string
				for q, c := 0, 1+r.intn(3); q < c; q++ {
					if strings.HasSuffix(k, "-bin") {
						vs = append(vs, string(bv[r.intn(len(bv))]))
					} else {
						vs = append(vs, text[r.intn(len(text))])
					}
				}
				m[k] = vs
			}
			return m
		}
		emitO(protos[r.intn(3)], r.intn(3) == 0, mk(), mk(), "random")
	}
}

func init() { props["C14"] = prop{gen: c14Gen, run: c14Run} }
