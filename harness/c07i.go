package main

// C07I <nq> <capture A hex> <capture B hex> ; <A alone> <B alone> <A overlapped> <B overlapped>      (each user_id/text/message_id in hex)
//
// The path-bound field of one request while ANOTHER request with the same query string is served: rule GET /c07i/{user_id},
// the query carries nq values for text / message_id. Request A is held at its stats Begin event -- routed, parameters merged,
// message not yet built -- while request B (same query string, another capture) is served completely; then A goes on. Each
// handler must receive its own request's capture, and the same message as when the request is served alone.

import (
	"context"
	"fmt"
	"net/http/httptest"
	"net/url"
	"strings"
	"sync"
	"sync/atomic"
	"time"

	"google.golang.org/grpc/metadata"
	"google.golang.org/grpc/stats"
	"google.golang.org/protobuf/proto"
	"google.golang.org/protobuf/reflect/protoreflect"
	"larking.io/larking"
)

type c07iEnv struct {
	mux     *larking.Mux
	hold    atomic.Bool
	held    chan struct{}
	release chan struct{}
	mu      sync.Mutex
	got     map[string]string // request tag (header X-C07i-Tag, forwarded as metadata) -> message seen by the handler
}

type c07iStats struct{ e *c07iEnv }

func (s c07iStats) TagRPC(ctx context.Context, _ *stats.RPCTagInfo) context.Context { return ctx }
func (s c07iStats) HandleRPC(ctx context.Context, st stats.RPCStats) {
	if _, ok := st.(*stats.Begin); ok && s.e.hold.CompareAndSwap(true, false) {
		close(s.e.held)
		select {
		case <-s.e.release:
		case <-time.After(5 * time.Second):
		}
	}
}
func (s c07iStats) TagConn(ctx context.Context, _ *stats.ConnTagInfo) context.Context { return ctx }
func (s c07iStats) HandleConn(context.Context, stats.ConnStats)                       {}

var c07ienv *c07iEnv

func c07iSetup() *c07iEnv {
	if c07ienv != nil {
		return c07ienv
	}
	e := &c07iEnv{}
	msg := "larking.testpb.Message"
	f := dynFile{Path: "verif/c07i.proto", Pkg: "verif.c07i", Services: []dynService{{Name: "Isvc", Methods: []dynMethod{
		{Name: "Get", In: msg, Out: msg, Rule: &dynRule{Verb: "GET", Tmpl: "/c07i/{user_id}"}},
	}}}}
	fd, err := f.build()
	if err != nil {
		panic(err)
	}
	impl := &dynImpl{
		Unary: func(ctx context.Context, method string, req proto.Message, out protoreflect.MessageDescriptor) (proto.Message, error) {
			m := req.ProtoReflect()
			fs := m.Descriptor().Fields()
			g := func(n string) string { return hx([]byte(m.Get(fs.ByName(protoreflect.Name(n))).String())) }
			e.mu.Lock()
			tag := "?"
			if md, ok := metadata.FromIncomingContext(ctx); ok && len(md.Get("x-c07i-tag")) > 0 {
				tag = md.Get("x-c07i-tag")[0]
			}
			e.got[tag] = g("user_id") + "/" + g("text") + "/" + g("message_id")
			e.mu.Unlock()
			return proto.Clone(req), nil
		},
	}
	e.mux, err = dynMux([]protoreflect.FileDescriptor{fd}, impl, larking.StatsOption(c07iStats{e}))
	if err != nil {
		panic(err)
	}
	c07ienv = e
	return e
}

func (e *c07iEnv) serve(tag, capture, query string) {
	r := httptest.NewRequest("GET", "/c07i/"+url.PathEscape(capture)+"?"+query, nil)
	r.Header.Set("X-C07i-Tag", tag)
	serveRec(e.mux, r)
}

func c07iRun(o *out, input string) {
	f := strings.Fields(input)
	nq, capA, capB := atoi(f[1]), string(unhx(f[2])), string(unhx(f[3]))
	e := c07iSetup()
	var qs []string
	for i := 0; i < nq; i++ {
		qs = append(qs, fmt.Sprintf("%s=v%d", []string{"text", "message_id"}[i%2], i))
	}
	query := strings.Join(qs, "&")
	e.got = map[string]string{}
	e.serve("A1", capA, query)
	e.serve("B1", capB, query)
	e.held, e.release = make(chan struct{}), make(chan struct{})
	e.hold.Store(true)
	done := make(chan struct{})
	go func() { e.serve("A2", capA, query); close(done) }()
	select {
	case <-e.held:
	case <-time.After(5 * time.Second):
		e.hold.Store(false)
	}
	e.serve("B2", capB, query)
	close(e.release)
	select {
	case <-done:
	case <-time.After(10 * time.Second):
	}
	e.mu.Lock()
	defer e.mu.Unlock()
	get := func(t string) string {
		if v, ok := e.got[t]; ok {
			return v
		}
		return "-"
	}
	o.emit(input, get("A1")+" "+get("B1")+" "+get("A2")+" "+get("B2"))
}

func c07iGen(o *out) {
	for nq := 0; nq <= 9; nq++ {
		for _, caps := range [][2]string{{"alice", "bob"}, {"a", "bb"}, {"same", "same"}, {"x.y-z", "é"}} {
			o.count("overlapped-requests")
			c07iRun(o, fmt.Sprintf("C07I %d %s %s", nq, hx([]byte(caps[0])), hx([]byte(caps[1]))))
		}
	}
}

func init() {
	p := props["C07"]
	g, rn := p.gen, p.run
	props["C07"] = prop{
		gen: func(o *out, r *rng, tier string) { g(o, r, tier); c07iGen(o) },
		run: func(o *out, in string) {
			if strings.HasPrefix(in, "C07I") {
				c07iRun(o, in)
			} else {
				rn(o, in)
			}
		},
	}
}
