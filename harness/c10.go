package main

import (
	"bytes"
	"context"
	"encoding/base64"
	"fmt"
	"io"
	"net"
	"net/http"
	"net/url"
	"sort"
	"strings"
	"sync"
	"time"

	spb "google.golang.org/genproto/googleapis/rpc/status"
	"google.golang.org/grpc"
	"google.golang.org/grpc/codes"
	"google.golang.org/grpc/credentials/insecure"
	"google.golang.org/grpc/metadata"
	"google.golang.org/grpc/reflection"
	rpb "google.golang.org/grpc/reflection/grpc_reflection_v1alpha"
	"google.golang.org/grpc/status"
	"google.golang.org/protobuf/encoding/protojson"
	"google.golang.org/protobuf/proto"
	"google.golang.org/protobuf/reflect/protodesc"
	"google.golang.org/protobuf/reflect/protoreflect"
	"google.golang.org/protobuf/reflect/protoregistry"
	"google.golang.org/protobuf/types/descriptorpb"
	"google.golang.org/protobuf/types/dynamicpb"
	"google.golang.org/protobuf/types/known/wrapperspb"
	"larking.io/larking"
)

// C10: a call through Mux.RegisterConn is observationally the call made directly.
//
//   C10 <shape> <front> <client ops> <backend ops> <code> <msg> <detail> <req md> <hdr md> <trl md>
//       ; <direct transcript> <proxied transcript>
//
// shape   un | cs | ss | bi                       front  grpc | http (http: unary only)
// client ops  s<hex> send, r receive one reply, c half-close; afterwards the client reads to the end
// backend ops r receive one (no-op once end-of-stream was seen), e receive until end-of-stream,
//             s<hex> send; afterwards the handler returns the status <code> <msg> <detail>
// a transcript is 10 fields:
//   <backend msgs> <backend saw eof 0|1> <backend req md> <client msgs> <code> <msg> <details> <hdr md> <trl md> <ok|hang|nocall>
// metadata maps are restricted to keys starting with "x-" (and the application keys of c10AppKeys) and written
// hexkey=hexval|hexval;...
// front grpcl: the gRPC front of a second Mux over the same backend whose MaxReceiveMessageSize is 96 bytes (send limit
// at its default): requests stay below it, replies may be larger -- a reply is in the mux's send direction

const c10Deadline = 2 * time.Second

type c10Op struct {
	k byte // 's' 'r' 'c' 'e'
	m string
}

type c10Script struct {
	shape, front string
	cops, bops   []c10Op
	code         int
	msg          string
	detail       string // "" = none, else the value of one google.protobuf.StringValue detail
	hasDetail    bool
	reqmd        map[string][]string
	hmd, tmd     map[string][]string
}

type c10BackRec struct {
	msgs    []string
	eof     bool
	md      map[string][]string
	aborted bool
	done    chan struct{}
}

type c10Env struct {
	mu      sync.Mutex
	cur     *c10Script
	rec     *c10BackRec // record of the backend call of the current client call (nil = not called)
	started chan struct{}
	msgD    protoreflect.MessageDescriptor
	gs      *grpc.Server
	direct  *grpc.ClientConn
	lbl     *loopback // front with a small receive limit
	lb      *loopback
	mux     *larking.Mux
	// calls whose outcome (ok / hang / nocall) differed between the two paths: each costs up to the
	// deadline, so generation stops once the violation is established many times over
	flagDiffs int
}

var c10env *c10Env

// application metadata under names that merely look like protocol headers: grpc-go reserves a fixed list of
// grpc-* names and lets every other key travel through the metadata API
var c10AppKeys = map[string]bool{"grpc-tenant": true, "grpc-retry-pushback-ms": true, "grpc-previous-rpc-attempts": true,
	// names that only begin like hop-by-hop headers, and the bare tails of the grpc-* protocol names
	"upgrade-insecure-requests": true, "connection-id": true, "keep-alive-budget": true, "status": true, "message": true, "timeout": true}

func c10EncMap(m map[string][]string) string {
	keys := make([]string, 0, len(m))
	for k := range m {
		if (strings.HasPrefix(k, "x-") || c10AppKeys[k]) && len(m[k]) > 0 {
			keys = append(keys, k)
		}
	}
	if len(keys) == 0 {
		return "-"
	}
	sort.Strings(keys)
	var parts []string
	for _, k := range keys {
		vs := make([]string, len(m[k]))
		for i, v := range m[k] {
			vs[i] = hx([]byte(v))
		}
		parts = append(parts, hx([]byte(k))+"="+strings.Join(vs, "|"))
	}
	return strings.Join(parts, ";")
}

func c10DecMap(s string) map[string][]string {
	m := map[string][]string{}
	if s == "-" || s == "" {
		return m
	}
	for _, p := range strings.Split(s, ";") {
		k, vs, _ := strings.Cut(p, "=")
		var vals []string
		if vs != "" {
			for _, v := range strings.Split(vs, "|") {
				vals = append(vals, string(unhx(v)))
			}
		}
		m[string(unhx(k))] = vals
	}
	return m
}

func c10EncOps(ops []c10Op) string {
	if len(ops) == 0 {
		return "-"
	}
	ss := make([]string, len(ops))
	for i, op := range ops {
		if op.k == 's' {
			ss[i] = "s" + hx([]byte(op.m))[1:]
		} else {
			ss[i] = string(op.k)
		}
	}
	return strings.Join(ss, ",")
}

func c10DecOps(s string) []c10Op {
	if s == "-" || s == "" {
		return nil
	}
	var ops []c10Op
	for _, f := range strings.Split(s, ",") {
		if f[0] == 's' {
			ops = append(ops, c10Op{'s', string(unhx("x" + f[1:]))})
		} else {
			ops = append(ops, c10Op{f[0], ""})
		}
	}
	return ops
}

func (s *c10Script) line() string {
	det := "-"
	if s.hasDetail {
		det = hx([]byte(s.detail))
	}
	return fmt.Sprintf("C10 %s %s %s %s %d %s %s %s %s %s", s.shape, s.front, c10EncOps(s.cops), c10EncOps(s.bops),
		s.code, hx([]byte(s.msg)), det, c10EncMap(s.reqmd), c10EncMap(s.hmd), c10EncMap(s.tmd))
}

func c10Parse(input string) (*c10Script, error) {
	f := strings.Fields(input)
	if len(f) != 11 || f[0] != "C10" {
		return nil, fmt.Errorf("bad C10 case: %q", input)
	}
	s := &c10Script{shape: f[1], front: f[2], cops: c10DecOps(f[3]), bops: c10DecOps(f[4]), code: atoi(f[5]), msg: string(unhx(f[6])),
		reqmd: c10DecMap(f[8]), hmd: c10DecMap(f[9]), tmd: c10DecMap(f[10])}
	if f[7] != "-" {
		s.hasDetail, s.detail = true, string(unhx(f[7]))
	}
	return s, nil
}

type c10Resolver struct{ files *protoregistry.Files }

func (r c10Resolver) FindFileByPath(p string) (protoreflect.FileDescriptor, error) {
	if fd, err := r.files.FindFileByPath(p); err == nil {
		return fd, nil
	}
	return protoregistry.GlobalFiles.FindFileByPath(p)
}
func (r c10Resolver) FindDescriptorByName(n protoreflect.FullName) (protoreflect.Descriptor, error) {
	if d, err := r.files.FindDescriptorByName(n); err == nil {
		return d, nil
	}
	return protoregistry.GlobalFiles.FindDescriptorByName(n)
}

func (e *c10Env) newMsg(text string) proto.Message {
	m := dynamicpb.NewMessage(e.msgD)
	m.Set(e.msgD.Fields().ByName("text"), protoreflect.ValueOfString(text))
	return m
}
func (e *c10Env) text(m proto.Message) string {
	return m.ProtoReflect().Get(e.msgD.Fields().ByName("text")).String()
}

func (e *c10Env) status(sc *c10Script) error {
	if sc.code == 0 {
		return nil
	}
	st := status.New(codes.Code(sc.code), sc.msg)
	if sc.hasDetail {
		if st2, err := st.WithDetails(wrapperspb.String(sc.detail)); err == nil {
			st = st2
		}
	}
	return st.Err()
}

// begin fetches the script of the running call and opens the backend-side record.
func (e *c10Env) begin(ctx context.Context) (*c10Script, *c10BackRec) {
	e.mu.Lock()
	defer e.mu.Unlock()
	rec := &c10BackRec{done: make(chan struct{})}
	md, _ := metadata.FromIncomingContext(ctx)
	rec.md = md.Copy()
	e.rec = rec
	close(e.started)
	return e.cur, rec
}

func c10Setup() *c10Env {
	if c10env != nil {
		return c10env
	}
	e := &c10Env{}
	str := descriptorpb.FieldDescriptorProto_TYPE_STRING
	opt := descriptorpb.FieldDescriptorProto_LABEL_OPTIONAL
	meth := func(name string, cs, ss bool) *descriptorpb.MethodDescriptorProto {
		return &descriptorpb.MethodDescriptorProto{Name: proto.String(name), InputType: proto.String(".c10.M"), OutputType: proto.String(".c10.M"),
			ClientStreaming: proto.Bool(cs), ServerStreaming: proto.Bool(ss)}
	}
	fdp := &descriptorpb.FileDescriptorProto{
		Name: proto.String("verif/c10.proto"), Package: proto.String("c10"), Syntax: proto.String("proto3"),
		MessageType: []*descriptorpb.DescriptorProto{{Name: proto.String("M"), Field: []*descriptorpb.FieldDescriptorProto{
			{Name: proto.String("text"), JsonName: proto.String("text"), Number: proto.Int32(1), Type: &str, Label: &opt}}}},
		Service: []*descriptorpb.ServiceDescriptorProto{{Name: proto.String("Svc"), Method: []*descriptorpb.MethodDescriptorProto{
			meth("Un", false, false), meth("Cs", true, false), meth("Ss", false, true), meth("Bi", true, true)}}},
	}
	fd, err := protodesc.NewFile(fdp, &protoregistry.Files{})
	if err != nil {
		panic(err)
	}
	files := &protoregistry.Files{}
	if err := files.RegisterFile(fd); err != nil {
		panic(err)
	}
	e.msgD = fd.Messages().ByName("M")

	impl := &dynImpl{
		Unary: func(ctx context.Context, method string, req proto.Message, out protoreflect.MessageDescriptor) (proto.Message, error) {
			sc, rec := e.begin(ctx)
			defer close(rec.done)
			rec.msgs = append(rec.msgs, e.text(req))
			if len(sc.hmd) > 0 {
				grpc.SetHeader(ctx, metadata.MD(sc.hmd).Copy())
			}
			if len(sc.tmd) > 0 {
				grpc.SetTrailer(ctx, metadata.MD(sc.tmd).Copy())
			}
			if err := e.status(sc); err != nil {
				return nil, err
			}
			for _, op := range sc.bops {
				if op.k == 's' {
					return e.newMsg(op.m), nil
				}
			}
			return e.newMsg(""), nil
		},
		Stream: func(method string, in, out protoreflect.MessageDescriptor, ss grpc.ServerStream) error {
			sc, rec := e.begin(ss.Context())
			defer close(rec.done)
			if len(sc.hmd) > 0 {
				ss.SetHeader(metadata.MD(sc.hmd).Copy())
			}
			if len(sc.tmd) > 0 {
				ss.SetTrailer(metadata.MD(sc.tmd).Copy())
			}
			recv := func() error {
				m := dynamicpb.NewMessage(in)
				err := ss.RecvMsg(m)
				if err == io.EOF {
					rec.eof = true
					return nil
				}
				if err != nil {
					rec.aborted = true
					return err
				}
				rec.msgs = append(rec.msgs, e.text(m))
				return nil
			}
			for _, op := range sc.bops {
				switch op.k {
				case 'r':
					if !rec.eof {
						if err := recv(); err != nil {
							return err
						}
					}
				case 'e':
					for !rec.eof {
						if err := recv(); err != nil {
							return err
						}
					}
				case 's':
					if err := ss.SendMsg(e.newMsg(op.m)); err != nil {
						rec.aborted = true
						return err
					}
				}
			}
			return e.status(sc)
		},
	}
	gs := grpc.NewServer()
	gs.RegisterService(serviceDesc(fd.Services().ByName("Svc"), impl), nil)
	rpb.RegisterServerReflectionServer(gs, reflection.NewServer(reflection.ServerOptions{Services: gs, DescriptorResolver: c10Resolver{files}}))
	lis, err := net.Listen("tcp", "127.0.0.1:0")
	if err != nil {
		panic(err)
	}
	go gs.Serve(lis)
	e.gs = gs
	e.direct, err = grpc.Dial(lis.Addr().String(), grpc.WithTransportCredentials(insecure.NewCredentials()))
	if err != nil {
		panic(err)
	}
	// the connection handed to larking is a second one, so that the direct calls share nothing with the proxied ones
	bc, err := grpc.Dial(lis.Addr().String(), grpc.WithTransportCredentials(insecure.NewCredentials()))
	if err != nil {
		panic(err)
	}
	e.mux, err = larking.NewMux()
	if err != nil {
		panic(err)
	}
	ctx, cancel := context.WithTimeout(context.Background(), 10*time.Second)
	defer cancel()
	if err := e.mux.RegisterConn(ctx, bc); err != nil {
		panic("RegisterConn: " + err.Error())
	}
	e.lb, err = newLoopback(e.mux)
	if err != nil {
		panic(err)
	}
	bc2, err := grpc.Dial(lis.Addr().String(), grpc.WithTransportCredentials(insecure.NewCredentials()))
	if err != nil {
		panic(err)
	}
	mux2, err := larking.NewMux(larking.MaxReceiveMessageSizeOption(96))
	if err != nil {
		panic(err)
	}
	if err := mux2.RegisterConn(ctx, bc2); err != nil {
		panic("RegisterConn: " + err.Error())
	}
	e.lbl, err = newLoopback(mux2)
	if err != nil {
		panic(err)
	}
	c10env = e
	return e
}

type c10Trans struct {
	bmsgs    []string
	beof     bool
	bmd      map[string][]string
	cmsgs    []string
	code     int
	msg      string
	det      string
	hdr, trl map[string][]string
	flag     string
	noTrl    bool
	noHdr    bool
}

func c10HexList(ss []string) string {
	if len(ss) == 0 {
		return "-"
	}
	out := make([]string, len(ss))
	for i, s := range ss {
		out[i] = hx([]byte(s))
	}
	return strings.Join(out, ",")
}

func (t *c10Trans) String() string {
	trl := c10EncMap(t.trl)
	if t.noTrl {
		trl = "*" // trailer metadata is not read on the HTTP front
	}
	det := t.det
	if det == "" {
		det = "-"
	}
	hdr := c10EncMap(t.hdr)
	if t.noHdr {
		hdr = "*" // a gRPC-web reply without a trailer frame carries both in the response header
	}
	return fmt.Sprintf("%s %d %s %s %d %s %s %s %s %s", c10HexList(t.bmsgs), b2i(t.beof), c10EncMap(t.bmd), c10HexList(t.cmsgs), t.code,
		hx([]byte(t.msg)), det, hdr, trl, t.flag)
}

// details of a status: the value of a single StringValue detail; anything else as the marshalled
// Any values behind a marker, so that any change of type, number or value shows
func c10Details(p *spb.Status) string {
	if p == nil || len(p.Details) == 0 {
		return "-"
	}
	if len(p.Details) == 1 {
		var sv wrapperspb.StringValue
		if err := p.Details[0].UnmarshalTo(&sv); err == nil {
			return hx([]byte(sv.Value))
		}
	}
	b := []byte{0xff}
	for _, d := range p.Details {
		x, _ := proto.MarshalOptions{Deterministic: true}.Marshal(d)
		b = append(b, byte(len(x)))
		b = append(b, x...)
	}
	return hx(b)
}

func (e *c10Env) call(sc *c10Script, proxied bool) (t *c10Trans) {
	t = &c10Trans{flag: "ok"}
	e.mu.Lock()
	e.cur, e.rec, e.started = sc, nil, make(chan struct{})
	started := e.started
	e.mu.Unlock()
	t0 := time.Now()
	defer func() {
		if p := recover(); p != nil {
			t.flag = "panic"
		}
		if t.code == int(codes.DeadlineExceeded) && time.Since(t0) >= c10Deadline-100*time.Millisecond {
			t.flag = "hang"
			t.msg, t.det = "", "-"
		}
		// the backend's view
		select {
		case <-started:
		case <-time.After(300 * time.Millisecond):
		}
		e.mu.Lock()
		rec := e.rec
		e.mu.Unlock()
		if rec == nil {
			if t.flag == "ok" {
				t.flag = "nocall"
			}
			return
		}
		select {
		case <-rec.done:
		case <-time.After(3 * time.Second):
			t.flag = "backend-stuck"
			return
		}
		t.bmsgs, t.beof, t.bmd = rec.msgs, rec.eof, rec.md
	}()
	ctx, cancel := context.WithTimeout(context.Background(), c10Deadline)
	defer cancel()
	if sc.front == "http" {
		t.noTrl = true
		e.callHTTP(ctx, sc, t)
		return t
	}
	if sc.front == "web" && proxied {
		e.callWeb(ctx, sc, t)
		return t
	}
	if len(sc.reqmd) > 0 {
		ctx = metadata.NewOutgoingContext(ctx, metadata.MD(sc.reqmd).Copy())
	}
	conn := e.direct
	if proxied {
		conn = e.lb.conn
		if sc.front == "grpcl" {
			conn = e.lbl.conn
		}
	}
	cstr := sc.shape == "cs" || sc.shape == "bi"
	sstr := sc.shape == "ss" || sc.shape == "bi"
	method := "/c10.Svc/" + map[string]string{"un": "Un", "cs": "Cs", "ss": "Ss", "bi": "Bi"}[sc.shape]
	cs, err := conn.NewStream(ctx, &grpc.StreamDesc{ClientStreams: cstr, ServerStreams: sstr}, method)
	var final error
	finished := false
	if err != nil {
		final, finished = err, true
	}
	sendDead := false
	recvOne := func() {
		if finished {
			return
		}
		m := dynamicpb.NewMessage(e.msgD)
		err := cs.RecvMsg(m)
		if err != nil {
			final, finished = err, true
			return
		}
		t.cmsgs = append(t.cmsgs, e.text(m))
		if !sstr {
			final, finished = nil, true
		}
	}
	for _, op := range sc.cops {
		if finished {
			break
		}
		switch op.k {
		case 's':
			if !sendDead {
				if err := cs.SendMsg(e.newMsg(op.m)); err != nil {
					sendDead = true // io.EOF: the stream has ended, the status comes from RecvMsg
					if err != io.EOF {
						final, finished = err, true
					}
				}
			}
		case 'c':
			cs.CloseSend()
		case 'r':
			recvOne()
		}
	}
	for !finished {
		recvOne()
	}
	if final == io.EOF {
		final = nil
	}
	st := status.Convert(final)
	t.code, t.msg, t.det = int(st.Code()), st.Message(), c10Details(st.Proto())
	if cs != nil {
		if h, err := cs.Header(); err == nil {
			t.hdr = h
		}
		t.trl = cs.Trailer()
	}
	return t
}

// callWeb: the call as a gRPC-web client makes it (application/grpc-web+proto over HTTP/1.1; unary and server streaming):
// the status comes from the trailer frame at the end of the body, or -- a reply without any message -- from the response
// header. Metadata values of -bin keys are base64 on the wire.
func (e *c10Env) callWeb(ctx context.Context, sc *c10Script, t *c10Trans) {
	var text string
	for _, op := range sc.cops {
		if op.k == 's' {
			text = op.m
			break
		}
	}
	pb, _ := proto.Marshal(e.newMsg(text))
	method := "/c10.Svc/" + map[string]string{"un": "Un", "ss": "Ss"}[sc.shape]
	req, _ := http.NewRequestWithContext(ctx, "POST", e.lb.url+method, bytes.NewReader(grpcFrame(pb)))
	req.Header.Set("Content-Type", "application/grpc-web+proto")
	for k, vs := range sc.reqmd {
		for _, v := range vs {
			if strings.HasSuffix(k, "-bin") {
				v = base64.RawStdEncoding.EncodeToString([]byte(v))
			}
			req.Header.Add(k, v)
		}
	}
	resp, err := http.DefaultClient.Do(req)
	if err != nil {
		t.code, t.msg, t.det = int(codes.DeadlineExceeded), err.Error(), "-"
		return
	}
	defer resp.Body.Close()
	body, _ := io.ReadAll(resp.Body)
	unbin := func(m map[string][]string) map[string][]string {
		out := map[string][]string{}
		for k, vs := range m {
			k = strings.ToLower(k)
			for _, v := range vs {
				if strings.HasSuffix(k, "-bin") {
					b, err := base64.RawStdEncoding.DecodeString(strings.TrimRight(v, "="))
					if err != nil {
						b = []byte("undecodable:" + v)
					}
					v = string(b)
				}
				out[k] = append(out[k], v)
			}
		}
		return out
	}
	hdr := unbin(resp.Header)
	var trl map[string][]string
	for rest := body; len(rest) >= 5; {
		l := int(rest[1])<<24 | int(rest[2])<<16 | int(rest[3])<<8 | int(rest[4])
		if len(rest) < 5+l {
			t.code, t.msg, t.det = -1, "truncated frame in the gRPC-web body", "-"
			return
		}
		if rest[0]&0x80 != 0 {
			trl = unbin(webTrailers(rest[:5+l]))
		} else {
			m := dynamicpb.NewMessage(e.msgD)
			if err := proto.Unmarshal(rest[5:5+l], m); err != nil {
				t.code, t.msg, t.det = -1, "undecodable message frame", "-"
				return
			}
			t.cmsgs = append(t.cmsgs, e.text(m))
		}
		rest = rest[5+l:]
	}
	src := trl
	if trl == nil {
		// no trailer frame: the status is in the response header, and header and trailer metadata cannot be told apart
		src, t.noTrl, t.noHdr = hdr, true, true
	} else {
		t.hdr, t.trl = hdr, trl
	}
	st := src["grpc-status"]
	if len(st) == 0 {
		t.code, t.msg, t.det = -1, fmt.Sprintf("HTTP %d without a grpc-status in the response header or a trailer frame", resp.StatusCode), "-"
		return
	}
	t.code, t.det = atoi(st[0]), "-"
	if m := src["grpc-message"]; len(m) > 0 {
		if u, err := url.PathUnescape(m[0]); err == nil {
			t.msg = u
		} else {
			t.msg = m[0]
		}
	}
	if d := src["grpc-status-details-bin"]; len(d) > 0 {
		var sp spb.Status
		if err := proto.Unmarshal([]byte(d[0]), &sp); err == nil {
			t.det = c10Details(&sp)
		} else {
			t.det = "undecodable"
		}
	}
}

// callHTTP: the unary call as POST /c10.Svc/Un with a JSON body (the implicit binding of every method)
func (e *c10Env) callHTTP(ctx context.Context, sc *c10Script, t *c10Trans) {
	var text string
	for _, op := range sc.cops {
		if op.k == 's' {
			text = op.m
			break
		}
	}
	body, _ := protojson.Marshal(e.newMsg(text))
	req, _ := http.NewRequestWithContext(ctx, "POST", e.lb.url+"/c10.Svc/Un", bytes.NewReader(body))
	req.Header.Set("Content-Type", "application/json")
	for k, vs := range sc.reqmd {
		for _, v := range vs {
			req.Header.Add(k, v)
		}
	}
	resp, err := http.DefaultClient.Do(req)
	if err != nil {
		t.code, t.msg, t.det = int(codes.DeadlineExceeded), err.Error(), "-"
		return
	}
	defer resp.Body.Close()
	b, _ := io.ReadAll(resp.Body)
	t.hdr = map[string][]string{}
	for k, vs := range resp.Header {
		t.hdr[strings.ToLower(k)] = vs
	}
	if resp.StatusCode == 200 {
		m := dynamicpb.NewMessage(e.msgD)
		if err := protojson.Unmarshal(b, m); err != nil {
			t.code, t.msg, t.det = -1, "undecodable body: "+string(b), "-"
			return
		}
		t.cmsgs = append(t.cmsgs, e.text(m))
		t.det = "-"
		return
	}
	var st spb.Status
	if err := protojson.Unmarshal(b, &st); err != nil {
		t.code, t.msg, t.det = -1, "undecodable error body: "+string(b), "-"
		return
	}
	t.code, t.msg, t.det = int(st.Code), st.Message, c10Details(&st)
}

func c10Run(o *out, input string) {
	e := c10Setup()
	sc, err := c10Parse(input)
	if err != nil {
		o.emit(input, "unparsable")
		return
	}
	dsc := *sc
	dsc.front = "grpc" // the reference is always the direct gRPC call
	d := e.call(&dsc, false)
	p := e.call(sc, true)
	if p.flag != d.flag && (p.flag == "hang" || d.flag == "hang") {
		// a call that hangs on one path only is run again before it is reported: a genuine hang
		// reproduces, a loaded machine does not
		o.count("rerun-after-one-sided-hang")
		d = e.call(&dsc, false)
		p = e.call(sc, true)
	}
	if p.flag != d.flag {
		e.flagDiffs++
	}
	o.emit(sc.line(), d.String()+" "+p.String())
}

// c10Live: does the direct call come to an end (the client gets a status)?  A plain simulation of
// two sequential programs over two queues; used only to keep scripts on which both systems hang
// (2 s each) a small part of a run.
func c10Live(sc *c10Script) bool {
	cstr := sc.shape == "cs" || sc.shape == "bi"
	sstr := sc.shape == "ss" || sc.shape == "bi"
	up, closed, down, fin := 0, !cstr, 0, false
	if !cstr {
		up = 1
	}
	ci, bi, beof, cdone := 0, 0, false, false
	for {
		moved := false
		// client
		for !cdone {
			op := byte('r')
			if ci < len(sc.cops) {
				op = sc.cops[ci].k
			}
			if op == 's' {
				if cstr && !closed {
					up++
				}
			} else if op == 'c' {
				if cstr {
					closed = true
				}
			} else {
				if sstr && down > 0 {
					down--
				} else if fin && (down == 0 || !sstr) {
					cdone = true
				} else {
					break
				}
			}
			if ci < len(sc.cops) {
				ci++
			}
			moved = true
		}
		// backend
		for !fin {
			if bi >= len(sc.bops) {
				fin, moved = true, true
				break
			}
			op := sc.bops[bi].k
			if op == 's' {
				down++
			} else if beof {
			} else if up > 0 {
				up--
				moved = true
				if op == 'e' {
					continue
				}
			} else if closed {
				beof = true
			} else {
				break
			}
			bi++
			moved = true
		}
		if cdone {
			return true
		}
		if !moved {
			return false
		}
	}
}

func c10Gen(o *out, r *rng, tier string) {
	texts := []string{"a", "b", "c", "d", "e", "m0", "", "gr\u00fc\u00df", "with space", strings.Repeat("long", 8)}
	type st struct {
		code   int
		msg    string
		detail string
		has    bool
	}
	fails := []st{{5, "not found", "", false}, {3, "bad % argument\u00e9", "why", true}, {13, "", "", false}, {2, "boom", "", true}, {14, "try later", "d2", true},
		{16, "who", "", false}, {7, "denied", "x", true}, {1, "cancelled by the backend", "", false}, {4, "backend deadline", "", false}, {10, "aborted", "", false}}
	okst := st{}
	mds := []map[string][]string{nil, {"x-a": {"v1", "v2"}}, {"x-b": {"one"}, "x-c-bin": {string([]byte{0, 1, 0xff, 0x80})}}, {"x-empty": {""}},
		{"x-t-bin": {"\x00\x01", "\xfe"}, "x-s-bin": {"zz\x80"}, "x-u-bin": {"third"}, "x-p": {"plain"}}}
	mdsHTTP := []map[string][]string{nil, {"x-a": {"v1", "v2"}}, {"x-b": {"one"}}}
	limitHang := 2
	if tier != "quick" {
		limitHang = 12
	}
	hangs := 0
	emit := func(tag string, sc *c10Script) {
		if c10env != nil && c10env.flagDiffs >= 12 {
			o.count("skipped-after-12-outcome-differences")
			return
		}
		if !c10Live(sc) {
			if hangs >= limitHang {
				return
			}
			hangs++
			tag = "deadlock-in-both/" + tag
		}
		o.count(sc.shape + "/" + sc.front + "/" + tag)
		if sc.code != 0 {
			o.count("status/failing")
		} else {
			o.count("status/ok")
		}
		if len(sc.reqmd)+len(sc.hmd)+len(sc.tmd) > 0 {
			o.count("metadata/some")
		}
		c10Run(o, sc.line())
	}
	mk := func(shape, front string, cops, bops []c10Op, s st, q, h, t map[string][]string) *c10Script {
		return &c10Script{shape: shape, front: front, cops: cops, bops: bops, code: s.code, msg: s.msg, detail: s.detail, hasDetail: s.has, reqmd: q, hmd: h, tmd: t}
	}
	txt := func() string { return texts[r.intn(len(texts))] }
	sends := func(n int) []c10Op {
		var ops []c10Op
		for i := 0; i < n; i++ {
			ops = append(ops, c10Op{'s', txt()})
		}
		return ops
	}
	cat := func(xs ...[]c10Op) []c10Op {
		var ops []c10Op
		for _, x := range xs {
			ops = append(ops, x...)
		}
		return ops
	}
	R, E, C := []c10Op{{'r', ""}}, []c10Op{{'e', ""}}, []c10Op{{'c', ""}}
	pickMd := func(front string) map[string][]string {
		if front == "http" {
			return mdsHTTP[r.intn(len(mdsHTTP))]
		}
		return mds[r.intn(len(mds))]
	}
	anySt := func() st {
		if r.intn(2) == 0 {
			return okst
		}
		return fails[r.intn(len(fails))]
	}

	// ---- unary: every status, every metadata combination, both fronts ----
	for _, front := range []string{"grpc", "http"} {
		ms := mds
		if front == "http" {
			ms = mdsHTTP
		}
		for _, s := range append([]st{okst}, fails...) {
			for _, q := range ms {
				bops := R
				if s.code == 0 {
					bops = cat(R, sends(1))
				}
				emit("status-x-reqmd", mk("un", front, sends(1), bops, s, q, nil, nil))
			}
			for _, h := range ms[1:] {
				bops := R
				if s.code == 0 {
					bops = cat(R, sends(1))
				}
				emit("resp-metadata", mk("un", front, sends(1), bops, s, nil, h, ms[r.intn(len(ms))]))
				emit("resp-metadata", mk("un", front, sends(1), bops, s, nil, nil, h))
			}
		}
	}
	// ---- the gRPC-web front: unary and server streaming, with and without a reply message before the status ----
	for i, s := range append([]st{okst}, fails...) {
		bops := R
		if s.code == 0 {
			bops = cat(R, sends(1))
		}
		emit("web/unary", mk("un", "web", sends(1), bops, s, mds[i%len(mds)], nil, nil))
		emit("web/unary", mk("un", "web", sends(1), bops, s, nil, mds[(i+1)%len(mds)], mds[(i+2)%len(mds)]))
		for k := 0; k <= 2; k++ {
			emit("web/stream", mk("ss", "web", sends(1), cat(R, sends(k)), s, nil, mds[(i+k)%len(mds)], mds[(i+k+3)%len(mds)]))
		}
		emit("web/stream", mk("ss", "web", sends(1), nil, s, mds[1], nil, nil))
	}
	// ---- application metadata under grpc-* names that the protocol does not reserve ----
	appMds := []map[string][]string{{"grpc-tenant": {"acme"}}, {"grpc-retry-pushback-ms": {"250"}, "x-a": {"v1"}}, {"grpc-previous-rpc-attempts": {"2"}},
		{"upgrade-insecure-requests": {"1"}, "connection-id": {"c-17"}}, {"keep-alive-budget": {"3"}, "status": {"pending"}}, {"message": {"hello"}, "timeout": {"soon"}}}
	for i, s := range []st{okst, fails[0], fails[3]} {
		bops := R
		if s.code == 0 {
			bops = cat(R, sends(1))
		}
		for _, a := range appMds {
			emit("app-metadata-grpc-names", mk("un", "grpc", sends(1), bops, s, a, nil, nil))
			emit("app-metadata-grpc-names", mk("un", "grpc", sends(1), bops, s, nil, a, nil))
			emit("app-metadata-grpc-names", mk("un", "grpc", sends(1), bops, s, nil, nil, a))
		}
		emit("app-metadata-grpc-names", mk("bi", "grpc", cat(sends(2), C), cat(E, sends(i)), s, appMds[0], appMds[1], appMds[2]))
		emit("app-metadata-grpc-names", mk("cs", "grpc", cat(sends(2), C), cat(E, bops[1:]), s, appMds[2], appMds[0], appMds[1]))
		emit("app-metadata-grpc-names", mk("ss", "grpc", sends(1), cat(R, sends(i)), s, appMds[3], appMds[4], appMds[5]))
		emit("app-metadata-grpc-names", mk("bi", "grpc", cat(sends(1), C), cat(E, sends(1)), s, appMds[5], appMds[3], appMds[4]))
	}
	// ---- replies larger than the front mux's receive limit (within its send limit) ----
	big := func(n int) []c10Op { return []c10Op{{'s', strings.Repeat("r", n)}} }
	for _, n := range []int{90, 97, 200, 5000} {
		emit("reply-above-receive-limit", mk("un", "grpcl", sends(1), cat(R, big(n)), okst, nil, nil, nil))
		emit("reply-above-receive-limit", mk("ss", "grpcl", sends(1), cat(R, big(n), sends(1), big(n)), okst, nil, nil, nil))
		emit("reply-above-receive-limit", mk("cs", "grpcl", cat(sends(2), C), cat(E, big(n)), okst, nil, nil, nil))
		emit("reply-above-receive-limit", mk("bi", "grpcl", cat(sends(1), R, sends(1), C), cat(R, big(n), E, big(n)), fails[n%len(fails)], nil, nil, nil))
	}
	// ---- server streaming: k replies, failing after k replies, replying before reading ----
	for k := 0; k <= 4; k++ {
		for _, s := range []st{okst, fails[k%len(fails)], fails[(k+5)%len(fails)]} {
			emit("k-replies", mk("ss", "grpc", sends(1), cat(R, sends(k)), s, pickMd("grpc"), pickMd("grpc"), pickMd("grpc")))
			emit("k-replies-client-waits", mk("ss", "grpc", cat(sends(1), R, R), cat(R, sends(k)), s, nil, nil, nil))
			emit("reply-before-read", mk("ss", "grpc", sends(1), cat(sends(k), R), s, nil, pickMd("grpc"), nil))
			emit("never-reads", mk("ss", "grpc", sends(1), sends(k), s, nil, nil, pickMd("grpc")))
		}
	}
	// ---- client streaming: n messages (0..4) ----
	for n := 0; n <= 4; n++ {
		for j := 0; j <= n; j++ {
			for _, s := range []st{okst, fails[(n+j)%len(fails)]} {
				reply := sends(1)
				if s.code != 0 {
					reply = nil
				}
				var rj []c10Op
				for i := 0; i < j; i++ {
					rj = append(rj, R...)
				}
				if j == n {
					// the backend reads to the end of the stream, then replies or fails (after half-close)
					emit("read-to-eof", mk("cs", "grpc", cat(sends(n), C), cat(E, reply), s, pickMd("grpc"), pickMd("grpc"), pickMd("grpc")))
					emit("read-n-then-eof", mk("cs", "grpc", cat(sends(n), C), cat(rj, R, reply), s, nil, nil, nil))
				}
				// the backend reads j messages and finishes at once (before the client's half-close)
				emit("finish-after-j", mk("cs", "grpc", cat(sends(n), C), cat(rj, reply), s, pickMd("grpc"), nil, pickMd("grpc")))
				// ... while the client never half-closes and waits for the reply
				emit("finish-after-j-no-halfclose", mk("cs", "grpc", cat(sends(n), R), cat(rj, reply), s, nil, nil, nil))
			}
		}
	}
	// ---- bidi ----
	for n := 0; n <= 4; n++ {
		for k := 0; k <= 4; k++ {
			s := anySt()
			// burst: all requests, half-close, then read; backend reads everything, then k replies
			emit("burst/read-all-reply-k", mk("bi", "grpc", cat(sends(n), C), cat(E, sends(k)), s, pickMd("grpc"), pickMd("grpc"), pickMd("grpc")))
			// backend replies k, then reads to the end
			emit("burst/reply-k-read-all", mk("bi", "grpc", cat(sends(n), C), cat(sends(k), E), anySt(), nil, nil, nil))
			// backend fails / finishes after k replies without reading to the end
			var body []c10Op
			for i := 0; i < k; i++ {
				if i < n {
					body = append(body, R...)
				}
				body = append(body, sends(1)...)
			}
			emit("finish-after-k-replies", mk("bi", "grpc", cat(sends(n), C), body, anySt(), nil, pickMd("grpc"), nil))
			emit("finish-after-k-replies-no-halfclose", mk("bi", "grpc", sends(n), body, anySt(), nil, nil, pickMd("grpc")))
		}
		// lock-step echo: send, wait, send, wait ... half-close; backend echoes and reads to the end
		var cl, bk []c10Op
		for i := 0; i < n; i++ {
			cl = append(cl, sends(1)...)
			cl = append(cl, R...)
			bk = append(bk, R...)
			bk = append(bk, sends(1)...)
		}
		for _, s := range []st{okst, fails[n%len(fails)]} {
			emit("echo/lock-step", mk("bi", "grpc", cat(cl, C), cat(bk, E), s, pickMd("grpc"), pickMd("grpc"), pickMd("grpc")))
			// the backend greets first, the client waits for the greeting before it sends
			emit("echo/greeting-first", mk("bi", "grpc", cat(R, cl, C), cat(sends(1), bk, E), s, nil, nil, nil))
			// the backend fails / finishes in the middle of the echo, the client is waiting for a reply
			if n > 0 {
				emit("echo/backend-stops-midway", mk("bi", "grpc", cat(cl, C), bk[:len(bk)-1], s, nil, nil, nil))
				emit("echo/backend-stops-before-first-reply", mk("bi", "grpc", cat(cl, C), R, s, nil, nil, pickMd("grpc")))
			}
			emit("echo/backend-stops-at-once", mk("bi", "grpc", cat(cl, C), nil, s, nil, pickMd("grpc"), nil))
		}
	}
	// ---- random scripts ----
	n := 150
	if tier != "quick" {
		n = 4000
	}
	for i := 0; i < n; i++ {
		shape := []string{"cs", "ss", "bi", "bi"}[r.intn(4)]
		cstr := shape == "cs" || shape == "bi"
		sstr := shape == "ss" || shape == "bi"
		var cl, bk []c10Op
		if !cstr {
			cl = sends(1)
		}
		for j, l := 0, r.intn(7); j < l; j++ {
			switch x := r.intn(5); {
			case x < 2 && cstr:
				cl = append(cl, sends(1)...)
			case x < 4:
				cl = append(cl, R...)
			}
		}
		if cstr && r.intn(4) != 0 {
			cl = append(cl, C...)
		}
		nsend := 0
		for j, l := 0, r.intn(7); j < l; j++ {
			switch x := r.intn(6); {
			case x < 2:
				bk = append(bk, R...)
			case x == 2:
				bk = append(bk, E...)
			default:
				if sstr || nsend == 0 {
					bk = append(bk, sends(1)...)
					nsend++
				}
			}
		}
		s := anySt()
		if !sstr && s.code == 0 && nsend == 0 {
			bk = append(bk, sends(1)...)
		}
		emit("random", mk(shape, "grpc", cl, bk, s, pickMd("grpc"), pickMd("grpc"), pickMd("grpc")))
	}
}

func init() { props["C10"] = prop{gen: c10Gen, run: c10Run} }
