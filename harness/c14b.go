package main

// C14B <trailer md> ; <trailer block hex>
//
// The raw trailer block of a gRPC-web response (payload of the frame with flag 0x80) for a handler that sets the given
// trailer metadata and succeeds: the bytes a gRPC-web client parses. Ties Model/TrailerBlock.v (write_block / parse_block)
// to what web.go and net/http's Header.Write really put on the wire.

import (
	"fmt"
	"strings"

	"google.golang.org/grpc/metadata"
)

func c14bRun(o *out, input string) {
	f := strings.Fields(input)
	e := c14Setup()
	e.steps, e.fail = nil, false
	e.hdr, e.trl = metadata.MD{}, metadata.MD(decMap(f[1]))
	e.mux = e.muxPlain
	w, p := serveRec(e.mux, c14Request("web", nil))
	if p != "" {
		o.emit(input, "panic")
		return
	}
	body := w.Body.Bytes()
	for len(body) >= 5 {
		l := int(body[1])<<24 | int(body[2])<<16 | int(body[3])<<8 | int(body[4])
		if len(body) < 5+l {
			break
		}
		if body[0]&0x80 != 0 {
			o.emit(input, hx(body[5:5+l]))
			return
		}
		body = body[5+l:]
	}
	o.emit(input, "none")
}

func c14bGen(o *out, r *rng, tier string) {
	vals := []string{"v", "", " lead", "trail ", "\ttab\t", "a b", "bye\r\ngrpc-status: 13", "a\ngrpc-message: forged", "x\r\nx-other: y", "\r\n", "\n\nx", "x\r", "colon: inside", "ünï"}
	n := 30
	if tier == "thorough" {
		n = 600
	}
	emit := func(md map[string][]string) {
		o.count("web-trailer-block")
		c14bRun(o, "C14B "+encMap(md))
	}
	for _, v := range vals {
		emit(map[string][]string{"x-t": {v}})
		emit(map[string][]string{"x-a": {"keep"}, "x-t": {v, "second"}})
	}
	for i := 0; i < n; i++ {
		md := map[string][]string{}
		for j, k := 0, 1+r.intn(3); j < k; j++ {
			var vs []string
			for l, m := 0, 1+r.intn(2); l < m; l++ {
				b := make([]byte, r.intn(8))
				for q := range b {
					b[q] = "ab \t\r\n:x-"[r.intn(9)]
				}
				vs = append(vs, string(b))
			}
			md[fmt.Sprintf("x-k%d", r.intn(4))] = vs
		}
		emit(md)
	}
}

func init() {
	p := props["C14"]
	g, rn := p.gen, p.run
	props["C14"] = prop{
		gen: func(o *out, r *rng, tier string) { g(o, r, tier); c14bGen(o, r, tier) },
		run: func(o *out, in string) {
			if strings.HasPrefix(in, "C14B") {
				c14bRun(o, in)
			} else {
				rn(o, in)
			}
		},
	}
}
