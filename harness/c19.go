package main

import (
	"bufio"
	"context"
	"fmt"
	"io"
	"net"
	"time"

	"github.com/gobwas/ws"
	"google.golang.org/grpc"
	"net/http"
	"net/http/httptest"
	"net/url"
	"strings"

	"google.golang.org/genproto/googleapis/api/annotations"
	"google.golang.org/genproto/googleapis/api/serviceconfig"
	"google.golang.org/grpc/codes"
	grpchealth "google.golang.org/grpc/health"
	healthpb "google.golang.org/grpc/health/grpc_health_v1"
	"google.golang.org/grpc/status"
	"google.golang.org/protobuf/encoding/protojson"
	"google.golang.org/protobuf/proto"
	"google.golang.org/protobuf/reflect/protoreflect"
	"google.golang.org/protobuf/reflect/protoregistry"
	"google.golang.org/protobuf/types/dynamicpb"
	"larking.io/health"
	"larking.io/larking"
)

// C19: service-config rules bind exactly the selected methods.
//
//   C19S <selectors> <name>            ; <positions returned by getRules(setRules(selectors), name)> | panic
//        the selector trie itself (hook VerifSelectRules); strings as x<hex>, lists comma separated
//   C19M <sel@shape,...> <methods> [own] ; per method:  <config tokens>|<annotation tokens>
//        (shape 5 = a rule no method can take: a method it selects must fail to register, with the config as with the annotation)
//        one Mux per method with the rules installed through ServiceConfigOption, and a twin Mux
//        whose method carries, as a proto annotation, exactly the rules an independent reading of
//        the selector syntax says cover it. A token per rule: who answered on the rule's path and
//        with which request message (x<method>:<msg>), or s<http status>; regerr / panic if the
//        registration failed.
//   C19H <extra> <sets> <query>        ; <http answer> <health server's own answer>
//   C19W <sets> <name> <then>          ; <statuses read from the websocket> <first status of health.Server.Watch, then>
//        health.AddHealthz: GET /v1/healthz[?service=NAME] against grpc's health server.

// ---------- an independent reading of the selector syntax (used only to build the twin) ----------

func c19Covers(sel, name string) bool {
	if sel == name || sel == "*" {
		return true
	}
	if strings.HasSuffix(sel, ".*") {
		return strings.HasPrefix(name, sel[:len(sel)-1])
	}
	return false
}

// ---------- C19S ----------

func c19Sel(sels []string, name string) (obs string) {
	defer func() {
		if p := recover(); p != nil {
			obs = "panic"
		}
	}()
	return ints(larking.VerifSelectRules(sels, name))
}

func c19Strs(ss []string) string {
	bs := make([][]byte, len(ss))
	for i, s := range ss {
		bs[i] = []byte(s)
	}
	return hxs(bs)
}
func c19UnStrs(s string) []string {
	var out []string
	for _, b := range unhxs(s) {
		out = append(out, string(b))
	}
	return out
}

// ---------- C19M ----------

const c19Msg = "larking.testpb.Message"

type c19Rule struct {
	Sel   string
	Shape int
}

// the rule of position i with the given shape; every rule has its own paths
func c19DynRule(i int, shape int, sel string) dynRule {
	base := fmt.Sprintf("/c19/r%d", i)
	switch shape {
	case 0:
		return dynRule{Verb: "GET", Tmpl: base + "/{text}", Selector: sel}
	case 1:
		return dynRule{Verb: "POST", Tmpl: base, Body: "*", Selector: sel}
	case 2:
		return dynRule{Verb: "PATCH", Tmpl: base + "/{message_id}", Body: "*", Selector: sel}
	case 4:
		// same verb and path as the method's own annotation (c19Own) but without a body mapping: bound
		// like every selected rule, it is what answers on that path
		return dynRule{Verb: "POST", Tmpl: "/c19/own", Selector: sel}
	case 5:
		// a rule no method of the schema can take (the request type has no such field): a method it selects
		// cannot be registered -- exactly as if the rule were written as the method's annotation
		return dynRule{Verb: "GET", Tmpl: base + "/{no_such_field}", Selector: sel}
	default:
		return dynRule{Verb: "GET", Tmpl: base, Selector: sel,
			Additional: []dynRule{{Verb: "DELETE", Tmpl: base + "/{user_id}/del"}}}
	}
}

// the requests that exercise the rule of position i
func c19Requests(i int, shape int) []*http.Request {
	base := fmt.Sprintf("/c19/r%d", i)
	switch shape {
	case 0:
		return []*http.Request{httptest.NewRequest("GET", base+"/hello?user_id=u7", nil)}
	case 1:
		r := httptest.NewRequest("POST", base, strings.NewReader(`{"messageId":"m1","text":"posted"}`))
		r.Header.Set("Content-Type", "application/json")
		return []*http.Request{r}
	case 2:
		r := httptest.NewRequest("PATCH", base+"/id9", strings.NewReader(`{"text":"patched"}`))
		r.Header.Set("Content-Type", "application/json")
		return []*http.Request{r}
	case 4:
		r := httptest.NewRequest("POST", "/c19/own?user_id=u4", strings.NewReader(`{"text":"posted4"}`))
		r.Header.Set("Content-Type", "application/json")
		return []*http.Request{r}
	case 5:
		return []*http.Request{httptest.NewRequest("GET", base+"/x", nil)}
	default:
		return []*http.Request{httptest.NewRequest("GET", base+"?text=q", nil), httptest.NewRequest("DELETE", base+"/u1/del", nil)}
	}
}

type c19Rec struct{ calls []string }

func (c *c19Rec) impl() *dynImpl {
	return &dynImpl{Unary: func(ctx context.Context, method string, req proto.Message, out protoreflect.MessageDescriptor) (proto.Message, error) {
		c.calls = append(c.calls, hx([]byte(strings.ReplaceAll(trimFull(method), "/", ".")))+":"+msgText(req))
		return dynamicpb.NewMessage(out), nil
	}}
}

var c19Files = map[string]*protoregistry.Files{}

// a file holding one service with one method (package and names as given), annotated or not
func c19FilesFor(method string, ann *dynRule, key string) (*protoregistry.Files, error) {
	if f, ok := c19Files[key]; ok {
		return f, nil
	}
	parts := strings.Split(method, ".")
	n := len(parts)
	f := dynFile{Path: "verif/c19/" + key + ".proto", Pkg: strings.Join(parts[:n-2], "."),
		Services: []dynService{{Name: parts[n-2], Methods: []dynMethod{{Name: parts[n-1], In: c19Msg, Out: c19Msg, Rule: ann}}}}}
	fd, err := f.build()
	if err != nil {
		return nil, err
	}
	files := &protoregistry.Files{}
	if err := files.RegisterFile(fd); err != nil {
		return nil, err
	}
	c19Files[key] = files
	return files, nil
}

// one Mux with one method registered; tokens for every rule position
func c19Serve(files *protoregistry.Files, rules []c19Rule, own bool, opts ...larking.MuxOption) (tokens string) {
	rec := &c19Rec{}
	var regerr error
	var m *larking.Mux
	func() {
		defer func() {
			if p := recover(); p != nil {
				regerr = panicError{p}
			}
		}()
		var err error
		m, err = larking.NewMux(append([]larking.MuxOption{larking.FilesOption(files)}, opts...)...)
		if err != nil {
			regerr = err
			return
		}
		// other muxes come to exist beside this one before it registers anything: one configured with another
		// rule for every method, one not configured at all; a mux binds the rules of its own configuration
		if _, err := larking.NewMux(larking.ServiceConfigOption(c19Decoy)); err != nil {
			panic(err)
		}
		if _, err := larking.NewMux(); err != nil {
			panic(err)
		}
		files.RangeFiles(func(fd protoreflect.FileDescriptor) bool {
			sds := fd.Services()
			for i := 0; i < sds.Len(); i++ {
				if err := safeRegister(m, serviceDesc(sds.Get(i), rec.impl())); err != nil {
					regerr = err
					return false
				}
			}
			return true
		})
	}()
	if regerr != nil {
		if isPanic(regerr) {
			return "panic"
		}
		return "regerr"
	}
	var toks []string
	for i, r := range rules {
		var parts []string
		for _, req := range c19Requests(i, r.Shape) {
			rec.calls = nil
			w, p := serveRec(m, req)
			switch {
			case p != "":
				parts = append(parts, "panic")
			case len(rec.calls) == 1 && w.Code == 200:
				parts = append(parts, rec.calls[0])
			case len(rec.calls) == 0:
				parts = append(parts, fmt.Sprintf("s%d", w.Code))
			default:
				parts = append(parts, fmt.Sprintf("odd%d.%d", len(rec.calls), w.Code))
			}
		}
		toks = append(toks, strings.Join(parts, "+"))
	}
	if own {
		// the method's own annotation must keep working beside the configuration
		req := httptest.NewRequest("POST", "/c19/own", strings.NewReader(`{"text":"own"}`))
		req.Header.Set("Content-Type", "application/json")
		rec.calls = nil
		w, p := serveRec(m, req)
		switch {
		case p != "":
			toks = append(toks, "panic")
		case len(rec.calls) == 1 && w.Code == 200:
			toks = append(toks, rec.calls[0])
		default:
			toks = append(toks, fmt.Sprintf("s%d", w.Code))
		}
	}
	if len(toks) == 0 {
		return "-"
	}
	return strings.Join(toks, "/")
}

var c19Decoy = &serviceconfig.Service{Http: &annotations.Http{Rules: []*annotations.HttpRule{
	dynRule{Verb: "POST", Tmpl: "/c19/decoy", Body: "*", Selector: "*"}.toProto()}}}

var c19Own = dynRule{Verb: "POST", Tmpl: "/c19/own", Body: "*"}

func c19Mux(rules []c19Rule, methods []string, own bool) string {
	var obs []string
	sc := &serviceconfig.Service{Http: &annotations.Http{}}
	for i, r := range rules {
		sc.Http.Rules = append(sc.Http.Rules, c19DynRule(i, r.Shape, r.Sel).toProto())
	}
	// another mux is built from this configuration and a second one: the configuration handed over stays the caller's
	// (a mux binds the rules of its own configuration, and building one does not edit what it was given)
	if _, err := larking.NewMux(larking.ServiceConfigOption(sc), larking.ServiceConfigOption(c19Decoy)); err != nil {
		panic(err)
	}
	if len(sc.Http.Rules) != len(rules) || len(c19Decoy.Http.Rules) != 1 {
		return "config-modified"
	}
	for _, meth := range methods {
		// configuration side
		var ownRule *dynRule
		ckey := "cfg/" + meth
		if own {
			o := c19Own
			ownRule = &o
			ckey = "cfgown/" + meth
		}
		files, err := c19FilesFor(meth, ownRule, ckey)
		if err != nil {
			panic(err)
		}
		cfg := c19Serve(files, rules, own, larking.ServiceConfigOption(sc))
		// twin: the covered rules written as the method's annotation, in the order appendHandler binds
		// them -- configuration rules first, then the method's own annotation (the order only matters
		// when two of them share verb and path: the first one bound answers)
		var ann *dynRule
		key := "ann/" + meth
		if own {
			key = "annown/" + meth
		}
		add := func(dr dynRule) {
			if ann == nil {
				ann = &dr
				return
			}
			more := dr.Additional
			dr.Additional = nil
			ann.Additional = append(append(ann.Additional, dr), more...)
		}
		for i, r := range rules {
			if !c19Covers(r.Sel, meth) {
				continue
			}
			key += fmt.Sprintf("/%d.%d", i, r.Shape)
			add(c19DynRule(i, r.Shape, ""))
		}
		if own {
			add(c19Own)
		}
		tfiles, err := c19FilesFor(meth, ann, key)
		if err != nil {
			panic(err)
		}
		twin := c19Serve(tfiles, rules, own)
		obs = append(obs, cfg+"|"+twin)
	}
	return strings.Join(obs, " ")
}

func c19EncRules(rs []c19Rule) string {
	if len(rs) == 0 {
		return "-"
	}
	ss := make([]string, len(rs))
	for i, r := range rs {
		ss[i] = fmt.Sprintf("%s@%d", hx([]byte(r.Sel)), r.Shape)
	}
	return strings.Join(ss, ",")
}
func c19DecRules(s string) []c19Rule {
	if s == "-" || s == "" {
		return nil
	}
	var rs []c19Rule
	for _, f := range strings.Split(s, ",") {
		h, sh, _ := strings.Cut(f, "@")
		rs = append(rs, c19Rule{Sel: string(unhx(h)), Shape: atoi(sh)})
	}
	return rs
}

// ---------- C19H ----------

// extra: rules already present in the service config AddHealthz merges into (selector list)
// sets:  name=status pairs applied to the health server in order (status 0..3), "!" prefix = not used
func c19HealthRun(extra []string, sets [][2]string, query string) (obs string) {
	defer func() {
		if p := recover(); p != nil {
			obs = "panic -"
		}
	}()
	sc := &serviceconfig.Service{}
	if len(extra) > 0 {
		sc.Http = &annotations.Http{}
		for i, s := range extra {
			sc.Http.Rules = append(sc.Http.Rules, dynRule{Verb: "GET", Tmpl: fmt.Sprintf("/c19/hx%d", i), Selector: s}.toProto())
		}
	}
	// another configuration of the same process got the health rules earlier and its owner has edited them
	// since: that is nobody else's business
	other := &serviceconfig.Service{}
	health.AddHealthz(other)
	if other.Http != nil {
		for _, r := range other.Http.Rules {
			r.Pattern = &annotations.HttpRule_Get{Get: "/internal/moved"}
			r.AdditionalBindings = nil
			r.Selector = "nobody.Home"
		}
	}
	// the option value may be made before the configuration is complete: it is the configuration as it is
	// when the Mux is built that counts (half of the cases, chosen by the input)
	var opt larking.MuxOption
	if len(sets)%2 == 1 {
		opt = larking.ServiceConfigOption(sc)
	}
	health.AddHealthz(sc)
	if opt == nil {
		opt = larking.ServiceConfigOption(sc)
	}
	m, err := larking.NewMux(opt)
	if err != nil {
		return "muxerr -"
	}
	hs := grpchealth.NewServer()
	if err := func() (err error) {
		defer func() {
			if p := recover(); p != nil {
				err = panicError{p}
			}
		}()
		return m.VerifRegisterService(&healthpb.Health_ServiceDesc, hs)
	}(); err != nil {
		if isPanic(err) {
			return "panic -"
		}
		return "regerr -"
	}
	for _, s := range sets {
		hs.SetServingStatus(s[0], healthpb.HealthCheckResponse_ServingStatus(atoi(s[1])))
	}
	// the health server's own answer
	direct := func(name string) string {
		resp, err := hs.Check(context.Background(), &healthpb.HealthCheckRequest{Service: name})
		if err != nil {
			return fmt.Sprintf("e%d", int(status.Code(err)))
		}
		return fmt.Sprintf("ok%d", int(resp.Status))
	}
	target := "/v1/healthz"
	want := ""
	if query == "-" {
		want = direct("")
	} else {
		name := string(unhx(query))
		target += "?service=" + url.QueryEscape(name)
		want = direct(name)
	}
	w, p := serveRec(m, httptest.NewRequest("GET", target, nil))
	if p != "" {
		return "panic " + want
	}
	got := ""
	if w.Code == 200 {
		var resp healthpb.HealthCheckResponse
		if err := protojson.Unmarshal(w.Body.Bytes(), &resp); err != nil {
			got = "undecodable"
		} else {
			got = fmt.Sprintf("ok%d", int(resp.Status))
		}
	} else {
		// the HTTP status of a failed call, as the gRPC code it stands for
		got = fmt.Sprintf("h%d", w.Code)
		if w.Code == larking.HTTPStatusCode(codes.NotFound) {
			got = fmt.Sprintf("e%d", int(codes.NotFound))
		}
	}
	// the extra rules of the configuration must not have been bound to the health methods
	// unless they select them: observed as who answers on their paths
	var ex []string
	for i := range extra {
		w, p := serveRec(m, httptest.NewRequest("GET", fmt.Sprintf("/c19/hx%d", i), nil))
		if p != "" {
			ex = append(ex, "panic")
		} else {
			ex = append(ex, fmt.Sprintf("s%d", w.Code))
		}
	}
	if len(ex) > 0 {
		got += "/" + strings.Join(ex, "/")
	}
	return got + " " + want
}

// ---------- C19W: websocket /v1/healthz -> Health.Watch ----------

type c19WatchStream struct {
	grpc.ServerStream
	ctx    context.Context
	cancel func()
	got    []int
}

func (s *c19WatchStream) Context() context.Context { return s.ctx }
func (s *c19WatchStream) Send(r *healthpb.HealthCheckResponse) error {
	s.got = append(s.got, int(r.Status))
	s.cancel()
	return nil
}

// c19Handshake: a WebSocket opening handshake (RFC 6455 section 4.1) written by hand, with the given Connection header
func c19Handshake(addr, pathq, connection string) (net.Conn, *bufio.Reader, error) {
	conn, err := net.DialTimeout("tcp", addr, 5*time.Second)
	if err != nil {
		return nil, nil, err
	}
	conn.SetDeadline(time.Now().Add(5 * time.Second))
	fmt.Fprintf(conn, "GET %s HTTP/1.1\r\nHost: %s\r\nConnection: %s\r\nUpgrade: websocket\r\nSec-WebSocket-Version: 13\r\nSec-WebSocket-Key: dGhlIHNhbXBsZSBub25jZQ==\r\n\r\n", pathq, addr, connection)
	br := bufio.NewReader(conn)
	resp, err := http.ReadResponse(br, nil)
	if err != nil {
		conn.Close()
		return nil, nil, err
	}
	if resp.StatusCode != http.StatusSwitchingProtocols {
		conn.Close()
		return nil, nil, fmt.Errorf("handshake answered %d", resp.StatusCode)
	}
	return conn, br, nil
}

// the statuses a websocket client of /v1/healthz sees: the current one, then the one set afterwards;
// compared with what health.Server.Watch itself sends first, and the status set
func c19Watch(sets [][2]string, name string, then int) (obs string) {
	defer func() {
		if p := recover(); p != nil {
			obs = "panic -"
		}
	}()
	sc := &serviceconfig.Service{}
	health.AddHealthz(sc)
	m, err := larking.NewMux(larking.ServiceConfigOption(sc))
	if err != nil {
		return "muxerr -"
	}
	hs := grpchealth.NewServer()
	if err := m.VerifRegisterService(&healthpb.Health_ServiceDesc, hs); err != nil {
		return "regerr -"
	}
	for _, s := range sets {
		hs.SetServingStatus(s[0], healthpb.HealthCheckResponse_ServingStatus(atoi(s[1])))
	}
	// the library's own first answer
	ctx, cancel := context.WithCancel(context.Background())
	fake := &c19WatchStream{ctx: ctx, cancel: cancel}
	hs.Watch(&healthpb.HealthCheckRequest{Service: name}, fake)
	cancel()
	want := fmt.Sprintf("%s,%d", ints(fake.got), then)

	lb, err := newLoopback(m)
	if err != nil {
		return "loopback-error " + want
	}
	defer lb.close()
	dctx, dcancel := context.WithTimeout(context.Background(), 5*time.Second)
	defer dcancel()
	// AddHealthz's websocket rule has no body: the request is the query string
	var conn net.Conn
	var br *bufio.Reader
	if v := (len(name) + then) % 3; v == 0 {
		conn, br, _, err = ws.Dial(dctx, "ws"+strings.TrimPrefix(lb.url, "http")+"/v1/healthz?service="+url.QueryEscape(name))
	} else {
		// the handshake as browsers and proxies write it: Connection is a list of options, compared without case
		conn, br, err = c19Handshake(strings.TrimPrefix(lb.url, "http://"), "/v1/healthz?service="+url.QueryEscape(name), []string{"", "keep-alive, Upgrade", "upgrade"}[v])
	}
	if err != nil {
		return "dial-error " + want
	}
	defer conn.Close()
	// frames the server sent right behind the handshake response are in the dialer's buffer
	var rd io.Reader = conn
	if br != nil {
		rd = br
	}
	conn.SetDeadline(time.Now().Add(5 * time.Second))
	read := func() string {
		for {
			h, err := ws.ReadHeader(rd)
			if err != nil || h.Length > 1<<20 {
				return "readerr"
			}
			p := make([]byte, h.Length)
			if _, err := io.ReadFull(rd, p); err != nil {
				return "readerr"
			}
			switch h.OpCode {
			case ws.OpClose:
				return "closed"
			case ws.OpText, ws.OpBinary:
				var resp healthpb.HealthCheckResponse
				if err := protojson.Unmarshal(p, &resp); err != nil {
					return "undecodable"
				}
				return fmt.Sprint(int(resp.Status))
			}
		}
	}
	first := read()
	hs.SetServingStatus(name, healthpb.HealthCheckResponse_ServingStatus(then))
	second := read()
	return first + "," + second + " " + want
}

func c19EncSets(sets [][2]string) string {
	if len(sets) == 0 {
		return "-"
	}
	ss := make([]string, len(sets))
	for i, s := range sets {
		ss[i] = hx([]byte(s[0])) + "=" + s[1]
	}
	return strings.Join(ss, ",")
}
func c19DecSets(s string) [][2]string {
	if s == "-" || s == "" {
		return nil
	}
	var out [][2]string
	for _, f := range strings.Split(s, ",") {
		n, st, _ := strings.Cut(f, "=")
		out = append(out, [2]string{string(unhx(n)), st})
	}
	return out
}

// ---------- run / gen ----------

func c19Run(o *out, input string) {
	f := strings.Fields(input)
	switch f[0] {
	case "C19S":
		o.emit(input, c19Sel(c19UnStrs(f[1]), string(unhx(f[2]))))
	case "C19M":
		var methods []string
		for _, b := range unhxs(f[2]) {
			methods = append(methods, string(b))
		}
		o.emit(input, c19Mux(c19DecRules(f[1]), methods, len(f) > 3 && f[3] == "own"))
	case "C19H":
		o.emit(input, c19HealthRun(c19UnStrs(f[1]), c19DecSets(f[2]), f[3]))
	case "C19W":
		o.emit(input, c19Watch(c19DecSets(f[1]), string(unhx(f[2])), atoi(f[3])))
	default:
		panic("bad C19 case")
	}
}

func c19Tree() (pkgs, svcs, methods []string) {
	for _, p := range []string{"a", "a.b", "ab"} {
		pkgs = append(pkgs, p)
		for _, s := range []string{"S", "Sv"} {
			svcs = append(svcs, p+"."+s)
			for _, m := range []string{"Me", "Met"} {
				methods = append(methods, p+"."+s+"."+m)
			}
		}
	}
	return
}

func c19Gen(o *out, r *rng, tier string) {
	thorough := tier == "thorough"
	pkgs, svcs, methods := c19Tree()

	// the selector universe: exact names at every depth, wildcards at every depth, "*", unrelated
	var exact, wildc, other []string
	exact = append(append(append(exact, pkgs...), svcs...), methods...)
	wildc = append(wildc, "*")
	for _, x := range exact {
		wildc = append(wildc, x+".*")
	}
	other = []string{"b.S.Me", "b.*", "zz.*", "S.Me", "Me", "a.S.Me.x", "a.b.c.S.Me", "grpc.health.v1.Health.Check", "A.S.Me", "a.s.me"}
	universe := append(append(append([]string{}, exact...), wildc...), other...)
	class := func(s string) string {
		switch {
		case s == "*":
			return "star"
		case strings.HasSuffix(s, ".*"):
			return fmt.Sprintf("wild-depth%d", strings.Count(s, "."))
		default:
			for _, x := range exact {
				if x == s {
					return fmt.Sprintf("exact-depth%d", strings.Count(s, ".")+1)
				}
			}
			return "unrelated"
		}
	}

	// ---- C19S: the trie itself ----
	// names looked up: every node of the tree, siblings, deeper names, malformed names
	names := append(append([]string{}, exact...), "a.S.Me.Deep", "a.b.S.Me.x.y", "b.S.Me", "zz", "abc.S.Me", "a.Sx.Me", "a.S.Mex", "a.S.M")
	badNames := []string{"", ".", "a.", ".a", "a..S", "a.S.", "a.S..M", "..", "*", "a.*", "a.S.*"}
	emitS := func(sels []string, name, tag string) {
		o.count("trie/" + tag)
		c19Run(o, fmt.Sprintf("C19S %s %s", c19Strs(sels), hx([]byte(name))))
	}
	// every single selector and every pair against every name (well formed)
	for _, s := range universe {
		for _, n := range names {
			emitS([]string{s}, n, "single/"+class(s))
		}
	}
	for i, s1 := range universe {
		for j, s2 := range universe {
			if thorough || (i+j)%3 == 0 || i == j {
				for _, n := range methods {
					emitS([]string{s1, s2}, n, "pair")
				}
			}
		}
	}
	// random sets of up to 6 selectors with repetitions
	nS := 1500
	if thorough {
		nS = 40000
	}
	for i := 0; i < nS; i++ {
		var sels []string
		for k, l := 0, r.intn(7); k < l; k++ {
			sels = append(sels, universe[r.intn(len(universe))])
		}
		emitS(sels, names[r.intn(len(names))], "random-wf")
	}
	// malformed stream: empty components, '*' inside, trailing dots, dots only; malformed names
	badSels := []string{"", ".", "..", "a.", ".a", "a..S", "a..S.M", "a.S.", "a.S.M.", "*.", "*.x", "*.*", "a.*.", "a.*.M", "a.*.*", "a.**", "a.S*", "**", "*a", "a.b*.S.M", ".*", "a.S.M..", "*..", "a. .S"}
	for _, s := range badSels {
		for _, n := range append(append([]string{}, names[:21]...), badNames...) {
			emitS([]string{s}, n, "malformed-selector")
			emitS([]string{"a.S.*", s, "a.S.M"}, n, "malformed-selector")
		}
	}
	for _, s := range universe {
		for _, n := range badNames {
			emitS([]string{s}, n, "malformed-name")
		}
	}
	alpha := []string{"a", "b", "S", "M", "*", "", ".", ".", "ab", "Sv", "Me", "*."}
	rnd := func() string {
		var sb strings.Builder
		for k, l := 0, r.intn(6); k < l; k++ {
			sb.WriteString(alpha[r.intn(len(alpha))])
			if r.intn(3) > 0 {
				sb.WriteString(".")
			}
		}
		return sb.String()
	}
	for i := 0; i < nS; i++ {
		var sels []string
		for k, l := 0, 1+r.intn(4); k < l; k++ {
			if r.intn(3) == 0 {
				sels = append(sels, universe[r.intn(len(universe))])
			} else {
				sels = append(sels, rnd())
			}
		}
		n := rnd()
		if r.bool() {
			n = names[r.intn(len(names))]
		}
		emitS(sels, n, "random-malformed")
	}

	// ---- C19M: through ServiceConfigOption and the Mux, with the annotation twin ----
	mh := hxs(func() [][]byte {
		var bs [][]byte
		for _, m := range methods {
			bs = append(bs, []byte(m))
		}
		return bs
	}())
	emitM := func(rules []c19Rule, tag string) {
		o.count("mux/" + tag)
		c19Run(o, fmt.Sprintf("C19M %s %s", c19EncRules(rules), mh))
	}
	emitM(nil, "size0")
	emitOwn := func(rules []c19Rule, tag string) {
		o.count("mux/" + tag)
		c19Run(o, fmt.Sprintf("C19M %s %s own", c19EncRules(rules), mh))
	}
	emitOwn(nil, "own-annotation")
	for i, s := range universe {
		// a rule that cannot be bound, alone and before / after one that can
		emitM([]c19Rule{{s, 5}}, "unbindable")
		emitM([]c19Rule{{s, 5}, {universe[(i*3+2)%len(universe)], i % 3}}, "unbindable")
		emitM([]c19Rule{{universe[(i*7+1)%len(universe)], i % 3}, {s, 5}}, "unbindable")
		// a selected rule on the verb and path of the method's own annotation
		emitOwn([]c19Rule{{s, 4}}, "own-annotation-clash")
		emitOwn([]c19Rule{{universe[(i*5+1)%len(universe)], i % 4}, {s, 4}}, "own-annotation-clash")
		emitM([]c19Rule{{s, 4}}, "size1/"+class(s))
		emitOwn([]c19Rule{{s, i % 4}}, "own-annotation")
		emitOwn([]c19Rule{{s, (i + 1) % 4}, {universe[(i*7+3)%len(universe)], (i + 2) % 4}}, "own-annotation")
	}
	for i, s := range universe {
		emitM([]c19Rule{{s, i % 4}}, "size1/"+class(s))
		if thorough {
			for sh := 0; sh < 4; sh++ {
				emitM([]c19Rule{{s, sh}}, "size1/"+class(s))
			}
		}
	}
	// all multisets of two selectors
	for i, s1 := range universe {
		for j := i; j < len(universe); j++ {
			emitM([]c19Rule{{s1, r.intn(4)}, {universe[j], r.intn(4)}}, "size2")
		}
	}
	// multisets of three: all in the thorough tier, the third of them chosen by the seed in the quick tier
	pick := r.intn(3)
	for i := range universe {
		for j := i; j < len(universe); j++ {
			for k := j; k < len(universe); k++ {
				if thorough || (i+j+k)%3 == pick {
					emitM([]c19Rule{{universe[i], (i + j) % 4}, {universe[j], (j + k) % 4}, {universe[k], (i + k) % 4}}, "size3")
				}
			}
		}
	}
	// ... in other orders
	n3 := 300
	if thorough {
		n3 = 5000
	}
	for i := 0; i < n3; i++ {
		emitM([]c19Rule{{universe[r.intn(len(universe))], r.intn(4)}, {universe[r.intn(len(universe))], r.intn(4)}, {universe[r.intn(len(universe))], r.intn(4)}}, "size3-random")
	}

	// ---- C19H: healthz ----
	svcNames := []string{"", "a", "a.S", "grpc.health.v1.Health", "svc with space", "a&b=c", "x?y#z", "ünï", "%41", "+", "a/b", strings.Repeat("n", 300)}
	extras := [][]string{nil, {"grpc.health.v1.Health.Check"}, {"zz.*", "grpc.health.v1.Health.Check", "grpc.health"}, {"grpc.health.v1.Health"}, {"grpc.health.v1"}, {"grpc.health.v1.Health.Check.*"}, {"grpc"}, {"zz.*", "a.S.M"}, {""}}
	emitH := func(extra []string, sets [][2]string, q string, tag string) {
		o.count("healthz/" + tag)
		c19Run(o, fmt.Sprintf("C19H %s %s %s", c19Strs(extra), c19EncSets(sets), q))
	}
	for _, n := range svcNames {
		for st := 0; st <= 3; st++ {
			set := [][2]string{{n, fmt.Sprint(st)}}
			emitH(nil, set, hx([]byte(n)), fmt.Sprintf("set/status%d", st))
			emitH(nil, set, "-", "set/overall")
		}
		emitH(nil, nil, hx([]byte(n)), "unset")
		emitH(nil, [][2]string{{n + "x", "1"}}, hx([]byte(n)), "unset-sibling")
	}
	for _, ex := range extras {
		emitH(ex, [][2]string{{"a", "1"}}, hx([]byte("a")), "extra-rules")
		emitH(ex, nil, "-", "extra-rules")
	}
	// websocket /v1/healthz -> Watch, on a loopback server
	emitW := func(sets [][2]string, name string, then int) {
		o.count("healthz/watch")
		c19Run(o, fmt.Sprintf("C19W %s %s %d", c19EncSets(sets), hx([]byte(name)), then))
	}
	for i, n := range svcNames[:10] {
		for st := 0; st <= 3; st++ {
			if thorough || (i+st)%4 == 0 {
				emitW([][2]string{{n, fmt.Sprint(st)}}, n, (st+1+i%3)%4)
			}
		}
		emitW(nil, n, 2*(i%2)) // unset: SERVICE_UNKNOWN first ("" is SERVING from the start)
	}
	nH := 150
	if thorough {
		nH = 3000
	}
	for i := 0; i < nH; i++ {
		var sets [][2]string
		for k, l := 0, r.intn(5); k < l; k++ {
			sets = append(sets, [2]string{svcNames[r.intn(len(svcNames))], fmt.Sprint(r.intn(4))})
		}
		q := "-"
		if r.intn(4) > 0 {
			q = hx([]byte(svcNames[r.intn(len(svcNames))]))
		}
		emitH(extras[r.intn(len(extras))], sets, q, "random")
	}
}

func init() { props["C19"] = prop{gen: c19Gen, run: c19Run} }
