package main

import (
	"fmt"
	"os"
	"strings"
	"sync"
	"sync/atomic"
	"time"

	"larking.io/larking"
)

// C12: the histories of C11 with the published snapshot captured after every step.
//   C12 <catalogue> <op,op,...>  ;  <step> <step> ...
//   step: <result>:<same|new>:<i,j,...|->   same/new: is the published pointer the one from before the step;
//         the list: indices (0 = before the first step) of earlier captured snapshots whose structural
//         fingerprint (VerifFingerprint) is no longer what it was when they were captured.
// C12R (supporting search, run by the driver's extra step with a -race build): the same histories
// while request streams run concurrently; prints a summary line, the race detector does the rest.

func c12History(e *c11Env, ops []string) []string {
	type cap struct {
		snap interface{}
		fp   string
	}
	m := e.newMux()
	caps := []cap{{m.VerifSnapshot(), larking.VerifFingerprint(m.VerifSnapshot())}}
	var obs []string
	for _, op := range ops {
		before := m.VerifSnapshot()
		res := e.apply(m, strings.TrimSuffix(op, "!"))
		after := m.VerifSnapshot()
		ptr := "new"
		if before == after {
			ptr = "same"
		}
		var changed []int
		for i, c := range caps {
			if larking.VerifFingerprint(c.snap) != c.fp {
				changed = append(changed, i)
			}
		}
		obs = append(obs, fmt.Sprintf("%s:%s:%s", res, ptr, ints(changed)))
		caps = append(caps, cap{after, larking.VerifFingerprint(after)})
	}
	return obs
}

func c12Run(o *out, input string) {
	e := c11Setup()
	f := strings.Fields(input)
	if len(f) != 3 || f[0] != "C12" {
		panic("bad C12 case: " + input)
	}
	if f[1] != e.cat {
		panic("C12 case was written for another catalogue")
	}
	o.emit(input, strings.Join(c12History(e, strings.Split(f[2], ",")), " "))
}

func c12Histories(r *rng, tier string, each func(ops []string, label string)) {
	maxLen, nRandom := 3, 300
	if tier == "thorough" {
		maxLen, nRandom = 4, 3000
	}
	idx := make([]int, maxLen)
	for {
		ops := make([]string, maxLen)
		for i, k := range idx {
			ops[i] = c11Alphabet[k]
		}
		each(ops, fmt.Sprintf("exhaustive/len%d", maxLen))
		i := maxLen - 1
		for ; i >= 0; i-- {
			idx[i]++
			if idx[i] < len(c11Alphabet) {
				break
			}
			idx[i] = 0
		}
		if i < 0 {
			break
		}
	}
	for i := 0; i < nRandom; i++ {
		ops := make([]string, 4+r.intn(9))
		for j := range ops {
			ops[j] = c11Alphabet[r.intn(len(c11Alphabet))]
		}
		each(ops, "random/len4-12")
	}
	c11StarHistories(each)
	// registrations from a backend whose reflection stream ends with an error status after everything was answered
	for _, a := range c11Alphabet {
		each([]string{a, "R0.2~", "D0"}, "flaky-reflection-end")
		each([]string{a, "R2.4~", a}, "flaky-reflection-end")
		each([]string{"R1.1~", a, "D1"}, "flaky-reflection-end")
	}
}

func c12Gen(o *out, r *rng, tier string) {
	e := c11Setup()
	c12Histories(r, tier, func(ops []string, label string) {
		o.count(label)
		for _, op := range ops {
			o.count("op/" + op[:1])
		}
		c12Run(o, fmt.Sprintf("C12 %s %s", e.cat, strings.Join(ops, ",")))
	})
}

// ---- C12R: concurrent request streams while a history is applied (meant for the -race build) ----
// many Upgrade values that are not "websocket": the request walks them between loading the state and routing
var c12Upgrade = func() []string {
	v := make([]string, 20000)
	for i := range v {
		v[i] = "h2c"
	}
	return v
}()

func c12RaceGen(o *out, r *rng, tier string) {
	e := c11Setup()
	n := 24
	if tier == "thorough" {
		n = 150
	}
	var requests, bad atomic.Int64
	var firstBad atomic.Value
	// the HTTP requests of the streams: every target, or (churn histories) only those without a path variable
	var static []c11Target
	for _, t := range e.targets {
		if !strings.Contains(t.url, "/7") {
			static = append(static, t)
		}
	}
	churn := [][]string{{"R0.2", "D0"}, {"R1.3", "D1"}, {"R2.4", "D2"}, {"R0.1", "R1.1", "D0", "D1"}, {"R2.5", "D2", "R2.8", "D2"}, {"L0.1", "R0.2", "D0"}}
	for h := 0; h < n+len(churn); h++ {
		ops := make([]string, 4+r.intn(9))
		for j := range ops {
			ops[j] = c11Alphabet[r.intn(len(c11Alphabet))]
		}
		targets := e.targets
		if h >= n {
			// churn: the same services registered and dropped again and again while the streams ask for their fixed paths
			ops = nil
			for i := 0; i < 6; i++ {
				ops = append(ops, churn[h-n]...)
			}
			targets = static
		}
		m, ref := e.newMux(), e.newMux()
		stop := make(chan struct{})
		var gate sync.RWMutex // the streams hold it per request; the comparison takes it exclusively
		var wg sync.WaitGroup
		for g := 0; g < 4; g++ {
			wg.Add(1)
			go func(g int) {
				defer wg.Done()
				for k := g; ; k++ {
					select {
					case <-stop:
						return
					default:
					}
					var ans string
					gate.RLock()
					if k%2 == 0 && h < n {
						ans = c11GRPC(m, c11FullName(c11Methods[k%len(c11Methods)]))
					} else {
						ans = c11HTTPWith(m, targets[k%len(targets)], c12Upgrade)
					}
					gate.RUnlock()
					requests.Add(1)
					if strings.HasPrefix(ans, "E") {
						bad.Add(1)
						firstBad.CompareAndSwap(nil, strings.Join(ops, ",")+" -> "+ans)
					}
				}
			}(g)
		}
		for i, op := range ops {
			// let the streams get going again (they were held during the comparison), then the operation runs among them
			for r0, t0 := requests.Load(), time.Now(); requests.Load() < r0+6 && time.Since(t0) < 50*time.Millisecond; {
				time.Sleep(200 * time.Microsecond)
			}
			e.apply(m, op) // with the streams running
			// then, with the traffic held, the mux answers as a mux that went through the same operations alone: nothing a
			// request resolved against an earlier state may outlive the publication of a later one
			gate.Lock()
			e.apply(ref, op)
			want := map[string]map[string]bool{}
			for _, kv := range strings.Split(e.probe(ref), ",") {
				k, v, _ := strings.Cut(kv, "=")
				want[k] = map[string]bool{}
				for _, a := range strings.Split(v, "+") {
					want[k][a] = true
				}
			}
			for _, kv := range strings.Split(e.probe(m), ",") {
				k, v, _ := strings.Cut(kv, "=")
				for _, a := range strings.Split(v, "+") {
					if !want[k][a] {
						// the cheap probe stops after two distinct answers: ask the reference again, without stopping early
						for t := 0; t < 300 && !want[k][a]; t++ {
							want[k][e.probeKey(ref, k)] = true
						}
					}
					if !want[k][a] {
						bad.Add(1)
						firstBad.CompareAndSwap(nil, fmt.Sprintf("%s -> after operation %d, with the traffic held, probe %s is answered %s; a mux that went through the same operations alone answers %v",
							strings.Join(ops, ","), i+1, k, a, want[k]))
					}
				}
			}
			gate.Unlock()
		}
		close(stop)
		wg.Wait()
	}
	fb, _ := firstBad.Load().(string)
	fmt.Fprintf(os.Stdout, "C12R histories=%d requests=%d bad=%d first=%q\n", n+len(churn), requests.Load(), bad.Load(), fb)
	o.emit(fmt.Sprintf("C12R %d", n), fmt.Sprintf("%d %d", requests.Load(), bad.Load()))
}

// one request for a probe key (g<method id> | h<node>.<verb>)
func (e *c11Env) probeKey(m *larking.Mux, key string) string {
	if key[0] == 'g' {
		id := atoi(key[1:])
		for _, md := range c11Methods {
			if md.id == id {
				return c11GRPC(m, c11FullName(md))
			}
		}
		return "?"
	}
	for _, t := range e.targets {
		if fmt.Sprintf("h%d.%d", t.node, t.verb) == key {
			return c11HTTP(m, t)
		}
	}
	return "?"
}

func init() {
	props["C12"] = prop{gen: c12Gen, run: c12Run}
	props["C12R"] = prop{gen: c12RaceGen, run: func(o *out, input string) {}}
}
