package main

import (
	"context"
	"fmt"
	"io"
	"net"
	"strings"

	"google.golang.org/grpc"
	"google.golang.org/grpc/credentials/insecure"
	"google.golang.org/grpc/reflection"
	rpb "google.golang.org/grpc/reflection/grpc_reflection_v1alpha"
	"google.golang.org/protobuf/proto"
	"google.golang.org/protobuf/reflect/protoreflect"
	"google.golang.org/protobuf/reflect/protoregistry"
	"google.golang.org/protobuf/types/dynamicpb"
	"larking.io/larking"
)

// C18P: the same recorders on a Mux whose handlers are *proxied* (RegisterConn to a grpc-go backend
// on loopback, discovered through server reflection): mux.go createConnHandler calls opts.unary /
// opts.stream(nil, ...). Only the shapes whose forwarding is sequential are driven (unary,
// server-streaming).
//
//   C18P <proto> <shape u|s> <req> <replies> <code> <imode> <icpt> <stats>
//   ; panic calls ev iret hs gs body  bpanic bhs bgs bbody

type c18pEnv struct {
	rec     *c18Env // recorders and interceptor mode (the scripted-handler fields are unused)
	front   [4]*larking.Mux
	replies [][]byte
	code    int
	gs      *grpc.Server
	conn    *grpc.ClientConn
}

var c18penv *c18pEnv

type c18pResolver struct{ own *protoregistry.Files }

func (r c18pResolver) FindFileByPath(p string) (protoreflect.FileDescriptor, error) {
	if fd, err := r.own.FindFileByPath(p); err == nil {
		return fd, nil
	}
	return protoregistry.GlobalFiles.FindFileByPath(p)
}
func (r c18pResolver) FindDescriptorByName(n protoreflect.FullName) (protoreflect.Descriptor, error) {
	if d, err := r.own.FindDescriptorByName(n); err == nil {
		return d, nil
	}
	return protoregistry.GlobalFiles.FindDescriptorByName(n)
}

func c18pSetup() *c18pEnv {
	if c18penv != nil {
		return c18penv
	}
	pe := &c18pEnv{rec: &c18Env{}}
	msg := "larking.testpb.Message"
	mk := func(name string, cs, ss bool) dynMethod {
		p := "/c18p/" + strings.ToLower(name)
		return dynMethod{Name: name, In: msg, Out: msg, ClientStream: cs, ServerStream: ss, Rule: &dynRule{Verb: "POST", Tmpl: p, Body: "*"}}
	}
	f := dynFile{Path: "verif/c18p.proto", Pkg: "verif.c18p", Services: []dynService{{Name: "Svc", Methods: []dynMethod{
		mk("Mu", false, false), mk("Ms", false, true),
	}}}}
	fd, err := f.build()
	if err != nil {
		panic(err)
	}
	files := &protoregistry.Files{}
	if err := files.RegisterFile(fd); err != nil {
		panic(err)
	}
	pe.rec.in = fd.Services().Get(0).Methods().Get(0).Input()
	// backend: grpc-go server with scripted handlers
	impl := &dynImpl{
		Unary: func(ctx context.Context, method string, req proto.Message, outd protoreflect.MessageDescriptor) (proto.Message, error) {
			if err := c18MkErr(pe.code); err != nil {
				return nil, err
			}
			m := dynamicpb.NewMessage(outd)
			if err := proto.Unmarshal(pe.replies[0], m); err != nil {
				panic(err)
			}
			return m, nil
		},
		Stream: func(method string, in, outd protoreflect.MessageDescriptor, ss grpc.ServerStream) error {
			if err := ss.RecvMsg(dynamicpb.NewMessage(in)); err != nil {
				return err
			}
			for _, p := range pe.replies {
				m := dynamicpb.NewMessage(outd)
				if err := proto.Unmarshal(p, m); err != nil {
					panic(err)
				}
				if err := ss.SendMsg(m); err != nil {
					return err
				}
			}
			return c18MkErr(pe.code)
		},
	}
	pe.gs = grpc.NewServer()
	pe.gs.RegisterService(serviceDesc(fd.Services().Get(0), impl), nil)
	rpb.RegisterServerReflectionServer(pe.gs, reflection.NewServer(reflection.ServerOptions{Services: pe.gs, DescriptorResolver: c18pResolver{files}}))
	lis, err := net.Listen("tcp", "127.0.0.1:0")
	if err != nil {
		panic(err)
	}
	go pe.gs.Serve(lis)
	pe.conn, err = grpc.Dial(lis.Addr().String(), grpc.WithTransportCredentials(insecure.NewCredentials()))
	if err != nil {
		panic(err)
	}
	for i := 0; i < 4; i++ {
		var opts []larking.MuxOption
		if i&2 != 0 {
			opts = append(opts, larking.UnaryServerInterceptorOption(pe.rec.unaryIcpt), larking.StreamServerInterceptorOption(pe.rec.streamIcpt))
		}
		if i&1 != 0 {
			opts = append(opts, larking.StatsOption(c18Stats{pe.rec}))
		}
		m, err := larking.NewMux(opts...)
		if err != nil {
			panic(err)
		}
		if err := m.RegisterConn(context.Background(), pe.conn); err != nil {
			panic(err)
		}
		pe.front[i] = m
	}
	c18penv = pe
	return pe
}

func c18pExec(pe *c18pEnv, c c18Case, icpt, statsOn bool) c18Obs {
	e := pe.rec
	e.imk, e.imc, e.imsg = c.imk, c.imc, c.imsg
	e.calls, e.ev, e.hlog, e.dlv, e.iret = nil, nil, nil, nil, "-"
	c18kept = nil
	r, cancel := c.request()
	defer cancel()
	w, p := serveRec(pe.front[b2i(icpt)*2+b2i(statsOn)], r)
	o := c18Obs{panicked: p != "", calls: c18Join(e.calls), ev: c18Join(c18EvCheck(e.ev)), iret: e.iret, gs: "-", body: "x"}
	if p != "" {
		return o
	}
	res := w.Result()
	o.hs = res.StatusCode
	body := w.Body.Bytes()
	o.body = hx(body)
	get := func(k string) (string, bool) {
		if v, ok := res.Trailer[k]; ok && len(v) > 0 {
			return v[0], true
		}
		if v, ok := res.Header[k]; ok && len(v) > 0 {
			return v[0], true
		}
		return "", false
	}
	switch c.proto {
	case "grpc":
		if v, ok := get("Grpc-Status"); ok {
			o.gs = v
		}
	case "web":
		if v, ok := webTrailers(body)["grpc-status"]; ok && len(v) > 0 {
			o.gs = v[0]
		} else if v, ok := get("Grpc-Status"); ok {
			o.gs = v
		}
	}
	return o
}

func c18pRun(o *out, input string) {
	f := strings.Fields(input)
	if len(f) != 9 {
		panic("bad C18P case: " + input)
	}
	pe := c18pSetup()
	pe.replies, pe.code = unhxs(f[4]), atoi(f[5])
	c := c18Case{ns: "c18p", proto: f[1], shape: f[2], routed: true, rbody: true, reqs: [][]byte{unhx(f[3])}, imk: f[6][0], icpt: f[7] == "1", statsOn: f[8] == "1"}
	c.imk, c.imc, c.imsg = c18ParseMode(f[6])
	// request(): the proxied service lives under its own names
	a := c18pExec(pe, c, c.icpt, c.statsOn)
	b := c18pExec(pe, c, false, false)
	o.emit(input, fmt.Sprintf("%d %s %s %s %d %s %s %d %d %s %s", b2i(a.panicked), a.calls, a.ev, a.iret, a.hs, a.gs, a.body, b2i(b.panicked), b.hs, b.gs, b.body))
}

func c18pGen(o *out, r *rng, tier string) {
	n := 1
	if tier == "thorough" {
		n = 8
	}
	for rep := 0; rep < n; rep++ {
		for _, p := range []string{"http", "grpc", "web"} {
			for _, sh := range []string{"u", "s"} {
				for opt := 0; opt < 4; opt++ {
					for _, sz := range []int{0, 2, 3, 4, 5, 6, 9, 131} {
						for _, code := range []int{0, []int{3, 5, 13, 16, 2, 14}[(sz+opt)%6]} {
							replies := [][]byte{c18Payload(sz, r)}
							if sh == "s" {
								for j, l := 0, r.intn(3); j < l; j++ {
									replies = append(replies, c18Payload(r.pick([]int{0, 2, 3, 4, 5, 7}), r))
								}
							}
							im := "p"
							if opt&2 != 0 && r.intn(8) == 0 {
								im = fmt.Sprintf("%c%d", "jo"[r.intn(2)], r.pick([]int{3, 7, 16}))
							} else if opt&2 != 0 && r.intn(4) == 0 {
								// the interceptor answers with a message of its own (after / instead of the backend's)
								im = string("rk"[r.intn(2)]) + hx(c18Payload(r.pick([]int{0, 3, 7, 40}), r))
							}
							o.count("proxied/" + p + "/" + sh)
							c18pRun(o, fmt.Sprintf("C18P %s %s %s %s %d %s %d %d", p, sh, hx(c18Payload(sz, r)), hxs(replies), code, im, b2i(opt&2 != 0), b2i(opt&1 != 0)))
						}
					}
				}
			}
		}
	}
}

var _ = io.EOF
