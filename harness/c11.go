package main

import (
	"bytes"
	"context"
	"encoding/json"
	"fmt"
	"net"
	"net/http/httptest"
	"os"
	"sort"
	"strconv"
	"strings"
	"sync/atomic"
	"time"

	"google.golang.org/genproto/googleapis/api/annotations"
	"google.golang.org/genproto/googleapis/api/serviceconfig"
	"google.golang.org/grpc"
	"google.golang.org/grpc/codes"
	"google.golang.org/grpc/credentials/insecure"
	"google.golang.org/grpc/reflection"
	rpb "google.golang.org/grpc/reflection/grpc_reflection_v1alpha"
	"google.golang.org/grpc/status"
	"google.golang.org/protobuf/encoding/protowire"
	"google.golang.org/protobuf/proto"
	"google.golang.org/protobuf/reflect/protodesc"
	"google.golang.org/protobuf/reflect/protoreflect"
	"google.golang.org/protobuf/reflect/protoregistry"
	"google.golang.org/protobuf/types/descriptorpb"
	"google.golang.org/protobuf/types/dynamicpb"
	"google.golang.org/protobuf/types/known/emptypb"
	"google.golang.org/protobuf/types/known/wrapperspb"
	"larking.io/larking"
)

// C11: histories of RegisterService / RegisterConn / DropConn against a fresh Mux, real loopback
// backends (grpc.Server + grpc-go's reflection service over a switchable descriptor set + a
// catch-all handler that tags its replies), probes after the steps marked '!'.
//   C11 <catalogue> <op,op,...>  ;  <step> <step> ...
//   op:   R<conn>.<desc>[~][!]  L<impl>.<desc>[!]  D<conn>[!]     (~: the reflection stream ends with an error status)
//   step: <result>|<probe>,<probe>...   result: ok err panic true false
//   probe: g<method>=<set>  h<node>.<verb>=<set>   set: '+'-joined sorted distinct answers
//          c<k> l<k> (tag of the answering backend)  U (unimplemented)  N (not found)  E<code>

type c11Key struct {
	node, verb int
	valid      bool
}
type c11Rule struct {
	verb, tmpl, body string
	key              c11Key
	add              []c11Rule
	cfg              bool // installed through ServiceConfigOption instead of a proto annotation
}
type c11Method struct {
	id        int
	svc, name string
	node      int
	rule      *c11Rule
}

// server-streaming methods, by id (registerService handles a service's streams after its unary methods)
var c11Streaming = map[int]bool{11: true, 12: true}

const (
	c11GET  = 1
	c11POST = 2
	c11DEL  = 3 // no rule names it: a DELETE request is served by a '*'-kind binding or not at all
)

var c11Methods = []c11Method{
	{1, "SvcA", "A1", 1, &c11Rule{verb: "GET", tmpl: "/c11/aa/{id}", key: c11Key{11, c11GET, true}}},
	// A2's only rule comes from the service configuration (ServiceConfigOption, selector c11.SvcA.A2): it has
	// to be bound again whenever the method is registered again
	{2, "SvcA", "A2", 2, &c11Rule{verb: "GET", tmpl: "/c11/cfg/{id}", key: c11Key{19, c11GET, true}, cfg: true}},
	{3, "SvcB", "B1", 3, &c11Rule{verb: "POST", tmpl: "/c11/bp", body: "*", key: c11Key{12, c11POST, true}, add: []c11Rule{
		{verb: "GET", tmpl: "/c11/bx/{id}", key: c11Key{13, c11GET, true}},
		{verb: "GET", tmpl: "/c11/by/{id}", key: c11Key{14, c11GET, true}},
		// a binding behind a variable child of a node that also has literal children leading to bindings of
		// the same method: removal has to visit every subtree (a stale binding here answers Unimplemented
		// instead of NotFound after the last backend is dropped)
		{verb: "GET", tmpl: "/c11/{id}/vv", key: c11Key{17, c11GET, true}}}}},
	{4, "SvcC", "C1", 4, &c11Rule{verb: "GET", tmpl: "/c11/by/{id}", key: c11Key{14, c11GET, true}}},
	{5, "SvcL", "L1", 5, &c11Rule{verb: "GET", tmpl: "/c11/ll/{id}", key: c11Key{15, c11GET, true}}},
	{6, "SvcX", "X1", 6, &c11Rule{verb: "GET", tmpl: "/c11/xx/{nofield}", key: c11Key{16, c11GET, false}}},
	// the additional binding sits strictly below the node of A1's implicit '*' binding (which has no
	// verb-specific binding of its own): removing C2 must not take A1's route with it
	{7, "SvcC", "C2", 7, &c11Rule{verb: "GET", tmpl: "/c11/bx/{id}", key: c11Key{13, c11GET, true}, add: []c11Rule{
		{verb: "GET", tmpl: "/c11.SvcA/A1/below", key: c11Key{18, c11GET, true}}}}},
	// a '*'-kind rule at the node where A1 holds its GET binding: whichever of SvcA / SvcD comes second is refused
	// (addRule's duplicate check looks at every verb's binding of the node for a '*' rule, and at the '*' binding for
	// every rule)
	{8, "SvcD", "D1", 8, &c11Rule{verb: "*", tmpl: "/c11/aa/{id}", key: c11Key{11, 0, true}}},
	// a '*'-kind rule and a GET rule of the same method at one node: both are stored, removal takes both
	{9, "SvcD", "D2", 9, &c11Rule{verb: "*", tmpl: "/c11/dd/{id}", key: c11Key{20, 0, true}, add: []c11Rule{
		{verb: "GET", tmpl: "/c11/dd/{id}", key: c11Key{20, c11GET, true}}}}},
	// (node numbers of implicit bindings and of rules share one space: 1..9 / 30.. implicit, 11..29 rules)
	// a service whose unary method is fine and whose streaming method has a rule that cannot be bound: the
	// registration fails after the unary method has been handled, and must leave nothing behind
	{10, "SvcY", "Y1", 30, &c11Rule{verb: "GET", tmpl: "/c11/yy/{id}", key: c11Key{21, c11GET, true}}},
	{11, "SvcY", "Y2", 31, &c11Rule{verb: "GET", tmpl: "/c11/yz/{nofield}", key: c11Key{22, c11GET, false}}},
	// a (valid) server-streaming method: proxied streams have their own handler construction
	{12, "SvcS", "S1", 32, &c11Rule{verb: "GET", tmpl: "/c11/ss/{id}", key: c11Key{23, c11GET, true}}},
}

// descriptor sets: id -> services (a service carries all its methods)
var c11Descs = map[int][]string{
	1:  {"SvcA"},
	2:  {"SvcA", "SvcB"},
	3:  {"SvcB"},
	4:  {"SvcC"},
	5:  {"SvcA", "SvcX"},
	6:  {"SvcL"},         // local only
	7:  {"SvcA", "SvcB"}, // the same as 2, but every service in a file of its own (c11Split): one package, several files
	8:  {"SvcA"},         // the same as 1 in a later version of the schema: Req declares a new field before id (c11Reordered)
	9:  {"SvcD"},         // '*'-kind rules (not in the alphabet of the exhaustive histories: c11StarHistories)
	10: {"SvcY"},         // a valid unary method and a streaming method that cannot be bound (c11StarHistories)
	11: {"SvcA"},         // SvcA as redeployed without its method A2 (c11Omit): same service names as 1, another method set
	12: {"SvcS", "SvcA"}, // a server-streaming method beside unary ones
	13: {"SvcA"},         // SvcA in a newer deployment whose A1 has one more binding (c11Extra); only in c11StarHistories
}

// a descriptor set may declare a method with MORE bindings than the catalogue entry has (a newer deployment): the extra
// additional bindings, by descriptor set and method id. In the catalogue string such a method appears as a variant
// V<desc*100+id>:<id>:<node>:<rules> and the descriptor set lists it as v<desc*100+id>.
var c11Extra = map[int]map[int][]c11Rule{13: {1: {{verb: "GET", tmpl: "/c11/ax/{id}", key: c11Key{24, c11GET, true}}}}}

// methods a descriptor set leaves out of its services
var c11Omit = map[int]map[int]bool{11: {2: true}}

// the file being built leaves these methods out (set around the build of a descriptor set)
var c11omitNow map[int]bool
var c11extraNow map[int][]c11Rule

// descriptor sets whose Req message is {tenant = 3; id = 1} (declaration order differs, numbers do not)
var c11Reordered = map[int]bool{8: true}

// descriptor sets whose services are declared in separate files that share a file of messages
var c11Split = map[int]bool{7: true}

var c11Alphabet = []string{"R0.1", "R0.2", "R1.1", "R1.3", "R2.3", "R2.4", "R2.5", "D0", "D1", "D2", "D3", "L0.1", "L1.6", "R1.7", "R2.8"}

type c11Target struct {
	node, verb int
	method     string
	url, body  string
	declarers  []int // method ids that declare the key
}

func c11FullName(m c11Method) string { return "/c11." + m.svc + "/" + m.name }

func c11MethodsOf(desc int) []c11Method {
	var ms []c11Method
	for _, svc := range c11Descs[desc] {
		for _, m := range c11Methods {
			if m.svc == svc && !c11Omit[desc][m.id] {
				ms = append(ms, m)
			}
		}
	}
	return ms
}

func c11KeyStr(k c11Key) string { return fmt.Sprintf("%d.%d.%d", k.node, k.verb, b2i(k.valid)) }

// the catalogue as the evaluator reads it: M<id>:<node>:<rule>  rule = main>add>add   D<id>=m+m
func c11Catalogue() string {
	var parts []string
	for _, m := range c11Methods {
		r := "-"
		if m.rule != nil {
			ks := []string{c11KeyStr(m.rule.key)}
			for _, a := range m.rule.add {
				ks = append(ks, c11KeyStr(a.key))
			}
			r = strings.Join(ks, ">")
		}
		parts = append(parts, fmt.Sprintf("M%d:%d:%s", m.id, m.node, r))
	}
	ids := make([]int, 0, len(c11Descs))
	for id := range c11Descs {
		ids = append(ids, id)
	}
	sort.Ints(ids)
	for _, id := range ids {
		var ms []string
		for _, m := range c11MethodsOf(id) {
			if extra := c11Extra[id][m.id]; len(extra) > 0 && m.rule != nil {
				ks := []string{c11KeyStr(m.rule.key)}
				for _, a := range append(append([]c11Rule{}, m.rule.add...), extra...) {
					ks = append(ks, c11KeyStr(a.key))
				}
				parts = append(parts, fmt.Sprintf("V%d:%d:%d:%s", id*100+m.id, m.id, m.node, strings.Join(ks, ">")))
				ms = append(ms, fmt.Sprintf("v%d", id*100+m.id))
				continue
			}
			ms = append(ms, strconv.Itoa(m.id))
		}
		parts = append(parts, fmt.Sprintf("D%d=%s", id, strings.Join(ms, "+")))
	}
	return strings.Join(parts, "|")
}

func c11Targets() []c11Target {
	var ts []c11Target
	seen := map[[2]int]int{}
	add := func(k c11Key, verb, url, body string, mid int) {
		if i, ok := seen[[2]int{k.node, k.verb}]; ok {
			ts[i].declarers = append(ts[i].declarers, mid)
			return
		}
		seen[[2]int{k.node, k.verb}] = len(ts)
		ts = append(ts, c11Target{node: k.node, verb: k.verb, method: verb, url: url, body: body, declarers: []int{mid}})
	}
	for _, m := range c11Methods {
		add(c11Key{m.node, c11POST, true}, "POST", c11FullName(m), "{}", m.id) // the implicit binding, reached with POST
		if m.rule != nil {
			for _, r := range append([]c11Rule{*m.rule}, m.rule.add...) {
				url := strings.NewReplacer("{id}", "7", "{nofield}", "7").Replace(r.tmpl)
				body := ""
				if r.verb == "POST" {
					body = "{}"
				}
				if r.verb == "*" {
					// a '*'-kind binding is probed with a verb no rule names and with POST
					add(c11Key{r.key.node, c11DEL, true}, "DELETE", url, "", m.id)
					add(c11Key{r.key.node, c11POST, true}, "POST", url, "{}", m.id)
					continue
				}
				add(r.key, r.verb, url, body, m.id)
			}
		}
	}
	for _, byM := range c11Extra {
		for mid, rs := range byM {
			for _, r := range rs {
				add(r.key, r.verb, strings.NewReplacer("{id}", "7").Replace(r.tmpl), "", mid)
			}
		}
	}
	// a '*'-kind binding serves every verb of its node: the number of probes of those targets is budgeted for
	// its method's backends too
	for _, m := range c11Methods {
		if m.rule == nil {
			continue
		}
		for _, r := range append([]c11Rule{*m.rule}, m.rule.add...) {
			if r.verb != "*" {
				continue
			}
			for i := range ts {
				if ts[i].node == r.key.node {
					ts[i].declarers = append(ts[i].declarers, m.id)
				}
			}
		}
	}
	return ts
}

func c11BuildFile(path string, svcs []string) protoreflect.FileDescriptor {
	return c11BuildFileWith(path, svcs, nil, false)
}

// with common != nil the messages come from that file (imported) instead of being declared here
func c11BuildFileWith(path string, svcs []string, common protoreflect.FileDescriptor, reordered bool) protoreflect.FileDescriptor {
	str := descriptorpb.FieldDescriptorProto_TYPE_STRING.Enum()
	opt := descriptorpb.FieldDescriptorProto_LABEL_OPTIONAL.Enum()
	fdp := &descriptorpb.FileDescriptorProto{
		Name: proto.String(path), Package: proto.String("c11"), Syntax: proto.String("proto3"),
		Dependency: []string{"google/api/annotations.proto"},
		MessageType: []*descriptorpb.DescriptorProto{
			{Name: proto.String("Req"), Field: []*descriptorpb.FieldDescriptorProto{{Name: proto.String("id"), JsonName: proto.String("id"), Number: proto.Int32(1), Type: str, Label: opt}}},
			{Name: proto.String("Rep"), Field: []*descriptorpb.FieldDescriptorProto{{Name: proto.String("tag"), JsonName: proto.String("tag"), Number: proto.Int32(1), Type: str, Label: opt}}},
		},
	}
	if common != nil {
		fdp.MessageType = nil
		fdp.Dependency = append(fdp.Dependency, common.Path())
	}
	if reordered {
		fdp.MessageType[0].Field = append([]*descriptorpb.FieldDescriptorProto{
			{Name: proto.String("tenant"), JsonName: proto.String("tenant"), Number: proto.Int32(3), Type: str, Label: opt}}, fdp.MessageType[0].Field...)
	}
	for _, svc := range svcs {
		sd := &descriptorpb.ServiceDescriptorProto{Name: proto.String(svc)}
		for _, m := range c11Methods {
			if m.svc != svc || c11omitNow[m.id] {
				continue
			}
			md := &descriptorpb.MethodDescriptorProto{Name: proto.String(m.name), InputType: proto.String(".c11.Req"), OutputType: proto.String(".c11.Rep")}
			if c11Streaming[m.id] {
				md.ServerStreaming = proto.Bool(true)
			}
			if m.rule != nil && !m.rule.cfg {
				dr := dynRule{Verb: m.rule.verb, Tmpl: m.rule.tmpl, Body: m.rule.body}
				for _, a := range append(append([]c11Rule{}, m.rule.add...), c11extraNow[m.id]...) {
					dr.Additional = append(dr.Additional, dynRule{Verb: a.verb, Tmpl: a.tmpl, Body: a.body})
				}
				mo := &descriptorpb.MethodOptions{}
				proto.SetExtension(mo, annotations.E_Http, dr.toProto())
				md.Options = mo
			}
			sd.Method = append(sd.Method, md)
		}
		fdp.Service = append(fdp.Service, sd)
	}
	var rs protodesc.Resolver = protoregistry.GlobalFiles
	if common != nil {
		rs = c11Resolver{common}
	}
	fd, err := protodesc.NewFile(fdp, rs)
	if err != nil {
		panic(err)
	}
	return fd
}

type c11Resolver struct{ fd protoreflect.FileDescriptor }

func (r c11Resolver) FindFileByPath(p string) (protoreflect.FileDescriptor, error) {
	if r.fd.Path() == p {
		return r.fd, nil
	}
	return protoregistry.GlobalFiles.FindFileByPath(p)
}
func (r c11Resolver) FindDescriptorByName(n protoreflect.FullName) (protoreflect.Descriptor, error) {
	if d := r.fd.Messages().ByName(n.Name()); d != nil && d.FullName() == n {
		return d, nil
	}
	return protoregistry.GlobalFiles.FindDescriptorByName(n)
}

// ---- backends ----

// c11Refl is grpc-go's reflection service, except that with endErr set the reflection stream, after every
// request has been answered correctly, ends with an error status instead of OK
type c11Refl struct {
	rpb.ServerReflectionServer
	endErr *atomic.Bool
}

func (r c11Refl) ServerReflectionInfo(st rpb.ServerReflection_ServerReflectionInfoServer) error {
	if err := r.ServerReflectionServer.ServerReflectionInfo(st); err != nil {
		return err
	}
	if r.endErr.Load() {
		return status.Error(codes.Unavailable, "reflection stream ends badly")
	}
	return nil
}

type c11Backend struct {
	endErr atomic.Bool
	id     int
	srv    *grpc.Server
	cc     *grpc.ClientConn
	cur    atomic.Value // protoreflect.FileDescriptor currently listed
	more   atomic.Value // []protoreflect.FileDescriptor listed beside it (split descriptor sets)
	hits   atomic.Int64
}

func (b *c11Backend) all() []protoreflect.FileDescriptor {
	var out []protoreflect.FileDescriptor
	if fd, _ := b.cur.Load().(protoreflect.FileDescriptor); fd != nil {
		out = append(out, fd)
	}
	if m, _ := b.more.Load().([]protoreflect.FileDescriptor); m != nil {
		out = append(out, m...)
	}
	return out
}

func (b *c11Backend) GetServiceInfo() map[string]grpc.ServiceInfo {
	out := map[string]grpc.ServiceInfo{}
	for _, fd := range b.all() {
		for i := 0; i < fd.Services().Len(); i++ {
			out[string(fd.Services().Get(i).FullName())] = grpc.ServiceInfo{}
		}
	}
	return out
}
func (b *c11Backend) FindFileByPath(p string) (protoreflect.FileDescriptor, error) {
	for _, fd := range b.all() {
		if fd.Path() == p {
			return fd, nil
		}
	}
	return protoregistry.GlobalFiles.FindFileByPath(p)
}
func (b *c11Backend) FindDescriptorByName(n protoreflect.FullName) (protoreflect.Descriptor, error) {
	for _, fd := range b.all() {
		if d := fd.Services().ByName(n.Name()); d != nil && d.FullName() == n {
			return d, nil
		}
		if d := fd.Messages().ByName(n.Name()); d != nil && d.FullName() == n {
			return d, nil
		}
	}
	return protoregistry.GlobalFiles.FindDescriptorByName(n)
}

type c11Env struct {
	backends []*c11Backend // 0..2 registered in histories, 3 never registered
	files    map[int]protoreflect.FileDescriptor
	more     map[int][]protoreflect.FileDescriptor
	local    protoreflect.FileDescriptor
	targets  []c11Target
	cat      string
}

var c11env *c11Env

func c11Setup() *c11Env {
	if c11env != nil {
		return c11env
	}
	e := &c11Env{files: map[int]protoreflect.FileDescriptor{}, more: map[int][]protoreflect.FileDescriptor{}, targets: c11Targets(), cat: c11Catalogue()}
	for id, svcs := range c11Descs {
		if c11Split[id] {
			// messages in c11/d<id>_msgs.proto, every service in c11/d<id>_<k>.proto importing it
			common := c11BuildFile(fmt.Sprintf("c11/d%d_msgs.proto", id), nil)
			var fs []protoreflect.FileDescriptor
			for k, svc := range svcs {
				fs = append(fs, c11BuildFileWith(fmt.Sprintf("c11/d%d_%d.proto", id, k), []string{svc}, common, false))
			}
			e.files[id] = fs[0]
			e.more[id] = append(fs[1:], common)
			continue
		}
		c11omitNow, c11extraNow = c11Omit[id], c11Extra[id]
		e.files[id] = c11BuildFileWith(fmt.Sprintf("c11/d%d.proto", id), svcs, nil, c11Reordered[id])
		c11omitNow, c11extraNow = nil, nil
	}
	e.local = c11BuildFile("c11/local.proto", []string{"SvcA", "SvcL", "SvcY"})
	for i := 0; i < 4; i++ {
		b := &c11Backend{id: i}
		tag := fmt.Sprintf("c%d", i)
		b.srv = grpc.NewServer(grpc.UnknownServiceHandler(func(srv interface{}, ss grpc.ServerStream) error {
			b.hits.Add(1)
			var in emptypb.Empty
			if err := ss.RecvMsg(&in); err != nil {
				return err
			}
			// the request is c11.Req{id} in whatever field order this backend declares it: field 1, when
			// present, is the "7" every probe puts into {id}; nothing else is ever sent
			reply := tag
			for raw := in.ProtoReflect().GetUnknown(); len(raw) > 0; {
				num, typ, n := protowire.ConsumeTag(raw)
				if n < 0 {
					reply = tag + "!"
					break
				}
				raw = raw[n:]
				m := protowire.ConsumeFieldValue(num, typ, raw)
				if m < 0 {
					reply = tag + "!"
					break
				}
				if v, k := protowire.ConsumeBytes(raw); num != 1 || typ != protowire.BytesType || k < 0 || string(v) != "7" {
					reply = tag + "!" // a value in a field the request did not carry it in
				}
				raw = raw[m:]
			}
			return ss.SendMsg(wrapperspb.String(reply)) // same wire format as c11.Rep{tag}
		}))
		rpb.RegisterServerReflectionServer(b.srv, c11Refl{reflection.NewServer(reflection.ServerOptions{Services: b, DescriptorResolver: b}), &b.endErr})
		lis, err := net.Listen("tcp", "127.0.0.1:0")
		if err != nil {
			panic(err)
		}
		go b.srv.Serve(lis)
		b.cc, err = grpc.Dial(lis.Addr().String(), grpc.WithTransportCredentials(insecure.NewCredentials()))
		if err != nil {
			panic(err)
		}
		e.backends = append(e.backends, b)
	}
	c11env = e
	return e
}

func (e *c11Env) newMux() *larking.Mux {
	files := &protoregistry.Files{}
	if err := files.RegisterFile(e.local); err != nil {
		panic(err)
	}
	sc := &serviceconfig.Service{Http: &annotations.Http{}}
	for _, cm := range c11Methods {
		if cm.rule != nil && cm.rule.cfg {
			dr := dynRule{Verb: cm.rule.verb, Tmpl: cm.rule.tmpl, Body: cm.rule.body, Selector: "c11." + cm.svc + "." + cm.name}
			sc.Http.Rules = append(sc.Http.Rules, dr.toProto())
		}
	}
	m, err := larking.NewMux(larking.FilesOption(files), larking.ServiceConfigOption(sc))
	if err != nil {
		panic(err)
	}
	return m
}

// one operation on the real Mux; the result as the caller sees it
func (e *c11Env) apply(m *larking.Mux, op string) (res string) {
	defer func() {
		if p := recover(); p != nil {
			res = "panic"
		}
	}()
	kind, rest := op[0], op[1:]
	switch kind {
	case 'R':
		// R<conn>.<desc>~ : the backend ends its reflection stream with an error status after having answered
		// everything (a registration that comes back with an error must not have published anything)
		flaky := strings.HasSuffix(rest, "~")
		cs, ds, _ := strings.Cut(strings.TrimSuffix(rest, "~"), ".")
		b := e.backends[atoi(cs)]
		b.endErr.Store(flaky)
		defer b.endErr.Store(false)
		b.cur.Store(e.files[atoi(ds)])
		b.more.Store(e.more[atoi(ds)])
		ctx, cancel := context.WithTimeout(context.Background(), 10*time.Second)
		defer cancel()
		if err := m.RegisterConn(ctx, b.cc); err != nil {
			if os.Getenv("C11_DEBUG") != "" {
				fmt.Fprintln(os.Stderr, "RegisterConn:", op, err)
			}
			return "err"
		}
		return "ok"
	case 'D':
		if m.DropConn(context.Background(), e.backends[atoi(rest)].cc) {
			return "true"
		}
		return "false"
	case 'L':
		ls, ds, _ := strings.Cut(rest, ".")
		tag := "l" + ls
		impl := &dynImpl{Unary: func(ctx context.Context, method string, req proto.Message, out protoreflect.MessageDescriptor) (proto.Message, error) {
			rep := dynamicpb.NewMessage(out)
			rep.Set(out.Fields().ByName("tag"), protoreflect.ValueOfString(tag))
			return rep, nil
		}}
		for _, svc := range c11Descs[atoi(ds)] {
			sd := e.local.Services().ByName(protoreflect.Name(svc))
			if sd == nil {
				return "err"
			}
			if err := safeRegister(m, serviceDesc(sd, impl), c11ImplObj(ls)); err != nil {
				if isPanic(err) {
					return "panic"
				}
				return "err"
			}
		}
		return "ok"
	}
	panic("bad op " + op)
}

// c11ImplObj: the implementation object of local implementation <ls> -- the same object every time that implementation
// is registered (an application registers its one server value again, e.g. under a newer ServiceDesc)
var c11implObjs = map[string]*struct{ name string }{}

func c11ImplObj(ls string) interface{} {
	if c11implObjs[ls] == nil {
		c11implObjs[ls] = &struct{ name string }{ls}
	}
	return c11implObjs[ls]
}

func c11Tag(b []byte) string {
	for len(b) > 0 {
		num, typ, n := protowire.ConsumeTag(b)
		if n < 0 {
			return "E-frame"
		}
		b = b[n:]
		if num == 1 && typ == protowire.BytesType {
			v, n := protowire.ConsumeBytes(b)
			if n < 0 {
				return "E-frame"
			}
			return string(v)
		}
		n = protowire.ConsumeFieldValue(num, typ, b)
		if n < 0 {
			return "E-frame"
		}
		b = b[n:]
	}
	return "E-notag"
}

func c11Panic(p string) string {
	if os.Getenv("C11_DEBUG") != "" {
		fmt.Fprintln(os.Stderr, "request panicked:", p)
	}
	return "Epanic"
}

func c11Class(code string) string {
	switch code {
	case "12":
		return "U"
	case "5":
		return "N"
	}
	return "E" + code
}

func c11GRPC(m *larking.Mux, full string) string {
	r := httptest.NewRequest("POST", full, bytes.NewReader(grpcFrame(nil)))
	r.ProtoMajor, r.ProtoMinor = 2, 0
	r.Header.Set("Content-Type", "application/grpc")
	r.Header.Set("Te", "trailers")
	w, p := serveRec(m, r)
	if p != "" {
		return c11Panic(p)
	}
	res := w.Result()
	if res.StatusCode == 404 {
		return "U" // "no handler for gRPC method": what a gRPC client reports as Unimplemented
	}
	st := res.Trailer.Get("Grpc-Status")
	if st == "" {
		st = res.Header.Get("Grpc-Status")
	}
	if st != "0" {
		return c11Class(st)
	}
	body := w.Body.Bytes()
	if len(body) < 5 {
		return "E-nobody"
	}
	return c11Tag(body[5:])
}

func c11HTTP(m *larking.Mux, t c11Target) string { return c11HTTPWith(m, t, nil) }

func c11HTTPWith(m *larking.Mux, t c11Target, upgrade []string) string {
	var r = httptest.NewRequest(t.method, t.url, strings.NewReader(t.body))
	if t.body != "" {
		r.Header.Set("Content-Type", "application/json")
	}
	if upgrade != nil {
		r.Header["Upgrade"] = upgrade
	}
	w, p := serveRec(m, r)
	if p != "" {
		return c11Panic(p)
	}
	var v struct {
		Tag  string `json:"tag"`
		Code int    `json:"code"`
	}
	_ = json.Unmarshal(w.Body.Bytes(), &v)
	if os.Getenv("C11_DEBUG") != "" && w.Code != 200 {
		fmt.Fprintf(os.Stderr, "%s %s -> %d %q\n", t.method, t.url, w.Code, w.Body.String())
	}
	if w.Code == 200 {
		if v.Tag == "" {
			return "E-notag"
		}
		return v.Tag
	}
	if v.Code != 0 {
		return c11Class(strconv.Itoa(v.Code))
	}
	return "Ehttp" + strconv.Itoa(w.Code)
}

// number of handlers the published snapshot holds per method (only used to budget the repeats)
func c11Counts(m *larking.Mux) map[string]int {
	fp := larking.VerifFingerprint(m.VerifSnapshot())
	out := map[string]int{}
	_, rest, ok := strings.Cut(fp, "|handlers{")
	if !ok {
		return out
	}
	rest, _, _ = strings.Cut(rest, "}|conns{")
	for _, ent := range strings.Split(rest, ";") {
		name, ptrs, ok := strings.Cut(ent, ":")
		if ok {
			out[name] = strings.Count(ptrs, ",")
		}
	}
	return out
}

func c11Repeat(n int, call func() string) string {
	tries := 2
	switch {
	case n == 1:
		tries = 3
	case n >= 2:
		tries = 40 + 20*(n-2)
	}
	seen := map[string]bool{}
	for i := 0; i < tries; i++ {
		seen[call()] = true
		if n >= 2 && len(seen) >= 2 && i >= 3 {
			break
		}
	}
	var s []string
	for k := range seen {
		s = append(s, k)
	}
	sort.Strings(s)
	return strings.Join(s, "+")
}

func (e *c11Env) probe(m *larking.Mux) string {
	cnt := c11Counts(m)
	byID := map[int]c11Method{}
	var parts []string
	for _, md := range c11Methods {
		byID[md.id] = md
		full := c11FullName(md)
		parts = append(parts, fmt.Sprintf("g%d=%s", md.id, c11Repeat(cnt[full], func() string { return c11GRPC(m, full) })))
	}
	for _, t := range e.targets {
		n := 0
		for _, id := range t.declarers {
			if c := cnt[c11FullName(byID[id])]; c > n {
				n = c
			}
		}
		t := t
		parts = append(parts, fmt.Sprintf("h%d.%d=%s", t.node, t.verb, c11Repeat(n, func() string { return c11HTTP(m, t) })))
	}
	return strings.Join(parts, ",")
}

// runHistory applies the operations to a fresh Mux; after(i, m) is called after every step
func (e *c11Env) runHistory(ops []string, after func(i int, m *larking.Mux)) []string {
	m := e.newMux()
	var obs []string
	for i, op := range ops {
		probe := strings.HasSuffix(op, "!")
		res := e.apply(m, strings.TrimSuffix(op, "!"))
		if probe {
			res += "|" + e.probe(m)
		} else {
			res += "|-"
		}
		obs = append(obs, res)
		if after != nil {
			after(i, m)
		}
	}
	return obs
}

func c11Run(o *out, input string) {
	e := c11Setup()
	f := strings.Fields(input)
	if len(f) != 3 || f[0] != "C11" {
		panic("bad C11 case: " + input)
	}
	if f[1] != e.cat {
		panic("C11 case was written for another catalogue")
	}
	obs := e.runHistory(strings.Split(f[2], ","), nil)
	o.emit(input, strings.Join(obs, " "))
}

// histories around descriptor set 9 ('*'-kind rules): with every operation of the alphabet before, between and after
func c11StarHistories(each func(ops []string, label string)) {
	for _, a := range c11Alphabet {
		each([]string{a, "R0.9", "D0"}, "star-rules")
		each([]string{"R2.9", a, "D2"}, "star-rules")
		each([]string{"R1.9", a, "R0.9"}, "star-rules")
	}
	for _, h := range [][]string{{"R0.9", "R1.1", "D0", "R1.1"}, {"R0.1", "R1.9", "D0", "R1.9", "D1"}, {"L0.1", "R0.9", "R1.9"}, {"R0.9", "R1.9", "D0", "D1", "R2.1"},
		{"R0.5", "R1.9"}, {"R0.9", "R0.1", "R0.9"}, {"R1.9", "R2.2", "D1", "R2.2", "R1.9"}} {
		each(h, "star-rules")
	}
	// a connection re-registered after its backend was redeployed with the same services and another method set
	for _, h := range [][]string{{"R0.1", "R0.11"}, {"R0.11", "R0.1"}, {"R0.1", "R1.11", "D0"}, {"R0.11", "R1.1", "D1", "R0.1"}, {"R0.2", "R0.11", "R0.2"},
		{"L0.1", "R1.11", "R1.1", "R1.11"}, {"R2.11", "R2.5", "R2.11", "D2"}, {"R0.8", "R0.11", "R0.8"}} {
		each(h, "same-services-other-methods")
	}
	// a second backend whose (newer) descriptors give a registered method one more binding: the binding is served; the
	// connection that brought it is not dropped while another one serves the method (the extra binding would then be
	// declared by no live descriptor, which is outside what the run judges: DESIGN 0.3, C11)
	for _, h := range [][]string{{"R0.13"}, {"R0.13", "D0"}, {"R0.1", "R1.13"}, {"R1.13", "R0.1"}, {"L0.1", "R1.13"}, {"R0.1", "R1.13", "D0"},
		{"R0.2", "R1.13", "D0", "R0.2"}, {"R0.1", "R0.13"}, {"R0.13", "R0.1"}, {"R2.8", "R1.13", "D2"}} {
		each(h, "more-bindings-in-a-newer-deployment")
	}
	// a streaming method registered, served by two backends, dropped, re-registered
	for _, h := range [][]string{{"R0.12", "D0"}, {"R0.12", "R1.12", "D0"}, {"R0.12", "R1.12", "D0", "D1"}, {"R0.12", "R0.1"}, {"R0.1", "R0.12", "D0", "R1.12"},
		{"R2.12", "R0.3", "D2", "R2.12"}, {"L0.1", "R1.12", "D1"}} {
		each(h, "streaming-method")
	}
	for _, a := range c11Alphabet {
		each([]string{a, "L1.10"}, "fails-in-a-streaming-method")
		each([]string{"L0.10", a}, "fails-in-a-streaming-method")
		each([]string{a, "R0.10", "D0"}, "fails-in-a-streaming-method")
	}
}

func c11Gen(o *out, r *rng, tier string) {
	e := c11Setup()
	maxLen, nRandom := 3, 200
	if tier == "thorough" {
		maxLen, nRandom = 4, 3000
	}
	probed := map[string]bool{}
	emit := func(ops []string, label string) {
		// a prefix that an earlier history already probed is applied without probing again
		marked := make([]string, len(ops))
		pre := ""
		for i, op := range ops {
			pre += "," + op
			if probed[pre] {
				marked[i] = op
			} else {
				probed[pre] = true
				marked[i] = op + "!"
			}
		}
		o.count(label)
		for _, op := range ops {
			o.count("op/" + op[:1])
		}
		c11Run(o, fmt.Sprintf("C11 %s %s", e.cat, strings.Join(marked, ",")))
	}
	// all histories of exactly maxLen operations (their prefixes are all shorter histories)
	idx := make([]int, maxLen)
	for {
		ops := make([]string, maxLen)
		for i, k := range idx {
			ops[i] = c11Alphabet[k]
		}
		emit(ops, fmt.Sprintf("exhaustive/len<=%d", maxLen))
		i := maxLen - 1
		for ; i >= 0; i-- {
			idx[i]++
			if idx[i] < len(c11Alphabet) {
				break
			}
			idx[i] = 0
		}
		if i < 0 {
			break
		}
	}
	for i := 0; i < nRandom; i++ {
		n := 4 + r.intn(9)
		ops := make([]string, n)
		for j := range ops {
			ops[j] = c11Alphabet[r.intn(len(c11Alphabet))]
		}
		emit(ops, "random/len4-12")
	}
	c11StarHistories(emit)
	ext := append(append([]string{}, c11Alphabet...), "R0.9", "R1.9", "R2.9")
	for i := 0; i < nRandom/4; i++ {
		ops := make([]string, 4+r.intn(7))
		for j := range ops {
			ops[j] = ext[r.intn(len(ext))]
		}
		emit(ops, "random/with-star-rules")
	}
}

func init() { props["C11"] = prop{gen: c11Gen, run: c11Run} }
