package main

// C07W <capture hex> <query field|-> <frame fields a.b|-> ; <handler msgs: user_id/text per message> | <error>
//
// The path-bound field on a WebSocket call: rule WEBSOCKET /c07w/{user_id}, body "*". The client connects
// to /c07w/<capture>[?user_id=from-query], sends two JSON text frames -- the first may carry a competing
// value for the path-bound field ("user_id":"from-body") -- and closes. The handler records user_id and
// text of every message. The first message must carry the captured value whatever the frame says; the
// second message carries what its frame says (parameters are applied to the first message only).
// With a fourth field (E / B) an empty text / binary frame is sent before the first message.

import (
	"context"
	"fmt"
	"io"
	"net/url"
	"strings"
	"time"

	"github.com/gobwas/ws"
	"google.golang.org/grpc"
	"google.golang.org/protobuf/proto"
	"google.golang.org/protobuf/reflect/protoreflect"
	"google.golang.org/protobuf/types/dynamicpb"
)

type c07wEnv struct {
	lb   *loopback
	msgs []string
	done chan struct{}
}

var c07wenv *c07wEnv

func c07wSetup() *c07wEnv {
	if c07wenv != nil {
		return c07wenv
	}
	e := &c07wEnv{}
	msg := "larking.testpb.Message"
	f := dynFile{Path: "verif/c07w.proto", Pkg: "verif.c07w", Services: []dynService{{Name: "Wsvc", Methods: []dynMethod{
		{Name: "Chat", In: msg, Out: msg, ClientStream: true, ServerStream: true, Rule: &dynRule{Verb: "WEBSOCKET", Tmpl: "/c07w/{user_id}", Body: "*"}},
	}}}}
	fd, err := f.build()
	if err != nil {
		panic(err)
	}
	impl := &dynImpl{
		Unary: func(ctx context.Context, method string, req proto.Message, out protoreflect.MessageDescriptor) (proto.Message, error) {
			return dynamicpb.NewMessage(out), nil
		},
		Stream: func(method string, in, out protoreflect.MessageDescriptor, ss grpc.ServerStream) error {
			defer close(e.done)
			for {
				m := dynamicpb.NewMessage(in)
				if err := ss.RecvMsg(m); err != nil {
					return nil
				}
				e.msgs = append(e.msgs, hx([]byte(m.Get(in.Fields().ByName("user_id")).String()))+"/"+hx([]byte(m.Get(in.Fields().ByName("text")).String())))
			}
		},
	}
	mux, err := dynMux([]protoreflect.FileDescriptor{fd}, impl)
	if err != nil {
		panic(err)
	}
	e.lb, err = newLoopback(mux)
	if err != nil {
		panic(err)
	}
	c07wenv = e
	return e
}

func c07wRun(o *out, input string) {
	f := strings.Fields(input)
	capture := string(unhx(f[1]))
	e := c07wSetup()
	e.msgs, e.done = nil, make(chan struct{})
	target := "ws" + strings.TrimPrefix(e.lb.url, "http") + "/c07w/" + url.PathEscape(capture)
	if f[2] != "-" {
		target += "?" + f[2] + "=from-query"
	}
	ctx, cancel := context.WithTimeout(context.Background(), 10*time.Second)
	defer cancel()
	conn, br, _, err := ws.Dial(ctx, target)
	if err != nil {
		o.emit(input, "dial-error")
		return
	}
	defer conn.Close()
	conn.SetDeadline(time.Now().Add(10 * time.Second))
	first := `{"text":"one"`
	if f[3] != "-" {
		for _, fld := range strings.Split(f[3], ".") {
			first += fmt.Sprintf(`,"%s":"from-body"`, fld)
		}
	}
	first += "}"
	payloads := []string{first, `{"text":"two","user_id":"second-frame"}`}
	if len(f) > 4 {
		// an empty data frame before the first message (E: text, B: binary)
		fr := ws.NewTextFrame(nil)
		if f[4] == "B" {
			fr = ws.NewBinaryFrame(nil)
		}
		if err := ws.WriteFrame(conn, ws.MaskFrameInPlace(fr)); err != nil {
			o.emit(input, "write-error")
			return
		}
	}
	for _, payload := range payloads {
		if err := ws.WriteFrame(conn, ws.MaskFrameInPlace(ws.NewTextFrame([]byte(payload)))); err != nil {
			o.emit(input, "write-error")
			return
		}
	}
	ws.WriteFrame(conn, ws.MaskFrameInPlace(ws.NewCloseFrame(ws.NewCloseFrameBody(ws.StatusNormalClosure, ""))))
	var rd io.Reader = conn
	if br != nil {
		rd = br
	}
	io.Copy(io.Discard, rd)
	select {
	case <-e.done:
	case <-time.After(10 * time.Second):
		o.emit(input, "handler-timeout")
		return
	}
	if len(e.msgs) == 0 {
		o.emit(input, "-")
		return
	}
	o.emit(input, strings.Join(e.msgs, ","))
}

func c07wGen(o *out) {
	for _, capture := range []string{"room1", "a", "from-body", "x.y-z_0", "é"} {
		for _, q := range []string{"-", "user_id", "userId", "text"} {
			for _, body := range []string{"-", "user_id", "userId", "user_id.message_id"} {
				o.count("websocket")
				c07wRun(o, fmt.Sprintf("C07W %s %s %s", hx([]byte(capture)), q, body))
			}
		}
	}
	// an empty frame first: whether or not the call survives it, a message that reaches the handler first
	// carries the captured value
	for _, lead := range []string{"E", "B"} {
		for _, q := range []string{"-", "user_id"} {
			for _, body := range []string{"-", "user_id", "userId"} {
				o.count("websocket-empty-frame-first")
				c07wRun(o, fmt.Sprintf("C07W %s %s %s %s", hx([]byte("room1")), q, body, lead))
			}
		}
	}
}

func init() {
	p := props["C07"]
	g, rn := p.gen, p.run
	props["C07"] = prop{
		gen: func(o *out, r *rng, tier string) { g(o, r, tier); c07wGen(o) },
		run: func(o *out, in string) {
			if strings.HasPrefix(in, "C07W") {
				c07wRun(o, in)
			} else {
				rn(o, in)
			}
		},
	}
}
