package main

import (
	"bufio"
	"encoding/hex"
	"fmt"
	"os"
	"strconv"
	"strings"
)

// rng is a splitmix64 generator: every random choice of a run derives from one state.
type rng struct{ s uint64 }

func newRng(seed uint64) *rng { return &rng{s: seed*0x9E3779B97F4A7C15 + 0x1234567} }
func (r *rng) u64() uint64 {
	r.s += 0x9E3779B97F4A7C15
	z := r.s
	z = (z ^ (z >> 30)) * 0xBF58476D1CE4E5B9
	z = (z ^ (z >> 27)) * 0x94D049BB133111EB
	return z ^ (z >> 31)
}
func (r *rng) intn(n int) int {
	if n <= 0 {
		return 0
	}
	return int(r.u64() % uint64(n))
}
func (r *rng) bool() bool               { return r.u64()&1 == 1 }
func (r *rng) pick(xs []int) int        { return xs[r.intn(len(xs))] }
func (r *rng) picks(xs []string) string { return xs[r.intn(len(xs))] }
func (r *rng) bytes(n int) []byte {
	b := make([]byte, n)
	for i := range b {
		b[i] = byte(r.u64())
	}
	return b
}

func hx(b []byte) string { return "x" + hex.EncodeToString(b) }
func unhx(s string) []byte {
	if !strings.HasPrefix(s, "x") {
		panic("bad hex field " + s)
	}
	b, err := hex.DecodeString(s[1:])
	if err != nil {
		panic(err)
	}
	return b
}
func ints(xs []int) string {
	if len(xs) == 0 {
		return "-"
	}
	ss := make([]string, len(xs))
	for i, x := range xs {
		ss[i] = strconv.Itoa(x)
	}
	return strings.Join(ss, ",")
}
func unints(s string) []int {
	if s == "-" || s == "" {
		return nil
	}
	var xs []int
	for _, f := range strings.Split(s, ",") {
		x, err := strconv.Atoi(f)
		if err != nil {
			panic(err)
		}
		xs = append(xs, x)
	}
	return xs
}
func hxs(bs [][]byte) string {
	if len(bs) == 0 {
		return "-"
	}
	ss := make([]string, len(bs))
	for i, b := range bs {
		ss[i] = hx(b)
	}
	return strings.Join(ss, ",")
}
func unhxs(s string) [][]byte {
	if s == "-" || s == "" {
		return nil
	}
	var bs [][]byte
	for _, f := range strings.Split(s, ",") {
		bs = append(bs, unhx(f))
	}
	return bs
}
func atoi(s string) int {
	x, err := strconv.Atoi(s)
	if err != nil {
		panic(err)
	}
	return x
}
func b2i(b bool) int {
	if b {
		return 1
	}
	return 0
}

// out collects case lines "<input> ; <observation>".
type out struct {
	w     *bufio.Writer
	n     int
	stats map[string]int
}

func newOut(path string) *out {
	f, err := os.Create(path)
	if err != nil {
		panic(err)
	}
	return &out{w: bufio.NewWriterSize(f, 1<<20), stats: map[string]int{}}
}
func (o *out) emit(input, obs string) {
	fmt.Fprintf(o.w, "%s ; %s\n", input, obs)
	o.n++
}
func (o *out) count(k string) { o.stats[k]++ }
func (o *out) close()         { o.w.Flush() }

// readInputs returns the input halves of the case lines of a file.
func readInputs(path string) []string {
	f, err := os.Open(path)
	if err != nil {
		panic(err)
	}
	defer f.Close()
	var ins []string
	sc := bufio.NewScanner(f)
	sc.Buffer(make([]byte, 1<<20), 1<<28)
	for sc.Scan() {
		line := strings.TrimSpace(sc.Text())
		if line == "" || strings.HasPrefix(line, "#") {
			continue
		}
		in, _, _ := strings.Cut(line, " ; ")
		ins = append(ins, strings.TrimSpace(in))
	}
	return ins
}
