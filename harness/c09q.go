package main

// C09Q <cfg 0..3> <step,step,...> ; <token per step>
//
// Robustness over HISTORIES of requests on one mux, run one after the other in one goroutine with a single P
// (runtime.GOMAXPROCS(1) for the duration of the case), so that whatever one request leaves behind in larking's
// pooled buffers is what the next request finds. Steps:
//   hE        HTTP client stream (JSON, two messages) read to its end      POST /c09/cstream
//   hU<n>     HTTP unary POST /c09/star with a JSON body naming n letters
//   hX        HTTP unary POST /c09/star with a body one byte above the default receive limit (4 MiB)
//   hG        HTTP GET /c09/getblob/x (HttpBody reply)
//   g<n>      gRPC unary /verif.c09.Rsvc/Plain, request data of n pseudo-random bytes (the reply echoes it)
//   z<n>      the same with Grpc-Encoding: gzip (request and reply compressed)
//   w<n>      the same over gRPC-web
//   gc        two garbage collections (sync.Pool forgets everything: the next request starts from fresh buffers)
// token: <http status>/<grpc-status|-> | panic:<where> | hang

import (
	"bytes"
	"fmt"
	"io"
	"net/http"
	"net/http/httptest"
	"net/url"
	"runtime"
	"runtime/debug"
	"strings"
	"time"

	"google.golang.org/protobuf/encoding/protowire"
)

func c09qBytes(n, salt int) []byte {
	b := make([]byte, n)
	x := uint32(2463534242 + salt*7919 + n)
	for i := range b {
		x ^= x << 13
		x ^= x >> 17
		x ^= x << 5
		b[i] = byte(x >> 8)
	}
	return b
}

func c09qRequest(step string) *http.Request {
	mk := func(method, path, ct string, major int, body []byte) *http.Request {
		r := &http.Request{Method: method, URL: &url.URL{Path: path}, Header: http.Header{}, Proto: fmt.Sprintf("HTTP/%d.%d", major, b2i(major == 1)),
			ProtoMajor: major, ProtoMinor: b2i(major == 1), Host: "c09.test", RemoteAddr: "127.0.0.1:9", RequestURI: path,
			ContentLength: int64(len(body)), Body: io.NopCloser(bytes.NewReader(body))}
		if ct != "" {
			r.Header.Set("Content-Type", ct)
		}
		return r
	}
	switch {
	case step == "hE":
		return mk("POST", "/c09/cstream", "application/json", 1, []byte(`{"name":"a"}{"name":"b"}`))
	case step == "hX":
		return mk("POST", "/c09/star", "application/json", 1, []byte(`{"name":"`+strings.Repeat("x", 4<<20)+`"}`))
	case step == "hG":
		return mk("GET", "/c09/getblob/x", "", 1, nil)
	case strings.HasPrefix(step, "hU"):
		return mk("POST", "/c09/star", "application/json", 1, []byte(`{"name":"`+strings.Repeat("n", atoi(step[2:]))+`"}`))
	}
	n := atoi(step[1:])
	msg := protowire.AppendBytes(protowire.AppendTag(nil, 5, protowire.BytesType), c09qBytes(n, int(step[0])))
	path := "/" + c09Pkg + ".Rsvc/Plain"
	switch step[0] {
	case 'g':
		r := mk("POST", path, "application/grpc", 2, c09Frame(0, msg))
		r.Header.Set("Te", "trailers")
		return r
	case 'z':
		r := mk("POST", path, "application/grpc", 2, c09Frame(1, c09Gzip(msg)))
		r.Header.Set("Te", "trailers")
		r.Header.Set("Grpc-Encoding", "gzip")
		r.Header.Set("Grpc-Accept-Encoding", "gzip")
		return r
	case 'w':
		return mk("POST", path, "application/grpc-web+proto", 1, c09Frame(0, msg))
	}
	panic("bad C09Q step " + step)
}

func c09qRun(o *out, input string) {
	f := strings.Fields(input)
	e := c09Setup()
	mux := e.mux[atoi(f[1])]
	steps := strings.Split(f[2], ",")
	toks := make([]string, 0, len(steps))
	done := make(chan struct{})
	go func() {
		defer close(done)
		old := runtime.GOMAXPROCS(1)
		defer runtime.GOMAXPROCS(old)
		for _, st := range steps {
			if st == "gc" {
				runtime.GC()
				runtime.GC()
				toks = append(toks, "-")
				continue
			}
			tok := func() (tok string) {
				defer func() {
					if p := recover(); p != nil {
						tok = "panic:" + strings.ReplaceAll(c09Where(debug.Stack())+":"+c09PanicText(p), " ", "_")
					}
				}()
				w := httptest.NewRecorder()
				mux.ServeHTTP(w, c09qRequest(st))
				resp := w.Result()
				io.Copy(io.Discard, resp.Body)
				gs := resp.Trailer.Get("Grpc-Status")
				if gs == "" {
					gs = resp.Header.Get("Grpc-Status")
				}
				if gs == "" {
					gs = "-"
				}
				return fmt.Sprintf("%d/%s", w.Code, gs)
			}()
			toks = append(toks, tok)
		}
	}()
	select {
	case <-done:
	case <-time.After(20 * time.Second):
		o.emit(input, strings.Join(append(append([]string(nil), toks...), "hang"), ","))
		return
	}
	o.emit(input, strings.Join(toks, ","))
}

func c09qGen(o *out, r *rng, tier string) {
	emit := func(tag string, cfg int, steps []string) {
		o.count("history/" + tag)
		c09qRun(o, fmt.Sprintf("C09Q %d %s", cfg, strings.Join(steps, ",")))
	}
	rep := func(n int, s ...string) []string {
		var out []string
		for i := 0; i < n; i++ {
			out = append(out, s...)
		}
		return out
	}
	for cfg := 0; cfg < 4; cfg++ {
		// what a transcoded request leaves in the pool is what the next gRPC / gRPC-web request draws
		emit("http-then-grpc", cfg, append(rep(3, "hE"), "g10", "w10", "z10", "g0", "w0"))
		emit("http-then-grpc", cfg, append(rep(3, "hG", "hU5"), "g3", "hE", "w3", "hE", "z3"))
		emit("http-then-grpc", cfg, []string{"gc", "hE", "g1", "gc", "hE", "w1", "gc", "hU3", "g1", "gc", "hG", "g1", "gc", "hE", "z1"})
		// compressed replies of every size around the capacities pooled buffers have: from fresh buffers, and growing
		var fresh, up, down []string
		for n := 0; n <= 150; n++ {
			up = append(up, fmt.Sprintf("z%d", n))
			down = append(down, fmt.Sprintf("z%d", 150-n))
			if n >= 20 && n <= 60 {
				fresh = append(fresh, "gc", fmt.Sprintf("z%d", n))
			}
		}
		emit("gzip-reply-sweep", cfg, up)
		emit("gzip-reply-sweep", cfg, down)
		emit("gzip-reply-sweep", cfg, fresh)
	}
	emit("over-limit-then-grpc", 0, []string{"hX", "g5", "hX", "w5", "hX", "z5"})
	n := 12
	if tier == "thorough" {
		n = 400
	}
	alphabet := []string{"hE", "hG", "hU1", "hU200", "g0", "g1", "g70", "g300", "z0", "z40", "z64", "z130", "w0", "w5", "w100", "gc"}
	for i := 0; i < n; i++ {
		steps := make([]string, 6+r.intn(20))
		for j := range steps {
			steps[j] = alphabet[r.intn(len(alphabet))]
		}
		emit("random", r.intn(4), steps)
	}
}

func init() {
	p := props["C09"]
	g, rn := p.gen, p.run
	props["C09"] = prop{
		gen: func(o *out, r *rng, tier string) { g(o, r, tier); c09qGen(o, r, tier) },
		run: func(o *out, in string) {
			if strings.HasPrefix(in, "C09Q") {
				c09qRun(o, in)
			} else {
				rn(o, in)
			}
		},
	}
}
