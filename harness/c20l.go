package main

import (
	"context"
	"errors"
	"fmt"
	"io"
	"net/http"
	"net/url"
	"sort"
	"strings"
	"time"

	"github.com/gobwas/ws"
	"google.golang.org/grpc/status"
	"larking.io/api/testpb"
)

// C20L: the same property on a real listener: larking.NewServer(mux, opts...) serving 127.0.0.1 with HTTP/1.1 and
// h2c, driven by net/http's client (no redirect following) or by a grpc-go client whose method string carries the
// mount prefix.
//
//   C20L <opts> <h1|grpc|ws> <kind> <hexpath> ; srv <status> <class> <arg> <eq> <rec>
//
// opts, kind, eq, rec as in C20 (kind is ignored for grpc). eq is computed against a second listener serving the bare
// mux (NewServer without options). For the gRPC client, status is the gRPC code, a net/http 404 / 301 is recognised
// by grpc-go's "unexpected HTTP status code" text, the redirect target is not visible (arg '-'), and class 'nf?' means
// an HTTP 404 that is either net/http's or the mux's own (grpc-go does not show the body).

type c20Loop struct {
	lb   *loopback
	hits *[]string
}

var c20loops = map[string]*c20Loop{}

func c20Loopback(spec string) *c20Loop {
	if l, ok := c20loops[spec]; ok {
		return l
	}
	e := c20Setup()
	hits := &[]string{}
	lb, err := newLoopback(e.mux, c20Opts(spec, hits)...)
	if err != nil {
		panic(err)
	}
	l := &c20Loop{lb: lb, hits: hits}
	c20loops[spec] = l
	return l
}

var c20client = &http.Client{
	CheckRedirect: func(*http.Request, []*http.Request) error { return http.ErrUseLastResponse },
	Timeout:       10 * time.Second,
}

// c20H1 sends the request of the given kind over HTTP/1.1 and renders everything the client sees.
func c20H1(base, kind, path string) (digest string, status int, loc string) {
	tmpl := c20Request(kind, path)
	u, _ := url.Parse(base)
	u.Path, u.RawQuery = path, tmpl.URL.RawQuery
	var body io.Reader
	if tmpl.Body != nil {
		body = tmpl.Body
	}
	req, err := http.NewRequest(tmpl.Method, u.String(), body)
	if err != nil {
		return "client error: " + err.Error(), 0, ""
	}
	for k, v := range tmpl.Header {
		req.Header[k] = v
	}
	res, err := c20client.Do(req)
	if err != nil {
		return "client error: " + err.Error(), 0, ""
	}
	defer res.Body.Close()
	b, _ := io.ReadAll(res.Body)
	var sb strings.Builder
	fmt.Fprintf(&sb, "%d\n", res.StatusCode)
	dump := func(h http.Header) {
		keys := make([]string, 0, len(h))
		for k := range h {
			if k != "Date" {
				keys = append(keys, k)
			}
		}
		sort.Strings(keys)
		for _, k := range keys {
			fmt.Fprintf(&sb, "%s=%q\n", k, h[k])
		}
	}
	dump(res.Header)
	sb.WriteString("--\n")
	dump(res.Trailer)
	sb.WriteString("--\n")
	sb.Write(b)
	return sb.String(), res.StatusCode, res.Header.Get("Location")
}

func c20GRPC(l *loopback, path string) (digest string, code int, msg string) {
	ctx, cancel := context.WithTimeout(context.Background(), 10*time.Second)
	defer cancel()
	out := &testpb.Message{}
	err := l.conn.Invoke(ctx, path, &testpb.GetMessageRequestOne{Name: "name/over-grpc"}, out)
	st, _ := status.FromError(err)
	return fmt.Sprintf("%d|%s|%s", st.Code(), st.Message(), msgText(out)), int(st.Code()), st.Message()
}

// c20WS upgrades to a WebSocket at path, sends one text frame and renders the handshake result and the reply frame.
func c20WS(base, path string) (digest string, status int) {
	ctx, cancel := context.WithTimeout(context.Background(), 10*time.Second)
	defer cancel()
	conn, br, _, err := ws.Dial(ctx, "ws"+strings.TrimPrefix(base, "http")+path)
	if err != nil {
		var se ws.StatusError
		if errors.As(err, &se) {
			return fmt.Sprintf("ws|handshake refused|%d", int(se)), int(se)
		}
		return "ws|handshake failed", 0
	}
	defer conn.Close()
	conn.SetDeadline(time.Now().Add(10 * time.Second))
	if err := ws.WriteFrame(conn, ws.MaskFrameInPlace(ws.NewTextFrame([]byte(`{"text":"hi"}`)))); err != nil {
		return "ws|101|write error", 101
	}
	var rd io.Reader = conn
	if br != nil {
		rd = br
	}
	fr, err := ws.ReadFrame(rd)
	reply := "read error"
	if err == nil {
		reply = fmt.Sprintf("%d:%s", fr.Header.OpCode, fr.Payload)
	}
	ws.WriteFrame(conn, ws.MaskFrameInPlace(ws.NewCloseFrame(ws.NewCloseFrameBody(ws.StatusNormalClosure, ""))))
	io.Copy(io.Discard, rd)
	return "ws|101|" + reply, 101
}

func c20lRun(o *out, input string) {
	f := strings.Fields(input)
	if len(f) != 5 {
		panic("bad C20L case: " + input)
	}
	e := c20Setup()
	spec, client, kind, path := f[1], f[2], f[3], string(unhx(f[4]))
	srv, bare := c20Loopback(spec), c20Loopback("-")
	call := func(l *c20Loop, p string) (digest string, status int, class, arg string) {
		*l.hits = nil
		e.svc.rec = nil
		class, arg = "mux", "-"
		if client == "grpc" {
			var msg string
			digest, status, msg = c20GRPC(l.lb, p)
			switch {
			case strings.Contains(msg, "unexpected HTTP status code received from server: 404"):
				class = "nf?" // net/http's 404 page or the mux's own text/plain 404 for an unknown method: grpc-go shows no body
			case strings.Contains(msg, "unexpected HTTP status code received from server: 301"):
				class = "redir"
			}
		} else if client == "ws" {
			digest, status = c20WS(l.lb.url, p)
			if status == 404 {
				class = "nf?" // the handshake answer's body is not shown by the client
			}
			for i := 0; i < 200 && status == 101 && len(e.svc.rec) == 0; i++ {
				time.Sleep(time.Millisecond) // the handler notes the message before it replies; belt and braces
			}
		} else {
			var loc string
			digest, status, loc = c20H1(l.lb.url, kind, p)
			switch {
			case status >= 300 && status < 400 && loc != "":
				if q := "?" + c20Query; kind == "getq" && strings.HasSuffix(loc, q) {
					loc = strings.TrimSuffix(loc, q)
				}
				class, arg = "redir", hx([]byte(loc))
			case status == 404 && strings.HasSuffix(digest, "--\n404 page not found\n"):
				class = "nf"
			}
		}
		if len(*l.hits) > 0 {
			class, arg = "extra", strings.Join(*l.hits, "&")
			if len(e.svc.rec) > 0 {
				class = "extra+mux"
			}
		}
		return
	}
	digest, status, class, arg := call(srv, path)
	srvRec := strings.Join(e.svc.rec, "\n")
	var eq []int
	if class == "mux" || class == "nf?" {
		for off := 0; off < len(path); off++ {
			if path[off] != '/' {
				continue
			}
			d2, _, _, _ := call(bare, path[off:])
			if d2 == digest && strings.Join(e.svc.rec, "\n") == srvRec {
				eq = append(eq, off)
			}
		}
	}
	rec := "-"
	if srvRec != "" {
		rec = hx([]byte(srvRec))
	}
	o.count("loopback-observed/" + client + "/" + class)
	o.emit(input, fmt.Sprintf("srv %d %s %s %s %s", status, class, arg, ints(eq), rec))
}

func c20lClose() {
	for k, l := range c20loops {
		l.lb.close()
		delete(c20loops, k)
	}
}

func c20lGen(o *out, r *rng, tier string) {
	defer c20lClose()
	configs := [][]string{
		{c20M("/", "/api/", "/pfx")},
		{c20M("/api")},
		{c20M("/twirp", "/twirp/v2")},
		{c20M("/api"), c20H("/metrics"), c20H("/debug/")},
		{c20H("/api"), c20M("/api", "/v1")},
	}
	n := 60
	if tier == "thorough" {
		n = 1500
	}
	h1kinds := map[string]bool{"get": true, "getq": true, "post": true, "patch": true, "twirp": true, "twirppb": true, "web": true, "webtext": true}
	for _, cfg := range configs {
		spec := strings.Join(cfg, "+")
		var ms []string
		for _, c := range cfg {
			for _, p := range strings.Split(c[2:], ",") {
				ms = append(ms, string(unhx(p)))
			}
		}
		pres := c20Prefixes(ms, r)
		emit := func(client, kind, path string) {
			o.count("loopback/" + client)
			c20lRun(o, fmt.Sprintf("C20L %s %s %s %s", spec, client, kind, hx([]byte(path))))
		}
		for _, pre := range pres[:1+2*len(ms)] { // no prefix, every mount / handler prefix and its 'x' near miss
			for _, g := range []string{"/larking.testpb.Messaging/GetMessageOne", "/larking.testpb.Messaging/Nope", "/larking.testpb.Nope/X"} {
				emit("grpc", "grpc", pre+g)
			}
			emit("h1", "get", pre+"/v1/messages/name/123")
			emit("h1", "twirp", pre+"/larking.testpb.Messaging/GetMessageOne")
			emit("ws", "ws", pre+"/v1/rooms/r1")
			emit("ws", "ws", pre+"/v1/rooms")
			if pre != "" {
				emit("h1", "get", pre)
				emit("grpc", "grpc", pre)
			}
		}
		for i := 0; i < n; i++ {
			b := c20Base[r.intn(len(c20Base))]
			path := pres[r.intn(len(pres))] + b.path
			if strings.Contains(path, " ") || strings.Contains(path, "%") {
				continue
			}
			if r.intn(10) == 0 {
				path = c20Unclean(path, r)
			}
			if h1kinds[b.kind] && r.intn(3) != 0 {
				emit("h1", b.kind, path)
			} else {
				emit("grpc", "grpc", path)
			}
		}
	}
}
