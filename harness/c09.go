package main

import (
	"bufio"
	"bytes"
	"compress/gzip"
	"context"
	"encoding/base64"
	"encoding/binary"
	"fmt"
	"io"
	"log"
	"net"
	"net/http"
	"net/http/httptest"
	"net/textproto"
	"net/url"
	"reflect"
	"runtime/debug"
	"sort"
	"strconv"
	"strings"
	"sync"
	"time"

	"google.golang.org/grpc"
	"google.golang.org/grpc/codes"
	"google.golang.org/grpc/credentials/insecure"
	"google.golang.org/grpc/health"
	healthpb "google.golang.org/grpc/health/grpc_health_v1"
	"google.golang.org/grpc/metadata"
	"google.golang.org/grpc/reflection"
	"google.golang.org/grpc/stats"
	"google.golang.org/grpc/status"
	"google.golang.org/protobuf/proto"
	"google.golang.org/protobuf/reflect/protoreflect"
	"google.golang.org/protobuf/types/descriptorpb"
	"google.golang.org/protobuf/types/dynamicpb"
	"google.golang.org/protobuf/types/known/anypb"
	"google.golang.org/protobuf/types/known/wrapperspb"
	"larking.io/api/testpb"
	"larking.io/larking"
)

// C09: robustness. Hostile requests on the four entry paths of Mux.ServeHTTP, on a rich mux built
// in the four option combinations {interceptors, stats handler} on/off. Every call runs under
// recover() and a watchdog.
//
//   C09 <cfg 0..3> <via rec|loop> <major> <method hex> <path hex> <rawquery hex> <headers> <body hex> <cl a|u|z> <rd 0|1|2>
//      ; ok <status> <grpc-status|-> <resp content-type hex> <reached -|http|grpc|ws> <frames -|ok|bad> <known 0|1>
//      | panic <where> | hang <where>
//
// headers: hexkey=hexval|hexval;...   ("-" = none); keys are canonical MIME header names.
// via=rec: httptest recorder, the request struct is built by hand (path and query are whatever the
// case says: what a server hands over after percent-decoding). via=loop: the bytes are written to
// a loopback HTTP/1.1 server (needed for a WebSocket upgrade); body = the bytes sent after the
// request head (frames after a handshake).
// cl: ContentLength = len(body) | -1 (unknown) | 0 (claims no body); rd: the body reader returns
// everything at once | one byte per Read | the last bytes together with io.EOF.

const c09Pkg = "verif.c09"
const c09Watchdog = 3 * time.Second

// ---------- the mux ----------

type c09Obs struct {
	mu      sync.Mutex
	reached string
}

func (o *c09Obs) reach(s string) {
	o.mu.Lock()
	if o.reached == "" {
		o.reached = s
	}
	o.mu.Unlock()
}

var c09cur = &c09Obs{}
var c09curMu sync.Mutex

func c09Current() *c09Obs {
	c09curMu.Lock()
	defer c09curMu.Unlock()
	return c09cur
}

type c09Env struct {
	mux     [5]*larking.Mux // 0..3: the rich mux in its option combinations; 4: a mux on which nothing was ever registered
	methods map[string]bool // "/pkg.Svc/Method" registered
	rules   []string        // "VERB template body" of every rule, for the record
	loop    [5]*c09Loop
	fdDyn   protoreflect.FileDescriptor
}

var c09env *c09Env

func c09F(name string, num int32, typ descriptorpb.FieldDescriptorProto_Type, typeName string, repeated bool) *descriptorpb.FieldDescriptorProto {
	f := &descriptorpb.FieldDescriptorProto{Name: proto.String(name), Number: proto.Int32(num), Type: typ.Enum(),
		Label: descriptorpb.FieldDescriptorProto_LABEL_OPTIONAL.Enum()}
	if repeated {
		f.Label = descriptorpb.FieldDescriptorProto_LABEL_REPEATED.Enum()
	}
	if typeName != "" {
		f.TypeName = proto.String(typeName)
	}
	return f
}

func c09File() dynFile {
	const (
		tBool   = descriptorpb.FieldDescriptorProto_TYPE_BOOL
		tInt32  = descriptorpb.FieldDescriptorProto_TYPE_INT32
		tInt64  = descriptorpb.FieldDescriptorProto_TYPE_INT64
		tUint32 = descriptorpb.FieldDescriptorProto_TYPE_UINT32
		tDouble = descriptorpb.FieldDescriptorProto_TYPE_DOUBLE
		tString = descriptorpb.FieldDescriptorProto_TYPE_STRING
		tBytes  = descriptorpb.FieldDescriptorProto_TYPE_BYTES
		tEnum   = descriptorpb.FieldDescriptorProto_TYPE_ENUM
		tMsg    = descriptorpb.FieldDescriptorProto_TYPE_MESSAGE
	)
	req, sub := "."+c09Pkg+".Req", "."+c09Pkg+".Sub"
	entry := &descriptorpb.DescriptorProto{
		Name:    proto.String("LabelsEntry"),
		Field:   []*descriptorpb.FieldDescriptorProto{c09F("key", 1, tString, "", false), c09F("value", 2, tString, "", false)},
		Options: &descriptorpb.MessageOptions{MapEntry: proto.Bool(true)},
	}
	msgs := []*descriptorpb.DescriptorProto{
		{Name: proto.String("Sub"), Field: []*descriptorpb.FieldDescriptorProto{
			c09F("text", 1, tString, "", false), c09F("num", 2, tInt32, "", false),
			c09F("child", 3, tMsg, sub, false), c09F("nums", 4, tInt32, "", true),
		}},
		{Name: proto.String("Req"), NestedType: []*descriptorpb.DescriptorProto{entry}, Field: []*descriptorpb.FieldDescriptorProto{
			c09F("name", 1, tString, "", false), c09F("i32", 2, tInt32, "", false), c09F("flag", 3, tBool, "", false),
			c09F("kind", 4, tEnum, "."+c09Pkg+".Kind", false), c09F("data", 5, tBytes, "", false),
			c09F("ts", 6, tMsg, ".google.protobuf.Timestamp", false), c09F("tags", 7, tString, "", true),
			c09F("labels", 8, tMsg, req+".LabelsEntry", true), c09F("sub", 9, tMsg, sub, false),
			c09F("subs", 10, tMsg, sub, true), c09F("i64", 11, tInt64, "", false), c09F("u32", 12, tUint32, "", false),
			c09F("dbl", 13, tDouble, "", false), c09F("wrapped", 14, tMsg, ".google.protobuf.Int64Value", false),
			c09F("mask", 15, tMsg, ".google.protobuf.FieldMask", false), c09F("blob", 16, tMsg, ".google.api.HttpBody", false),
			c09F("dur", 17, tMsg, ".google.protobuf.Duration", false), c09F("any_struct", 18, tMsg, ".google.protobuf.Struct", false),
		}},
	}
	enums := []*descriptorpb.EnumDescriptorProto{{Name: proto.String("Kind"), Value: []*descriptorpb.EnumValueDescriptorProto{
		{Name: proto.String("KIND_UNSPECIFIED"), Number: proto.Int32(0)}, {Name: proto.String("KIND_AA"), Number: proto.Int32(1)},
		{Name: proto.String("KIND_BB"), Number: proto.Int32(2)},
	}}}
	R, B := c09Pkg+".Req", "google.api.HttpBody"
	ms := []dynMethod{
		{Name: "GetMulti", In: R, Out: R, Rule: &dynRule{Verb: "GET", Tmpl: "/c09/multi/{name=**}"}},
		{Name: "GetDeep", In: R, Out: R, Rule: &dynRule{Verb: "GET", Tmpl: "/c09/deep/{name=aa/*/bb/**}:get"}},
		{Name: "GetMid", In: R, Out: R, Rule: &dynRule{Verb: "GET", Tmpl: "/c09/mid/{name=aa/*}/tail/{sub.text}"}},
		{Name: "GetI32", In: R, Out: R, Rule: &dynRule{Verb: "GET", Tmpl: "/c09/i32/{i32}"}},
		{Name: "GetFlag", In: R, Out: R, Rule: &dynRule{Verb: "GET", Tmpl: "/c09/flag/{flag}"}},
		{Name: "GetKind", In: R, Out: R, Rule: &dynRule{Verb: "GET", Tmpl: "/c09/kind/{kind}"}},
		{Name: "GetData", In: R, Out: R, Rule: &dynRule{Verb: "GET", Tmpl: "/c09/data/{data}"}},
		{Name: "GetTs", In: R, Out: R, Rule: &dynRule{Verb: "GET", Tmpl: "/c09/ts/{ts}"}},
		{Name: "GetWrapped", In: R, Out: R, Rule: &dynRule{Verb: "GET", Tmpl: "/c09/wrapped/{wrapped}/{mask}/{dur}"}},
		{Name: "GetSub", In: R, Out: R, Rule: &dynRule{Verb: "GET", Tmpl: "/c09/sub/{sub.text}/{sub.child.num}"}},
		{Name: "PostStar", In: R, Out: R, Rule: &dynRule{Verb: "POST", Tmpl: "/c09/star", Body: "*",
			Additional: []dynRule{{Verb: "PUT", Tmpl: "/c09/star/{name}", Body: "*"}, {Verb: "DELETE", Tmpl: "/c09/star/{name}"}}}},
		{Name: "PostSub", In: R, Out: R, Rule: &dynRule{Verb: "POST", Tmpl: "/c09/field/{name}", Body: "sub"}},
		{Name: "PostNone", In: R, Out: R, Rule: &dynRule{Verb: "POST", Tmpl: "/c09/none/{name}"}},
		{Name: "RespBody", In: R, Out: R, Rule: &dynRule{Verb: "GET", Tmpl: "/c09/resp/{name}", RespBody: "sub"}},
		{Name: "PutBlob", In: R, Out: B, Rule: &dynRule{Verb: "PUT", Tmpl: "/c09/blob/{name}", Body: "blob"}},
		{Name: "GetBlob", In: R, Out: B, Rule: &dynRule{Verb: "GET", Tmpl: "/c09/getblob/{name}"}},
		{Name: "Custom", In: R, Out: R, Rule: &dynRule{Verb: "*", Tmpl: "/c09/any/{name}", Body: "*"}},
		{Name: "ServerStream", In: R, Out: R, ServerStream: true, Rule: &dynRule{Verb: "GET", Tmpl: "/c09/sstream/{name}"}},
		{Name: "ClientStream", In: R, Out: R, ClientStream: true, Rule: &dynRule{Verb: "POST", Tmpl: "/c09/cstream", Body: "*"}},
		{Name: "Bidi", In: R, Out: R, ClientStream: true, ServerStream: true, Rule: &dynRule{Verb: "POST", Tmpl: "/c09/bidi", Body: "*",
			Additional: []dynRule{{Verb: "WEBSOCKET", Tmpl: "/c09/ws/{name}", Body: "*"}, {Verb: "WEBSOCKET", Tmpl: "/c09/wsq/{name}"}}}},
		{Name: "Upload", In: R, Out: B, ClientStream: true, ServerStream: true, Rule: &dynRule{Verb: "POST", Tmpl: "/c09/upload/{name}", Body: "blob"}},
		{Name: "Plain", In: R, Out: R},
	}
	return dynFile{Path: "verif/c09.proto", Pkg: c09Pkg, Msgs: msgs, Enums: enums, Services: []dynService{{Name: "Rsvc", Methods: ms}}}
}

func c09StreamKind(v interface{}) string {
	t := fmt.Sprintf("%T", v)
	switch {
	case strings.HasSuffix(t, "streamHTTP"):
		return "http"
	case strings.HasSuffix(t, "streamGRPC"):
		return "grpc"
	case strings.HasSuffix(t, "streamWS"):
		return "ws"
	}
	return "other:" + t
}

// the stream behind a unary handler's context
func c09CtxKind(ctx context.Context) string {
	sts := grpc.ServerTransportStreamFromContext(ctx)
	if sts == nil {
		return "other:nil"
	}
	v := reflect.ValueOf(sts)
	if v.Kind() == reflect.Ptr && v.Elem().Kind() == reflect.Struct && v.Elem().NumField() > 0 {
		f := v.Elem().Field(0)
		if f.Kind() == reflect.Interface && !f.IsNil() {
			return c09StreamKind(f.Elem().Interface())
		}
	}
	return "other:" + fmt.Sprintf("%T", sts)
}

// what the services do: echo, fail on request, bounded loops only
func c09Fail(ctx context.Context) error {
	md, _ := metadata.FromIncomingContext(ctx)
	if v := md.Get("x-c09-fail"); len(v) > 0 {
		c, err := strconv.ParseUint(v[0], 10, 32)
		if err == nil {
			// a handler that echoes request data in its error text (header values are not
			// checked for UTF-8 by anyone) and may attach details
			msg := "requested failure"
			if m := md.Get("x-c09-msg"); len(m) > 0 && len(m[0]) < 4096 {
				msg = m[0]
			}
			st := status.New(codes.Code(c), msg)
			if d := md.Get("x-c09-detail"); len(d) > 0 && c != 0 {
				var detail proto.Message = wrapperspb.String("detail")
				if d[0] == "2" && c09env != nil { // a type protoregistry.GlobalTypes does not know
					sub := dynamicpb.NewMessage(c09env.fdDyn.Messages().ByName("Sub"))
					sub.Set(sub.Descriptor().Fields().ByName("text"), protoreflect.ValueOfString("dd"))
					detail = sub
				}
				if a, err := anypb.New(detail); err == nil {
					p := st.Proto()
					p.Details = append(p.Details, a)
					st = status.FromProto(p)
				}
			}
			return st.Err()
		}
	}
	return nil
}

func isValidUTF8(s string) bool { return strings.ToValidUTF8(s, "") == s }

func c09Reply(req proto.Message, out protoreflect.MessageDescriptor) proto.Message {
	if req != nil && req.ProtoReflect().Descriptor() == out {
		return req
	}
	m := dynamicpb.NewMessage(out)
	fds := out.Fields()
	for i := 0; i < fds.Len(); i++ {
		fd := fds.Get(i)
		if fd.IsList() || fd.IsMap() {
			continue
		}
		switch fd.Kind() {
		case protoreflect.StringKind:
			m.Set(fd, protoreflect.ValueOfString("text/plain"))
		case protoreflect.BytesKind:
			m.Set(fd, protoreflect.ValueOfBytes([]byte("reply-bytes")))
		}
	}
	return m
}

func c09Impl() *dynImpl {
	return &dynImpl{
		Unary: func(ctx context.Context, method string, req proto.Message, out protoreflect.MessageDescriptor) (proto.Message, error) {
			c09Current().reach(c09CtxKind(ctx))
			grpc.SetHeader(ctx, metadata.Pairs("x-c09-h", "h", "x-c09-h-bin", "\x00\xff"))
			grpc.SetTrailer(ctx, metadata.Pairs("x-c09-t", "t"))
			if err := c09Fail(ctx); err != nil {
				return nil, err
			}
			return c09Reply(req, out), nil
		},
		Stream: func(method string, in, out protoreflect.MessageDescriptor, ss grpc.ServerStream) error {
			c09Current().reach(c09StreamKind(ss))
			ss.SetTrailer(metadata.Pairs("x-c09-t", "t"))
			var last proto.Message
			n := 0
			for ; ; n++ { // until the request stream ends, as a handler does
				m := dynamicpb.NewMessage(in)
				if err := ss.RecvMsg(m); err != nil {
					if err != io.EOF {
						return err
					}
					break
				}
				last = m
				if n > 1000000 {
					// no request carries a million messages: RecvMsg keeps succeeding without a client behind it.
					// Park instead of spinning; the watchdog reports the request as hung.
					select {}
				}
			}
			if err := c09Fail(ss.Context()); err != nil {
				return err
			}
			for i := 0; i < 2 && i <= n && n < 7; i++ {
				if err := ss.SendMsg(c09Reply(last, out)); err != nil {
					return err
				}
			}
			return nil
		},
	}
}

type c09Stats struct{ n int64 }

func (h *c09Stats) TagRPC(ctx context.Context, _ *stats.RPCTagInfo) context.Context { return ctx }
func (h *c09Stats) HandleRPC(_ context.Context, s stats.RPCStats) {
	switch e := s.(type) {
	case *stats.InPayload:
		h.n += int64(e.Length + e.WireLength)
	case *stats.OutPayload:
		h.n += int64(e.Length + e.WireLength)
	case *stats.InHeader:
		h.n += int64(len(e.Header))
	case *stats.End:
		if e.Error != nil {
			h.n++
		}
	}
}
func (h *c09Stats) TagConn(ctx context.Context, _ *stats.ConnTagInfo) context.Context { return ctx }
func (h *c09Stats) HandleConn(context.Context, stats.ConnStats)                       {}

// a registered codec that is not a StreamCodec (no ReadNext / WriteNext): streaming methods must refuse it, not crash
type c09PlainCodec struct{}

func (c09PlainCodec) Marshal(v interface{}) ([]byte, error) { return proto.Marshal(v.(proto.Message)) }
func (c09PlainCodec) MarshalAppend(b []byte, v interface{}) ([]byte, error) {
	return proto.MarshalOptions{}.MarshalAppend(b, v.(proto.Message))
}
func (c09PlainCodec) Unmarshal(data []byte, v interface{}) error {
	return proto.Unmarshal(data, v.(proto.Message))
}
func (c09PlainCodec) Name() string { return "c09plain" }

const c09PlainType = "application/x-c09-plain"

func c09Setup() *c09Env {
	if c09env != nil {
		return c09env
	}
	e := &c09Env{methods: map[string]bool{}}
	fd, err := c09File().build()
	if err != nil {
		panic(err)
	}
	e.fdDyn = fd
	fds := []protoreflect.FileDescriptor{testpb.File_larking_api_test_proto, fd}
	for cfg := 0; cfg < 4; cfg++ {
		var opts []larking.MuxOption
		if cfg&1 != 0 {
			opts = append(opts,
				larking.UnaryServerInterceptorOption(func(ctx context.Context, req interface{}, info *grpc.UnaryServerInfo, h grpc.UnaryHandler) (interface{}, error) {
					return h(ctx, req)
				}),
				larking.StreamServerInterceptorOption(func(srv interface{}, ss grpc.ServerStream, info *grpc.StreamServerInfo, h grpc.StreamHandler) error {
					return h(srv, ss)
				}))
		}
		if cfg&2 != 0 {
			opts = append(opts, larking.StatsOption(&c09Stats{}))
		}
		opts = append(opts, larking.CodecOption(c09PlainType, c09PlainCodec{}))
		m, err := dynMux(fds, c09Impl(), opts...)
		if err != nil {
			panic(fmt.Sprintf("C09 mux does not register: %v", err))
		}
		e.mux[cfg] = m
	}
	if e.mux[4], err = larking.NewMux(); err != nil {
		panic(err)
	}
	// history: a proxied backend (grpc-go health service + reflection) is registered on every mux and
	// dropped again; its methods must then be unknown methods, not a crash
	bsrv := grpc.NewServer()
	healthpb.RegisterHealthServer(bsrv, health.NewServer())
	reflection.Register(bsrv)
	blis, err := net.Listen("tcp", "127.0.0.1:0")
	if err != nil {
		panic(err)
	}
	go bsrv.Serve(blis)
	bcc, err := grpc.Dial(blis.Addr().String(), grpc.WithTransportCredentials(insecure.NewCredentials()))
	if err != nil {
		panic(err)
	}
	for cfg := 0; cfg < 4; cfg++ {
		ctx, cancel := context.WithTimeout(context.Background(), 10*time.Second)
		if err := e.mux[cfg].RegisterConn(ctx, bcc); err != nil {
			panic("C09 RegisterConn: " + err.Error())
		}
		cancel()
		if !e.mux[cfg].DropConn(context.Background(), bcc) {
			panic("C09 DropConn: the backend was not registered")
		}
	}
	bcc.Close()
	bsrv.Stop()
	for _, f := range fds {
		sds := f.Services()
		for i := 0; i < sds.Len(); i++ {
			mds := sds.Get(i).Methods()
			for j := 0; j < mds.Len(); j++ {
				e.methods["/"+string(sds.Get(i).FullName())+"/"+string(mds.Get(j).Name())] = true
			}
		}
	}
	c09env = e
	return e
}

// ---------- running one case ----------

type c09Case struct {
	cfg    int
	via    string
	major  int
	method string
	path   string
	query  string
	hdr    [][2]string // key, value in order (keys canonical)
	body   []byte
	cl     string
	rd     int
}

func (c c09Case) line() string {
	var hs []string
	seen := map[string]int{}
	for _, kv := range c.hdr {
		if i, ok := seen[kv[0]]; ok {
			hs[i] += "|" + hx([]byte(kv[1]))[1:]
			continue
		}
		seen[kv[0]] = len(hs)
		hs = append(hs, hx([]byte(kv[0]))[1:]+"="+hx([]byte(kv[1]))[1:])
	}
	h := "-"
	if len(hs) > 0 {
		h = strings.Join(hs, ";")
	}
	return fmt.Sprintf("C09 %d %s %d %s %s %s %s %s %s %d", c.cfg, c.via, c.major, hx([]byte(c.method)), hx([]byte(c.path)),
		hx([]byte(c.query)), h, hx(c.body), c.cl, c.rd)
}

func c09Parse(input string) (c c09Case, err error) {
	defer func() {
		if p := recover(); p != nil {
			err = fmt.Errorf("bad C09 case: %v", p)
		}
	}()
	f := strings.Fields(input)
	if len(f) != 11 || f[0] != "C09" {
		return c, fmt.Errorf("bad C09 case: %d fields", len(f))
	}
	c.cfg, c.via, c.major = atoi(f[1])&3, f[2], atoi(f[3])
	c.method, c.path, c.query = string(unhx(f[4])), string(unhx(f[5])), string(unhx(f[6]))
	if f[7] != "-" {
		for _, p := range strings.Split(f[7], ";") {
			k, vs, _ := strings.Cut(p, "=")
			for _, v := range strings.Split(vs, "|") {
				c.hdr = append(c.hdr, [2]string{string(unhx("x" + k)), string(unhx("x" + v))})
			}
		}
	}
	c.body, c.cl, c.rd = unhx(f[8]), f[9], atoi(f[10])
	return c, nil
}

type c09Reader struct {
	b    []byte
	mode int
}

func (r *c09Reader) Read(p []byte) (int, error) {
	if len(r.b) == 0 {
		return 0, io.EOF
	}
	if len(p) == 0 {
		return 0, nil
	}
	n := len(p)
	if r.mode == 1 {
		n = 1
	}
	if n > len(r.b) {
		n = len(r.b)
	}
	copy(p, r.b[:n])
	r.b = r.b[n:]
	if r.mode == 2 && len(r.b) == 0 {
		return n, io.EOF
	}
	return n, nil
}
func (r *c09Reader) Close() error { return nil }

// where a panic came from: first frame below the panic and the first larking frame
func c09Where(stack []byte) string {
	lines := strings.Split(string(stack), "\n")
	first, lark := "", ""
	after := false
	for _, l := range lines {
		if strings.HasPrefix(l, "\t") || l == "" {
			continue
		}
		fn := l
		if i := strings.LastIndex(fn, "("); i > 0 {
			fn = fn[:i]
		}
		if strings.HasPrefix(fn, "panic") {
			after = true
			continue
		}
		if !after || strings.HasPrefix(fn, "runtime.") {
			continue
		}
		if first == "" {
			first = fn
		}
		if lark == "" && strings.HasPrefix(fn, "larking.io/larking.") {
			lark = fn
			break
		}
	}
	s := first
	if lark != "" && lark != first {
		s += "@" + lark
	}
	if s == "" {
		s = "unknown"
	}
	return strings.ReplaceAll(s, " ", "")
}

func c09PanicText(p interface{}) string {
	s := fmt.Sprint(p)
	if len(s) > 60 {
		s = s[:60]
	}
	var b strings.Builder
	for _, r := range s {
		if r > ' ' && r < 127 && r != ';' {
			b.WriteRune(r)
		} else {
			b.WriteByte('_')
		}
	}
	return b.String()
}

func c09Run(o *out, input string) {
	c, err := c09Parse(input)
	if err != nil {
		o.emit(input, "bad-case")
		return
	}
	o.emit(c.line(), c09Exec(c))
}

func c09Exec(c c09Case) string {
	e := c09Setup()
	obs := &c09Obs{}
	c09curMu.Lock()
	c09cur = obs
	c09curMu.Unlock()
	known := b2i(e.methods[c.path] && c.cfg < 4)
	if c.via == "loop" {
		return c09ExecLoop(e, c, obs, known)
	}
	hdr := http.Header{}
	for _, kv := range c.hdr {
		hdr[kv[0]] = append(hdr[kv[0]], kv[1])
	}
	r := &http.Request{
		Method: c.method, URL: &url.URL{Path: c.path, RawQuery: c.query}, Header: hdr,
		Proto: fmt.Sprintf("HTTP/%d.%d", c.major, b2i(c.major == 1)), ProtoMajor: c.major, ProtoMinor: b2i(c.major == 1),
		Host: "c09.test", RemoteAddr: "127.0.0.1:9", RequestURI: c.path,
	}
	switch c.cl {
	case "u":
		r.ContentLength = -1
	case "z":
		r.ContentLength = 0
	default:
		r.ContentLength = int64(len(c.body))
	}
	r.Body = &c09Reader{b: append([]byte(nil), c.body...), mode: c.rd}
	ctx, cancel := context.WithCancel(context.Background())
	defer cancel()
	r = r.WithContext(ctx)
	w := httptest.NewRecorder()
	type res struct {
		panicked string
	}
	done := make(chan res, 1)
	go func() {
		var rs res
		defer func() {
			if p := recover(); p != nil {
				rs.panicked = c09Where(debug.Stack()) + ":" + c09PanicText(p)
			}
			done <- rs
		}()
		e.mux[c.cfg].ServeHTTP(w, r)
	}()
	select {
	case rs := <-done:
		if rs.panicked != "" {
			return "panic " + rs.panicked
		}
	case <-time.After(c09Watchdog):
		return "hang ServeHTTP"
	}
	resp := w.Result()
	body, _ := io.ReadAll(resp.Body)
	gs := resp.Trailer.Get("Grpc-Status")
	if gs == "" {
		gs = resp.Header.Get("Grpc-Status")
	}
	ct := resp.Header.Get("Content-Type")
	frames := "-"
	if strings.HasPrefix(ct, "application/grpc-web") {
		var g2 string
		frames, g2 = c09Frames(ct, body)
		if gs == "" {
			gs = g2
		}
	}
	return c09Ok(w.Code, gs, ct, obs, frames, known)
}

func c09Ok(code int, gs, ct string, obs *c09Obs, frames string, known int) string {
	if gs == "" {
		gs = "-"
	}
	gs = strings.Map(func(r rune) rune {
		if r <= ' ' || r > '~' || r == ';' {
			return '_'
		}
		return r
	}, gs)
	obs.mu.Lock()
	reached := obs.reached
	obs.mu.Unlock()
	if reached == "" {
		reached = "-"
	}
	return fmt.Sprintf("ok %d %s %s %s %s %d", code, gs, hx([]byte(ct)), reached, frames, known)
}

// c09Frames parses a gRPC-web response body: data frames followed by exactly one trailer frame.
func c09Frames(ct string, body []byte) (frames string, gs string) {
	if len(body) == 0 {
		return "-", ""
	}
	if strings.HasPrefix(ct, "application/grpc-web-text") {
		dec, err := base64.StdEncoding.DecodeString(string(body))
		if err != nil {
			return "bad", ""
		}
		body = dec
	}
	sawTrailer := false
	for len(body) > 0 {
		if len(body) < 5 || sawTrailer {
			return "bad", gs
		}
		flag := body[0]
		n := int(binary.BigEndian.Uint32(body[1:5]))
		if n > len(body)-5 {
			return "bad", gs
		}
		payload := body[5 : 5+n]
		body = body[5+n:]
		if flag&0x80 != 0 {
			sawTrailer = true
			tp := textproto.NewReader(bufio.NewReader(bytes.NewReader(append(append([]byte{}, payload...), '\r', '\n'))))
			h, err := tp.ReadMIMEHeader()
			if err != nil {
				return "bad", gs
			}
			gs = h.Get("Grpc-Status")
		}
	}
	if !sawTrailer {
		return "bad", gs
	}
	return "ok", gs
}

// ---------- loopback (HTTP/1.1 over TCP; WebSocket upgrades) ----------

type c09Loop struct {
	lis  net.Listener
	srv  *http.Server
	mu   sync.Mutex
	pan  string
	done chan struct{}
}

func (l *c09Loop) ServeHTTP(w http.ResponseWriter, r *http.Request, m *larking.Mux) {
	l.mu.Lock()
	done := l.done
	l.mu.Unlock()
	defer func() {
		if p := recover(); p != nil {
			l.mu.Lock()
			if l.pan == "" {
				l.pan = c09Where(debug.Stack()) + ":" + c09PanicText(p)
			}
			l.mu.Unlock()
		}
		if done != nil {
			select {
			case done <- struct{}{}:
			default:
			}
		}
	}()
	m.ServeHTTP(w, r)
}

func c09GetLoop(e *c09Env, cfg int) *c09Loop {
	if e.loop[cfg] != nil {
		return e.loop[cfg]
	}
	l := &c09Loop{}
	lis, err := net.Listen("tcp", "127.0.0.1:0")
	if err != nil {
		panic(err)
	}
	l.lis = lis
	m := e.mux[cfg]
	l.srv = &http.Server{Handler: http.HandlerFunc(func(w http.ResponseWriter, r *http.Request) { l.ServeHTTP(w, r, m) }),
		ErrorLog: log.New(io.Discard, "", 0), ReadHeaderTimeout: 2 * time.Second}
	go l.srv.Serve(lis)
	e.loop[cfg] = l
	return l
}

func c09ExecLoop(e *c09Env, c c09Case, obs *c09Obs, known int) string {
	l := c09GetLoop(e, c.cfg)
	done := make(chan struct{}, 4)
	l.mu.Lock()
	l.pan, l.done = "", done
	l.mu.Unlock()
	conn, err := net.DialTimeout("tcp", l.lis.Addr().String(), 2*time.Second)
	if err != nil {
		return "ok 0 - x - - " + strconv.Itoa(known)
	}
	defer conn.Close()
	var head bytes.Buffer
	target := c.path
	if c.query != "" {
		target += "?" + c.query
	}
	fmt.Fprintf(&head, "%s %s HTTP/1.1\r\nHost: c09.test\r\n", c.method, target)
	for _, kv := range c.hdr {
		fmt.Fprintf(&head, "%s: %s\r\n", kv[0], kv[1])
	}
	head.WriteString("\r\n")
	conn.SetDeadline(time.Now().Add(c09Watchdog))
	conn.Write(head.Bytes())
	br := bufio.NewReader(conn)
	code, ct := 0, ""
	tp := textproto.NewReader(br)
	if line, err := tp.ReadLine(); err == nil {
		f := strings.Fields(line)
		if len(f) >= 2 {
			code, _ = strconv.Atoi(f[1])
		}
		if h, err := tp.ReadMIMEHeader(); err == nil || h != nil {
			ct = h.Get("Content-Type")
		}
	}
	// whatever the handshake said, the rest of the case's bytes follow; then the client goes away
	if len(c.body) > 0 {
		conn.Write(c.body)
	}
	if code == 101 {
		// read what the server sends until it closes; a client that has said everything it had to
		// say leaves after a short while, and the handler must then return
		conn.SetReadDeadline(time.Now().Add(150 * time.Millisecond))
		io.Copy(io.Discard, br)
	}
	conn.Close()
	handlerRan := code != 400 || ct != "text/plain; charset=utf-8" // net/http refuses malformed heads itself
	if handlerRan && code != 0 {
		select {
		case <-done:
		case <-time.After(c09Watchdog):
			return "hang handler-after-client-close"
		}
	} else {
		select { // net/http answered by itself as far as one can tell; give a handler that did run time to finish
		case <-done:
		case <-time.After(100 * time.Millisecond):
		}
	}
	l.mu.Lock()
	pan := l.pan
	l.done = nil
	l.mu.Unlock()
	if pan != "" {
		return "panic " + pan
	}
	if code == 0 {
		// connection closed without a response: net/http does that after a handler panic; none was seen
		code = 1
	}
	return c09Ok(code, "", ct, obs, "-", known)
}

// ---------- generation ----------

func c09Frame(flag byte, payload []byte) []byte {
	b := make([]byte, 5+len(payload))
	b[0] = flag
	binary.BigEndian.PutUint32(b[1:], uint32(len(payload)))
	copy(b[5:], payload)
	return b
}

func c09Gzip(b []byte) []byte {
	var buf bytes.Buffer
	z := gzip.NewWriter(&buf)
	z.Write(b)
	z.Close()
	return buf.Bytes()
}

// a valid request message of the dynamic schema / of testpb, in JSON and protobuf
var c09JSON = []string{
	`{}`, `{"name":"nn","i32":7,"flag":true,"kind":"KIND_AA","data":"AAEC","ts":"2020-01-02T03:04:05Z","tags":["a","b"],"labels":{"k":"v"},"sub":{"text":"t","num":3,"child":{"text":"c","nums":[1,2]}},"subs":[{"text":"x"}],"i64":"9","u32":4,"dbl":1.5,"wrapped":"12","mask":"a,b","dur":"3s","anyStruct":{"a":[1,{"b":null}]}}`,
	`{"text":"hello","messageId":"m1"}`, `{"name":"shelves/1/books/2","title":"tt"}`, `{"sub":{"text":"only"}}`,
}

var c09protoMsgs [][]byte

func c09ProtoMsgs(e *c09Env) [][]byte {
	if c09protoMsgs != nil {
		return c09protoMsgs
	}
	md := e.fdDyn.Messages().ByName("Req")
	m := dynamicpb.NewMessage(md)
	m.Set(md.Fields().ByName("name"), protoreflect.ValueOfString("nn"))
	m.Set(md.Fields().ByName("i32"), protoreflect.ValueOfInt32(7))
	sub := m.Mutable(md.Fields().ByName("sub")).Message()
	sub.Set(sub.Descriptor().Fields().ByName("text"), protoreflect.ValueOfString("tt"))
	det := proto.MarshalOptions{Deterministic: true} // dynamicpb ranges over a Go map otherwise
	b1, _ := det.Marshal(m)
	b2, _ := det.Marshal(&testpb.Message{Text: "hello", MessageId: "m1"})
	c09protoMsgs = [][]byte{nil, b1, b2}
	return c09protoMsgs
}

var c09HTTPBase = []struct{ method, path, query, ct, body string }{
	{"GET", "/c09/multi/aa/bb/cc", "i32=1", "", ""},
	{"GET", "/c09/deep/aa/x/bb/y/z:get", "", "", ""},
	{"GET", "/c09/mid/aa/x/tail/tt", "sub.num=2", "", ""},
	{"GET", "/c09/i32/42", "", "", ""},
	{"GET", "/c09/flag/true", "tags=a&tags=b", "", ""},
	{"GET", "/c09/kind/KIND_AA", "", "", ""},
	{"GET", "/c09/data/AAEC", "", "", ""},
	{"GET", "/c09/ts/2020-01-02T03:04:05Z", "", "", ""},
	{"GET", "/c09/wrapped/12/a,b/3s", "", "", ""},
	{"GET", "/c09/sub/tt/5", "sub.child.text=x&sub.nums=1&sub.nums=2", "", ""},
	{"POST", "/c09/star", "", "application/json", "J1"},
	{"PUT", "/c09/star/nn", "", "application/protobuf", "P1"},
	{"DELETE", "/c09/star/nn", "", "", ""},
	{"POST", "/c09/field/nn", "", "application/json", `{"text":"tt","num":1}`},
	{"POST", "/c09/none/nn", "flag=true", "", ""},
	{"GET", "/c09/resp/nn", "sub.text=abc", "", ""},
	{"PUT", "/c09/blob/nn", "", "image/png", "\x89PNG\x00\x01\x02"},
	{"GET", "/c09/getblob/nn", "", "", ""},
	{"PATCH", "/c09/any/nn", "", "application/json", `{"i32":3}`},
	{"GET", "/c09/sstream/nn", "", "", ""},
	{"POST", "/c09/cstream", "", "application/json", `{"name":"a"}{"name":"b"} {"name":"c"}`},
	{"POST", "/c09/bidi", "", "application/json", `{"name":"a"}{"name":"b"}`},
	{"POST", "/c09/upload/nn", "", "application/octet-stream", "0123456789abcdef0123456789abcdef"},
	// a registered codec that cannot stream, on streaming methods
	{"POST", "/c09/cstream", "", c09PlainType, "\x0a\x01a"},
	{"POST", "/c09/bidi", "", c09PlainType, "\x0a\x01a"},
	{"GET", "/c09/sstream/nn", "", c09PlainType, ""},
	{"POST", "/c09/star", "", c09PlainType, "\x0a\x01a"},
	{"POST", "/verif.c09.Rsvc/Plain", "", "application/json", "J1"},
	{"POST", "/verif.c09.Rsvc/PostStar", "", "application/protobuf", "P1"},
	{"POST", "/larking.testpb.Messaging/GetMessageOne", "", "application/json", `{"name":"x"}`},
	{"GET", "/v1/messages/name/hello", "", "", ""},
	{"GET", "/v1/messages/123", "revision=2&sub.subfield=foo", "", ""},
	{"GET", "/v1/users/me/messages/123", "", "", ""},
	{"PATCH", "/v1/messages/123", "", "application/json", `{"text":"Hi!"}`},
	{"PATCH", "/v1/messages/123/body", "", "application/json", `{"text":"Hi!"}`},
	{"POST", "/v1/action:cancel", "", "application/json", `{}`},
	{"POST", "/v1/aa/bb/cc:watch", "", "application/json", `{}`},
	{"GET", "/v1/actions/1:fetch", "", "", ""},
	{"GET", "/v3/events:batchGet", "", "", ""},
	{"GET", "/hello/one", "", "", ""},
	{"GET", "/v1/shelves/1/books/2", "", "", ""},
	{"POST", "/v1/shelves/1/books", "", "application/json", `{"name":"n","title":"t"}`},
	{"PATCH", "/v1/shelves/1/books/2", "update_mask=title", "application/json", `{"title":"t"}`},
	{"POST", "/files/cat.jpg", "", "image/jpeg", "jpegbytes"},
	{"POST", "/files/large/cat.jpg", "", "image/jpeg", "jpegbytes-jpegbytes-jpegbytes"},
	{"GET", "/v1/wellknown", "timestamp=2017-01-15T01:30:15.01Z&duration=3s&bool_value=true&int32_value=1&bytes_value=AAEC&string_value=s&field_mask=a.b", "", ""},
	{"GET", "/v1/complex", "double_value=1.5&int32_list=1&int32_list=2&string_map.k=v&nested.int32_value=3&enum_value=1", "", ""},
	{"GET", "/v1/complex/1.5/star/x", "", "", ""},
	{"GET", "/v1/complex/1.5/starstar/x/y/z", "", "", ""},
}

var c09GrpcMethods = []string{
	"/verif.c09.Rsvc/Plain", "/verif.c09.Rsvc/PostStar", "/verif.c09.Rsvc/GetMulti", "/verif.c09.Rsvc/GetBlob", "/verif.c09.Rsvc/PutBlob",
	"/verif.c09.Rsvc/ServerStream", "/verif.c09.Rsvc/ClientStream", "/verif.c09.Rsvc/Bidi", "/verif.c09.Rsvc/Upload",
	"/larking.testpb.Messaging/GetMessageOne", "/larking.testpb.Messaging/UpdateMessageBody", "/larking.testpb.Files/LargeUploadDownload",
	"/larking.testpb.ChatRoom/Chat", "/larking.testpb.Complex/Check", "/verif.c09.Rsvc/Nope", "/verif.c09.Nope/Plain",
	// methods of a backend that was registered with RegisterConn and dropped again (c09Setup)
	"/grpc.health.v1.Health/Check", "/grpc.health.v1.Health/Watch",
}

var c09WSPaths = []string{"/c09/ws/room", "/c09/wsq/room", "/v1/rooms/general", "/c09/ws/" + strings.Repeat("r", 300)}

var c09ContentTypes = []string{
	"application/json", "application/protobuf", "application/octet-stream", "google.api.HttpBody", "application/grpc", "application/grpc+proto",
	"application/grpc+json", "application/grpc+body", "application/grpc+", "application/grpc+nope", "application/grpc-web", "application/grpc-web+proto",
	"application/grpc-web+json", "application/grpc-web+body", "application/grpc-web-text", "application/grpc-web-text+proto", "application/grpc-web-text+json",
	"application/grpc-web-text+body", "application/grpc-web-textual", "application/grpc-webx+proto", "application/grpc-web+proto+x", "application/grpcx",
	"application/grpc;charset=utf-8", "APPLICATION/GRPC", "application/json; charset=utf-8", "text/plain", "", "*/*", "application/", "/", "\x00", "application/x-www-form-urlencoded",
	"multipart/form-data; boundary=x", "application/grpc-web-text+\xff", "body", "proto", "json",
}

var c09Accepts = []string{
	"application/json", "application/protobuf", "*/*", "application/*", "google.api.HttpBody", "google.api.HttpBody;q=1", "application/json;q=0", "application/json;q=",
	"application/json;q=0.99999999999999999999999999999999999999999999999999999999999999999999999999999", "application/json;q=1.5", ";q=1", ",,,,", "a/b;q=0.5, application/protobuf;q=0.4",
	"text/html, application/xhtml+xml;q=0.9, */*;q=0.8", "application/json;q", "application/json; q=0.5 ; x=1", "\xff\xfe", "application/json,", " ", "", "*/*;q=0, application/json",
	"application/octet-stream;q=0.1", strings.Repeat("a/b,", 300), "application/json;q=0." + strings.Repeat("9", 400),
}

var c09Encodings = []string{"gzip", "identity", "deflate", "br", "", "GZIP", "gzip, identity", "gzip;q=0", "*", "application/json", "x\x00", "zstd", " gzip"}

var c09Timeouts = []string{"1S", "100m", "99999999H", "1H", "0n", "", "S", "1", "-1S", "+1S", "1x", "123456789S", "12345678S", "1 S", " 1S", "1.5S", "٣S", "0000000S", "18446744073709551615n", "\xff", "99999999u", "1M"}

var c09Upgrades = []string{"websocket", "WebSocket", "websocket, foo", "h2c", "", "websockets", "Websocket"}

var c09PathJunk = []string{"\x00", "\xff", "\xc3", "\xe2\x82", "%", "%2F", "%zz", ":", "::", "/", "//", "*", "**", "{", "}", "{x}", ".", "..", "/../", " ", "\t", "\n", "\x80", "é", "日本", "😀", "~", "!", "$", "&", "'", "(", ")", "+", ",", ";", "=", "@", "?", "#", "\\", "|", "^", "`", "\"", "<", ">", "[", "]", "K", "ſ", "٠"}

var c09QueryJunk = []string{
	"tags.x=1", "labels.k=v", "labels=v", "subs.text=a", "subs=1", "name.x=1", "sub=1", "sub.child.child.child.child.num=1", "sub.nums.x=1", "blob.data=AAEC", "blob.content_type=x",
	"anyStruct=1", "any_struct.fields=1", "i32=99999999999", "i32=-2147483649", "i32=1e3", "i32=0x10", "i32= 7 ", "i32=null", "i32=", "i32", "flag=maybe", "flag=TRUE", "flag=1", "kind=ZZ", "kind=99", "kind=-1",
	"kind=KIND_BB", "data=!!!", "data=AAE", "data=AA==", "data=_-8", "ts=notatime", "ts=2020-13-45T99:99:99Z", "ts=\"2020-01-02T03:04:05Z\"", "ts=\"", "wrapped=x", "wrapped=\"12\"", "wrapped=12",
	"mask=..", "mask=a,,b", "dur=3", "dur=-3s", "dur=1e999s", "dbl=NaN", "dbl=1e999", "dbl=Infinity", "dbl=-0", "u32=-1", "u32=4294967296", "i64=9223372036854775808", "i64=\"9\"",
	"%zz=1", "%=1", "a=%zz", "a=%", "a=%f", "=", "==", "&&&&", ";", "a;b=c", "name=%00", "name=%ff%fe", "%ff=1", "name=a&name=b&name=c", "nope=1", ".=1", "..=1", "sub.=1", ".sub=1", "sub..text=1",
	"double_list=1&double_list=x", "string_map.k=v", "int32_map.1=1", "nested.int32_value=x", "enum_value=ZZ", "null_value=null", "struct=1", "any=1", "value=1", "list_value=1", "empty=1",
	"timestamp=x", "duration=x", "bool_value=x", "int32_value=x", "int64_value=x", "uint32_value=-1", "uint64_value=-1", "float_value=x", "double_value=x", "bytes_value=!", "string_value=%ff", "field_mask=%ff",
	"update_mask=..", "book.name=x", "book=1", "parent=1", "message_id=%ff", "text=%ff%00", "sub.subfield=%ff", "revision=x",
}

type c09Gen struct {
	o     *out
	r     *rng
	e     *c09Env
	hangs int
}

func (g *c09Gen) junkBytes(n int) string {
	b := make([]byte, n)
	for i := range b {
		switch g.r.intn(4) {
		case 0:
			b[i] = byte(g.r.u64())
		case 1:
			b[i] = "/:*{}.%=&?~ "[g.r.intn(12)]
		default:
			b[i] = byte('a' + g.r.intn(26))
		}
	}
	return string(b)
}

func (g *c09Gen) mutPath(p string) string {
	r := g.r
	switch r.intn(14) {
	case 0: // insert junk somewhere
		i := r.intn(len(p) + 1)
		return p[:i] + r.picks(c09PathJunk) + p[i:]
	case 1: // replace a byte
		if len(p) == 0 {
			return "\xff"
		}
		i := r.intn(len(p))
		return p[:i] + r.picks(c09PathJunk) + p[i+1:]
	case 2: // very long segment
		return p + "/" + strings.Repeat("x", 1000+r.intn(9000))
	case 3: // around the 64-token cap
		n := 28 + r.intn(10)
		return p + strings.Repeat("/a", n)
	case 4:
		return p + ":" + r.picks([]string{"get", "watch", "cancel", "", ":", "a:b", "verb/x", strings.Repeat("v", 500)})
	case 5: // colons and slashes everywhere
		return strings.ReplaceAll(p, "/", r.picks([]string{"//", "/:", ":/", ":", "/./", "/%2F"}))
	case 6:
		return p + "/"
	case 7:
		return strings.TrimPrefix(p, "/")
	case 8:
		return ""
	case 9: // truncate
		return p[:r.intn(len(p)+1)]
	case 10: // 60-70 tokens with verbs
		n := 30 + r.intn(6)
		return "/c09/multi" + strings.Repeat("/a", n) + ":get"
	case 11:
		return p + g.junkBytes(1+r.intn(12))
	case 12: // duplicate a piece
		i := r.intn(len(p) + 1)
		return p + p[i:]
	default:
		return "/" + g.junkBytes(r.intn(40))
	}
}

func (g *c09Gen) mutQuery(q string) string {
	r := g.r
	switch r.intn(8) {
	case 0, 1, 2:
		if q == "" {
			return r.picks(c09QueryJunk)
		}
		return q + "&" + r.picks(c09QueryJunk)
	case 3:
		return r.picks(c09QueryJunk) + "&" + r.picks(c09QueryJunk) + "&" + r.picks(c09QueryJunk)
	case 4: // huge value
		return "name=" + strings.Repeat("v", 20000+r.intn(50000))
	case 5: // many repeated keys
		return strings.Repeat("tags=a&", 200+r.intn(800)) + "tags=z"
	case 6:
		return g.junkBytes(1 + r.intn(60))
	default: // deep dotted key
		return "sub" + strings.Repeat(".child", 1+r.intn(200)) + r.picks([]string{".num=1", ".text=x", "=1", ".nums=1", ".nope=1"})
	}
}

func (g *c09Gen) hostileJSON() string {
	r := g.r
	switch r.intn(16) {
	case 0:
		return ""
	case 1:
		return "{"
	case 2:
		return "}{"
	case 3:
		return strings.Repeat("[", 5000+r.intn(20000))
	case 4:
		d := 100 + r.intn(12000)
		return strings.Repeat(`{"sub":`, 1) + strings.Repeat(`{"child":`, d) + "{}" + strings.Repeat("}", d+1)
	case 5:
		d := 100 + r.intn(12000)
		return `{"anyStruct":` + strings.Repeat(`{"a":`, d) + "1" + strings.Repeat("}", d+1)
	case 6:
		return `{"name":"` + "\xff\xfe\x80" + `"}`
	case 7:
		return `{"` + "\xff" + `":1}`
	case 8:
		return `{"name":"\ud800"}`
	case 9:
		return `{"i32":1e400,"i64":"99999999999999999999","u32":-1}`
	case 10:
		return `{"name":"a","name":"b","sub":null,"tags":null,"labels":{"a":null}}`
	case 11:
		return `{"data":"!!!","ts":"x","mask":"..","wrapped":{},"dur":"1e9s","kind":"NOPE"}`
	case 12:
		return "\xff\xfe\x00"
	case 13:
		return `{"name":"` + strings.Repeat("z", 100000+r.intn(400000)) + `"}`
	case 14:
		return "null"
	default:
		j := r.picks(c09JSON)
		i := r.intn(len(j) + 1)
		return j[:i] + r.picks([]string{"\x00", "\xff", "{", "}", "\"", ",", ":", "[", "\\", "\\u", "1e"}) + j[i:]
	}
}

func (g *c09Gen) hostileProto() []byte {
	r := g.r
	switch r.intn(10) {
	case 0:
		return nil
	case 1: // truncated varint
		return []byte{0x08, 0xff, 0xff}
	case 2: // 11-byte varint
		return []byte{0x08, 0xff, 0xff, 0xff, 0xff, 0xff, 0xff, 0xff, 0xff, 0xff, 0xff, 0x01}
	case 3: // length beyond the buffer
		return []byte{0x0a, 0xff, 0xff, 0xff, 0xff, 0x0f, 'a'}
	case 4: // string with invalid UTF-8
		return []byte{0x0a, 0x03, 0xff, 0xfe, 0x80}
	case 5: // group start without end, field number 0, wire type 7
		return r.bytes(1 + r.intn(40))
	case 6: // deep nesting of sub.child
		d := 50 + r.intn(200)
		b := []byte{}
		for i := 0; i < d; i++ {
			nb := append([]byte{0x1a}, protoVarint(uint64(len(b)))...)
			b = append(nb, b...)
		}
		return append(append([]byte{0x4a}, protoVarint(uint64(len(b)))...), b...)
	case 7:
		return bytes.Repeat([]byte{0x3a, 0x01, 'a'}, 1000+r.intn(30000))
	case 8:
		ms := c09ProtoMsgs(g.e)
		b := append([]byte(nil), ms[1+r.intn(2)]...)
		if len(b) > 0 {
			b[r.intn(len(b))] ^= byte(1 << r.intn(8))
		}
		return b
	default:
		ms := c09ProtoMsgs(g.e)
		b := ms[1+r.intn(2)]
		return b[:r.intn(len(b)+1)]
	}
}

func protoVarint(v uint64) []byte {
	var b []byte
	for v >= 0x80 {
		b = append(b, byte(v)|0x80)
		v >>= 7
	}
	return append(b, byte(v))
}

// hostile gRPC / gRPC-web framed bodies around a payload
func (g *c09Gen) hostileFrames(payload []byte) []byte {
	r := g.r
	f := c09Frame(0, payload)
	switch r.intn(18) {
	case 0:
		return nil
	case 1:
		return f[:r.intn(len(f)+1)] // truncated
	case 2:
		return f[:r.intn(5)+0] // inside the header
	case 3: // wrong length prefixes
		b := append([]byte(nil), f...)
		binary.BigEndian.PutUint32(b[1:], uint32(r.pick([]int{0xffffffff, 0x80000000, 0x7fffffff, len(payload) + 1, len(payload) + 1000, 4 << 20, 4<<20 + 1, 1 << 24})))
		return b
	case 4:
		b := append([]byte(nil), f...)
		if len(payload) > 0 {
			binary.BigEndian.PutUint32(b[1:], uint32(r.intn(len(payload))))
		}
		return b
	case 5: // compressed flag, not compressed
		b := append([]byte(nil), f...)
		b[0] = 1
		return b
	case 6: // compressed flag, truncated gzip
		z := c09Gzip(payload)
		return c09Frame(1, z[:r.intn(len(z)+1)])
	case 7: // compressed, empty
		return c09Frame(1, nil)
	case 8: // valid gzip
		return c09Frame(1, c09Gzip(payload))
	case 9: // gzip bomb (1 MiB of zeros; 8 MiB is above the receive limit)
		return c09Frame(1, c09Gzip(make([]byte, r.pick([]int{1 << 20, 8 << 20}))))
	case 10: // odd flags
		b := append([]byte(nil), f...)
		b[0] = byte(r.pick([]int{2, 0x80, 0x81, 0xff, 0x7f}))
		return b
	case 11: // many frames
		var b []byte
		for i := 0; i < 2+r.intn(8); i++ {
			b = append(b, f...)
		}
		return b
	case 12: // frames then garbage
		return append(append([]byte(nil), f...), r.bytes(1+r.intn(9))...)
	case 13: // a trailer frame from the client
		return append(append([]byte(nil), f...), c09Frame(0x80, []byte("grpc-status: 0\r\n"))...)
	case 14:
		return c09Frame(0, g.hostileProto())
	case 15:
		return r.bytes(r.intn(64))
	case 16: // empty messages
		return bytes.Repeat(c09Frame(0, nil), 1+r.intn(10))
	default:
		return f
	}
}

func (g *c09Gen) b64Hostile(b []byte) []byte {
	r := g.r
	s := base64.StdEncoding.EncodeToString(b)
	switch r.intn(8) {
	case 0:
		return []byte(s[:r.intn(len(s)+1)])
	case 1:
		i := r.intn(len(s) + 1)
		return []byte(s[:i] + r.picks([]string{"!", "=", "==", "\n", "\r\n", " ", "\x00", "\xff", "-", "_"}) + s[i:])
	case 2:
		return []byte(base64.RawStdEncoding.EncodeToString(b))
	case 3:
		return []byte(base64.URLEncoding.EncodeToString(b))
	case 4: // two padded streams back to back
		return []byte(s + s)
	case 5:
		return b // not base64 at all
	default:
		return []byte(s)
	}
}

func (g *c09Gen) hdrMut(c *c09Case) {
	r := g.r
	set := func(k, v string) {
		for i := range c.hdr {
			if c.hdr[i][0] == k {
				c.hdr[i][1] = v
				return
			}
		}
		c.hdr = append(c.hdr, [2]string{k, v})
	}
	switch r.intn(16) {
	case 0, 1:
		set("Content-Type", r.picks(c09ContentTypes))
	case 2, 3:
		set("Accept", r.picks(c09Accepts))
	case 4:
		set("Accept-Encoding", r.picks(c09Encodings))
	case 5:
		set("Content-Encoding", r.picks(c09Encodings))
	case 6:
		set("Grpc-Encoding", r.picks(c09Encodings))
	case 7:
		set("Grpc-Timeout", r.picks(c09Timeouts))
	case 8:
		set("Upgrade", r.picks(c09Upgrades))
	case 9:
		set("Twirp-Version", r.picks([]string{"8", "", "x"}))
	case 10:
		set("X-C09-Fail", strconv.Itoa(r.pick([]int{1, 2, 3, 5, 13, 16, 17, 18, 100, 4294967295, 0})))
		if r.bool() {
			set("X-C09-Msg", r.picks([]string{"boom", "100% \"quoted\" \\ msg", "é日本😀", strings.Repeat("m", 3000), "a\tb", "", "bad \xff\xfe utf8", "\xc3", strings.Repeat("é", 100)}))
		}
		if r.intn(3) == 0 {
			set("X-C09-Detail", r.picks([]string{"1", "2"}))
		}
	case 11:
		set("X-Junk-Bin", r.picks([]string{"!!!", "AAEC", "AA==", "A", "", "\xff"}))
	case 12:
		c.hdr = append(c.hdr, [2]string{"Accept", r.picks(c09Accepts)}) // a second value
	case 13:
		set("Grpc-Accept-Encoding", r.picks(c09Encodings))
		set("Te", "trailers")
	case 14:
		set("Content-Type", r.picks(c09ContentTypes)+r.picks([]string{"", ";", "; charset=utf-8", "+", "+proto", " "}))
	default:
		set("Connection", r.picks([]string{"Upgrade", "close", "keep-alive, Upgrade", ""}))
	}
}

func (g *c09Gen) resolveBody(s string) []byte {
	switch s {
	case "J1":
		return []byte(c09JSON[1])
	case "P1":
		return c09ProtoMsgs(g.e)[1]
	}
	return []byte(s)
}

// a mostly-valid request on the transcoding path
func (g *c09Gen) httpCase() c09Case {
	r := g.r
	b := c09HTTPBase[r.intn(len(c09HTTPBase))]
	c := c09Case{cfg: r.intn(4), via: "rec", major: 1 + r.intn(2), method: b.method, path: b.path, query: b.query, cl: "a"}
	if b.ct != "" {
		c.hdr = append(c.hdr, [2]string{"Content-Type", b.ct})
	}
	c.body = g.resolveBody(b.body)
	return c
}

func (g *c09Gen) grpcCase(web int) c09Case {
	r := g.r
	c := c09Case{cfg: r.intn(4), via: "rec", major: 2, method: "POST", path: r.picks(c09GrpcMethods), cl: "u"}
	ms := c09ProtoMsgs(g.e)
	payload := ms[r.intn(len(ms))]
	ct := "application/grpc"
	if r.intn(4) == 0 {
		ct += "+proto"
	}
	if r.intn(6) == 0 {
		ct = "application/grpc+json"
		payload = []byte(r.picks(c09JSON))
	}
	c.body = c09Frame(0, payload)
	if web > 0 {
		c.major = 1 + r.intn(2)
		ct = strings.Replace(ct, "application/grpc", []string{"", "application/grpc-web", "application/grpc-web-text"}[web], 1)
		if web == 2 {
			c.body = []byte(base64.StdEncoding.EncodeToString(c.body))
		}
		if r.bool() {
			c.cl = "a"
		}
	}
	c.hdr = append(c.hdr, [2]string{"Content-Type", ct}, [2]string{"Te", "trailers"})
	return c
}

func (g *c09Gen) emitCase(c c09Case, class string) {
	if g.hangs >= 8 {
		return // wedged goroutines are piling up; the verdict is in, the rest would only burn time
	}
	g.o.count(class)
	g.o.count("cfg" + strconv.Itoa(c.cfg))
	obs := c09Exec(c)
	if strings.HasPrefix(obs, "hang") {
		g.hangs++
	}
	g.o.emit(c.line(), obs)
}

// deterministic sweeps: every entry of the junk tables at least once on the entry path it is meant for
func (g *c09Gen) sweeps() {
	r := g.r
	get := func(path, query string, hdr ...[2]string) c09Case {
		return c09Case{cfg: r.intn(4), via: "rec", major: 1, method: "GET", path: path, query: query, hdr: hdr, cl: "a"}
	}
	for _, q := range c09QueryJunk {
		for _, p := range []string{"/c09/i32/42", "/v1/complex", "/v1/wellknown", "/v1/messages/123", "/c09/sstream/nn"} {
			g.emitCase(get(p, q), "sweep:query")
		}
	}
	for _, b := range c09HTTPBase { // every prefix of every base path that ends at or just after a separator
		for i := 0; i <= len(b.path); i++ {
			if i == len(b.path) || b.path[i] == '/' || b.path[i] == ':' || (i > 0 && (b.path[i-1] == '/' || b.path[i-1] == ':')) {
				c := get(b.path[:i], b.query)
				c.method = b.method
				g.emitCase(c, "sweep:path")
			}
		}
	}
	for _, a := range c09Accepts {
		g.emitCase(get("/c09/nope", "", [2]string{"Accept", a}), "sweep:accept")
		g.emitCase(get("/c09/i32/42", "", [2]string{"Accept", a}), "sweep:accept")
		g.emitCase(get("/c09/i32/x", "", [2]string{"Accept", a}, [2]string{"Accept", "application/protobuf;q=0.3"}), "sweep:accept")
	}
	frame := c09Frame(0, c09ProtoMsgs(g.e)[1])
	grpcReq := func(web int, path string, hdr ...[2]string) c09Case {
		c := c09Case{cfg: r.intn(4), via: "rec", major: 2, method: "POST", path: path, cl: "u", body: frame}
		ct := []string{"application/grpc", "application/grpc-web", "application/grpc-web-text"}[web]
		if web == 2 {
			c.body = []byte(base64.StdEncoding.EncodeToString(frame))
		}
		if web > 0 {
			c.major = 1
		}
		c.hdr = append([][2]string{{"Content-Type", ct}}, hdr...)
		return c
	}
	for _, ct := range c09ContentTypes {
		for major := 1; major <= 2; major++ {
			c := grpcReq(0, "/verif.c09.Rsvc/Plain")
			c.major, c.hdr[0][1] = major, ct
			g.emitCase(c, "sweep:content-type")
			c.path, c.body = "/c09/star", []byte(c09JSON[1])
			g.emitCase(c, "sweep:content-type")
		}
	}
	for _, to := range c09Timeouts {
		for web := 0; web < 3; web++ {
			g.emitCase(grpcReq(web, "/verif.c09.Rsvc/Plain", [2]string{"Grpc-Timeout", to}), "sweep:timeout")
		}
		g.emitCase(grpcReq(0, "/verif.c09.Rsvc/Bidi", [2]string{"Grpc-Timeout", to}), "sweep:timeout")
	}
	for _, enc := range c09Encodings {
		g.emitCase(grpcReq(0, "/verif.c09.Rsvc/Plain", [2]string{"Grpc-Encoding", enc}), "sweep:encoding")
		g.emitCase(grpcReq(1, "/verif.c09.Rsvc/ServerStream", [2]string{"Grpc-Encoding", enc}), "sweep:encoding")
		g.emitCase(get("/c09/i32/42", "", [2]string{"Accept-Encoding", enc}), "sweep:encoding")
		c := get("/c09/star", "", [2]string{"Content-Encoding", enc}, [2]string{"Content-Type", "application/json"})
		c.method, c.body = "POST", []byte(c09JSON[1])
		g.emitCase(c, "sweep:encoding")
		c.body = c09Gzip(c.body)
		g.emitCase(c, "sweep:encoding")
	}
	for _, up := range c09Upgrades {
		g.emitCase(get("/c09/ws/room", "", [2]string{"Upgrade", up}), "sweep:upgrade")
		g.emitCase(grpcReq(1, "/verif.c09.Rsvc/Plain", [2]string{"Upgrade", up}), "sweep:upgrade")
	}
	// failing handlers: every code of the list, plain / non-UTF-8 / detailed, on every protocol
	msgs := [][]string{{"boom", ""}, {"bad \xff\xfe utf8", "1"}, {strings.Repeat("é", 100), "2"}}
	for _, code := range []int{1, 2, 3, 4, 5, 6, 7, 8, 9, 10, 11, 12, 13, 14, 15, 16, 17, 18, 100, 4294967295} {
		for _, m := range msgs {
			h := [][2]string{{"X-C09-Fail", strconv.Itoa(code)}, {"X-C09-Msg", m[0]}}
			if m[1] != "" {
				h = append(h, [2]string{"X-C09-Detail", m[1]})
			}
			g.emitCase(get("/c09/i32/42", "", h...), "sweep:fail")
			g.emitCase(get("/c09/sstream/nn", "", h...), "sweep:fail")
			g.emitCase(get("/c09/i32/42", "", append(h, [2]string{"Twirp-Version", "8"})...), "sweep:fail")
			for web := 0; web < 3; web++ {
				g.emitCase(grpcReq(web, "/verif.c09.Rsvc/Plain", h...), "sweep:fail")
			}
			g.emitCase(grpcReq(0, "/verif.c09.Rsvc/Bidi", h...), "sweep:fail")
		}
	}
}

func c09GenAll(o *out, r *rng, tier string) {
	e := c09Setup()
	// util.go's splitmix state for seed n+1 is the state for seed n one step later, so two seeds
	// produce the same stream shifted by one draw (and the same cases once the shift is absorbed).
	// Re-key from the first (well mixed) output: still the one PRNG, but unrelated streams per seed.
	r = &rng{s: r.u64()}
	g := &c09Gen{o: o, r: r, e: e}
	scale := 1
	if tier == "thorough" {
		scale = 12
	}
	// 0. every base request unmodified, in every configuration (the mux works at all)
	for cfg := 0; cfg < 4; cfg++ {
		for _, b := range c09HTTPBase {
			c := c09Case{cfg: cfg, via: "rec", major: 1, method: b.method, path: b.path, query: b.query, cl: "a", body: g.resolveBody(b.body)}
			if b.ct != "" {
				c.hdr = append(c.hdr, [2]string{"Content-Type", b.ct})
			}
			g.emitCase(c, "http:valid")
		}
		for _, m := range c09GrpcMethods {
			for web := 0; web < 3; web++ {
				c := g.grpcCase(web)
				c.cfg, c.path = cfg, m
				g.emitCase(c, []string{"grpc:valid", "web:valid", "webtext:valid"}[web])
			}
		}
	}
	// ... and on a mux that has no service yet (a proxy before its first backend is there): every method is unknown
	for _, b := range c09HTTPBase[:6] {
		c := c09Case{cfg: 4, via: "rec", major: 1, method: b.method, path: b.path, query: b.query, cl: "a", body: g.resolveBody(b.body)}
		if b.ct != "" {
			c.hdr = append(c.hdr, [2]string{"Content-Type", b.ct})
		}
		g.emitCase(c, "empty-mux")
	}
	for _, m := range c09GrpcMethods[:4] {
		for web := 0; web < 3; web++ {
			c := g.grpcCase(web)
			c.cfg, c.path = 4, m
			g.emitCase(c, "empty-mux")
		}
	}
	c := c09Case{cfg: 4, via: "loop", major: 1, method: "GET", path: c09WSPaths[0], cl: "a"}
	g.emitCase(c, "empty-mux")
	g.sweeps()
	// 1. transcoding path, mutated
	for i := 0; i < 2600*scale; i++ {
		c := g.httpCase()
		n := 1 + r.intn(3)
		class := "http"
		for k := 0; k < n; k++ {
			switch r.intn(9) {
			case 0, 1, 2:
				c.path = g.mutPath(c.path)
				class += ":path"
			case 3, 4:
				c.query = g.mutQuery(c.query)
				class += ":query"
			case 5, 6:
				g.hdrMut(&c)
				class += ":header"
			case 7:
				switch r.intn(5) {
				case 0, 1:
					c.body = []byte(g.hostileJSON())
				case 2:
					c.body = g.hostileProto()
				case 3:
					z := c09Gzip(c.body)
					c.body = z[:r.intn(len(z)+1)]
					c.hdr = append(c.hdr, [2]string{"Content-Encoding", "gzip"})
				default:
					c.body = r.bytes(r.intn(200))
				}
				class += ":body"
			default:
				c.method = r.picks([]string{"GET", "POST", "PUT", "PATCH", "DELETE", "HEAD", "OPTIONS", "CONNECT", "TRACE", "", "get", "WEBSOCKET", "*", "BREW", "\xff"})
				c.cl = r.picks([]string{"a", "u", "z"})
				c.rd = r.intn(3)
				class += ":method"
			}
		}
		if len(class) > 24 {
			class = "http:multi"
		}
		g.emitCase(c, class)
	}
	// 2. gRPC, gRPC-web, gRPC-web-text, mutated
	for i := 0; i < 2400*scale; i++ {
		web := r.intn(3)
		c := g.grpcCase(web)
		class := []string{"grpc", "web", "webtext"}[web]
		n := 1 + r.intn(2)
		for k := 0; k < n; k++ {
			switch r.intn(8) {
			case 0, 1, 2, 3:
				ms := c09ProtoMsgs(g.e)
				fr := g.hostileFrames(ms[r.intn(len(ms))])
				if web == 2 {
					fr = g.b64Hostile(fr)
				}
				c.body = fr
				class += ":frames"
			case 4, 5:
				g.hdrMut(&c)
				class += ":header"
			case 6:
				c.path = g.mutPath(c.path)
				class += ":path"
			default:
				c.method = r.picks([]string{"GET", "POST", "PUT", "", "post"})
				c.major = 1 + r.intn(2)
				c.rd = r.intn(3)
				c.cl = r.picks([]string{"a", "u", "z"})
				class += ":method"
			}
		}
		if web == 0 && r.intn(4) == 0 { // per-message compression negotiated
			c.hdr = append(c.hdr, [2]string{"Grpc-Encoding", "gzip"})
		}
		g.emitCase(c, class)
	}
	// 3. purely random requests
	names := []string{"Content-Type", "Accept", "Accept-Encoding", "Content-Encoding", "Grpc-Encoding", "Grpc-Timeout", "Upgrade", "Twirp-Version", "Connection", "X-Junk-Bin", "Te", "Content-Length"}
	for i := 0; i < 700*scale; i++ {
		c := c09Case{cfg: r.intn(4), via: "rec", major: 1 + r.intn(2), method: r.picks([]string{"GET", "POST", "PUT", "PATCH", "DELETE", g.junkBytes(r.intn(6))}),
			path: "/" + g.junkBytes(r.intn(50)), query: g.junkBytes(r.intn(40)), cl: r.picks([]string{"a", "u", "z"}), rd: r.intn(3)}
		if r.bool() {
			c.path = g.junkBytes(r.intn(50))
		}
		for k := 0; k < r.intn(5); k++ {
			v := g.junkBytes(r.intn(24))
			if r.bool() {
				v = r.picks(c09ContentTypes)
			}
			c.hdr = append(c.hdr, [2]string{r.picks(names), v})
		}
		c.body = r.bytes(r.intn(120))
		g.emitCase(c, "random")
	}
	// 4. WebSocket upgrades and raw HTTP/1.1 over loopback
	nloop := 90 * scale
	if nloop > 400 {
		nloop = 400
	}
	for i := 0; i < nloop; i++ {
		c := c09Case{cfg: r.intn(4), via: "loop", major: 1, method: "GET", path: r.picks(c09WSPaths), cl: "a"}
		c.hdr = [][2]string{{"Upgrade", "websocket"}, {"Connection", "Upgrade"}, {"Sec-Websocket-Version", "13"}, {"Sec-Websocket-Key", "dGhlIHNhbXBsZSBub25jZQ=="}}
		class := "ws"
		switch r.intn(10) {
		case 0:
			c.body = c09WSFrame(1, true, []byte(`{"name":"a"}`))
			class += ":valid"
		case 1: // valid then close
			c.body = append(c09WSFrame(1, true, []byte(`{"name":"a"}`)), c09WSFrame(8, true, []byte{0x03, 0xe8})...)
			class += ":valid"
		case 2: // unmasked frame (protocol error)
			c.body = c09WSFrame(1, false, []byte(`{"name":"a"}`))
			class += ":unmasked"
		case 3: // huge declared length, nothing follows
			c.body = []byte{0x81, 0xff, 0x7f, 0xff, 0xff, 0xff, 0xff, 0xff, 0xff, 0xff, 1, 2, 3, 4}
			class += ":hugelen"
		case 4: // truncated header
			c.body = []byte{0x81}
			class += ":truncated"
		case 5: // fragments never finished, control frames in between
			c.body = append(append(c09WSFrameFin(1, false, true, []byte(`{"na`)), c09WSFrame(9, true, []byte("ping"))...), c09WSFrameFin(0, false, true, []byte(`me":`))...)
			class += ":fragments"
		case 6: // invalid JSON / invalid UTF-8 as text
			hj := g.hostileJSON()
			c.body = c09WSFrame(1, true, []byte(hj[:min(len(hj), 60000)]))
			class += ":badjson"
		case 7:
			c.body = r.bytes(r.intn(64))
			class += ":random"
		case 8: // nothing at all: the client leaves right after the handshake
			class += ":silent"
		default: // bad handshake
			c.hdr[r.intn(len(c.hdr))][1] = r.picks([]string{"", "x", "12", "websocket"})
			c.query = r.picks(c09QueryJunk)
			class += ":handshake"
		}
		if i%3 == 0 { // a failing handler: the close frame carries code and (cropped) message
			n := []int{0, 1, 100, 121, 122, 123, 124, 125, 126, 127, 200, 1000}[(i/3)%12]
			msg := strings.Repeat("m", n)
			if i%2 == 0 && n >= 2 {
				msg = strings.Repeat("m", n-2) + "é" // a multi-byte rune across the boundary
			}
			c.hdr = append(c.hdr, [2]string{"X-C09-Fail", strconv.Itoa(r.pick([]int{1, 3, 5, 13, 16, 17, 4294967295}))}, [2]string{"X-C09-Msg", msg})
			c.body = append(c09WSFrame(1, true, []byte(`{"name":"a"}`)), c09WSFrame(8, true, []byte{0x03, 0xe8})...)
			class = "ws:fail"
		}
		if r.intn(5) == 0 {
			c.path = g.mutPath(c.path)
			for strings.ContainsAny(c.path, " \r\n\x00") || c.path == "" {
				c.path = "/c09/ws/x"
			}
		}
		g.emitCase(c, class)
	}
}

func min(a, b int) int {
	if a < b {
		return a
	}
	return b
}

func c09WSFrame(op byte, masked bool, payload []byte) []byte {
	return c09WSFrameFin(op, true, masked, payload)
}
func c09WSFrameFin(op byte, fin, masked bool, payload []byte) []byte {
	b := []byte{op}
	if fin {
		b[0] |= 0x80
	}
	mb := byte(0)
	if masked {
		mb = 0x80
	}
	switch {
	case len(payload) < 126:
		b = append(b, mb|byte(len(payload)))
	case len(payload) < 65536:
		b = append(b, mb|126, byte(len(payload)>>8), byte(len(payload)))
	default:
		b = append(b, mb|127)
		var l [8]byte
		binary.BigEndian.PutUint64(l[:], uint64(len(payload)))
		b = append(b, l[:]...)
	}
	if masked {
		key := []byte{1, 2, 3, 4}
		b = append(b, key...)
		for i, x := range payload {
			b = append(b, x^key[i%4])
		}
	} else {
		b = append(b, payload...)
	}
	return b
}

func c09SortedMethods(e *c09Env) []string {
	var s []string
	for k := range e.methods {
		s = append(s, k)
	}
	sort.Strings(s)
	return s
}

func init() {
	props["C09"] = prop{gen: c09GenAll, run: c09Run}
}
