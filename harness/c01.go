package main

// Routing harness shared by C01 (soundness), C02 (completeness, precedence, order independence)
// and C16 (registration accepts / rejects). Rule sets are registered as dynamic services through
// the verif hook; requests go through Mux.ServeHTTP; the handler records which method ran and the
// message it received.
//
//   RT  <ruleset> <verb> <path> <cls>          ; <reg> <status> <method> <fields>
//   RTP <ruleset> <perms> <verb> <path> <cls>  ; <reg,status,method,fields>|...   (one per permutation)
//   RG  <base> <ruleset> <cls>                 ; <reg> <baseprobe>
//
// ruleset: methods joined by ';', each "S1.M1=" + bindings joined by '+' (first = the annotation,
// the rest its additional bindings; "_" = no annotation); binding = VERB~x<hex tmpl>~body~resp[~N]
// (N: the additional binding itself has additional bindings). cls: non-ASCII runes of the case that
// unicode says are letters / numbers: "L<cp>.<cp>,N<cp>" or "-".

import (
	"bufio"
	"bytes"
	"context"
	"fmt"
	"io"
	"net"
	"net/http"
	"net/http/httptest"
	"os"
	"sort"
	"strconv"
	"strings"
	"time"
	"unicode"
	"unicode/utf8"

	"github.com/gobwas/ws"
	"google.golang.org/genproto/googleapis/api/annotations"
	"google.golang.org/genproto/googleapis/api/serviceconfig"
	"google.golang.org/grpc"
	"google.golang.org/protobuf/proto"
	"google.golang.org/protobuf/reflect/protoreflect"
	"google.golang.org/protobuf/types/descriptorpb"
	"larking.io/larking"
)

type c01Binding struct {
	Verb, Tmpl, Body, Resp string
	Nested                 bool
}
type c01Method struct {
	Svc, Name string
	Bindings  []c01Binding // the annotation: main binding, then its additional bindings
	Config    []c01Binding // one service-config rule selecting this method: main, then additional bindings
}

func (m c01Method) full() string { return "/verif.rt." + m.Svc + "/" + m.Name }

func c01EncRuleset(ms []c01Method) string {
	var parts []string
	for _, m := range ms {
		var bs []string
		for _, b := range m.Bindings {
			s := b.Verb + "~" + hx([]byte(b.Tmpl)) + "~" + c01dash(b.Body) + "~" + c01dash(b.Resp)
			if b.Nested {
				s += "~N"
			}
			bs = append(bs, s)
		}
		if len(bs) == 0 {
			bs = []string{"_"}
		}
		entry := m.Svc + "." + m.Name + "=" + strings.Join(bs, "+")
		if len(m.Config) > 0 {
			var cs []string
			for _, b := range m.Config {
				cs = append(cs, b.Verb+"~"+hx([]byte(b.Tmpl))+"~"+c01dash(b.Body)+"~"+c01dash(b.Resp))
			}
			entry += "@" + strings.Join(cs, "+")
		}
		parts = append(parts, entry)
	}
	if len(parts) == 0 {
		return "-"
	}
	return strings.Join(parts, ";")
}
func c01dash(s string) string {
	if s == "" {
		return "-"
	}
	return s
}
func c01undash(s string) string {
	if s == "-" {
		return ""
	}
	return s
}
func c01DecRuleset(s string) []c01Method {
	var ms []c01Method
	if s == "-" {
		return nil
	}
	for _, p := range strings.Split(s, ";") {
		name, bs, _ := strings.Cut(p, "=")
		svc, mn, _ := strings.Cut(name, ".")
		m := c01Method{Svc: svc, Name: mn}
		bs, cfg, hasCfg := strings.Cut(bs, "@")
		if hasCfg {
			for _, b := range strings.Split(cfg, "+") {
				f := strings.Split(b, "~")
				m.Config = append(m.Config, c01Binding{Verb: f[0], Tmpl: string(unhx(f[1])), Body: c01undash(f[2]), Resp: c01undash(f[3])})
			}
		}
		if bs != "_" {
			for _, b := range strings.Split(bs, "+") {
				f := strings.Split(b, "~")
				m.Bindings = append(m.Bindings, c01Binding{Verb: f[0], Tmpl: string(unhx(f[1])), Body: c01undash(f[2]), Resp: c01undash(f[3]), Nested: len(f) > 4})
			}
		}
		ms = append(ms, m)
	}
	return ms
}

func c01Cls(texts ...string) string {
	ls, ns := map[rune]bool{}, map[rune]bool{}
	for _, t := range texts {
		for _, r := range t {
			if r < 128 {
				continue
			}
			if unicode.IsLetter(r) {
				ls[r] = true
			}
			if unicode.IsNumber(r) {
				ns[r] = true
			}
		}
	}
	f := func(m map[rune]bool) string {
		var xs []int
		for r := range m {
			xs = append(xs, int(r))
		}
		sort.Ints(xs)
		ss := make([]string, len(xs))
		for i, x := range xs {
			ss[i] = strconv.Itoa(x)
		}
		return strings.Join(ss, ".")
	}
	if len(ls)+len(ns) == 0 {
		return "-"
	}
	return "L" + f(ls) + ",N" + f(ns)
}
func c01ClsOf(ms []c01Method, extra ...string) string {
	ts := append([]string{}, extra...)
	for _, m := range ms {
		for _, b := range m.Bindings {
			ts = append(ts, b.Tmpl)
		}
		for _, b := range m.Config {
			ts = append(ts, b.Tmpl)
		}
	}
	return c01Cls(ts...)
}

// message type verif.rt.Msg: s1 s2 s3 string; num int32; nest Nest{a b string; deep Deep{x string}};
// rep repeated string; camel_case string
func c01Msgs() []*descriptorpb.DescriptorProto {
	str := descriptorpb.FieldDescriptorProto_TYPE_STRING.Enum()
	opt := descriptorpb.FieldDescriptorProto_LABEL_OPTIONAL.Enum()
	f := func(name string, num int32) *descriptorpb.FieldDescriptorProto {
		return &descriptorpb.FieldDescriptorProto{Name: proto.String(name), Number: proto.Int32(num), Type: str, Label: opt}
	}
	mf := func(name string, num int32, typ string) *descriptorpb.FieldDescriptorProto {
		return &descriptorpb.FieldDescriptorProto{Name: proto.String(name), Number: proto.Int32(num), Type: descriptorpb.FieldDescriptorProto_TYPE_MESSAGE.Enum(), TypeName: proto.String(typ), Label: opt}
	}
	deep := &descriptorpb.DescriptorProto{Name: proto.String("Deep"), Field: []*descriptorpb.FieldDescriptorProto{f("x", 1)}}
	nest := &descriptorpb.DescriptorProto{Name: proto.String("Nest"), Field: []*descriptorpb.FieldDescriptorProto{f("a", 1), f("b", 2), mf("deep", 3, ".verif.rt.Deep")}}
	msg := &descriptorpb.DescriptorProto{Name: proto.String("Msg"), Field: []*descriptorpb.FieldDescriptorProto{
		f("s1", 1), f("s2", 2), f("s3", 3),
		{Name: proto.String("num"), Number: proto.Int32(4), Type: descriptorpb.FieldDescriptorProto_TYPE_INT32.Enum(), Label: opt},
		mf("nest", 5, ".verif.rt.Nest"),
		{Name: proto.String("rep"), Number: proto.Int32(6), Type: str, Label: descriptorpb.FieldDescriptorProto_LABEL_REPEATED.Enum()},
		f("camel_case", 7),
		{Name: proto.String("rnest"), Number: proto.Int32(8), Type: descriptorpb.FieldDescriptorProto_TYPE_MESSAGE.Enum(), TypeName: proto.String(".verif.rt.Nest"), Label: descriptorpb.FieldDescriptorProto_LABEL_REPEATED.Enum()},
		{Name: proto.String("data"), Number: proto.Int32(9), Type: descriptorpb.FieldDescriptorProto_TYPE_BYTES.Enum(), Label: opt},
	}}
	return []*descriptorpb.DescriptorProto{deep, nest, msg}
}

type c01Rec struct {
	method string
	msg    proto.Message
}

// c01Fields prints the set leaf fields of a verif.rt.Msg: name=x<hex>,... sorted
func c01Fields(m proto.Message) string {
	if m == nil {
		return "-"
	}
	var out []string
	var walk func(prefix string, r protoreflect.Message)
	walk = func(prefix string, r protoreflect.Message) {
		r.Range(func(fd protoreflect.FieldDescriptor, v protoreflect.Value) bool {
			name := prefix + string(fd.Name())
			switch {
			case fd.IsList():
				l := v.List()
				var vs []string
				for i := 0; i < l.Len(); i++ {
					if fd.Message() != nil {
						vs = append(vs, "m")
					} else {
						vs = append(vs, hx([]byte(l.Get(i).String())))
					}
				}
				out = append(out, name+"="+strings.Join(vs, "|"))
			case fd.Message() != nil:
				walk(name+".", v.Message())
			case fd.Kind() == protoreflect.Int32Kind:
				out = append(out, name+"=i"+strconv.FormatInt(v.Int(), 10))
			case fd.Kind() == protoreflect.BytesKind:
				out = append(out, name+"=b"+hx(v.Bytes()))
			default:
				out = append(out, name+"="+hx([]byte(v.String())))
			}
			return true
		})
	}
	walk("", m.ProtoReflect())
	if len(out) == 0 {
		return "-"
	}
	sort.Strings(out)
	return strings.Join(out, ",")
}

type c01Mux struct {
	h    http.Handler
	rec  *c01Rec
	reg  string // acc | rej | panic
	regs []string
}

// c01Build registers the methods in the given order (services in order of first appearance) on a
// mux that may already hold the base service; reg is acc, rej or panic (first failure stops).
func c01Build(base bool, ms []c01Method) *c01Mux {
	rec := &c01Rec{}
	impl := &dynImpl{
		Unary: func(ctx context.Context, method string, req proto.Message, out protoreflect.MessageDescriptor) (proto.Message, error) {
			rec.method, rec.msg = method, proto.Clone(req)
			return proto.Clone(req), nil
		},
		Stream: func(method string, in, out protoreflect.MessageDescriptor, ss grpc.ServerStream) error { return nil },
	}
	all := ms
	if base {
		all = append(c01Base(), ms...)
	}
	var order []string
	by := map[string][]dynMethod{}
	var cfgRules []*annotations.HttpRule
	for _, m := range all {
		if len(m.Config) > 0 {
			cr := c01Rule(m.Config[0])
			for _, a := range m.Config[1:] {
				cr.Additional = append(cr.Additional, c01Rule(a))
			}
			cr.Selector = "verif.rt." + m.Svc + "." + m.Name
			cfgRules = append(cfgRules, cr.toProto())
		}
		if _, ok := by[m.Svc]; !ok {
			order = append(order, m.Svc)
		}
		dm := dynMethod{Name: m.Name, In: "verif.rt.Msg", Out: "verif.rt.Msg"}
		if len(m.Bindings) > 0 {
			r := c01Rule(m.Bindings[0])
			for _, a := range m.Bindings[1:] {
				ar := c01Rule(a)
				if a.Nested {
					ar.Additional = []dynRule{{Verb: "GET", Tmpl: "/nested"}}
				}
				r.Additional = append(r.Additional, ar)
			}
			dm.Rule = &r
		}
		by[m.Svc] = append(by[m.Svc], dm)
	}
	f := dynFile{Path: "verif/rt.proto", Pkg: "verif.rt", Msgs: c01Msgs()}
	for _, s := range order {
		f.Services = append(f.Services, dynService{Name: s, Methods: by[s]})
	}
	fd, err := f.build()
	if err != nil {
		panic(fmt.Sprintf("c01: descriptor: %v", err))
	}
	cm := &c01Mux{rec: rec, reg: "acc"}
	// dynMux registers service by service; the first failure is the registration outcome
	var mopts []larking.MuxOption
	if len(cfgRules) > 0 {
		mopts = append(mopts, larking.ServiceConfigOption(&serviceconfig.Service{Http: &annotations.Http{Rules: cfgRules}}))
	}
	mux, err := dynMux([]protoreflect.FileDescriptor{fd}, impl, mopts...)
	if err != nil {
		if isPanic(err) {
			cm.reg = "panic"
		} else {
			cm.reg = "rej"
		}
	}
	if mux != nil {
		cm.h = mux
	}
	return cm
}
func c01Rule(b c01Binding) dynRule {
	return dynRule{Verb: b.Verb, Tmpl: b.Tmpl, Body: b.Body, RespBody: b.Resp}
}
func c01Base() []c01Method {
	return []c01Method{
		{Svc: "B0", Name: "Get", Bindings: []c01Binding{{Verb: "GET", Tmpl: "/base/{s1}"}}},
		{Svc: "B0", Name: "Put", Bindings: []c01Binding{{Verb: "PUT", Tmpl: "/base/{s1}/sub/{s2=aa/*}:act", Body: "*"}}},
	}
}

// req: the request on a mux that has served other requests before -- the same path under other verbs, and the request
// itself once already: what a mux remembers about earlier requests must not change the answer
func (cm *c01Mux) req(verb, path string) string {
	if cm.h == nil {
		return "0,-,-"
	}
	for _, v := range []string{"POST", "GET", "LIST"} {
		if v != verb {
			cm.req1(v, path)
		}
	}
	first := cm.req1(verb, path)
	if again := cm.req1(verb, path); again != first {
		return "unstable," + strings.ReplaceAll(first, ",", "/") + "," + strings.ReplaceAll(again, ",", "/")
	}
	return first
}

// req1 sends one request; returns "status,method,fields" (no spaces)
func (cm *c01Mux) req1(verb, path string) string {
	if cm.h == nil {
		return "0,-,-"
	}
	cm.rec.method, cm.rec.msg = "", nil
	r := httptest.NewRequest("GET", "http://verif.test/", nil)
	r.Method = verb
	if verb == "WS" {
		// a WebSocket handshake: its verb is the custom kind WEBSOCKET
		r.Method = "GET"
		// (Connection is a list of options compared without case: the three spellings are one handshake)
		r.Header.Set("Connection", []string{"Upgrade", "keep-alive, Upgrade", "upgrade"}[len(path)%3])
		r.Header.Set("Upgrade", "websocket")
		r.Header.Set("Sec-WebSocket-Version", "13")
		r.Header.Set("Sec-WebSocket-Key", "dGhlIHNhbXBsZSBub25jZQ==")
	}
	r.URL.Path = path
	r.URL.RawPath = ""
	w := httptest.NewRecorder()
	var rw http.ResponseWriter = w
	var hj *c01Hijack
	if verb == "WS" {
		// a response writer that can be hijacked: the upgrade succeeds and the method is reached over a pipe, down
		// which the client side sends one empty JSON message and a close frame
		hj = newC01Hijack(w)
		rw = hj
	}
	status := func() (st int) {
		defer func() {
			if p := recover(); p != nil {
				st = -1
			}
		}()
		cm.h.ServeHTTP(rw, r)
		return w.Code
	}()
	if hj != nil {
		if up := hj.finish(); up && status != -1 {
			status = 200 // switched protocols: the call was handed to a method (or ended in a close frame)
		}
	}
	if status == -1 {
		return "panic,-,-"
	}
	if os.Getenv("VERIF_DEBUG") != "" {
		fmt.Fprintf(os.Stderr, "debug: %s %q -> %d %s\n", verb, path, status, w.Body.String())
	}
	meth := "-"
	if cm.rec.method != "" {
		meth = cm.rec.method
	}
	return fmt.Sprintf("%d,%s,%s", status, meth, c01Fields(cm.rec.msg))
}

// c01Hijack: a recorder whose connection can be taken over (http.Hijacker), backed by an in-memory pipe
type c01Hijack struct {
	*httptest.ResponseRecorder
	srv, cli net.Conn
	taken    bool
	got      bytes.Buffer
	done     chan struct{}
}

func newC01Hijack(w *httptest.ResponseRecorder) *c01Hijack {
	h := &c01Hijack{ResponseRecorder: w, done: make(chan struct{})}
	h.srv, h.cli = net.Pipe()
	h.srv.SetDeadline(time.Now().Add(5 * time.Second))
	h.cli.SetDeadline(time.Now().Add(5 * time.Second))
	go func() { io.Copy(&h.got, h.cli); close(h.done) }()
	go func() {
		ws.WriteFrame(h.cli, ws.MaskFrameInPlace(ws.NewTextFrame([]byte("{}"))))
		ws.WriteFrame(h.cli, ws.MaskFrameInPlace(ws.NewCloseFrame(ws.NewCloseFrameBody(ws.StatusNormalClosure, ""))))
	}()
	return h
}

func (h *c01Hijack) Hijack() (net.Conn, *bufio.ReadWriter, error) {
	h.taken = true
	return h.srv, bufio.NewReadWriter(bufio.NewReader(h.srv), bufio.NewWriter(h.srv)), nil
}

// finish closes the pipe and says whether the server switched protocols
func (h *c01Hijack) finish() bool {
	h.srv.Close()
	<-h.done
	h.cli.Close()
	return h.taken && bytes.HasPrefix(h.got.Bytes(), []byte("HTTP/1.1 101"))
}

func c01RunRT(o *out, input string) {
	f := strings.Fields(input)
	ms := c01DecRuleset(f[1])
	cm := c01Build(false, ms)
	res := cm.req(f[2], string(unhx(f[3])))
	o.emit(input, cm.reg+" "+strings.Join(strings.SplitN(res, ",", 3), " "))
}

func c01RunRTP(o *out, input string) {
	f := strings.Fields(input)
	ms := c01DecRuleset(f[1])
	var rs []string
	for _, perm := range strings.Split(f[2], "|") {
		var pm []c01Method
		for _, ix := range strings.Split(perm, ".") {
			pm = append(pm, ms[atoi(ix)])
		}
		cm := c01Build(false, pm)
		rs = append(rs, cm.reg+","+cm.req(f[3], string(unhx(f[4]))))
	}
	o.emit(input, strings.Join(rs, "|"))
}

func c01RunRG(o *out, input string) {
	f := strings.Fields(input)
	base := f[1] == "1"
	ms := c01DecRuleset(f[2])
	cm := c01Build(base, ms)
	probe := "-"
	if base {
		// the base routes must answer as before, whatever happened to the new registration.
		// (a failed registration leaves the mux exactly as it was: it is rebuilt here without ms)
		if cm.reg != "acc" {
			// registration of the base happened first and succeeded; ms failed: the published state
			// must still serve the base routes
		}
		p1 := cm.req("GET", "/base/v")
		p2 := cm.req("PUT", "/base/v/sub/aa/w:act")
		p3 := cm.req("POST", "/verif.rt.B0/Get")
		probe = p1 + "|" + p2 + "|" + p3
	}
	o.emit(input, cm.reg+" "+probe)
}

// ---- generators ----

var c01Lits = []string{"a", "aa", "v1", "x.y-z_0", "é", "b", "中"}
var c01Fill = []string{"x", "aa", "v1", "é", "a.b", "~!$&'()*+,;=@", "b", "a", "0", "x2", "aGk=", "YQ==", "-_8", "YWJj"}
var c01Verbs = []string{"GET", "POST", "PUT", "DELETE", "PATCH", "LIST", "*"}

// c01Verb: a rule's verb; one in six is spelled as a custom kind in lower or mixed case ("get", "List", "hEAD"), which
// the mux reads as the upper-case verb -- also when it looks for the binding another method already holds
func c01Verb(r *rng) string {
	if r.intn(8) == 0 {
		return "WEBSOCKET" // the custom kind a WebSocket handshake is routed under
	}
	v := r.picks(c01Verbs)
	if v == "*" || r.intn(6) != 0 {
		return v
	}
	switch r.intn(3) {
	case 0:
		return strings.ToLower(v)
	case 1:
		return v[:1] + strings.ToLower(v[1:])
	}
	return strings.ToLower(v[:1]) + v[1:]
}

var c01Vars = []string{"{s1}", "{s2}", "{s3}", "{nest.a}", "{nest.deep.x}", "{camelCase}", "{camel_case}", "{num}", "{data}",
	"{s1=aa/*}", "{s2=*}", "{nest.b=b/*/aa}", "{s3=v1/aa}"}
var c01TailVars = []string{"{s2=aa/**}", "{s3=**}", "{nest.a=b/**}"}

// c01Tmpl draws a template from the grammar; ok templates only
func c01Tmpl(r *rng) string {
	n := 1 + r.intn(4)
	var segs []string
	for i := 0; i < n; i++ {
		last := i == n-1
		switch k := r.intn(10); {
		case k < 4:
			segs = append(segs, r.picks(c01Lits))
		case k < 5:
			segs = append(segs, "*")
		case k < 8:
			segs = append(segs, r.picks(c01Vars))
		case last && k == 8:
			segs = append(segs, "**")
		case last:
			segs = append(segs, r.picks(c01TailVars))
		default:
			segs = append(segs, r.picks(c01Lits))
		}
	}
	t := "/" + strings.Join(segs, "/")
	switch r.intn(5) {
	case 0:
		t += ":v"
	case 1:
		t += ":get"
	}
	return t
}

// c01Inst instantiates a template text with fillers (works on the text: {f=pat} -> pat, {f} -> *, then
// * -> a filler, ** -> 1..3 fillers)
func c01Inst(r *rng, tmpl string) string {
	var sb strings.Builder
	i := 0
	for i < len(tmpl) {
		c := tmpl[i]
		switch {
		case c == '{':
			j := strings.IndexByte(tmpl[i:], '}')
			if j < 0 {
				return tmpl
			}
			inner := tmpl[i+1 : i+j]
			if k := strings.IndexByte(inner, '='); k >= 0 {
				sb.WriteString(c01Inst(r, inner[k+1:]))
			} else {
				sb.WriteString(r.picks(c01Fill))
			}
			i += j + 1
		case c == '*' && i+1 < len(tmpl) && tmpl[i+1] == '*':
			n := 1 + r.intn(3)
			for k := 0; k < n; k++ {
				if k > 0 {
					sb.WriteByte('/')
				}
				sb.WriteString(r.picks(c01Fill))
			}
			i += 2
		case c == '*':
			sb.WriteString(r.picks(c01Fill))
			i++
		default:
			sb.WriteByte(c)
			i++
		}
	}
	return sb.String()
}

// near misses of a path
func c01Mutate(r *rng, p string) string {
	b := []byte(p)
	switch r.intn(12) {
	case 0: // a '/' becomes ':'
		if idx := c01nth(b, '/', r); idx >= 0 {
			b[idx] = ':'
		}
	case 1: // a ':' becomes '/'
		if idx := c01nth(b, ':', r); idx >= 0 {
			b[idx] = '/'
		}
	case 2: // drop a segment
		parts := strings.Split(p, "/")
		if len(parts) > 2 {
			k := 1 + r.intn(len(parts)-1)
			parts = append(parts[:k], parts[k+1:]...)
		}
		return strings.Join(parts, "/")
	case 3: // add a segment
		return p + "/" + r.picks(c01Fill)
	case 4: // duplicate a segment
		parts := strings.Split(p, "/")
		k := r.intn(len(parts))
		parts = append(parts[:k+1], parts[k:]...)
		return strings.Join(parts, "/")
	case 5: // add a verb
		return p + ":" + r.picks([]string{"v", "get", "w", ""})
	case 6: // remove a verb
		if k := strings.LastIndexByte(p, ':'); k >= 0 {
			return p[:k]
		}
	case 7: // insert ':' anywhere
		k := r.intn(len(b) + 1)
		return string(b[:k]) + ":" + string(b[k:])
	case 8:
		return p + "/"
	case 9:
		return strings.TrimPrefix(p, "/")
	case 10: // a junk byte anywhere
		k := r.intn(len(b) + 1)
		return string(b[:k]) + string([]byte{byte(r.picks([]string{" ", "%", "\x00", "\xff", "{", "?", "#", "\xc3"})[0])}) + string(b[k:])
	case 11: // change one byte of a literal
		if len(b) > 1 {
			k := 1 + r.intn(len(b)-1)
			if b[k] != '/' && b[k] != ':' {
				b[k] = 'q'
			}
		}
	}
	return string(b)
}
func c01nth(b []byte, c byte, r *rng) int {
	var idx []int
	for i, x := range b {
		if x == c && i > 0 {
			idx = append(idx, i)
		}
	}
	if len(idx) == 0 {
		return -1
	}
	return idx[r.intn(len(idx))]
}

func c01RuleSet(r *rng) []c01Method {
	n := 1 + r.intn(4)
	var ms []c01Method
	for i := 0; i < n; i++ {
		m := c01Method{Svc: fmt.Sprintf("S%d", 1+r.intn(2)), Name: fmt.Sprintf("M%d", i)}
		nb := r.intn(3)
		if r.intn(8) > 0 && nb == 0 {
			nb = 1
		}
		for j := 0; j < nb; j++ {
			m.Bindings = append(m.Bindings, c01Binding{Verb: c01Verb(r), Tmpl: c01Tmpl(r)})
		}
		ms = append(ms, m)
	}
	// sometimes a service-config rule: one that shares the annotation's main pattern but brings other
	// additional bindings (both sets must be served), or an unrelated one
	for i := range ms {
		if r.intn(5) != 0 {
			continue
		}
		if len(ms[i].Bindings) > 0 && r.bool() {
			ms[i].Config = []c01Binding{ms[i].Bindings[0], {Verb: c01Verb(r), Tmpl: c01Tmpl(r)}}
			if len(ms[i].Bindings) == 1 {
				ms[i].Bindings = append(ms[i].Bindings, c01Binding{Verb: c01Verb(r), Tmpl: c01Tmpl(r)})
			}
		} else {
			ms[i].Config = []c01Binding{{Verb: c01Verb(r), Tmpl: c01Tmpl(r)}}
		}
	}
	// sometimes: families that share prefixes (precedence), or the implicit path of a method
	switch r.intn(7) {
	case 5:
		// one method with a verb-specific and a catch-all binding of one shape that name different fields: a request
		// with the specific verb is bound through the specific rule
		v := r.picks([]string{"GET", "POST", "LIST"})
		bs := []c01Binding{{Verb: v, Tmpl: "/cc/{s1}/t"}, {Verb: "*", Tmpl: "/cc/{s2}/t"}}
		if r.bool() {
			bs[0], bs[1] = bs[1], bs[0]
		}
		ms = append(ms, c01Method{Svc: "S3", Name: "Two", Bindings: bs})
	case 0:
		ms = append(ms, c01Method{Svc: "S3", Name: "Lit", Bindings: []c01Binding{{Verb: "GET", Tmpl: "/aa/b/v1"}}},
			c01Method{Svc: "S3", Name: "Var", Bindings: []c01Binding{{Verb: "GET", Tmpl: "/aa/{s1}/v1"}}},
			c01Method{Svc: "S3", Name: "Star", Bindings: []c01Binding{{Verb: "GET", Tmpl: "/aa/{s2=**}"}}})
	case 1:
		ms = append(ms, c01Method{Svc: "S3", Name: "V", Bindings: []c01Binding{{Verb: "GET", Tmpl: "/aa/{s1}:v"}}},
			c01Method{Svc: "S3", Name: "W", Bindings: []c01Binding{{Verb: "GET", Tmpl: "/aa/{s1=b/**}:v"}}},
			c01Method{Svc: "S3", Name: "X", Bindings: []c01Binding{{Verb: "GET", Tmpl: "/aa/{s1}"}}})
	case 2:
		ms = append(ms, c01Method{Svc: "S3", Name: "Imp", Bindings: []c01Binding{{Verb: "GET", Tmpl: "/verif.rt.S3/Imp"}}})
	case 3:
		// a rule that spells the method's own implicit binding ('*' on /Service/Method) and brings
		// additional bindings; as an annotation or as a service-config rule
		own := c01Binding{Verb: "*", Tmpl: "/verif.rt.S3/Own"}
		adds := []c01Binding{{Verb: c01Verb(r), Tmpl: c01Tmpl(r)}, {Verb: "GET", Tmpl: "/own/{s1}"}}
		if r.bool() {
			ms = append(ms, c01Method{Svc: "S3", Name: "Own", Bindings: append([]c01Binding{own}, adds...)})
		} else {
			ms = append(ms, c01Method{Svc: "S3", Name: "Own", Config: append([]c01Binding{own}, adds...)})
		}
	case 4:
		// sibling variables of one node whose patterns open with literals that are prefixes of one another up to
		// '-' / '.' ('/' sorts after both, so the order of the patterns is not the order of their first literals)
		ms = append(ms, c01Method{Svc: "S3", Name: "Bk", Bindings: []c01Binding{{Verb: "GET", Tmpl: "/aa/{s1=b/*}"}}},
			c01Method{Svc: "S3", Name: "BkA", Bindings: []c01Binding{{Verb: "GET", Tmpl: "/aa/{s2=b-c/*}"}}},
			c01Method{Svc: "S3", Name: "BkD", Bindings: []c01Binding{{Verb: "GET", Tmpl: "/aa/{s3=b.c/*}"}}},
			c01Method{Svc: "S3", Name: "BkB", Bindings: []c01Binding{{Verb: "GET", Tmpl: "/aa/{s1=bb/*}:v"}}})
	}
	return ms
}

func c01Paths(r *rng, ms []c01Method, n int) []string {
	var tmpls []string
	for _, m := range ms {
		for _, b := range m.Bindings {
			tmpls = append(tmpls, b.Tmpl)
		}
		for _, b := range m.Config {
			tmpls = append(tmpls, b.Tmpl)
		}
		tmpls = append(tmpls, m.full())
	}
	var ps []string
	for i := 0; i < n; i++ {
		p := c01Inst(r, r.picks(tmpls))
		switch r.intn(4) {
		case 0:
			p = c01Mutate(r, p)
		case 1:
			if r.intn(4) == 0 {
				p = c01Mutate(r, c01Mutate(r, p))
			}
		}
		ps = append(ps, p)
	}
	return ps
}

func c01ReqVerb(r *rng, ms []c01Method) string {
	if r.intn(4) == 0 {
		// (HTTP methods are case-sensitive tokens: "get" is not GET)
		return r.picks([]string{"GET", "POST", "PUT", "DELETE", "PATCH", "LIST", "HEAD", "get", "Get", "post", "patch", "list", "Delete", "WS", "WS"})
	}
	m := ms[r.intn(len(ms))]
	if len(m.Bindings) == 0 {
		return "POST"
	}
	v := m.Bindings[r.intn(len(m.Bindings))].Verb
	if v == "*" {
		return r.picks([]string{"GET", "POST", "LIST", "WS"})
	}
	if v == "WEBSOCKET" && r.intn(4) > 0 {
		return "WS" // a handshake (one time in four: a plain request whose method token is WEBSOCKET)
	}
	return v
}

func c01Gen(o *out, r *rng, tier string) {
	sets := 500
	if tier == "thorough" {
		sets = 8000
	}
	for i := 0; i < sets; i++ {
		ms := c01RuleSet(r)
		rs := c01EncRuleset(ms)
		for _, p := range c01Paths(r, ms, 8) {
			verb := c01ReqVerb(r, ms)
			o.count("RT")
			c01RunRT(o, fmt.Sprintf("RT %s %s %s %s", rs, verb, hx([]byte(p)), c01ClsOf(ms, p)))
		}
	}
	// long paths around the 64-token cap
	ms := []c01Method{{Svc: "S1", Name: "Long", Bindings: []c01Binding{{Verb: "GET", Tmpl: "/aa/{s1=**}"}}}}
	for n := 28; n <= 34; n++ {
		p := "/aa" + strings.Repeat("/x", n)
		for _, suf := range []string{"", ":v", "/"} {
			o.count("RT-long")
			c01RunRT(o, fmt.Sprintf("RT %s GET %s -", c01EncRuleset(ms), hx([]byte(p+suf))))
		}
	}
}

func c01Run(o *out, input string) {
	switch strings.Fields(input)[0] {
	case "RT":
		c01RunRT(o, input)
	case "RTP":
		c01RunRTP(o, input)
	case "RG":
		c01RunRG(o, input)
	}
}

func init() {
	props["C01"] = prop{gen: c01Gen, run: c01Run}
	_ = utf8.RuneError
}

// ---- C02: every rule set under several registration orders ----

func c01Perms(r *rng, n int) [][]int {
	var all [][]int
	var rec func(cur []int, used []bool)
	rec = func(cur []int, used []bool) {
		if len(cur) == n {
			all = append(all, append([]int(nil), cur...))
			return
		}
		for i := 0; i < n; i++ {
			if !used[i] {
				used[i] = true
				rec(append(cur, i), used)
				used[i] = false
			}
		}
	}
	if n <= 3 {
		rec(nil, make([]bool, n))
		return all
	}
	id := make([]int, n)
	for i := range id {
		id[i] = i
	}
	all = append(all, append([]int(nil), id...))
	rev := make([]int, n)
	for i := range rev {
		rev[i] = n - 1 - i
	}
	all = append(all, rev)
	for k := 0; k < 4; k++ {
		p := append([]int(nil), id...)
		for i := n - 1; i > 0; i-- {
			j := r.intn(i + 1)
			p[i], p[j] = p[j], p[i]
		}
		all = append(all, p)
	}
	return all
}

func c02Gen(o *out, r *rng, tier string) {
	sets := 220
	if tier == "thorough" {
		sets = 4000
	}
	for i := 0; i < sets; i++ {
		ms := c01RuleSet(r)
		switch r.intn(5) {
		case 0: // '*'-kind and specific-verb bindings on one node, same and different methods
			t := c01Tmpl(r)
			ms = append(ms, c01Method{Svc: "S4", Name: "All", Bindings: []c01Binding{{Verb: "*", Tmpl: t}}},
				c01Method{Svc: "S4", Name: r.picks([]string{"All2", "Get"}), Bindings: []c01Binding{{Verb: "GET", Tmpl: t}}})
		case 1: // one method, '*' and GET on one node
			t := c01Tmpl(r)
			ms = append(ms, c01Method{Svc: "S4", Name: "Both", Bindings: []c01Binding{{Verb: "*", Tmpl: t}, {Verb: "GET", Tmpl: t, Body: "*"}}})
		case 2: // same template for two methods
			t := c01Tmpl(r)
			ms = append(ms, c01Method{Svc: "S4", Name: "A", Bindings: []c01Binding{{Verb: "GET", Tmpl: t}}},
				c01Method{Svc: "S5", Name: "B", Bindings: []c01Binding{{Verb: r.picks([]string{"GET", "POST"}), Tmpl: t}}})
		}
		var ps []string
		for _, p := range c01Perms(r, len(ms)) {
			ss := make([]string, len(p))
			for i, x := range p {
				ss[i] = strconv.Itoa(x)
			}
			ps = append(ps, strings.Join(ss, "."))
		}
		rs := c01EncRuleset(ms)
		for _, p := range c01Paths(r, ms, 4) {
			o.count("RTP")
			o.count(fmt.Sprintf("perms=%d", len(ps)))
			c01RunRTP(o, fmt.Sprintf("RTP %s %s %s %s %s", rs, strings.Join(ps, "|"), c01ReqVerb(r, ms), hx([]byte(p)), c01ClsOf(ms, p)))
		}
	}
}

// ---- C16: registration of valid templates, single-edit mutations, selectors, collisions ----

var c16Alphabet = []string{"/", "{", "}", "=", "*", ".", ":", "a", "A", "1", "-", "_", "é", " "}
var c16Bodies = []string{"", "", "", "*", "nest", "nest.deep", "s1", "zz", "rep", "nest.a", "rnest", "nest.zz", "rnest.deep", "rnest.a", "nest.deep.x"}

func c16Gen(o *out, r *rng, tier string) {
	n := 160
	if tier == "thorough" {
		n = 2500
	}
	emit := func(base int, ms []c01Method) {
		o.count("RG")
		c01RunRG(o, fmt.Sprintf("RG %d %s %s", base, c01EncRuleset(ms), c01ClsOf(ms)))
	}
	one := func(t, body string) []c01Method {
		return []c01Method{{Svc: "S1", Name: "M", Bindings: []c01Binding{{Verb: "GET", Tmpl: t, Body: body}}}}
	}
	// fixed interesting templates
	for _, t := range []string{"/a", "/a/b", "/a/b:c", "/{s1}", "/{s1=*}", "/{s1=**}", "/{s1=a/**}", "/**", "/*", "/a/**/b", "/{s1=**}/b",
		"/{s1={s2}}", "/{s1=a/{s2}}", "/{nest.a.b}", "/{zz}", "/{s1.a}", "/{rnest.a}", "/{nest}", "/a:", "/:v", "/", "", "a", "//", "/a//b", "/a/",
		"/1a", "/a1", "/é", "/中/{s1}", "/a.b", "/.a", "/-a", "/_a", "/a-b_c.d", "/{s1}}", "/{{s1}", "/{s1", "/s1}", "/{}", "/{=a}", "/{s1=}",
		"/{s1=a/}", "/{s1=/a}", "/{camelCase}", "/{camel_case}", "/{num}", "/a:b:c", "/a:b/c", "/a/{s1}:v", "/**:v", "/{s1=**}:v", "/base/{s1}",
		"/verif.rt.S1/M", "/verif.rt.B0/Get", "/base/{s2}/sub/{s3=aa/*}:act"} {
		for base := 0; base <= 1; base++ {
			emit(base, one(t, ""))
		}
	}
	for _, b := range c16Bodies {
		emit(0, one("/a/{s1}", b))
		emit(1, one("/a/{s1}", b))
	}
	// response_body selectors: a singular message field of the reply, or refused
	for _, resp := range []string{"nest", "nest.deep", "s1", "zz", "rnest", "nest.zz", "rnest.deep", "nest.deep.x"} {
		emit(0, []c01Method{{Svc: "S1", Name: "M", Bindings: []c01Binding{{Verb: "GET", Tmpl: "/a/{s1}", Resp: resp}}}})
		emit(1, []c01Method{{Svc: "S1", Name: "M", Bindings: []c01Binding{{Verb: "POST", Tmpl: "/a", Body: "*", Resp: resp}, {Verb: "GET", Tmpl: "/b", Resp: "nest"}}}})
	}
	// additional bindings: fine, failing, nested
	emit(0, []c01Method{{Svc: "S1", Name: "M", Bindings: []c01Binding{{Verb: "GET", Tmpl: "/a"}, {Verb: "POST", Tmpl: "/b", Body: "*"}}}})
	emit(1, []c01Method{{Svc: "S1", Name: "M", Bindings: []c01Binding{{Verb: "GET", Tmpl: "/a"}, {Verb: "POST", Tmpl: "/b/{zz}"}}}})
	emit(1, []c01Method{{Svc: "S1", Name: "M", Bindings: []c01Binding{{Verb: "GET", Tmpl: "/a"}, {Verb: "POST", Tmpl: "/b", Nested: true}}}})
	emit(0, []c01Method{{Svc: "S1", Name: "M", Bindings: []c01Binding{{Verb: "GET", Tmpl: "/a"}, {Verb: "GET", Tmpl: "/a"}, {Verb: "GET", Tmpl: "/c"}}}})
	// a rejected service whose earlier, well-formed bindings reach below the base's variable nodes and
	// would take over the probed base routes (a literal beats a variable) had they been kept
	hij := []c01Binding{{Verb: "PUT", Tmpl: "/base/{s1}/sub/aa/w:act", Body: "*"}, {Verb: "GET", Tmpl: "/base/v"},
		{Verb: "PUT", Tmpl: "/base/{s1}/sub/{s2=aa/w}:act"}, {Verb: "*", Tmpl: "/base/{s1}"}, {Verb: "PUT", Tmpl: "/base/v/sub/{s3=aa/*}:act"},
		{Verb: "POST", Tmpl: "/verif.rt.B0/Get"}}
	bad := []c01Binding{{Verb: "POST", Tmpl: "/b/{zz}"}, {Verb: "GET", Tmpl: "/b/{s1"}, {Verb: "GET", Tmpl: "/b", Body: "zz"}, {Verb: "GET", Tmpl: "/c", Nested: true}}
	for i, h := range hij {
		for j, b := range bad {
			k := (i + j) % 3
			if b.Nested && k == 1 {
				k = 0 // "nested" only means something on an additional binding
			}
			switch k {
			case 0: // additional binding of the same rule fails
				emit(1, []c01Method{{Svc: "S1", Name: "M", Bindings: []c01Binding{h, b}}})
			case 1: // a later method of the same service fails
				emit(1, []c01Method{{Svc: "S1", Name: "M1", Bindings: []c01Binding{h}}, {Svc: "S1", Name: "M2", Bindings: []c01Binding{b}}})
			default: // the annotation is fine, the service-config rule fails
				emit(1, []c01Method{{Svc: "S1", Name: "M", Bindings: []c01Binding{h}, Config: []c01Binding{{Verb: "GET", Tmpl: "/cfg/{s2}"}, b}}})
			}
		}
	}
	// a rule that re-declares the method's own implicit '*' binding: its additional bindings count like any others
	for _, b := range bad {
		emit(0, []c01Method{{Svc: "S1", Name: "M", Bindings: []c01Binding{{Verb: "*", Tmpl: "/verif.rt.S1/M"}, {Verb: "GET", Tmpl: "/ok/{s1}"}, b}}})
		emit(1, []c01Method{{Svc: "S1", Name: "M", Config: []c01Binding{{Verb: "*", Tmpl: "/verif.rt.S1/M"}, b}}})
	}
	emit(0, []c01Method{{Svc: "S1", Name: "M", Bindings: []c01Binding{{Verb: "*", Tmpl: "/verif.rt.S1/M"}, {Verb: "GET", Tmpl: "/ok/{s1}"}}}})
	// a rule that repeats a binding its method already has (the implicit one, or the same verb and path
	// twice) is validated like any other: bad selectors, in either order
	for _, body := range []string{"zz", "nest.zz", "s1", "rnest", "nest"} {
		emit(0, []c01Method{{Svc: "S1", Name: "M", Bindings: []c01Binding{{Verb: "*", Tmpl: "/verif.rt.S1/M", Body: body}}}})
		emit(0, []c01Method{{Svc: "S1", Name: "M", Bindings: []c01Binding{{Verb: "GET", Tmpl: "/a/{s1}"}, {Verb: "GET", Tmpl: "/a/{s1}", Body: body}}}})
		emit(1, []c01Method{{Svc: "S1", Name: "M", Bindings: []c01Binding{{Verb: "GET", Tmpl: "/a/{s1}", Body: body}, {Verb: "GET", Tmpl: "/a/{s1}"}}}})
		emit(0, []c01Method{{Svc: "S1", Name: "M", Bindings: []c01Binding{{Verb: "GET", Tmpl: "/a/{s1}"}}, Config: []c01Binding{{Verb: "GET", Tmpl: "/a/{s1}", Resp: body}}}})
	}
	// a rule of one method on ANOTHER method's implicit /Service/Method path, declared before or after it
	for _, v := range []string{"POST", "GET", "*"} {
		for base := 0; base <= 1; base++ {
			emit(base, []c01Method{{Svc: "S1", Name: "A", Bindings: []c01Binding{{Verb: v, Tmpl: "/verif.rt.S1/B"}}}, {Svc: "S1", Name: "B"}})
			emit(base, []c01Method{{Svc: "S1", Name: "B"}, {Svc: "S1", Name: "A", Bindings: []c01Binding{{Verb: v, Tmpl: "/verif.rt.S1/B"}}}})
			emit(base, []c01Method{{Svc: "S1", Name: "A", Bindings: []c01Binding{{Verb: v, Tmpl: "/verif.rt.S2/B"}}}, {Svc: "S2", Name: "B"}})
			emit(base, []c01Method{{Svc: "S1", Name: "A", Config: []c01Binding{{Verb: v, Tmpl: "/verif.rt.S2/B"}}}, {Svc: "S2", Name: "B"}})
		}
	}
	// custom kinds are verbs in any spelling: two methods on one node under "head" / "Head" / HEAD, a custom "get" against
	// the get pattern, and the same method twice
	for _, t := range []string{"/v9/probe", "/v9/things/{s1}", "/base/{s1}"} {
		for _, k := range [][2]string{{"head", "head"}, {"HEAD", "head"}, {"head", "HEAD"}, {"Head", "hEAD"}, {"GET", "get"}, {"get", "GET"}, {"Get", "get"},
			{"list", "LIST"}, {"head", "GET"}, {"*", "head"}, {"head", "*"}} {
			for base := 0; base <= 1; base++ {
				emit(base, []c01Method{{Svc: "S1", Name: "A", Bindings: []c01Binding{{Verb: k[0], Tmpl: t}}}, {Svc: "S1", Name: "B", Bindings: []c01Binding{{Verb: k[1], Tmpl: t}}}})
				emit(base, []c01Method{{Svc: "S1", Name: "A", Bindings: []c01Binding{{Verb: k[0], Tmpl: t}, {Verb: k[1], Tmpl: t}}}})
				emit(base, []c01Method{{Svc: "S1", Name: "A", Bindings: []c01Binding{{Verb: k[0], Tmpl: t}}}, {Svc: "S2", Name: "B", Config: []c01Binding{{Verb: k[1], Tmpl: t}}}})
			}
		}
	}
	// long templates around the 64-token cap
	for k := 28; k <= 33; k++ {
		emit(0, one(strings.Repeat("/a", k), ""))
		emit(0, one(strings.Repeat("/a", k)+":v", ""))
	}
	// generated: valid templates and all their single edits (a seeded sample of the edits in quick)
	for i := 0; i < n; i++ {
		t := c01Tmpl(r)
		emit(r.intn(2), one(t, r.picks(c16Bodies)))
		rs := []rune(t)
		for k := 0; k < 12; k++ {
			pos := r.intn(len(rs) + 1)
			var m []rune
			switch r.intn(3) {
			case 0:
				if pos < len(rs) {
					m = append(append(m, rs[:pos]...), rs[pos+1:]...)
				} else {
					m = append(m, rs...)
				}
			case 1:
				m = append(append(append(m, rs[:pos]...), []rune(r.picks(c16Alphabet))...), rs[pos:]...)
			default:
				if pos < len(rs) {
					m = append(append(append(m, rs[:pos]...), []rune(r.picks(c16Alphabet))...), rs[pos+1:]...)
				} else {
					m = append(m, rs...)
				}
			}
			emit(r.intn(2), one(string(m), ""))
		}
		// collisions with a second method
		ms := c01RuleSet(r)
		emit(r.intn(2), ms)
	}
}

func init() {
	props["C02"] = prop{gen: c02Gen, run: c01Run}
	props["C16"] = prop{gen: c16Gen, run: c01Run}
}
