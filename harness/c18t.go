package main

// C18T: installing a stats handler must not change what the client gets, also for handlers that set
// header and trailer metadata (a shape the scripted scenarios of c18.go do not cover).
//   C18T <proto: http|grpc|web> <outcome: ok|fail> ; same | diff <what>

import (
	"bytes"
	"context"
	"fmt"
	"net/http"
	"net/http/httptest"
	"sort"
	"strings"

	"google.golang.org/grpc"
	"google.golang.org/grpc/codes"
	"google.golang.org/grpc/metadata"
	"google.golang.org/grpc/stats"
	"google.golang.org/grpc/status"
	"google.golang.org/protobuf/proto"
	"google.golang.org/protobuf/reflect/protoreflect"
	"google.golang.org/protobuf/types/dynamicpb"
	"larking.io/larking"
)

type c18tNop struct{}

func (c18tNop) TagRPC(ctx context.Context, _ *stats.RPCTagInfo) context.Context   { return ctx }
func (c18tNop) HandleRPC(context.Context, stats.RPCStats)                         {}
func (c18tNop) TagConn(ctx context.Context, _ *stats.ConnTagInfo) context.Context { return ctx }
func (c18tNop) HandleConn(context.Context, stats.ConnStats)                       {}

func c18tMux(fail bool, withStats bool) *larking.Mux {
	msg := "larking.testpb.Message"
	f := dynFile{Path: "verif/c18t.proto", Pkg: "verif.c18t", Services: []dynService{{Name: "Tsvc", Methods: []dynMethod{
		{Name: "Un", In: msg, Out: msg, Rule: &dynRule{Verb: "GET", Tmpl: "/c18t/un"}},
	}}}}
	fd, err := f.build()
	if err != nil {
		panic(err)
	}
	impl := &dynImpl{
		Unary: func(ctx context.Context, method string, req proto.Message, out protoreflect.MessageDescriptor) (proto.Message, error) {
			grpc.SetHeader(ctx, metadata.Pairs("x-hdr", "1"))
			grpc.SetTrailer(ctx, metadata.Pairs("x-trl", "2", "x-hdr", "3"))
			if fail {
				return nil, status.Error(codes.NotFound, "nope")
			}
			return dynamicpb.NewMessage(out), nil
		},
		Stream: func(string, protoreflect.MessageDescriptor, protoreflect.MessageDescriptor, grpc.ServerStream) error {
			return nil
		},
	}
	var opts []larking.MuxOption
	if withStats {
		opts = append(opts, larking.StatsOption(c18tNop{}))
	}
	m, err := dynMux([]protoreflect.FileDescriptor{fd}, impl, opts...)
	if err != nil {
		panic(err)
	}
	return m
}

func c18tView(proto string, fail, withStats bool) string {
	m := c18tMux(fail, withStats)
	var r *http.Request
	switch proto {
	case "http":
		r = httptest.NewRequest("GET", "http://x/c18t/un", nil)
	case "grpc":
		r = httptest.NewRequest("POST", "http://x/verif.c18t.Tsvc/Un", bytes.NewReader([]byte{0, 0, 0, 0, 0}))
		r.ProtoMajor, r.ProtoMinor = 2, 0
		r.Header.Set("Content-Type", "application/grpc")
		r.Header.Set("Te", "trailers")
	case "web":
		r = httptest.NewRequest("POST", "http://x/verif.c18t.Tsvc/Un", bytes.NewReader([]byte{0, 0, 0, 0, 0}))
		r.Header.Set("Content-Type", "application/grpc-web+proto")
	}
	w := httptest.NewRecorder()
	func() {
		defer func() {
			if p := recover(); p != nil {
				w.Code = -1
			}
		}()
		m.ServeHTTP(w, r)
	}()
	res := w.Result()
	var hs []string
	for k, v := range res.Header {
		if k == "Date" {
			continue
		}
		hs = append(hs, k+"="+strings.Join(v, "|"))
	}
	sort.Strings(hs)
	var ts []string
	for k, v := range res.Trailer {
		ts = append(ts, k+"="+strings.Join(v, "|"))
	}
	sort.Strings(ts)
	return fmt.Sprintf("status=%d headers[%s] trailers[%s] body=%x", w.Code, strings.Join(hs, ";"), strings.Join(ts, ";"), w.Body.Bytes())
}

func c18tRun(o *out, input string) {
	f := strings.Fields(input)
	fail := f[2] == "fail"
	a, b := c18tView(f[1], fail, false), c18tView(f[1], fail, true)
	if a == b {
		o.emit(input, "same")
		return
	}
	o.emit(input, "diff "+strings.ReplaceAll("without:"+a+"__with:"+b, " ", "_"))
}

func c18tGen(o *out) {
	for _, p := range []string{"http", "grpc", "web"} {
		for _, oc := range []string{"ok", "fail"} {
			o.count("C18T")
			c18tRun(o, "C18T "+p+" "+oc)
		}
	}
}

func init() {
	p := props["C18"]
	g, rn := p.gen, p.run
	props["C18"] = prop{
		gen: func(o *out, r *rng, tier string) { g(o, r, tier); c18tGen(o) },
		run: func(o *out, in string) {
			if strings.HasPrefix(in, "C18T") {
				c18tRun(o, in)
			} else {
				rn(o, in)
			}
		},
	}
}
