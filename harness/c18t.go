package main

// C18T: installing a stats handler must not change what the client gets, also for handlers that set
// header and trailer metadata (a shape the scripted scenarios of c18.go do not cover).
//   C18T <proto: http|grpc|web>[+<grpc-encoding: identity|gzip|zz>] <outcome: ok|fail> ; same | diff <what>

import (
	"bytes"
	"compress/gzip"
	"context"
	"fmt"
	"io"
	"net/http"
	"net/http/httptest"
	"sort"
	"strings"

	"google.golang.org/grpc"
	"google.golang.org/grpc/codes"
	"google.golang.org/grpc/metadata"
	"google.golang.org/grpc/stats"
	"google.golang.org/grpc/status"
	"google.golang.org/protobuf/proto"
	"google.golang.org/protobuf/reflect/protoreflect"
	"google.golang.org/protobuf/types/dynamicpb"
	"larking.io/larking"
)

type c18tNop struct{}

func (c18tNop) TagRPC(ctx context.Context, _ *stats.RPCTagInfo) context.Context   { return ctx }
func (c18tNop) HandleRPC(context.Context, stats.RPCStats)                         {}
func (c18tNop) TagConn(ctx context.Context, _ *stats.ConnTagInfo) context.Context { return ctx }
func (c18tNop) HandleConn(context.Context, stats.ConnStats)                       {}

func c18tMux(fail bool, withStats bool) *larking.Mux {
	msg := "larking.testpb.Message"
	f := dynFile{Path: "verif/c18t.proto", Pkg: "verif.c18t", Services: []dynService{{Name: "Tsvc", Methods: []dynMethod{
		{Name: "Un", In: msg, Out: msg, Rule: &dynRule{Verb: "GET", Tmpl: "/c18t/un"}},
	}}}}
	fd, err := f.build()
	if err != nil {
		panic(err)
	}
	impl := &dynImpl{
		Unary: func(ctx context.Context, method string, req proto.Message, out protoreflect.MessageDescriptor) (proto.Message, error) {
			grpc.SetHeader(ctx, metadata.Pairs("x-hdr", "1"))
			grpc.SetTrailer(ctx, metadata.Pairs("x-trl", "2", "x-hdr", "3"))
			if fail {
				return nil, status.Error(codes.NotFound, "nope")
			}
			return dynamicpb.NewMessage(out), nil
		},
		Stream: func(string, protoreflect.MessageDescriptor, protoreflect.MessageDescriptor, grpc.ServerStream) error {
			return nil
		},
	}
	var opts []larking.MuxOption
	if withStats {
		opts = append(opts, larking.StatsOption(c18tNop{}))
	}
	m, err := dynMux([]protoreflect.FileDescriptor{fd}, impl, opts...)
	if err != nil {
		panic(err)
	}
	return m
}

func c18tView(proto string, fail, withStats bool) string {
	m := c18tMux(fail, withStats)
	var r *http.Request
	proto, enc, _ := strings.Cut(proto, "+")
	frame := []byte{0, 0, 0, 0, 0}
	if enc == "gzip" {
		var z bytes.Buffer
		zw := gzip.NewWriter(&z)
		zw.Close()
		frame = append([]byte{1, 0, 0, 0, byte(z.Len())}, z.Bytes()...)
	}
	switch proto {
	case "http":
		r = httptest.NewRequest("GET", "http://x/c18t/un", nil)
	case "grpc":
		r = httptest.NewRequest("POST", "http://x/verif.c18t.Tsvc/Un", bytes.NewReader(frame))
		r.ProtoMajor, r.ProtoMinor = 2, 0
		r.Header.Set("Content-Type", "application/grpc")
		r.Header.Set("Te", "trailers")
	case "web":
		r = httptest.NewRequest("POST", "http://x/verif.c18t.Tsvc/Un", bytes.NewReader(frame))
		r.Header.Set("Content-Type", "application/grpc-web+proto")
	}
	if enc != "" {
		r.Header.Set("Grpc-Encoding", enc)
	}
	w := httptest.NewRecorder()
	func() {
		defer func() {
			if p := recover(); p != nil {
				w.Code = -1
			}
		}()
		m.ServeHTTP(w, r)
	}()
	res := w.Result()
	var hs []string
	for k, v := range res.Header {
		if k == "Date" {
			continue
		}
		hs = append(hs, k+"="+strings.Join(v, "|"))
	}
	sort.Strings(hs)
	var ts []string
	for k, v := range res.Trailer {
		ts = append(ts, k+"="+strings.Join(v, "|"))
	}
	sort.Strings(ts)
	return fmt.Sprintf("status=%d headers[%s] trailers[%s] body=%x", w.Code, strings.Join(hs, ";"), strings.Join(ts, ";"), w.Body.Bytes())
}

func c18tRun(o *out, input string) {
	f := strings.Fields(input)
	fail := f[2] == "fail"
	a, b := c18tView(f[1], fail, false), c18tView(f[1], fail, true)
	if a == b {
		o.emit(input, "same")
		return
	}
	o.emit(input, "diff "+strings.ReplaceAll("without:"+a+"__with:"+b, " ", "_"))
}

// C18Z <variant> ; <events>: one HTTP-transcoded call whose request body names a Content-Encoding, on a
// mux with a recording stats handler; the events must form one well-formed sequence (in particular: a
// Begin is followed by exactly one End), whatever becomes of the body.
type c18zStats struct{ ev *[]string }

func (s c18zStats) TagRPC(ctx context.Context, info *stats.RPCTagInfo) context.Context {
	*s.ev = append(*s.ev, "T:"+hx([]byte(info.FullMethodName)))
	return ctx
}
func (s c18zStats) HandleRPC(_ context.Context, st stats.RPCStats) {
	var x string
	switch v := st.(type) {
	case *stats.InHeader:
		x = "H:" + hx([]byte(v.FullMethod))
	case *stats.Begin:
		x = fmt.Sprintf("B:%d%d", b2i(v.IsClientStream), b2i(v.IsServerStream))
	case *stats.InPayload:
		x = fmt.Sprintf("I:%d:%d", v.Length, v.WireLength)
	case *stats.OutHeader:
		x = "OH"
	case *stats.OutPayload:
		x = fmt.Sprintf("O:%d:%d", v.Length, v.WireLength)
	case *stats.OutTrailer:
		x = "OT"
	case *stats.End:
		x = "E:" + c18Code(v.Error)
	default:
		x = fmt.Sprintf("X:%T", st)
	}
	*s.ev = append(*s.ev, x)
}
func (c18zStats) TagConn(ctx context.Context, _ *stats.ConnTagInfo) context.Context { return ctx }
func (c18zStats) HandleConn(context.Context, stats.ConnStats)                       {}

func c18zRun(o *out, input string) {
	f := strings.Fields(input)
	msg := "larking.testpb.Message"
	df := dynFile{Path: "verif/c18z.proto", Pkg: "verif.c18z", Services: []dynService{{Name: "Zsvc", Methods: []dynMethod{
		{Name: "Un", In: msg, Out: msg, Rule: &dynRule{Verb: "POST", Tmpl: "/c18z/un", Body: "*"}},
		{Name: "Up", In: msg, Out: msg, ClientStream: true, Rule: &dynRule{Verb: "POST", Tmpl: "/c18z/up", Body: "*"}},
	}}}}
	fd, err := df.build()
	if err != nil {
		panic(err)
	}
	// a handler may return errors that are not gRPC statuses, io.EOF and context.Canceled among them
	var herr error
	hk, _, _ := strings.Cut(f[1], "@")
	// "+hkey" / "hkey": the handler first sets header metadata under a key that cannot be sent; whatever becomes of that
	// header, the RPC that began ends (one End event) and the client is told what the handler returned
	hk, hkey := strings.CutSuffix(hk, "+hkey")
	if hk == "hkey" {
		hkey = true
	}
	badMD := metadata.MD{"Bad Key": []string{"v"}, "x-fine": []string{"1"}}
	switch hk {
	case "herr-eof":
		herr = io.EOF
	case "herr-canceled":
		herr = context.Canceled
	case "herr-plain":
		herr = fmt.Errorf("plain error")
	case "herr-status":
		herr = status.Error(codes.DataLoss, "lost")
	}
	impl := &dynImpl{
		Unary: func(ctx context.Context, method string, req proto.Message, out protoreflect.MessageDescriptor) (proto.Message, error) {
			if hkey {
				grpc.SetHeader(ctx, badMD) //nolint
			}
			if herr != nil {
				return nil, herr
			}
			return dynamicpb.NewMessage(out), nil
		},
		Stream: func(method string, in, out protoreflect.MessageDescriptor, ss grpc.ServerStream) error {
			if hkey {
				ss.SetHeader(badMD) //nolint
			}
			for {
				if err := ss.RecvMsg(dynamicpb.NewMessage(in)); err != nil {
					break
				}
			}
			if herr != nil {
				return herr
			}
			return ss.SendMsg(dynamicpb.NewMessage(out))
		},
	}
	var ev []string
	m, err := dynMux([]protoreflect.FileDescriptor{fd}, impl, larking.StatsOption(c18zStats{&ev}))
	if err != nil {
		panic(err)
	}
	var z bytes.Buffer
	zw := gzip.NewWriter(&z)
	zw.Write([]byte(`{"text":"hello"}`))
	zw.Close()
	body, enc := z.Bytes(), "gzip"
	switch f[1] {
	case "okgzip":
	case "badgzip":
		body = []byte(`{"text":"not gzip at all"}`)
	case "emptygzip":
		body = nil
	case "truncgzip":
		body = body[:len(body)-9]
	case "shortgzip":
		body = body[:5]
	case "unknownenc":
		enc, body = "br", []byte(`{"text":"hello"}`)
	}
	path := "/c18z/un"
	if len(f) > 2 && f[2] == "up" {
		path = "/c18z/up"
	}
	if f[1] == "badquery" {
		path += "?no_such_field=1" // a query the method refuses: either no RPC begins, or the one that began ends
	}
	r := httptest.NewRequest("POST", path, bytes.NewReader(body))
	r.Header.Set("Content-Type", "application/json")
	r.Header.Set("Content-Encoding", enc)
	if base, proto_, ok := strings.Cut(f[1], "@"); ok && (strings.HasPrefix(base, "herr-") || base == "hkey") {
		// the failing handlers also over gRPC / gRPC-web (one empty request message)
		m := "Un"
		if len(f) > 2 && f[2] == "up" {
			m = "Up"
		}
		r = httptest.NewRequest("POST", "/verif.c18z.Zsvc/"+m, bytes.NewReader([]byte{0, 0, 0, 0, 0}))
		if proto_ == "web" {
			r.Header.Set("Content-Type", "application/grpc-web+proto")
		} else {
			r.ProtoMajor, r.ProtoMinor = 2, 0
			r.Header.Set("Content-Type", "application/grpc")
			r.Header.Set("Te", "trailers")
		}
	}
	if strings.HasPrefix(f[1], "timeout:") {
		// a gRPC / gRPC-web call with a grpc-timeout header (malformed ones are refused: no RPC begins,
		// or the one that began ends)
		m := "Un"
		if len(f) > 2 && f[2] == "up" {
			m = "Up"
		}
		_, tv, _ := strings.Cut(f[1], ":")
		tv, web, _ := strings.Cut(tv, "@")
		r = httptest.NewRequest("POST", "/verif.c18z.Zsvc/"+m, bytes.NewReader([]byte{0, 0, 0, 0, 0}))
		if web == "web" {
			r.Header.Set("Content-Type", "application/grpc-web+proto")
		} else {
			r.ProtoMajor, r.ProtoMinor = 2, 0
			r.Header.Set("Content-Type", "application/grpc")
			r.Header.Set("Te", "trailers")
		}
		r.Header.Set("Grpc-Timeout", tv)
	}
	w := httptest.NewRecorder()
	func() {
		defer func() {
			if p := recover(); p != nil {
				ev = append(ev, "X:panic")
			}
		}()
		m.ServeHTTP(w, r)
	}()
	if len(ev) == 0 {
		ev = []string{"-"}
	}
	o.emit(input, fmt.Sprintf("%s %d", strings.Join(ev, ","), w.Code))
}

func c18tGen(o *out) {
	for _, v := range []string{"okgzip", "badgzip", "emptygzip", "truncgzip", "shortgzip", "unknownenc", "herr-eof", "herr-canceled", "herr-plain", "herr-status",
		"herr-eof@grpc", "herr-canceled@grpc", "herr-plain@grpc", "herr-eof@web", "herr-canceled@web", "herr-status@web", "badquery",
		"hkey@grpc", "hkey@web", "herr-plain+hkey@grpc", "herr-status+hkey@web", "herr-eof+hkey@grpc",
		"timeout:5x", "timeout:S", "timeout:-1S", "timeout:123456789S", "timeout:1.5S", "timeout:10S", "timeout:5x@web", "timeout:S@web", "timeout:10S@web"} {
		for _, sh := range []string{"un", "up"} {
			o.count("C18Z")
			c18zRun(o, "C18Z "+v+" "+sh)
		}
	}
	for _, p := range []string{"http", "grpc", "web", "grpc+identity", "grpc+gzip", "grpc+zz", "web+identity", "web+gzip", "web+zz"} {
		for _, oc := range []string{"ok", "fail"} {
			o.count("C18T")
			c18tRun(o, "C18T "+p+" "+oc)
		}
	}
}

func init() {
	p := props["C18"]
	g, rn := p.gen, p.run
	props["C18"] = prop{
		gen: func(o *out, r *rng, tier string) { g(o, r, tier); c18tGen(o) },
		run: func(o *out, in string) {
			if strings.HasPrefix(in, "C18T") {
				c18tRun(o, in)
			} else if strings.HasPrefix(in, "C18Z") {
				c18zRun(o, in)
			} else {
				rn(o, in)
			}
		},
	}
}
