package main

import (
	"context"
	"fmt"
	"strings"

	"google.golang.org/genproto/googleapis/api/annotations"
	_ "google.golang.org/genproto/googleapis/api/httpbody"
	"google.golang.org/grpc"
	"google.golang.org/protobuf/proto"
	"google.golang.org/protobuf/reflect/protodesc"
	"google.golang.org/protobuf/reflect/protoreflect"
	"google.golang.org/protobuf/reflect/protoregistry"
	"google.golang.org/protobuf/types/descriptorpb"
	"google.golang.org/protobuf/types/dynamicpb"
	"larking.io/api/testpb"
	"larking.io/larking"
)

// Dynamic services: descriptors built at run time so that rule sets, schemas and method shapes
// can be generated, registered through the verif hook and served by the real Mux.

type dynRule struct {
	Verb       string // GET PUT POST DELETE PATCH, anything else = custom kind
	Tmpl       string
	Body       string
	RespBody   string
	Additional []dynRule
	Selector   string // only for service-config rules
}

func (r dynRule) toProto() *annotations.HttpRule {
	hr := &annotations.HttpRule{Body: r.Body, ResponseBody: r.RespBody, Selector: r.Selector}
	switch r.Verb {
	case "GET":
		hr.Pattern = &annotations.HttpRule_Get{Get: r.Tmpl}
	case "PUT":
		hr.Pattern = &annotations.HttpRule_Put{Put: r.Tmpl}
	case "POST":
		hr.Pattern = &annotations.HttpRule_Post{Post: r.Tmpl}
	case "DELETE":
		hr.Pattern = &annotations.HttpRule_Delete{Delete: r.Tmpl}
	case "PATCH":
		hr.Pattern = &annotations.HttpRule_Patch{Patch: r.Tmpl}
	default:
		hr.Pattern = &annotations.HttpRule_Custom{Custom: &annotations.CustomHttpPattern{Kind: r.Verb, Path: r.Tmpl}}
	}
	for _, a := range r.Additional {
		hr.AdditionalBindings = append(hr.AdditionalBindings, a.toProto())
	}
	return hr
}

type dynMethod struct {
	Name         string
	In, Out      string // full message names (must exist in deps or in Msgs)
	ClientStream bool
	ServerStream bool
	Rule         *dynRule
}

type dynService struct {
	Name    string // simple name; package is the file's
	Methods []dynMethod
}

type dynFile struct {
	Path     string
	Pkg      string
	Msgs     []*descriptorpb.DescriptorProto
	Enums    []*descriptorpb.EnumDescriptorProto
	Services []dynService
}

var dynDeps = []string{
	"google/api/annotations.proto", "google/api/httpbody.proto", "google/protobuf/empty.proto",
	"google/protobuf/timestamp.proto", "google/protobuf/duration.proto", "google/protobuf/wrappers.proto",
	"google/protobuf/field_mask.proto", "google/protobuf/struct.proto",
}

func (f dynFile) build() (protoreflect.FileDescriptor, error) {
	fdp := &descriptorpb.FileDescriptorProto{
		Name:        proto.String(f.Path),
		Package:     proto.String(f.Pkg),
		Syntax:      proto.String("proto3"),
		MessageType: f.Msgs,
		EnumType:    f.Enums,
		Dependency:  append(append([]string(nil), dynDeps...), testpb.File_larking_api_test_proto.Path()),
	}
	for _, s := range f.Services {
		sd := &descriptorpb.ServiceDescriptorProto{Name: proto.String(s.Name)}
		for _, m := range s.Methods {
			md := &descriptorpb.MethodDescriptorProto{
				Name:            proto.String(m.Name),
				InputType:       proto.String("." + m.In),
				OutputType:      proto.String("." + m.Out),
				ClientStreaming: proto.Bool(m.ClientStream),
				ServerStreaming: proto.Bool(m.ServerStream),
			}
			if m.Rule != nil {
				opts := &descriptorpb.MethodOptions{}
				proto.SetExtension(opts, annotations.E_Http, m.Rule.toProto())
				md.Options = opts
			}
			sd.Method = append(sd.Method, md)
		}
		fdp.Service = append(fdp.Service, sd)
	}
	return protodesc.NewFile(fdp, protoregistry.GlobalFiles)
}

// dynImpl is what a dynamic service does when called.
type dynImpl struct {
	Unary  func(ctx context.Context, method string, req proto.Message, out protoreflect.MessageDescriptor) (proto.Message, error)
	Stream func(method string, in, out protoreflect.MessageDescriptor, ss grpc.ServerStream) error
}

func serviceDesc(sd protoreflect.ServiceDescriptor, impl *dynImpl) *grpc.ServiceDesc {
	gsd := &grpc.ServiceDesc{ServiceName: string(sd.FullName()), HandlerType: (*interface{})(nil)}
	mds := sd.Methods()
	for i := 0; i < mds.Len(); i++ {
		md := mds.Get(i)
		full := fmt.Sprintf("/%s/%s", sd.FullName(), md.Name())
		in, outd := md.Input(), md.Output()
		if md.IsStreamingClient() || md.IsStreamingServer() {
			gsd.Streams = append(gsd.Streams, grpc.StreamDesc{
				StreamName:    string(md.Name()),
				ClientStreams: md.IsStreamingClient(),
				ServerStreams: md.IsStreamingServer(),
				Handler: func(srv interface{}, ss grpc.ServerStream) error {
					return impl.Stream(full, in, outd, ss)
				},
			})
			continue
		}
		gsd.Methods = append(gsd.Methods, grpc.MethodDesc{
			MethodName: string(md.Name()),
			Handler: func(srv interface{}, ctx context.Context, dec func(interface{}) error, interceptor grpc.UnaryServerInterceptor) (interface{}, error) {
				req := dynamicpb.NewMessage(in)
				if err := dec(req); err != nil {
					return nil, err
				}
				h := func(ctx context.Context, r interface{}) (interface{}, error) {
					return impl.Unary(ctx, full, r.(proto.Message), outd)
				}
				if interceptor == nil {
					return h(ctx, req)
				}
				return interceptor(ctx, req, &grpc.UnaryServerInfo{Server: srv, FullMethod: full}, h)
			},
		})
	}
	return gsd
}

// dynMux builds a Mux over the files and registers every service with impl.
// The first registration error (or a recovered panic) is returned.
func dynMux(fds []protoreflect.FileDescriptor, impl *dynImpl, opts ...larking.MuxOption) (m *larking.Mux, err error) {
	files := &protoregistry.Files{}
	for _, fd := range fds {
		if err := files.RegisterFile(fd); err != nil {
			return nil, err
		}
	}
	m, err = larking.NewMux(append([]larking.MuxOption{larking.FilesOption(files)}, opts...)...)
	if err != nil {
		return nil, err
	}
	for _, fd := range fds {
		sds := fd.Services()
		for i := 0; i < sds.Len(); i++ {
			if err := safeRegister(m, serviceDesc(sds.Get(i), impl)); err != nil {
				return m, err
			}
		}
	}
	return m, nil
}

// dynMuxLater is dynMux followed by one more registration (a service of another file, reached only under its own
// /verif.later.L/Ping): the routes of the services under test are then served from a routing state that was copied
// after they were bound, as on any mux that registers more than one service
func dynMuxLater(fds []protoreflect.FileDescriptor, impl *dynImpl, opts ...larking.MuxOption) (*larking.Mux, error) {
	later, err := dynFile{Path: "verif/later.proto", Pkg: "verif.later", Services: []dynService{{Name: "L", Methods: []dynMethod{
		{Name: "Ping", In: "larking.testpb.Message", Out: "larking.testpb.Message"},
	}}}}.build()
	if err != nil {
		return nil, err
	}
	files := &protoregistry.Files{}
	for _, fd := range append(append([]protoreflect.FileDescriptor(nil), fds...), later) {
		if err := files.RegisterFile(fd); err != nil {
			return nil, err
		}
	}
	m, err := larking.NewMux(append([]larking.MuxOption{larking.FilesOption(files)}, opts...)...)
	if err != nil {
		return nil, err
	}
	for _, fd := range append(append([]protoreflect.FileDescriptor(nil), fds...), later) {
		sds := fd.Services()
		for i := 0; i < sds.Len(); i++ {
			if err := safeRegister(m, serviceDesc(sds.Get(i), impl)); err != nil {
				return m, err
			}
		}
	}
	return m, nil
}

type panicError struct{ v interface{} }

func (p panicError) Error() string { return fmt.Sprintf("panic: %v", p.v) }

func safeRegister(m *larking.Mux, gsd *grpc.ServiceDesc, ss ...interface{}) (err error) {
	defer func() {
		if p := recover(); p != nil {
			err = panicError{p}
		}
	}()
	if len(ss) > 0 {
		return m.VerifRegisterService(gsd, ss[0]) // the implementation object, as an application passes it
	}
	// (an application always passes its server value; the dynamic handlers do not look at it)
	return m.VerifRegisterService(gsd, dynDefaultImpl)
}

var dynDefaultImpl = &struct{ name string }{"verif default implementation"}

func isPanic(err error) bool {
	_, ok := err.(panicError)
	return ok
}

// canonical text of a message for comparison (deterministic field order by number)
func msgText(m proto.Message) string {
	if m == nil {
		return "<nil>"
	}
	b, err := proto.MarshalOptions{Deterministic: true}.Marshal(m)
	if err != nil {
		return "<marshal error>"
	}
	return hx(b)
}

func trimFull(full string) string { return strings.TrimPrefix(full, "/") }
