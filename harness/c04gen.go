package main

import (
	"fmt"
	"math"
	"strings"

	"google.golang.org/protobuf/proto"
	"google.golang.org/protobuf/reflect/protoreflect"
	"google.golang.org/protobuf/types/dynamicpb"
	"google.golang.org/protobuf/types/known/anypb"
	"larking.io/api/testpb"
)

// ---------- random replies over every field kind ----------

var c04Strings = []string{"", "a", "hello world", "üñí-✓", "quote\"back\\slash", "line\nbreak\ttab", "<html>&amp;</html>", "{\"json\":1}", "0", "null"}

func c04Scalar(r *rng, fd protoreflect.FieldDescriptor) protoreflect.Value {
	i64 := []int64{0, 1, -1, 127, -128, math.MaxInt32, math.MinInt32, math.MaxInt64, math.MinInt64, 1 << 53, -(1 << 53) - 1, int64(r.u64())}
	u64 := []uint64{0, 1, 255, math.MaxUint32, math.MaxUint64, 1 << 53, r.u64()}
	f64 := []float64{0, 1, -1, 0.5, 1e-7, 1e21, math.MaxFloat64, math.SmallestNonzeroFloat64, math.Inf(1), math.Inf(-1), math.Copysign(0, -1), 3.141592653589793, float64(int64(r.u64())) / 1024}
	switch fd.Kind() {
	case protoreflect.BoolKind:
		return protoreflect.ValueOfBool(r.bool())
	case protoreflect.Int32Kind, protoreflect.Sint32Kind, protoreflect.Sfixed32Kind:
		return protoreflect.ValueOfInt32(int32(i64[r.intn(len(i64))]))
	case protoreflect.Int64Kind, protoreflect.Sint64Kind, protoreflect.Sfixed64Kind:
		return protoreflect.ValueOfInt64(i64[r.intn(len(i64))])
	case protoreflect.Uint32Kind, protoreflect.Fixed32Kind:
		return protoreflect.ValueOfUint32(uint32(u64[r.intn(len(u64))]))
	case protoreflect.Uint64Kind, protoreflect.Fixed64Kind:
		return protoreflect.ValueOfUint64(u64[r.intn(len(u64))])
	case protoreflect.FloatKind:
		return protoreflect.ValueOfFloat32(float32(f64[r.intn(len(f64))]))
	case protoreflect.DoubleKind:
		return protoreflect.ValueOfFloat64(f64[r.intn(len(f64))])
	case protoreflect.StringKind:
		return protoreflect.ValueOfString(c04Strings[r.intn(len(c04Strings))])
	case protoreflect.BytesKind:
		return protoreflect.ValueOfBytes(r.bytes(r.intn(6)))
	case protoreflect.EnumKind:
		vs := fd.Enum().Values()
		return protoreflect.ValueOfEnum(vs.Get(r.intn(vs.Len())).Number())
	}
	panic("c04: kind " + fd.Kind().String())
}

// c04Fill sets a random subset of the fields of m; well-known types get valid values (the JSON
// mapping of Timestamp, Duration, FieldMask, Value and Any rejects others at marshal time, which
// is protobuf-go's business and outside the property).
func c04Fill(r *rng, m protoreflect.Message, depth int, dense int) {
	d := m.Descriptor()
	set := func(name string, v protoreflect.Value) { m.Set(d.Fields().ByName(protoreflect.Name(name)), v) }
	switch d.FullName() {
	case "google.protobuf.Timestamp":
		set("seconds", protoreflect.ValueOfInt64([]int64{0, 1, -62135596800, 253402300799, 1700000000}[r.intn(5)]))
		set("nanos", protoreflect.ValueOfInt32([]int32{0, 1, 999999999, 500000000}[r.intn(4)]))
		return
	case "google.protobuf.Duration":
		s := []int64{0, 1, -1, 315576000000, -315576000000, 3600}[r.intn(6)]
		n := []int32{0, 1, 999999999, 500000000}[r.intn(4)]
		if s < 0 {
			n = -n
		}
		set("seconds", protoreflect.ValueOfInt64(s))
		set("nanos", protoreflect.ValueOfInt32(n))
		return
	case "google.protobuf.FieldMask":
		l := m.Mutable(d.Fields().ByName("paths")).List()
		for i, n := 0, r.intn(3); i < n; i++ {
			l.Append(protoreflect.ValueOfString([]string{"foo", "foo_bar.baz", "a.b.c", "user_id"}[r.intn(4)]))
		}
		return
	case "google.protobuf.Value":
		switch k := r.intn(6); {
		case k == 0:
			set("null_value", protoreflect.ValueOfEnum(0))
		case k == 1:
			set("number_value", protoreflect.ValueOfFloat64([]float64{0, 1.5, -2, 1e10}[r.intn(4)]))
		case k == 2:
			set("string_value", protoreflect.ValueOfString(c04Strings[r.intn(len(c04Strings))]))
		case k == 3 || depth <= 0:
			set("bool_value", protoreflect.ValueOfBool(r.bool()))
		case k == 4:
			c04Fill(r, m.Mutable(d.Fields().ByName("struct_value")).Message(), depth-1, dense)
		default:
			c04Fill(r, m.Mutable(d.Fields().ByName("list_value")).Message(), depth-1, dense)
		}
		return
	case "google.protobuf.Any":
		a, err := anypb.New(&testpb.Message{MessageId: "any", Text: c04Strings[r.intn(len(c04Strings))]})
		if err != nil {
			panic(err)
		}
		set("type_url", protoreflect.ValueOfString(a.TypeUrl))
		set("value", protoreflect.ValueOfBytes(a.Value))
		return
	}
	fds := d.Fields()
	for i := 0; i < fds.Len(); i++ {
		fd := fds.Get(i)
		if r.intn(dense) != 0 {
			continue
		}
		isMsg := fd.Message() != nil && !fd.IsMap()
		if isMsg && depth <= 0 {
			continue
		}
		switch {
		case fd.IsMap():
			mp := m.Mutable(fd).Map()
			for j, n := 0, r.intn(3); j < n; j++ {
				k := c04Scalar(r, fd.MapKey()).MapKey()
				if fd.MapValue().Message() != nil {
					if depth <= 0 {
						continue
					}
					v := mp.NewValue()
					c04Fill(r, v.Message(), depth-1, dense+2)
					mp.Set(k, v)
				} else {
					mp.Set(k, c04Scalar(r, fd.MapValue()))
				}
			}
		case fd.IsList():
			l := m.Mutable(fd).List()
			for j, n := 0, r.intn(4); j < n; j++ {
				if isMsg {
					v := l.NewElement()
					c04Fill(r, v.Message(), depth-1, dense+2)
					l.Append(v)
				} else {
					l.Append(c04Scalar(r, fd))
				}
			}
		case isMsg:
			c04Fill(r, m.Mutable(fd).Message(), depth-1, dense+2)
		default:
			m.Set(fd, c04Scalar(r, fd))
		}
	}
}

func c04Reply(r *rng, md protoreflect.MessageDescriptor, class int) []byte {
	m := dynamicpb.NewMessage(md)
	switch class {
	case 0: // empty
	case 1: // sparse
		c04Fill(r, m, 2, 6)
	case 2: // dense: most field kinds at once
		c04Fill(r, m, 3, 2)
	case 3: // one large string / bytes field somewhere
		c04Fill(r, m, 2, 6)
		big := strings.Repeat("large-", 1+r.intn(5000))
		if fd := md.Fields().ByName("label"); fd != nil {
			m.Set(fd, protoreflect.ValueOfString(big))
			in := m.Mutable(md.Fields().ByName("inner")).Message()
			in.Set(in.Descriptor().Fields().ByName("note"), protoreflect.ValueOfString(big))
			cx := m.Mutable(md.Fields().ByName("complex")).Message()
			cx.Set(cx.Descriptor().Fields().ByName("string_value"), protoreflect.ValueOfString(big))
			cx.Set(cx.Descriptor().Fields().ByName("bytes_value"), protoreflect.ValueOfBytes([]byte(big)))
		} else if fd := md.Fields().ByName("string_value"); fd != nil {
			m.Set(fd, protoreflect.ValueOfString(big))
		}
	}
	b, err := proto.MarshalOptions{Deterministic: true}.Marshal(m)
	if err != nil {
		panic(err)
	}
	return b
}

var c04BodyTypes = []string{"", "text/plain", "application/json", "image/png", "application/octet-stream", "text/html; charset=utf-8", "x/y", "google.api.HttpBody", "*/*", "weird type"}

// HttpBody replies: arbitrary content types and bytes (empty, 1 byte, large)
func c04HttpBody(r *rng, m protoreflect.Message) {
	d := m.Descriptor()
	var data []byte
	k := r.intn(5)
	if r.intn(40) == 0 {
		k = 5
	}
	switch k {
	case 0:
	case 1:
		data = r.bytes(1)
	case 2:
		data = r.bytes(2 + r.intn(300))
	case 3:
		data = []byte("{\"looks\":\"like json\"}")
	case 4:
		data = []byte{0x1f, 0x8b, 0x08, 0, 0, 0}
	default:
		data = r.bytes(1000 + r.intn(100000))
	}
	ct := c04BodyTypes[r.intn(len(c04BodyTypes))]
	if r.intn(4) == 0 {
		ct = string(c04Ascii(r, 1+r.intn(12)))
	}
	m.Set(d.Fields().ByName("content_type"), protoreflect.ValueOfString(ct))
	m.Set(d.Fields().ByName("data"), protoreflect.ValueOfBytes(data))
}

func c04Ascii(r *rng, n int) []byte {
	b := make([]byte, n)
	for i := range b {
		b[i] = byte(0x21 + r.intn(0x5e))
	}
	return b
}

// ---------- Accept / Accept-Encoding grammar ----------

var c04Types = []string{"*/*", "application/*", "text/*", "application/json", "application/protobuf", "application/octet-stream",
	"google.api.HttpBody", "text/plain", "application/xml", c04CustA, c04CustB, "APPLICATION/JSON", "*", "*/json", "application/",
	"/*", "a/b/*", "google.api.*", "application/json/*", "text/x-verif/*", "application/jso", "application/jsonx"}
var c04Qs = []string{"", "", "", ";q=0", ";q=0.001", ";q=0.5", ";q=1", ";q=1.5", ";q=1.000", ";q=0.", ";q=.5", ";q=abc", ";q=-1", ";q=2",
	";q=00", ";q=0.0", ";q=0.000", "; q=0.5", " ;q=0.9", " ; q=0.25", ";Q=0.5", ";q =0.5", ";q= 0.5", "; charset=utf-8", ";q=0.5;level=1", ";level=1;q=0.5",
	";q=0.999", ";q=0.9", ";q=0.99", ";q=0.1", ";q=0.10", ";q=1.0", ";q=0.500"}
var c04Seps = []string{",", ", ", " , ", ",,", "\t,", ",\t ", ";", " ", ",\r\n "}
var c04Encs = []string{"gzip", "identity", "*", "deflate", "br", "GZIP", "application/json", "x-gzip", "gzip/x", "", "google.api.HttpBody"}

func c04Range(r *rng, names []string) string {
	return names[r.intn(len(names))] + c04Qs[r.intn(len(c04Qs))]
}

func c04Line(r *rng, names []string) string {
	n := r.intn(5)
	var sb strings.Builder
	if r.intn(10) == 0 {
		sb.WriteString([]string{" ", "\t", ","}[r.intn(3)])
	}
	for i := 0; i < n; i++ {
		if i > 0 {
			if r.intn(6) == 0 {
				sb.WriteString(c04Seps[r.intn(len(c04Seps))])
			} else {
				sb.WriteString([]string{",", ", "}[r.intn(2)])
			}
		}
		sb.WriteString(c04Range(r, names))
	}
	return sb.String()
}

// no run of more than three decimal digits: q-values are exact rationals in the model and float64
// in the code; they agree (after rounding q*1000) on at most three fractional digits
func c04CapDigits(s string) string {
	var out []byte
	run := 0
	for i := 0; i < len(s); i++ {
		if s[i] >= '0' && s[i] <= '9' {
			run++
			if run > 3 {
				continue
			}
		} else {
			run = 0
		}
		out = append(out, s[i])
	}
	return string(out)
}

func c04Junk(r *rng) string {
	n := r.intn(24)
	b := make([]byte, n)
	alpha := "*/;,=q01.5 \tqa-+x\"()"
	for i := range b {
		switch r.intn(4) {
		case 0:
			b[i] = byte(r.u64())
		default:
			b[i] = alpha[r.intn(len(alpha))]
		}
	}
	return c04CapDigits(string(b))
}

func c04Header(r *rng, names []string) []string {
	ls := c04Header0(r, names)
	for i := range ls {
		ls[i] = c04CapDigits(ls[i])
	}
	return ls
}

func c04Header0(r *rng, names []string) []string {
	switch k := r.intn(20); {
	case k == 0:
		return nil
	case k == 1:
		return []string{c04Line(r, names), c04Line(r, names)}
	case k == 2:
		return []string{c04Junk(r)}
	case k == 3:
		return []string{c04Line(r, names) + c04Junk(r), c04Line(r, names)}
	}
	return []string{c04Line(r, names)}
}

var c04ReqCTs = []string{"-", "application/json", "application/protobuf", "application/octet-stream", "text/plain", "application/xml",
	"application/json; charset=utf-8", "google.api.HttpBody", c04CustA, c04CustB, "", "APPLICATION/JSON", "*/*"}

func c04Gen(o *out, r *rng, tier string) {
	e := c04Setup()
	scale := 1
	if tier == "thorough" {
		scale = 12
	}
	offerSets := [][]string{
		{"application/json", "application/octet-stream", "application/protobuf"},
		{"application/json", "application/octet-stream", "application/protobuf", "google.api.HttpBody"},
		{"application/json", "application/octet-stream", "application/protobuf", c04CustA, c04CustB},
		{"text/html", "text/plain", "application/json", "text/x-verif", "image/png"},
		{"application/json"},
		{},
		{"a/b", "a/b", "a/c"},
		{"application/json", "applicationx/json", "text/plain", "textual/x", "text/x-verif"},
		{"text/x-verif", "text/plain", "application/protobuf", "application/json"},
	}
	defaults := []string{"application/json", "", "text/plain", "application/protobuf", "x"}

	// ---- direct negotiation: model == implementation on every header ----
	emitN := func(lines []string, offers []string, def string, tag string) {
		o.count("negotiate/" + tag)
		c04Run(o, fmt.Sprintf("C04N %s %s %s", c04Strs(lines), c04Strs(offers), hx([]byte(def))))
	}
	// every single range x every q spelling, and all ordered pairs of a core set
	for _, t := range c04Types {
		for _, q := range c04Qs {
			emitN([]string{t + q}, offerSets[2], "text/plain", "single")
		}
	}
	core := []string{"*/*", "application/*", "text/*", "application/json", "application/protobuf", "text/plain", c04CustB}
	cq := []string{"", ";q=0", ";q=0.5", ";q=0.9", ";q=1"}
	for _, a := range core {
		for _, qa := range cq {
			for _, b := range core {
				for _, qb := range cq {
					emitN([]string{a + qa + ", " + b + qb}, offerSets[2], "application/xml", "pair")
				}
			}
		}
	}
	for i := 0; i < 4000*scale; i++ {
		emitN(c04Header(r, c04Types), offerSets[r.intn(len(offerSets))], defaults[r.intn(len(defaults))], "grammar")
	}
	for i := 0; i < 1500*scale; i++ {
		emitN([]string{c04Junk(r)}, offerSets[r.intn(len(offerSets))], defaults[r.intn(len(defaults))], "junk")
	}
	emitN([]string{strings.Repeat(",", 5000) + "application/json"}, offerSets[0], "d", "long")
	emitN([]string{strings.Repeat("a/b;q=0.5, ", 800)}, []string{"a/b"}, "d", "long")
	emitN([]string{strings.Repeat("\xff", 3000)}, offerSets[0], "d", "long")

	// ---- Accept-Encoding ----
	encOffers := [][]string{{"gzip", "identity"}, {"application/json", "application/octet-stream", "application/protobuf", "google.api.HttpBody"}, {"gzip"}, {}, {"br", "gzip", "identity"}}
	emitE := func(lines []string, offers []string, tag string) {
		o.count("encoding/" + tag)
		c04Run(o, fmt.Sprintf("C04E %s %s", c04Strs(lines), c04Strs(offers)))
	}
	for _, t := range c04Encs {
		for _, q := range c04Qs {
			for _, of := range encOffers[:2] {
				emitE([]string{t + q}, of, "single")
			}
		}
	}
	for i := 0; i < 400*scale; i++ {
		emitE(c04Header(r, c04Encs), encOffers[r.intn(len(encOffers))], "grammar")
	}

	// ---- unary replies through ServeHTTP ----
	emit := func(variant, maxsend int, method, reqct string, accept, aenc []string, reqbody []byte, reply []byte, tag string) {
		o.count("unary/" + tag)
		ct := "-"
		if reqct != "-" {
			ct = hx([]byte(reqct))
		}
		c04Run(o, fmt.Sprintf("C04 %d %d %s %s %s %s %s %s", variant, maxsend, method, ct, c04Strs(accept), c04Strs(aenc), hx(reqbody), hx(reply)))
	}
	outerD := c04Find(e.fd, c04Abs(c04Pkg, c04Outer))
	hbD := c04Find(e.fd, c04HB)
	mkReply := func(md *c04Method, class int) []byte {
		d := c04Find(e.fd, c04Abs(c04Pkg, md.Out))
		if md.Out == c04HB {
			m := dynamicpb.NewMessage(hbD)
			c04HttpBody(r, m.ProtoReflect())
			b, _ := proto.Marshal(m)
			return b
		}
		b := c04Reply(r, d, class)
		if d == outerD && r.intn(2) == 0 {
			// HttpBody sub-messages for the selectors that name them
			m := dynamicpb.NewMessage(outerD)
			proto.Unmarshal(b, m)
			c04HttpBody(r, m.Mutable(outerD.Fields().ByName("body")).Message())
			in := m.Mutable(outerD.Fields().ByName("inner")).Message()
			c04HttpBody(r, in.Mutable(in.Descriptor().Fields().ByName("raw")).Message())
			b, _ = proto.MarshalOptions{Deterministic: true}.Marshal(m)
		}
		return b
	}
	reqFor := func(md *c04Method, reqct string) []byte {
		if md.Body == "" {
			if r.intn(8) == 0 {
				return []byte("{}")
			}
			return nil
		}
		switch reqct {
		case "application/protobuf", "application/octet-stream":
			return []byte{0x12, 0x00}[:2*r.intn(2)] // empty, or field 2 = empty message (Req.inner / Inner.note)
		case c04CustA:
			return []byte{c04PrefA}
		case c04CustB:
			return []byte{c04PrefB}
		}
		if r.intn(6) == 0 {
			return nil
		}
		return []byte("{}")
	}
	acceptCore := [][]string{nil, {"application/json"}, {"application/protobuf"}, {"application/octet-stream"}, {"*/*"}, {"application/*"},
		{"google.api.HttpBody"}, {"text/plain"}, {"application/json;q=0, */*"}, {"application/json;q=0.1, */*;q=0.9"},
		{"application/protobuf;q=0.5, application/json;q=0.5"}, {c04CustB + ", application/json;q=0.9"}, {"text/*"}}
	// every method x every core Accept x request content types
	for mi := range c04Methods {
		md := &c04Methods[mi]
		for _, acc := range acceptCore {
			for _, ct := range []string{"-", "application/protobuf", "text/plain", "google.api.HttpBody"} {
				for v := 0; v < 2; v++ {
					emit(v, 0, md.Name, ct, acc, nil, reqFor(md, ct), mkReply(md, 1), "core")
				}
			}
		}
		for class := 0; class < 4; class++ {
			emit(0, 0, md.Name, "-", nil, nil, reqFor(md, "-"), mkReply(md, class), "classes")
			emit(0, 0, md.Name, "-", []string{"application/protobuf"}, nil, reqFor(md, "-"), mkReply(md, class), "classes")
		}
	}
	// several muxes side by side (one custom codec / another custom codec / none, created in that order): each
	// negotiates over its own codecs
	for mi := range c04Methods {
		md := &c04Methods[mi]
		if mi >= 3 {
			break
		}
		for _, acc := range [][]string{nil, {c04CustA}, {c04CustC}, {"application/protobuf"}, {"application/json"}, {c04CustA + ", application/json;q=0.5"},
			{c04CustC + ", application/protobuf;q=0.5"}, {"application/*"}, {"*/*;q=0.1, application/octet-stream"}} {
			for v := 2; v <= 4; v++ {
				emit(v, 0, md.Name, "-", acc, nil, reqFor(md, "-"), mkReply(md, 1), "side-by-side")
				emit(v, 0, md.Name, "application/protobuf", acc, nil, reqFor(md, "application/protobuf"), mkReply(md, 1), "side-by-side")
			}
		}
	}
	for i := 0; i < 4000*scale; i++ {
		md := &c04Methods[r.intn(len(c04Methods))]
		class := []int{0, 1, 1, 1, 2, 2, 1, 1}[r.intn(8)]
		if r.intn(60) == 0 {
			class = 3
		}
		ct := c04ReqCTs[r.intn(len(c04ReqCTs))]
		if r.intn(3) == 0 {
			ct = "-"
		}
		var acc, aenc []string
		if r.intn(6) != 0 {
			acc = c04Header(r, c04Types)
		}
		if r.intn(3) == 0 {
			aenc = c04Header(r, c04Encs)
		}
		emit(r.intn(2), 0, md.Name, ct, acc, aenc, reqFor(md, ct), mkReply(md, class), "random")
	}
	// ---- send limit: replies around the configured maximum ----
	for i := 0; i < 500*scale; i++ {
		md := &c04Methods[r.intn(len(c04Methods))]
		reply := mkReply(md, 1+r.intn(2))
		// the limit is placed at, just below and just above the protobuf length of the selected message
		m := dynamicpb.NewMessage(c04Find(e.fd, c04Abs(c04Pkg, md.Out)))
		proto.Unmarshal(reply, m)
		_, sel := c04Select(m, md.Resp)
		n := 1
		if sel != nil {
			b, _ := proto.Marshal(sel.Interface())
			n = len(b)
			if sel.Descriptor().FullName() == c04HB {
				n = len(sel.Get(sel.Descriptor().Fields().ByName("data")).Bytes())
			}
		}
		lim := n + []int{0, -1, 1, 0, 0, -1, 2, -5, 40}[r.intn(9)]
		if lim < 1 {
			lim = 1
		}
		if lim > 5000 {
			continue // keep the number of distinct muxes small
		}
		acc := [][]string{{"application/protobuf"}, {"application/octet-stream"}, {"application/protobuf"}, nil, {"application/json"}}[r.intn(5)]
		emit(0, lim, md.Name, "-", acc, nil, nil, reply, "limit")
	}

	// ---- registration of response_body selectors ----
	sels := []string{"complex", "inner", "inner.deep", "inner.raw", "body", "msg", "ts", "complex.nested", "complex.timestamp",
		"label", "num", "blob", "items", "items.deep", "nope", "inner.nope", "label.x", "complex.nested_list", "complex.string_map",
		"complex.nested_map", "complex.string_value", "inner.note", "complex.nested.string_value", "", "inner.deep.nested", "complex.enum_value", "."}
	for _, s := range sels {
		for _, b := range []string{"", "*", "inner"} { // a body selector must itself name a message field (rejected otherwise)
			o.count("selector")
			c04Run(o, fmt.Sprintf("C04R %s %s %s", hx([]byte(s)), hx([]byte(b)), hx(c04Reply(r, outerD, 1+r.intn(2)))))
		}
	}
}
