package main

// C13: concurrent requests are isolated.
//
//	C13G <ops> ; <obs>          the gzip request-reader pool driven through CompressorGzip.Decompress:
//	                            ops o<r> (open a reader over r's payload), a<r> (io.ReadAll), m<r> (read
//	                            to EOF in 7-byte reads and once more after EOF); obs per op: n | own | eof |
//	                            other:<hex> | err
//	C13M <codec> ; <texts>      through the Mux, one goroutine: a gzip client-streaming upload read to EOF by
//	                            a conforming handler, then request A whose handler lets request B start
//	                            before reading its own body; obs = what A's handler received
//	C13B <variant> ; <obs>      through the Mux, one goroutine, in-process gRPC with Grpc-Encoding gzip: a call whose
//	                            frame inflates some bytes and then fails (crc: wrong CRC-32; cut: truncated
//	                            stream; tail: garbage after a valid stream) or a clean call (ok), then a second
//	                            call; obs = what the second call's handler received and what its client decoded
//	C13S <kind> <workers> <iters> <seed> ; ok <n> | leak <n> <sample>
//	                            concurrent stress on a loopback server, per-request echo equality
//
// The same file serves the race-detector run (`gen -tier race-quick|race-thorough`, binary built
// with -race by lib/cfg_C13.py).

import (
	"bytes"
	"compress/gzip"
	"context"
	"encoding/binary"
	"encoding/json"
	"fmt"
	"io"
	"net"
	"net/http"
	"net/http/httptest"
	"net/url"
	"os"
	"runtime"
	"strings"
	"sync"
	"sync/atomic"
	"time"

	"google.golang.org/genproto/googleapis/api/httpbody"
	"google.golang.org/grpc"
	"google.golang.org/grpc/codes"
	"google.golang.org/grpc/credentials/insecure"
	_ "google.golang.org/grpc/encoding/gzip"
	"google.golang.org/grpc/metadata"
	"google.golang.org/grpc/reflection"
	rpb "google.golang.org/grpc/reflection/grpc_reflection_v1alpha"
	"google.golang.org/grpc/status"
	"google.golang.org/protobuf/encoding/protojson"
	"google.golang.org/protobuf/proto"
	"google.golang.org/protobuf/reflect/protodesc"
	"google.golang.org/protobuf/reflect/protoreflect"
	"google.golang.org/protobuf/reflect/protoregistry"
	"google.golang.org/protobuf/types/descriptorpb"
	"google.golang.org/protobuf/types/dynamicpb"
	"larking.io/api/testpb"
	"larking.io/larking"
)

func init() { props["C13"] = prop{gen: c13Gen, run: c13Run} }

// ---------- self-describing payloads ----------

func c13Text(id string, n int) string {
	var sb strings.Builder
	fmt.Fprintf(&sb, "id=%s;n=%d;", id, n)
	h := 0
	for _, c := range id {
		h = (h*31 + int(c)) % 1000003
	}
	for j := 0; j < n; j++ {
		sb.WriteByte(byte('a' + (h+j*7)%26))
	}
	return sb.String()
}

// a text is valid iff it is exactly what c13Text produces for the id and n it names
func c13Valid(t string) bool {
	var id string
	var n int
	parts := strings.SplitN(t, ";", 3)
	if len(parts) != 3 || !strings.HasPrefix(parts[0], "id=") || !strings.HasPrefix(parts[1], "n=") {
		return false
	}
	id = parts[0][3:]
	if _, err := fmt.Sscanf(parts[1], "n=%d", &n); err != nil || n < 0 || n > 1<<22 {
		return false
	}
	return t == c13Text(id, n)
}

func c13Size(r *rng) int {
	switch r.intn(10) {
	case 0:
		return 0
	case 1, 2, 3:
		return r.intn(40)
	case 4, 5:
		return 40 + r.intn(100) // around the pool's initial 64-byte capacity
	case 6, 7:
		return 200 + r.intn(2000)
	case 8:
		return 4000 + r.intn(9000)
	default:
		return 30000 + r.intn(40000)
	}
}

func c13Gz(b []byte) []byte {
	var buf bytes.Buffer
	w := gzip.NewWriter(&buf)
	w.Write(b)
	w.Close()
	return buf.Bytes()
}

// ---------- C13G ----------

func c13RunG(o *out, input string) {
	f := strings.Fields(input)
	ops := strings.Split(f[1], ",")
	comp := &larking.CompressorGzip{}
	payload := func(r int) []byte { return []byte(c13Text(fmt.Sprintf("g%d", r), 10+r*37)) }
	readers := map[int]io.Reader{}
	var obs []string
	judge := func(r int, got []byte, err error) string {
		switch {
		case err != nil:
			return "err"
		case len(got) == 0:
			return "eof"
		case bytes.Equal(got, payload(r)):
			return "own"
		default:
			return "other:" + hx(got)[1:]
		}
	}
	func() {
		defer func() {
			if p := recover(); p != nil {
				obs = append(obs, "panic")
			}
		}()
		for _, op := range ops {
			r := atoi(op[1:])
			switch op[0] {
			case 'o':
				rd, err := comp.Decompress(bytes.NewReader(c13Gz(payload(r))))
				if err != nil {
					obs = append(obs, "err")
					continue
				}
				readers[r] = rd
				obs = append(obs, "n")
			case 'a':
				rd := readers[r]
				if rd == nil {
					obs = append(obs, "n")
					continue
				}
				got, err := io.ReadAll(rd)
				obs = append(obs, judge(r, got, err))
			case 'm':
				rd := readers[r]
				if rd == nil {
					obs = append(obs, "n")
					continue
				}
				var got []byte
				var p [7]byte
				var err error
				for {
					var n int
					n, err = rd.Read(p[:])
					got = append(got, p[:n]...)
					if err != nil {
						break
					}
				}
				if err == io.EOF {
					var n int
					n, err = rd.Read(p[:]) // legal: an io.Reader keeps answering EOF
					got = append(got, p[:n]...)
					if err == io.EOF {
						err = nil
					}
				}
				obs = append(obs, judge(r, got, err))
			}
		}
	}()
	o.emit(input, strings.Join(obs, ","))
}

func c13GenG(o *out, r *rng, n int) {
	// the witnesses of the finding first, then all short sequences over two requests, then random ones
	seqs := []string{"o0,a0,m0,o1,o2,a1,a2", "o0,m0,o1,o2,a2,a1", "o0,a0,o1,m0,a1"}
	alpha := []string{"o0", "a0", "m0", "o1", "a1", "m1"}
	var rec func(cur []string, k int)
	rec = func(cur []string, k int) {
		if len(cur) > 0 {
			seqs = append(seqs, strings.Join(cur, ","))
		}
		if k == 0 {
			return
		}
		for _, a := range alpha {
			rec(append(append([]string(nil), cur...), a), k-1)
		}
	}
	rec(nil, 3)
	for i := 0; i < n; i++ {
		k := 4 + r.intn(12)
		nreq := 2 + r.intn(4)
		var s []string
		for j := 0; j < k; j++ {
			s = append(s, fmt.Sprintf("%c%d", "oamm"[r.intn(4)], r.intn(nreq)))
		}
		seqs = append(seqs, strings.Join(s, ","))
	}
	for _, s := range seqs {
		o.count(fmt.Sprintf("gzip-pool/ops=%d", len(strings.Split(s, ","))/4*4))
		c13RunG(o, "C13G "+s)
	}
}

// ---------- the service ----------

type c13Env struct {
	mux     *larking.Mux
	lb      *loopback
	client  *http.Client
	bad     atomic.Int64 // messages a handler saw that are not well-formed
	badMu   sync.Mutex
	badText string
	last    proto.Message // the request the most recent unary handler saw (C13B, one goroutine)
}

var c13env *c13Env

func (e *c13Env) seen(t string) {
	if !c13Valid(t) {
		e.bad.Add(1)
		e.badMu.Lock()
		if e.badText == "" {
			if len(t) > 80 {
				t = t[:80]
			}
			e.badText = t
		}
		e.badMu.Unlock()
	}
}

func c13Setup() *c13Env {
	if c13env != nil {
		return c13env
	}
	e := &c13Env{}
	msg := "larking.testpb.Message"
	body := "google.api.HttpBody"
	f := dynFile{Path: "verif/c13.proto", Pkg: "verif.c13", Services: []dynService{{Name: "Iso", Methods: []dynMethod{
		{Name: "Echo", In: msg, Out: msg, Rule: &dynRule{Verb: "POST", Tmpl: "/c13/echo", Body: "*"}},
		{Name: "ByPath", In: msg, Out: msg, Rule: &dynRule{Verb: "GET", Tmpl: "/c13/p/{user_id}/{text}"}},
		{Name: "Down", In: msg, Out: msg, ServerStream: true, Rule: &dynRule{Verb: "POST", Tmpl: "/c13/down", Body: "*"}},
		{Name: "Up", In: msg, Out: msg, ClientStream: true, Rule: &dynRule{Verb: "POST", Tmpl: "/c13/up", Body: "*"}},
		{Name: "Bidi", In: msg, Out: msg, ClientStream: true, ServerStream: true},
		{Name: "GetBlob", In: msg, Out: body, Rule: &dynRule{Verb: "POST", Tmpl: "/c13/blob", Body: "*"}},
		{Name: "PutBlob", In: body, Out: msg, Rule: &dynRule{Verb: "POST", Tmpl: "/c13/putblob", Body: "*"}},
	}}}}
	fd, err := f.build()
	if err != nil {
		panic(err)
	}
	text := func(m proto.Message) string {
		pm := m.ProtoReflect()
		return pm.Get(pm.Descriptor().Fields().ByName("text")).String()
	}
	mk := func(d protoreflect.MessageDescriptor, t string) proto.Message {
		m := dynamicpb.NewMessage(d)
		m.Set(d.Fields().ByName("text"), protoreflect.ValueOfString(t))
		return m
	}
	impl := &dynImpl{
		Unary: func(ctx context.Context, method string, req proto.Message, out protoreflect.MessageDescriptor) (proto.Message, error) {
			switch {
			case strings.HasSuffix(method, "/GetBlob"):
				t := text(req)
				m := dynamicpb.NewMessage(out)
				m.Set(out.Fields().ByName("content_type"), protoreflect.ValueOfString("application/octet-stream"))
				if t == "ASSET" {
					// an application serving a cached asset: the same slice in every reply (the reply
					// message and its bytes belong to the handler, the server only reads them)
					m.Set(out.Fields().ByName("data"), protoreflect.ValueOfBytes(c13Asset))
					return m, nil
				}
				e.seen(t)
				m.Set(out.Fields().ByName("data"), protoreflect.ValueOfBytes([]byte(t)))
				return m, nil
			case strings.HasSuffix(method, "/PutBlob"):
				pm := req.ProtoReflect()
				data := pm.Get(pm.Descriptor().Fields().ByName("data")).Bytes()
				// the handler owns its request message: let other requests run before looking at it
				runtime.Gosched()
				time.Sleep(50 * time.Microsecond)
				t := string(data)
				e.seen(t)
				return mk(out, t), nil
			}
			t := text(req)
			e.seen(t)
			e.badMu.Lock()
			e.last = proto.Clone(req)
			e.badMu.Unlock()
			return mk(out, t), nil
		},
		Stream: func(method string, in, out protoreflect.MessageDescriptor, ss grpc.ServerStream) error {
			role := ""
			if md, ok := metadata.FromIncomingContext(ss.Context()); ok {
				if v := md.Get("x-c13-role"); len(v) > 0 {
					role = v[0]
				}
			}
			switch {
			case strings.HasSuffix(method, "/Down"):
				m := dynamicpb.NewMessage(in)
				if err := ss.RecvMsg(m); err != nil {
					return err
				}
				t := text(m)
				e.seen(t)
				for i := 0; i < 3; i++ {
					if err := ss.SendMsg(mk(out, t)); err != nil {
						return err
					}
				}
				return nil
			case strings.HasSuffix(method, "/Up"):
				if role == "noread" {
					return ss.SendMsg(mk(out, ""))
				}
				if strings.HasPrefix(role, "nest:") {
					// let another request start (and obtain its pooled reader) before this one reads
					p := strings.SplitN(role, ":", 3)
					c13InProcUp(e, p[1], []string{p[2]}, "noread")
				}
				var ts []string
				for {
					m := dynamicpb.NewMessage(in)
					err := ss.RecvMsg(m)
					if err == io.EOF {
						break
					}
					if err != nil {
						// (at the pinned commit the end of an HTTP client stream is reported as an
						// error for JSON and as an empty extra message for protobuf -- C06's subject;
						// this handler accepts either and answers with what it received)
						if len(ts) > 0 {
							break
						}
						return err
					}
					if text(m) == "" {
						continue
					}
					ts = append(ts, text(m))
					if role == "" {
						e.seen(text(m))
					}
				}
				return ss.SendMsg(mk(out, strings.Join(ts, "+")))
			default: // Bidi
				if role == "leave" || role == "leave-blocked" {
					// the handler returns at once and leaves a goroutine behind that keeps receiving -- what the proxy's
					// pump does when a backend ends the call before the client has finished sending
					go func() {
						for ss.RecvMsg(dynamicpb.NewMessage(in)) == nil {
						}
					}()
					if role == "leave-blocked" {
						time.Sleep(30 * time.Millisecond) // the receive is inside the body's Read when the handler returns
					}
					return nil
				}
				for {
					m := dynamicpb.NewMessage(in)
					err := ss.RecvMsg(m)
					if err == io.EOF {
						return nil
					}
					if err != nil {
						return err
					}
					e.seen(text(m))
					if err := ss.SendMsg(mk(out, text(m))); err != nil {
						return err
					}
				}
			}
		},
	}
	e.mux, err = dynMux([]protoreflect.FileDescriptor{fd}, impl)
	if err != nil {
		panic(err)
	}
	e.lb, err = newLoopback(e.mux)
	if err != nil {
		panic(err)
	}
	e.client = &http.Client{Transport: &http.Transport{MaxIdleConnsPerHost: 64}, Timeout: 20 * time.Second}
	c13env = e
	return e
}

// ---------- C13M ----------

// one in-process client-streaming upload; returns the reply text (texts joined by '+')
func c13InProcUp(e *c13Env, codec string, texts []string, role string) string {
	var body bytes.Buffer
	ct := "application/json"
	for _, t := range texts {
		m := &testpb.Message{Text: t}
		switch codec {
		case "proto":
			ct = "application/protobuf"
			b, _ := proto.Marshal(m)
			var l [10]byte
			n := binary.PutUvarint(l[:], uint64(len(b)))
			body.Write(l[:n])
			body.Write(b)
		default:
			b, _ := protojson.Marshal(m)
			body.Write(b)
		}
	}
	req := httptest.NewRequest("POST", "/c13/up", bytes.NewReader(c13Gz(body.Bytes())))
	req.Header.Set("Content-Type", ct)
	req.Header.Set("Accept", "application/json")
	req.Header.Set("Content-Encoding", "gzip")
	if role != "" {
		req.Header.Set("X-C13-Role", role)
	}
	rec := httptest.NewRecorder()
	e.mux.ServeHTTP(rec, req)
	var out testpb.Message
	if err := protojson.Unmarshal(rec.Body.Bytes(), &out); err != nil {
		return fmt.Sprintf("status=%d", rec.Code)
	}
	return out.Text
}

func c13RunM(o *out, input string) {
	f := strings.Fields(input)
	codec := f[1]
	e := c13Setup()
	old := runtime.GOMAXPROCS(1) // one P: the pool's per-P caches cannot hide a duplicate
	defer runtime.GOMAXPROCS(old)
	obs := "panic"
	func() {
		defer func() { recover() }()
		s1, s2 := c13Text("S1", 20), c13Text("S2", 33)
		got := c13InProcUp(e, codec, []string{s1, s2}, "plain")
		if got != s1+"+"+s2 {
			obs = "first-upload-wrong"
			return
		}
		a, b := c13Text("A", 41), c13Text("B", 57)
		got = c13InProcUp(e, codec, []string{a}, "nest:"+codec+":"+b)
		switch {
		case got == a:
			obs = "own"
		case strings.Contains(got, "id=B;"):
			obs = "other-request"
		default:
			obs = "lost:" + hx([]byte(got))[1:]
		}
	}()
	o.emit(input, obs)
}

// ---------- a proxied backend ----------

type c13Proxy struct {
	lb *loopback
}

var c13proxy *c13Proxy

// c13ProxySetup: a grpc-go backend (c13p.Svc/Un echoes after a short, varying pause) behind a Mux of its
// own through RegisterConn
func c13ProxySetup() *c13Proxy {
	c13proxyOnce.Do(func() {
		str := descriptorpb.FieldDescriptorProto_TYPE_STRING
		opt := descriptorpb.FieldDescriptorProto_LABEL_OPTIONAL
		fdp := &descriptorpb.FileDescriptorProto{
			Name: proto.String("verif/c13p.proto"), Package: proto.String("c13p"), Syntax: proto.String("proto3"),
			MessageType: []*descriptorpb.DescriptorProto{{Name: proto.String("M"), Field: []*descriptorpb.FieldDescriptorProto{
				{Name: proto.String("text"), JsonName: proto.String("text"), Number: proto.Int32(2), Type: &str, Label: &opt}}}},
			Service: []*descriptorpb.ServiceDescriptorProto{{Name: proto.String("Svc"), Method: []*descriptorpb.MethodDescriptorProto{
				{Name: proto.String("Un"), InputType: proto.String(".c13p.M"), OutputType: proto.String(".c13p.M")},
				{Name: proto.String("Bi"), InputType: proto.String(".c13p.M"), OutputType: proto.String(".c13p.M"),
					ClientStreaming: proto.Bool(true), ServerStreaming: proto.Bool(true)}}}},
		}
		fd, err := protodesc.NewFile(fdp, &protoregistry.Files{})
		if err != nil {
			panic(err)
		}
		files := &protoregistry.Files{}
		if err := files.RegisterFile(fd); err != nil {
			panic(err)
		}
		md := fd.Messages().ByName("M")
		var n atomic.Int64
		impl := &dynImpl{
			Unary: func(ctx context.Context, method string, req proto.Message, out protoreflect.MessageDescriptor) (proto.Message, error) {
				t := req.ProtoReflect().Get(md.Fields().ByName("text")).String()
				time.Sleep(time.Duration(n.Add(1)%7) * 40 * time.Microsecond)
				m := dynamicpb.NewMessage(out)
				m.Set(out.Fields().ByName("text"), protoreflect.ValueOfString(t))
				return m, nil
			},
			// Bi: echoes; a message whose text starts with "fail:" ends the call with DataLoss while the
			// client may still be sending
			Stream: func(method string, in, out protoreflect.MessageDescriptor, ss grpc.ServerStream) error {
				for {
					m := dynamicpb.NewMessage(in)
					if err := ss.RecvMsg(m); err != nil {
						if err == io.EOF {
							return nil
						}
						return err
					}
					t := m.Get(md.Fields().ByName("text")).String()
					if strings.HasPrefix(t, "fail:") {
						return status.Error(codes.DataLoss, t)
					}
					r := dynamicpb.NewMessage(out)
					r.Set(out.Fields().ByName("text"), protoreflect.ValueOfString(t))
					if err := ss.SendMsg(r); err != nil {
						return err
					}
				}
			},
		}
		gs := grpc.NewServer()
		gs.RegisterService(serviceDesc(fd.Services().ByName("Svc"), impl), nil)
		rpb.RegisterServerReflectionServer(gs, reflection.NewServer(reflection.ServerOptions{Services: gs, DescriptorResolver: c10Resolver{files}}))
		lis, err := net.Listen("tcp", "127.0.0.1:0")
		if err != nil {
			panic(err)
		}
		go gs.Serve(lis)
		bc, err := grpc.Dial(lis.Addr().String(), grpc.WithTransportCredentials(insecure.NewCredentials()))
		if err != nil {
			panic(err)
		}
		mux, err := larking.NewMux()
		if err != nil {
			panic(err)
		}
		ctx, cancel := context.WithTimeout(context.Background(), 10*time.Second)
		defer cancel()
		if err := mux.RegisterConn(ctx, bc); err != nil {
			panic("C13 RegisterConn: " + err.Error())
		}
		lb, err := newLoopback(mux)
		if err != nil {
			panic(err)
		}
		c13proxy = &c13Proxy{lb: lb}
	})
	return c13proxy
}

var c13proxyOnce sync.Once

// ---------- C13B ----------

// one in-process unary gRPC call with a gzip-compressed frame; returns (what the reply decodes to, grpc-status)
func c13InProcGrpc(e *c13Env, payload []byte) (string, string) {
	body := c08Frame(1, uint32(len(payload)), payload)
	r := httptest.NewRequest("POST", "/verif.c13.Iso/Echo", bytes.NewReader(body))
	r.ProtoMajor, r.ProtoMinor = 2, 0
	r.Header.Set("Content-Type", "application/grpc+proto")
	r.Header.Set("Grpc-Encoding", "gzip")
	r.Header.Set("Grpc-Accept-Encoding", "gzip")
	r.Header.Set("Te", "trailers")
	rec := httptest.NewRecorder()
	e.mux.ServeHTTP(rec, r)
	st := rec.Result().Trailer.Get("Grpc-Status")
	if st == "" {
		st = rec.Result().Header.Get("Grpc-Status")
	}
	b := rec.Body.Bytes()
	if len(b) < 5 {
		return "", st
	}
	n := int(binary.BigEndian.Uint32(b[1:5]))
	if len(b) < 5+n {
		return "short-frame", st
	}
	msg := b[5 : 5+n]
	if b[0] == 1 {
		zr, err := gzip.NewReader(bytes.NewReader(msg))
		if err != nil {
			return "reply-not-gzip", st
		}
		msg, err = io.ReadAll(zr)
		if err != nil {
			return "reply-gzip-broken", st
		}
	}
	var out testpb.Message
	if err := proto.Unmarshal(msg, &out); err != nil {
		return "reply-undecodable", st
	}
	return out.Text, st
}

var c13AssetText = "asset:" + strings.Repeat("0123456789abcdef", 24)
var c13Asset = append(make([]byte, 0, 4096), c13AssetText...)

func c13RunB(o *out, input string) {
	f := strings.Fields(input)
	variant := f[1]
	e := c13Setup()
	old := runtime.GOMAXPROCS(1)
	defer runtime.GOMAXPROCS(old)
	obs := "panic"
	func() {
		defer func() { recover() }()
		if variant == "asset" {
			// a reply whose bytes the handler keeps, other traffic, the same reply again
			get := func() string {
				b, _, err := e.postInProc("/c13/blob", "application/json", "*/*", jsonOf("ASSET"))
				if err != nil {
					return "error:" + err.Error()
				}
				return string(b)
			}
			first := get()
			for i := 0; i < 4; i++ {
				t := c13Text(fmt.Sprintf("T%d", i), 300+i)
				e.postInProc("/c13/echo", "application/json", "application/json", jsonOf(t))
			}
			second := get()
			switch {
			case first != c13AssetText:
				obs = "lost:" + hx([]byte(first))[1:]
			case second != c13AssetText || string(c13Asset) != c13AssetText:
				obs = "handler-saw-other:" + hx([]byte(second))[1:]
			default:
				obs = "own"
			}
			return
		}
		a, b := c13Text("A", 900), c13Text("B", 37)
		// A sets fields B leaves alone: bytes of A in front of B's would survive the merge
		pa, _ := proto.Marshal(&testpb.Message{Text: a, UserId: "user-of-A", MessageId: "id-of-A"})
		mb := &testpb.Message{Text: b}
		pb, _ := proto.Marshal(mb)
		za := c13Gz(pa)
		switch variant {
		case "crc":
			za[len(za)-5] ^= 0x55 // CRC-32 in the gzip trailer
		case "cut":
			za = za[:len(za)-12]
		case "tail":
			za = append(za, 0x1f, 0x8b, 0xff, 0xff)
		}
		_, st1 := c13InProcGrpc(e, za)
		if variant == "ok" && st1 != "0" {
			obs = "first-call-failed:" + st1
			return
		}
		e.last = nil
		got, st2 := c13InProcGrpc(e, c13Gz(pb))
		var saw testpb.Message
		if e.last != nil {
			lb, _ := proto.Marshal(e.last)
			proto.Unmarshal(lb, &saw)
		}
		switch {
		case st2 != "0":
			obs = "second-call-failed:" + st2 + ":" + hx([]byte(got))[1:]
		case e.last == nil || !proto.Equal(&saw, mb):
			obs = "handler-saw-other:" + hx([]byte(saw.String()))[1:]
		case got == b:
			obs = "own"
		case strings.Contains(got, "id=A;"):
			obs = "other-request"
		default:
			obs = "lost:" + hx([]byte(got))[1:]
		}
	}()
	o.emit(input, obs)
}

// ---------- C13S ----------

var c13Kinds = []string{"http-json", "http-json-gzip", "http-proto", "http-up-gzip", "http-up", "http-down",
	"grpc", "grpc-gzip", "grpc-bidi", "grpc-bidi-gzip", "grpc-web", "blob-get", "blob-put", "grpc-cancel", "proxy-unary", "proxy-json", "http-path", "proxy-bidi", "proxy-bidi-fail", "proxy-bidi-gzip", "grpc-leftover", "proxy-http-gzip-fail", "webtext-leftover"}

func (e *c13Env) post(path, ct, accept string, body []byte, gz bool) ([]byte, int, error) {
	if gz {
		body = c13Gz(body)
	}
	req, _ := http.NewRequest("POST", e.lb.url+path, bytes.NewReader(body))
	req.Header.Set("Content-Type", ct)
	if accept != "" {
		req.Header.Set("Accept", accept)
	}
	if gz {
		req.Header.Set("Content-Encoding", "gzip")
	}
	rsp, err := e.client.Do(req)
	if err != nil {
		return nil, 0, err
	}
	defer rsp.Body.Close()
	b, err := io.ReadAll(rsp.Body)
	return b, rsp.StatusCode, err
}

// a request body of empty gRPC messages without end, until it is closed
type c13Endless struct{ closed chan struct{} }

func (b *c13Endless) Read(p []byte) (int, error) {
	select {
	case <-b.closed:
		return 0, io.ErrClosedPipe
	default:
	}
	return copy(p, []byte{0, 0, 0, 0, 0}), nil
}
func (b *c13Endless) Close() error {
	select {
	case <-b.closed:
	default:
		close(b.closed)
	}
	return nil
}

func jsonOf(t string) []byte { b, _ := protojson.Marshal(&testpb.Message{Text: t}); return b }

// the same through ServeHTTP on the calling goroutine
func (e *c13Env) postInProc(path, ct, accept string, body []byte) ([]byte, int, error) {
	req := httptest.NewRequest("POST", path, bytes.NewReader(body))
	req.Header.Set("Content-Type", ct)
	if accept != "" {
		req.Header.Set("Accept", accept)
	}
	rec := httptest.NewRecorder()
	e.mux.ServeHTTP(rec, req)
	return rec.Body.Bytes(), rec.Code, nil
}

// one request of the given kind; returns "" when the echo is exact, else a description
func (e *c13Env) one(kind, id string, r *rng) string {
	msgd := testpb.File_larking_api_test_proto.Messages().ByName("Message")
	t := c13Text(id, c13Size(r))
	textOf := func(b []byte) (string, bool) {
		var m testpb.Message
		if err := protojson.Unmarshal(b, &m); err != nil {
			return "", false
		}
		return m.Text, true
	}
	diff := func(got, want string) string {
		if got == want {
			return ""
		}
		if len(got) > 60 {
			got = got[:60]
		}
		return fmt.Sprintf("%s id=%s got %q", kind, id, got)
	}
	switch kind {
	case "http-json", "http-json-gzip":
		b, code, err := e.post("/c13/echo", "application/json", "application/json", jsonOf(t), kind == "http-json-gzip")
		if err != nil || code != 200 {
			return fmt.Sprintf("%s id=%s status %d err %v", kind, id, code, err)
		}
		got, _ := textOf(b)
		return diff(got, t)
	case "http-proto":
		pb, _ := proto.Marshal(&testpb.Message{Text: t})
		b, code, err := e.post("/c13/echo", "application/protobuf", "application/protobuf", pb, false)
		if err != nil || code != 200 {
			return fmt.Sprintf("%s id=%s status %d err %v", kind, id, code, err)
		}
		var m testpb.Message
		if err := proto.Unmarshal(b, &m); err != nil {
			return fmt.Sprintf("%s id=%s undecodable reply", kind, id)
		}
		return diff(m.Text, t)
	case "http-up", "http-up-gzip":
		k := 1 + r.intn(4)
		var body bytes.Buffer
		var want []string
		for i := 0; i < k; i++ {
			ti := c13Text(fmt.Sprintf("%s.%d", id, i), c13Size(r)%3000)
			want = append(want, ti)
			body.Write(jsonOf(ti))
		}
		b, code, err := e.post("/c13/up", "application/json", "application/json", body.Bytes(), kind == "http-up-gzip")
		if err != nil || code != 200 {
			return fmt.Sprintf("%s id=%s status %d err %v", kind, id, code, err)
		}
		got, _ := textOf(b)
		return diff(got, strings.Join(want, "+"))
	case "http-down":
		b, code, err := e.post("/c13/down", "application/json", "application/json", jsonOf(t), false)
		if err != nil || code != 200 {
			return fmt.Sprintf("%s id=%s status %d err %v", kind, id, code, err)
		}
		dec := json.NewDecoder(bytes.NewReader(b))
		n := 0
		for dec.More() {
			var raw json.RawMessage
			if err := dec.Decode(&raw); err != nil {
				return fmt.Sprintf("%s id=%s undecodable reply", kind, id)
			}
			got, _ := textOf(raw)
			if d := diff(got, t); d != "" {
				return d
			}
			n++
		}
		if n != 3 {
			return fmt.Sprintf("%s id=%s %d replies", kind, id, n)
		}
		return ""
	case "proxy-unary", "proxy-json":
		// the same echo through a backend registered with RegisterConn (its own mux)
		pe := c13ProxySetup()
		if kind == "proxy-json" {
			req, _ := http.NewRequest("POST", pe.lb.url+"/c13p.Svc/Un", bytes.NewReader(jsonOf(t)))
			req.Header.Set("Content-Type", "application/json")
			rsp, err := e.client.Do(req)
			if err != nil {
				return fmt.Sprintf("%s id=%s err %v", kind, id, err)
			}
			b, _ := io.ReadAll(rsp.Body)
			rsp.Body.Close()
			if rsp.StatusCode != 200 {
				return fmt.Sprintf("%s id=%s status %d", kind, id, rsp.StatusCode)
			}
			got, _ := textOf(b)
			return diff(got, t)
		}
		in, out := &testpb.Message{Text: t}, &testpb.Message{}
		ctx, cancel := context.WithTimeout(context.Background(), 20*time.Second)
		defer cancel()
		if err := pe.lb.conn.Invoke(ctx, "/c13p.Svc/Un", in, out); err != nil {
			return fmt.Sprintf("%s id=%s err %v", kind, id, err)
		}
		return diff(out.Text, t)
	case "proxy-http-gzip-fail":
		// a proxied bidi method called over plain HTTP with a streamed, gzip-encoded body: the backend ends the call with
		// its own status while the client is connected and silent (the proxy's request pump is inside the body's
		// decompressor). A second request with a gzip body is then served by the same mux, and while that one is under way
		// the first client's body ends. Neither request may see anything of the other.
		pe := c13ProxySetup()
		pr, pw := io.Pipe()
		req, _ := http.NewRequest("POST", pe.lb.url+"/c13p.Svc/Bi", pr)
		req.Header.Set("Content-Type", "application/json")
		req.Header.Set("Content-Encoding", "gzip")
		want := "fail:" + id
		release := make(chan struct{})
		go func() {
			zw := gzip.NewWriter(pw)
			zw.Write(jsonOf(want))
			zw.Flush()
			<-release
			zw.Write(jsonOf(c13Text(id+".late", 600)))
			zw.Close()
			pw.Close()
		}()
		// (net/http answers only once the request body has ended or 256 KB of it were discarded: the first answer is read last)
		type answer struct {
			code int
			body []byte
			err  error
		}
		first := make(chan answer, 1)
		go func() {
			rsp, err := http.DefaultTransport.RoundTrip(req)
			if err != nil {
				first <- answer{err: err}
				return
			}
			b, _ := io.ReadAll(rsp.Body)
			rsp.Body.Close()
			first <- answer{code: rsp.StatusCode, body: b}
		}()
		time.Sleep(80 * time.Millisecond) // the backend fails, the handler returns; the pump is inside the decompressor
		var bad string
		for i := 0; i < 3; i++ {
			if i == 1 {
				close(release) // the first client's body goes on and ends while the second request is being read
			}
			t2 := c13Text(fmt.Sprintf("%s.second.%d", id, i), 2000+c13Size(r)%20000)
			req2, _ := http.NewRequest("POST", pe.lb.url+"/c13p.Svc/Un", bytes.NewReader(c13Gz(jsonOf(t2))))
			req2.Header.Set("Content-Type", "application/json")
			req2.Header.Set("Content-Encoding", "gzip")
			rsp2, err := e.client.Do(req2)
			if err != nil {
				bad = fmt.Sprintf("%s id=%s second request err %v", kind, id, err)
				break
			}
			b2, _ := io.ReadAll(rsp2.Body)
			rsp2.Body.Close()
			if rsp2.StatusCode != 200 {
				bad = fmt.Sprintf("%s id=%s second request (gzip body) answered %d %q", kind, id, rsp2.StatusCode, b2)
				break
			}
			got, _ := textOf(b2)
			if bad = diff(got, t2); bad != "" {
				break
			}
		}
		if bad != "" {
			select {
			case <-release:
			default:
				close(release)
			}
			return bad
		}
		select {
		case a := <-first:
			if a.err != nil || a.code == 200 || !strings.Contains(string(a.body), want) {
				return fmt.Sprintf("%s id=%s answered %d %q (%v), the backend returned DataLoss %q", kind, id, a.code, a.body, a.err, want)
			}
		case <-time.After(10 * time.Second):
			return fmt.Sprintf("%s id=%s: no answer within 10 s of the end of the request body", kind, id)
		}
		return ""
	case "proxy-bidi-gzip":
		// a proxied bidi stream with per-message gzip in which the client keeps sending while replies
		// come back: receiving and sending overlap on one stream (pump goroutine and reply loop)
		pe := c13ProxySetup()
		ctx, cancel := context.WithTimeout(context.Background(), 20*time.Second)
		defer cancel()
		cs, err := pe.lb.conn.NewStream(ctx, &grpc.StreamDesc{ClientStreams: true, ServerStreams: true}, "/c13p.Svc/Bi", grpc.UseCompressor("gzip"))
		if err != nil {
			return fmt.Sprintf("%s id=%s err %v", kind, id, err)
		}
		k := 3 + r.intn(5)
		texts := make([]string, k)
		for i := range texts {
			texts[i] = c13Text(fmt.Sprintf("%s.%d", id, i), c13Size(r)%4000)
		}
		sendErr := make(chan error, 1)
		go func() {
			for _, ti := range texts {
				if err := cs.SendMsg(&testpb.Message{Text: ti}); err != nil {
					sendErr <- err
					return
				}
			}
			sendErr <- cs.CloseSend()
		}()
		for i := 0; i < k; i++ {
			out := &testpb.Message{}
			if err := cs.RecvMsg(out); err != nil {
				return fmt.Sprintf("%s id=%s recv %d err %v", kind, id, i, err)
			}
			if d := diff(out.Text, texts[i]); d != "" {
				return d
			}
		}
		if err := cs.RecvMsg(&testpb.Message{}); err != io.EOF {
			return fmt.Sprintf("%s id=%s end err %v", kind, id, err)
		}
		if err := <-sendErr; err != nil {
			return fmt.Sprintf("%s id=%s send err %v", kind, id, err)
		}
		return ""
	case "grpc-leftover":
		// a gRPC bidi call, in process, whose request body never ends and whose handler returns while a goroutine it
		// started is still receiving (judged by the race detector only)
		req := httptest.NewRequest("POST", "/verif.c13.Iso/Bidi", &c13Endless{closed: make(chan struct{})})
		req.ProtoMajor, req.ProtoMinor = 2, 0
		req.Header.Set("Content-Type", "application/grpc")
		req.Header.Set("X-C13-Role", "leave")
		req.ContentLength = -1
		e.mux.ServeHTTP(httptest.NewRecorder(), req)
		return ""
	case "webtext-leftover":
		// the same over gRPC-web in its text form, the upload kept open by the client (a pipe: the receive left behind
		// is blocked on the request body): the call ends when the handler has returned, whatever the client still holds
		pr, pw := io.Pipe()
		defer pw.Close()
		req := httptest.NewRequest("POST", "/verif.c13.Iso/Bidi", pr)
		req.Header.Set("Content-Type", "application/grpc-web-text")
		req.Header.Set("X-C13-Role", "leave-blocked")
		req.ContentLength = -1
		done := make(chan struct{})
		rec := httptest.NewRecorder()
		go func() { e.mux.ServeHTTP(rec, req); close(done) }()
		select {
		case <-done:
			if os.Getenv("VERIF_DEBUG") != "" {
				fmt.Fprintf(os.Stderr, "webtext-leftover: %d %q %v\n", rec.Code, rec.Body.String(), rec.Header())
			}
			return ""
		case <-time.After(5 * time.Second):
			return fmt.Sprintf("%s id=%s: ServeHTTP has not returned 5 s after the handler did (a receive the handler left behind is still blocked on the request body)", kind, id)
		}
	case "proxy-bidi", "proxy-bidi-fail":
		// a proxied bidi stream; in the failing variant the backend ends the call with its own status
		// while the client is still sending: the client must be told that status
		pe := c13ProxySetup()
		ctx, cancel := context.WithTimeout(context.Background(), 20*time.Second)
		defer cancel()
		cs, err := pe.lb.conn.NewStream(ctx, &grpc.StreamDesc{ClientStreams: true, ServerStreams: true}, "/c13p.Svc/Bi")
		if err != nil {
			return fmt.Sprintf("%s id=%s err %v", kind, id, err)
		}
		k := 1 + r.intn(4)
		for i := 0; i < k; i++ {
			ti := c13Text(fmt.Sprintf("%s.%d", id, i), c13Size(r)%3000)
			out := &testpb.Message{}
			if err := cs.SendMsg(&testpb.Message{Text: ti}); err != nil {
				return fmt.Sprintf("%s id=%s send err %v", kind, id, err)
			}
			if err := cs.RecvMsg(out); err != nil {
				return fmt.Sprintf("%s id=%s recv err %v", kind, id, err)
			}
			if d := diff(out.Text, ti); d != "" {
				return d
			}
		}
		if kind == "proxy-bidi-fail" {
			want := "fail:" + id
			cs.SendMsg(&testpb.Message{Text: want})
			for i := 0; i < 3; i++ { // keep sending while the backend fails
				if cs.SendMsg(&testpb.Message{Text: c13Text(id+".late", 40)}) != nil {
					break
				}
			}
			var err error
			for err == nil {
				err = cs.RecvMsg(&testpb.Message{})
			}
			if st, _ := status.FromError(err); st.Code() != codes.DataLoss || st.Message() != want {
				return fmt.Sprintf("%s id=%s ended with %v, the backend returned DataLoss %q", kind, id, err, want)
			}
			return ""
		}
		cs.CloseSend()
		if err := cs.RecvMsg(&testpb.Message{}); err != io.EOF {
			return fmt.Sprintf("%s id=%s end err %v", kind, id, err)
		}
		return ""
	case "grpc", "grpc-gzip":
		in, out := dynamicpb.NewMessage(msgd), dynamicpb.NewMessage(msgd)
		in.Set(msgd.Fields().ByName("text"), protoreflect.ValueOfString(t))
		var opts []grpc.CallOption
		if kind == "grpc-gzip" {
			opts = append(opts, grpc.UseCompressor("gzip"))
		}
		ctx, cancel := context.WithTimeout(context.Background(), 20*time.Second)
		defer cancel()
		if err := e.lb.conn.Invoke(ctx, "/verif.c13.Iso/Echo", in, out, opts...); err != nil {
			return fmt.Sprintf("%s id=%s err %v", kind, id, err)
		}
		return diff(out.Get(msgd.Fields().ByName("text")).String(), t)
	case "grpc-bidi", "grpc-bidi-gzip", "grpc-cancel":
		var opts []grpc.CallOption
		if kind == "grpc-bidi-gzip" {
			opts = append(opts, grpc.UseCompressor("gzip"))
		}
		ctx, cancel := context.WithTimeout(context.Background(), 20*time.Second)
		defer cancel()
		cs, err := e.lb.conn.NewStream(ctx, &grpc.StreamDesc{ClientStreams: true, ServerStreams: true}, "/verif.c13.Iso/Bidi", opts...)
		if err != nil {
			return fmt.Sprintf("%s id=%s err %v", kind, id, err)
		}
		k := 1 + r.intn(5)
		for i := 0; i < k; i++ {
			ti := c13Text(fmt.Sprintf("%s.%d", id, i), c13Size(r)%5000)
			in, out := dynamicpb.NewMessage(msgd), dynamicpb.NewMessage(msgd)
			in.Set(msgd.Fields().ByName("text"), protoreflect.ValueOfString(ti))
			if err := cs.SendMsg(in); err != nil {
				return fmt.Sprintf("%s id=%s send err %v", kind, id, err)
			}
			if kind == "grpc-cancel" && i == k/2 {
				cancel() // the client goes away mid-stream; nothing to compare
				return ""
			}
			if err := cs.RecvMsg(out); err != nil {
				return fmt.Sprintf("%s id=%s recv err %v", kind, id, err)
			}
			if d := diff(out.Get(msgd.Fields().ByName("text")).String(), ti); d != "" {
				return d
			}
		}
		cs.CloseSend()
		if err := cs.RecvMsg(dynamicpb.NewMessage(msgd)); err != io.EOF {
			return fmt.Sprintf("%s id=%s end err %v", kind, id, err)
		}
		return ""
	case "grpc-web":
		pb, _ := proto.Marshal(&testpb.Message{Text: t})
		frame := make([]byte, 5+len(pb))
		binary.BigEndian.PutUint32(frame[1:], uint32(len(pb)))
		copy(frame[5:], pb)
		b, code, err := e.post("/verif.c13.Iso/Echo", "application/grpc-web+proto", "", frame, false)
		if err != nil || code != 200 {
			return fmt.Sprintf("%s id=%s status %d err %v", kind, id, code, err)
		}
		for len(b) >= 5 {
			n := int(binary.BigEndian.Uint32(b[1:5]))
			if 5+n > len(b) {
				break
			}
			if b[0]&0x80 == 0 {
				var m testpb.Message
				if err := proto.Unmarshal(b[5:5+n], &m); err != nil {
					return fmt.Sprintf("%s id=%s undecodable frame", kind, id)
				}
				return diff(m.Text, t)
			}
			b = b[5+n:]
		}
		return fmt.Sprintf("%s id=%s no data frame", kind, id)
	case "http-path":
		// the message arrives in the URL: two path variables and a query string of varying length
		q := "message_id=" + strings.Repeat("q", r.intn(3000))
		rsp, err := e.client.Get(e.lb.url + "/c13/p/u-" + url.PathEscape(id) + "/" + url.PathEscape(t) + "?" + q)
		if err != nil {
			return fmt.Sprintf("%s id=%s err %v", kind, id, err)
		}
		b, _ := io.ReadAll(rsp.Body)
		rsp.Body.Close()
		if rsp.StatusCode != 200 {
			return fmt.Sprintf("%s id=%s status %d", kind, id, rsp.StatusCode)
		}
		got, _ := textOf(b)
		return diff(got, t)
	case "blob-get":
		b, code, err := e.post("/c13/blob", "application/json", "", jsonOf(t), false)
		if err != nil || code != 200 {
			return fmt.Sprintf("%s id=%s status %d err %v", kind, id, code, err)
		}
		return diff(string(b), t)
	case "blob-put":
		b, code, err := e.post("/c13/putblob", "application/octet-stream", "application/json", []byte(t), r.intn(3) == 0)
		if err != nil || code != 200 {
			return fmt.Sprintf("%s id=%s status %d err %v", kind, id, code, err)
		}
		got, _ := textOf(b)
		return diff(got, t)
	}
	return "unknown kind " + kind
}

var _ = httpbody.HttpBody{}

// workers goroutines, each iters requests; kind "mix" draws a kind per request
func c13Stress(o *out, kind string, workers, iters int, seed uint64) {
	e := c13Setup()
	e.bad.Store(0)
	e.badText = ""
	var wg sync.WaitGroup
	var leaks atomic.Int64
	var total atomic.Int64
	var mu sync.Mutex
	sample := ""
	netErrs := 0
	perKind := map[string]int{}
	for w := 0; w < workers; w++ {
		wg.Add(1)
		go func(w int) {
			defer wg.Done()
			r := newRng(seed*1000003 + uint64(w)*7919 + 17)
			for i := 0; i < iters; i++ {
				k := kind
				if kind == "mix" {
					k = c13Kinds[r.intn(len(c13Kinds))]
				}
				id := fmt.Sprintf("s%d.w%d.i%d", seed, w, i)
				d := e.one(k, id, r)
				total.Add(1)
				mu.Lock()
				perKind[k]++
				if d != "" && c13NetErr(d) {
					// the machine, not larking: a timeout or a refused / reset connection says nothing about isolation
					netErrs++
					d = ""
				}
				if d != "" {
					leaks.Add(1)
					if sample == "" {
						sample = d
					}
				}
				mu.Unlock()
			}
		}(w)
	}
	wg.Wait()
	for k, n := range perKind {
		o.stats["stress/"+k] += n
	}
	input := fmt.Sprintf("C13S %s %d %d %d", kind, workers, iters, seed)
	if n := e.bad.Load(); n > 0 && sample == "" {
		leaks.Add(n)
		sample = "a handler received a message that no client sent: " + e.badText
	}
	if leaks.Load() > 0 {
		o.emit(input, fmt.Sprintf("leak %d %s", leaks.Load(), hx([]byte(sample))))
		return
	}
	o.emit(input, fmt.Sprintf("ok %d neterr=%d", total.Load(), netErrs))
}

func c13NetErr(d string) bool {
	for _, s := range []string{"deadline exceeded", "Client.Timeout", "connection refused", "connection reset", "broken pipe", "too many open files"} {
		if strings.Contains(d, s) {
			return true
		}
	}
	return false
}

// ---------- entry points ----------

func c13Run(o *out, input string) {
	f := strings.Fields(input)
	switch f[0] {
	case "C13G":
		c13RunG(o, input)
	case "C13M":
		c13RunM(o, input)
	case "C13B":
		c13RunB(o, input)
	case "C13S":
		var seed uint64
		fmt.Sscanf(f[4], "%d", &seed)
		c13Stress(o, f[1], atoi(f[2]), atoi(f[3]), seed)
	}
}

func c13Gen(o *out, r *rng, tier string) {
	seed := r.u64() % 1000000
	switch tier {
	case "race-quick":
		c13Stress(o, "mix", 16, 160, seed)
		c13Stress(o, "http-up-gzip", 8, 60, seed+1)
		c13Stress(o, "blob-put", 8, 60, seed+2)
		c13Stress(o, "grpc-bidi-gzip", 8, 40, seed+3)
		c13Stress(o, "grpc-cancel", 8, 40, seed+4)
		c13Stress(o, "grpc-leftover", 4, 60, seed+5)
		c13Stress(o, "proxy-bidi-fail", 8, 40, seed+6)
		c13Stress(o, "proxy-http-gzip-fail", 8, 40, seed+7)
		c13Stress(o, "webtext-leftover", 4, 20, seed+8)
		return
	case "race-thorough":
		for i := uint64(0); i < 6; i++ {
			c13Stress(o, "mix", 16, 300, seed+10*i)
		}
		for i, k := range c13Kinds {
			c13Stress(o, k, 8, 120, seed+100+uint64(i))
		}
		return
	}
	n, w, it := 400, 8, 160
	if tier == "thorough" {
		n, w, it = 6000, 16, 400
	}
	for _, c := range []string{"json", "proto"} {
		o.count("mux-nested/" + c)
		c13RunM(o, "C13M "+c)
	}
	for _, v := range []string{"ok", "crc", "cut", "tail", "asset"} {
		o.count("grpc-gzip-sequence/" + v)
		c13RunB(o, "C13B "+v)
	}
	c13GenG(o, r, n)
	c13Stress(o, "mix", w, it, seed)
	for i, k := range c13Kinds {
		c13Stress(o, k, 4, it/4, seed+1+uint64(i))
	}
}
