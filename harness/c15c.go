package main

import (
	"bytes"
	"compress/gzip"
	"context"
	"fmt"
	"io"
	"net"
	"net/http"
	"strings"
	"sync"
	"time"

	"google.golang.org/grpc"
	"google.golang.org/protobuf/proto"
	"google.golang.org/protobuf/reflect/protoreflect"
	"google.golang.org/protobuf/types/dynamicpb"
	"larking.io/api/testpb"
	"larking.io/larking"
)

// C15C: client cancellation / disconnect on a real loopback connection. The handler reports
// when its context was cancelled and when a blocked Recv/Send returned.
//   C15C <front: grpc|http> <shape: unary|client|server|bidi> <point: ctx|recv|send> ; released <ms> | stuck

type c15cEnv struct {
	lb      *loopback
	lbPlain *loopback
	lbStats *loopback // the same service behind a stats handler and interceptors (fronts ending in "+s")
	mu      sync.Mutex
	events  chan string
	point   string
	first   bool // the handler reads one request message before it waits (gRPC-web over HTTP/1: net/http
	// only watches the connection once the request body has been consumed)
}

var c15cenv *c15cEnv

func c15cSetup() *c15cEnv {
	if c15cenv != nil {
		return c15cenv
	}
	e := &c15cEnv{events: make(chan string, 16)}
	msg := "larking.testpb.Message"
	f := dynFile{Path: "verif/c15c.proto", Pkg: "verif.c15c", Services: []dynService{{Name: "Csvc", Methods: []dynMethod{
		{Name: "Unary", In: msg, Out: msg, Rule: &dynRule{Verb: "GET", Tmpl: "/c15/unary"}},
		{Name: "Client", In: msg, Out: msg, ClientStream: true, Rule: &dynRule{Verb: "POST", Tmpl: "/c15/client", Body: "*"}},
		{Name: "Server", In: msg, Out: msg, ServerStream: true, Rule: &dynRule{Verb: "GET", Tmpl: "/c15/server"}},
		{Name: "Bidi", In: msg, Out: msg, ClientStream: true, ServerStream: true},
		{Name: "Post", In: msg, Out: msg, Rule: &dynRule{Verb: "POST", Tmpl: "/c15/post", Body: "*"}},
	}}}}
	fd, err := f.build()
	if err != nil {
		panic(err)
	}
	wait := func(ctx context.Context) {
		select {
		case <-ctx.Done():
			e.events <- "ctx"
		case <-time.After(3 * time.Second):
			e.events <- "stuck"
		}
	}
	impl := &dynImpl{
		Unary: func(ctx context.Context, method string, req proto.Message, out protoreflect.MessageDescriptor) (proto.Message, error) {
			e.events <- "entered"
			wait(ctx)
			return dynamicpb.NewMessage(out), nil
		},
		Stream: func(method string, in, out protoreflect.MessageDescriptor, ss grpc.ServerStream) error {
			if e.first {
				ss.RecvMsg(dynamicpb.NewMessage(in))
			}
			e.events <- "entered"
			switch e.point {
			case "ctx":
				wait(ss.Context())
			case "recv":
				done := make(chan error, 1)
				go func() {
					for {
						if err := ss.RecvMsg(dynamicpb.NewMessage(in)); err != nil {
							done <- err
							return
						}
					}
				}()
				select {
				case err := <-done:
					if err == io.EOF {
						e.events <- "eof"
					} else {
						e.events <- "recv-error"
					}
				case <-time.After(3 * time.Second):
					e.events <- "stuck"
				}
			case "send":
				done := make(chan error, 1)
				go func() {
					big := &testpb.Message{Text: strings.Repeat("x", 1<<15)}
					b, _ := proto.Marshal(big)
					m := dynamicpb.NewMessage(out)
					proto.Unmarshal(b, m)
					for {
						if err := ss.SendMsg(m); err != nil {
							done <- err
							return
						}
					}
				}()
				select {
				case <-done:
					e.events <- "send-error"
				case <-time.After(3 * time.Second):
					e.events <- "stuck"
				}
			}
			return nil
		},
	}
	mux, err := dynMux([]protoreflect.FileDescriptor{fd}, impl)
	if err != nil {
		panic(err)
	}
	e.lb, err = newLoopback(mux)
	if err != nil {
		panic(err)
	}
	e.lbPlain = e.lb
	muxS, err := dynMux([]protoreflect.FileDescriptor{fd}, impl, larking.StatsOption(c14Stats{}),
		larking.UnaryServerInterceptorOption(func(ctx context.Context, req interface{}, info *grpc.UnaryServerInfo, h grpc.UnaryHandler) (interface{}, error) {
			return h(ctx, req)
		}),
		larking.StreamServerInterceptorOption(func(srv interface{}, ss grpc.ServerStream, info *grpc.StreamServerInfo, h grpc.StreamHandler) error {
			return h(srv, ss)
		}))
	if err != nil {
		panic(err)
	}
	e.lbStats, err = newLoopback(muxS)
	if err != nil {
		panic(err)
	}
	c15cenv = e
	return e
}

func (e *c15cEnv) expect(want string, d time.Duration) (string, time.Duration) {
	t0 := time.Now()
	select {
	case ev := <-e.events:
		return ev, time.Since(t0)
	case <-time.After(d):
		return "timeout-waiting-" + want, time.Since(t0)
	}
}

func c15cRun(o *out, input string) {
	f := strings.Fields(input)
	front, shape, point := f[1], f[2], f[3]
	e := c15cSetup()
	front, withStats := strings.CutSuffix(front, "+s")
	e.lb = e.lbPlain
	if withStats {
		e.lb = e.lbStats
	}
	for len(e.events) > 0 {
		<-e.events
	}
	e.point = point
	e.first = front == "web" && shape != "unary"
	ctx, cancel := context.WithCancel(context.Background())
	defer cancel()
	msgd := testpb.File_larking_api_test_proto.Messages().ByName("Message")
	switch front {
	case "grpc":
		name := map[string]string{"unary": "Unary", "client": "Client", "server": "Server", "bidi": "Bidi"}[shape]
		full := "/verif.c15c.Csvc/" + name
		if shape == "unary" {
			go e.lb.conn.Invoke(ctx, full, dynamicpb.NewMessage(msgd), dynamicpb.NewMessage(msgd))
		} else {
			sd := &grpc.StreamDesc{ClientStreams: shape != "server", ServerStreams: shape != "client"}
			cs, err := e.lb.conn.NewStream(ctx, sd, full)
			if err != nil {
				o.emit(input, "client-error 0")
				return
			}
			cs.SendMsg(dynamicpb.NewMessage(msgd))
			if shape == "server" {
				cs.CloseSend()
			}
			if point == "send" {
				// do not read: the server's sends fill the flow-control window and block
			}
		}
	case "web":
		// gRPC-web over HTTP/1.1: one frame carrying an empty message, Content-Length known
		name := map[string]string{"unary": "Unary", "server": "Server"}[shape]
		req, _ := http.NewRequestWithContext(ctx, "POST", e.lb.url+"/verif.c15c.Csvc/"+name, bytes.NewReader([]byte{0, 0, 0, 0, 0}))
		req.Header.Set("Content-Type", "application/grpc-web+proto")
		go func() {
			rsp, err := http.DefaultTransport.RoundTrip(req)
			if err == nil {
				if point == "send" {
					<-ctx.Done() // never read the body
				}
				rsp.Body.Close()
			}
		}()
	case "httpz":
		// plain HTTP/1.1, the body gzip-compressed (Content-Encoding) and chunked, its terminating chunk in a write of its
		// own; the client goes away while the handler runs
		conn, err := net.Dial("tcp", strings.TrimPrefix(e.lb.url, "http://"))
		if err != nil {
			o.emit(input, "client-error 0")
			return
		}
		var z bytes.Buffer
		zw := gzip.NewWriter(&z)
		zw.Write([]byte(`{"text":"a"}`))
		zw.Close()
		fmt.Fprintf(conn, "POST /c15/post HTTP/1.1\r\nHost: verif\r\nContent-Type: application/json\r\nContent-Encoding: gzip\r\nTransfer-Encoding: chunked\r\n\r\n%x\r\n%s\r\n", z.Len(), z.Bytes())
		time.Sleep(40 * time.Millisecond)
		fmt.Fprint(conn, "0\r\n\r\n")
		go func() { <-ctx.Done(); conn.Close() }()
	case "http":
		path := map[string]string{"unary": "/c15/unary", "client": "/c15/client", "server": "/c15/server"}[shape]
		var body io.Reader
		method := "GET"
		var pw *io.PipeWriter
		if shape == "client" {
			var pr *io.PipeReader
			pr, pw = io.Pipe()
			body = pr
			method = "POST"
		}
		req, _ := http.NewRequestWithContext(ctx, method, e.lb.url+path, body)
		req.Header.Set("Content-Type", "application/json")
		go func() {
			rsp, err := http.DefaultTransport.RoundTrip(req)
			if err == nil {
				if point == "send" {
					<-ctx.Done() // never read the body
				}
				rsp.Body.Close()
			}
		}()
		if pw != nil {
			go func() { pw.Write([]byte(`{"text":"a"}`)); <-ctx.Done(); pw.CloseWithError(context.Canceled) }()
		}
	}
	if ev, _ := e.expect("entered", 3*time.Second); ev != "entered" {
		o.emit(input, "not-entered 0")
		return
	}
	time.Sleep(60 * time.Millisecond)
	if len(e.events) > 0 {
		// the handler was released before the client cancelled: not an observation of cancellation
		o.emit(input, fmt.Sprintf("early-%s 0", <-e.events))
		return
	}
	cancel()
	ev, d := e.expect("release", 4*time.Second)
	switch ev {
	case "ctx", "recv-error", "send-error":
		o.emit(input, fmt.Sprintf("released %d", d.Milliseconds()))
	default:
		o.emit(input, fmt.Sprintf("%s %d", ev, d.Milliseconds()))
	}
}

func c15cGen(o *out) {
	for _, c := range []string{
		"grpc unary ctx", "grpc client ctx", "grpc client recv", "grpc server ctx", "grpc server send",
		"grpc bidi ctx", "grpc bidi recv", "grpc bidi send",
		// "http client ctx" is not a scenario: net/http does not watch an HTTP/1 connection whose
		// request body is unread, so the context is not cancelled until the handler reads
		"http unary ctx", "http client recv", "http server ctx", "http server send",
		"web unary ctx", "web server ctx", "web server send", "httpz unary ctx", "httpz+s unary ctx",
		// the same behind a stats handler (whose TagRPC derives a context) and interceptors
		"grpc+s unary ctx", "grpc+s bidi recv", "grpc+s server send", "http+s unary ctx", "http+s client recv", "http+s server ctx", "http+s server send",
		"web+s unary ctx", "web+s server ctx",
	} {
		o.count("cancel/" + strings.Fields(c)[0])
		c15cRun(o, "C15C "+c)
	}
}
