package main

import (
	"bytes"
	"errors"
	"fmt"
	"io"
	"strings"

	"google.golang.org/protobuf/encoding/protodelim"
	"google.golang.org/protobuf/encoding/protowire"
	"larking.io/larking"
)

// scriptedReader delivers data according to a schedule of read sizes and records what it
// actually returned (the trace handed to the model as its schedule).
type scriptedReader struct {
	data        []byte
	pos         int
	sched       []int
	k           int
	eofWithData bool
	trace       []int
	calls       int
}

func (r *scriptedReader) Read(p []byte) (int, error) {
	r.calls++
	if r.calls > 1<<20 {
		panic("reader: too many calls (no progress)")
	}
	if r.pos >= len(r.data) {
		return 0, io.EOF
	}
	want := len(r.data) - r.pos
	if r.k < len(r.sched) {
		want = r.sched[r.k]
		if want < 1 {
			want = 1
		}
	}
	r.k++
	n := want
	if n > len(p) {
		n = len(p)
	}
	if n > len(r.data)-r.pos {
		n = len(r.data) - r.pos
	}
	copy(p, r.data[r.pos:r.pos+n])
	r.pos += n
	r.trace = append(r.trace, n)
	if r.eofWithData && r.pos == len(r.data) {
		return n, io.EOF
	}
	return n, nil
}

func codecOf(c string) larking.StreamCodec {
	switch c {
	case "p":
		return larking.CodecProto{}
	case "j":
		return larking.CodecJSON{}
	case "b":
		return larking.VerifHTTPBodyCodec()
	}
	panic("codec " + c)
}

func errClass(err error) string {
	if err == nil {
		return "nil"
	}
	var tl *protodelim.SizeTooLargeError
	switch {
	case err == io.EOF:
		return "eof"
	case errors.Is(err, io.ErrUnexpectedEOF):
		return "ueof"
	case errors.As(err, &tl):
		return "large"
	case strings.Contains(err.Error(), "overflow"):
		return "varint"
	case strings.Contains(err.Error(), "unbalanced"):
		return "unbal"
	}
	return "other"
}

// c17Call runs one ReadNext call.
func c17Call(codec string, limit int, carry, data []byte, sched []int, eofwd bool) (obs string) {
	r := &scriptedReader{data: data, sched: sched, eofWithData: eofwd}
	b := append(make([]byte, 0, len(carry)), carry...)
	defer func() {
		if p := recover(); p != nil {
			obs = fmt.Sprintf("x 0 panic %s %s", hx(data[r.pos:]), ints(r.trace))
		}
	}()
	dst, n, err := codecOf(codec).ReadNext(b, r, limit)
	return fmt.Sprintf("%s %d %s %s %s", hx(dst), n, errClass(err), hx(data[r.pos:]), ints(r.trace))
}

// c17Seq runs the caller protocol: carry := dst[n:], until an error. With reuse the caller keeps one
// buffer for the whole stream, as larking's pooled buffers are kept (capacity grows with the largest
// message so far); without, every call starts from a buffer that just fits the carried-over bytes.
func c17Seq(codec string, limit int, data []byte, sched []int, eofwd bool, reuse bool) (obs string) {
	r := &scriptedReader{data: data, sched: sched, eofWithData: eofwd}
	var msgs [][]byte
	defer func() {
		if p := recover(); p != nil {
			obs = fmt.Sprintf("%s panic", hxs(msgs))
		}
	}()
	c := codecOf(codec)
	var carry, buf []byte
	for iter := 0; ; iter++ {
		if iter > len(data)+2 {
			return fmt.Sprintf("%s noprogress", hxs(msgs))
		}
		b := append([]byte(nil), carry...)
		if reuse {
			b = append(buf[:0], carry...)
		}
		dst, n, err := c.ReadNext(b, r, limit)
		if reuse && cap(dst) > cap(buf) {
			buf = dst
		}
		if n < 0 || n > len(dst) {
			return fmt.Sprintf("%s badn", hxs(msgs))
		}
		if err == nil || (err == io.EOF && n > 0) {
			msgs = append(msgs, append([]byte(nil), dst[:n]...))
			carry = append([]byte(nil), dst[n:]...)
			if err == io.EOF {
				if len(carry) > 0 {
					return fmt.Sprintf("%s lost", hxs(msgs))
				}
				return fmt.Sprintf("%s clean", hxs(msgs))
			}
			continue
		}
		if err == io.EOF {
			if len(dst) > 0 && codec != "j" {
				return fmt.Sprintf("%s lost", hxs(msgs))
			}
			return fmt.Sprintf("%s clean", hxs(msgs))
		}
		return fmt.Sprintf("%s %s", hxs(msgs), errClass(err))
	}
}

func c17Run(o *out, input string) {
	f := strings.Fields(input)
	switch f[0] {
	case "C17":
		o.emit(input, c17Call(f[1], atoi(f[2]), unhx(f[3]), unhx(f[4]), unints(f[5]), f[6] == "1"))
	case "C17S":
		o.emit(input, c17Seq(f[1], atoi(f[2]), unhx(f[3]), unints(f[4]), f[5] == "1", len(f) > 6 && f[6] == "R"))
	case "C17W":
		o.emit(input, c17Write(f[1], atoi(f[2]), atoi(f[3]), atoi(f[4])))
	default:
		panic("bad C17 case " + input)
	}
}

// recWriter records what WriteNext hands to the writer; its failAt-th Write (1-based, 0 = never) fails.
type recWriter struct {
	buf    []byte
	calls  int
	failAt int
}

func (w *recWriter) Write(p []byte) (int, error) {
	w.calls++
	if w.calls == w.failAt {
		return 0, errors.New("write refused")
	}
	w.buf = append(w.buf, p...)
	return len(p), nil
}

func c17Msg(size, fill int) []byte {
	b := make([]byte, size)
	for i := range b {
		b[i] = byte(fill + i)
	}
	return b
}

// c17Write runs one WriteNext call on a message of the given size (byte i = fill+i) and reports the bytes
// that reached the writer and whether an error was returned.
func c17Write(codec string, size, fill, failAt int) (obs string) {
	w := &recWriter{failAt: failAt}
	defer func() {
		if p := recover(); p != nil {
			obs = fmt.Sprintf("%s panic", hx(w.buf))
		}
	}()
	msg := c17Msg(size, fill)
	keep := append([]byte(nil), msg...)
	_, err := codecOf(codec).WriteNext(w, msg)
	if !bytes.Equal(keep, msg) {
		return fmt.Sprintf("%s clobbered", hx(w.buf))
	}
	if err != nil {
		return fmt.Sprintf("%s err", hx(w.buf))
	}
	return fmt.Sprintf("%s nil", hx(w.buf))
}

func writeAll(codec string, msgs [][]byte) []byte {
	var sb strings.Builder
	c := codecOf(codec)
	for _, m := range msgs {
		if _, err := c.WriteNext(&sb, m); err != nil {
			panic(err)
		}
	}
	return []byte(sb.String())
}

// partitions of n bytes into successive reads: bit i of mask set = cut after byte i+1
func partition(n int, mask uint64) []int {
	var xs []int
	cur := 0
	for i := 0; i < n; i++ {
		cur++
		if i == n-1 || mask&(1<<uint(i)) != 0 {
			xs = append(xs, cur)
			cur = 0
		}
	}
	return xs
}

func c17Gen(o *out, r *rng, tier string) {
	thorough := tier == "thorough"
	call := func(codec string, limit int, carry, data []byte, sched []int, eofwd bool) {
		in := fmt.Sprintf("C17 %s %d %s %s %s %d", codec, limit, hx(carry), hx(data), ints(sched), b2i(eofwd))
		o.count("call/" + codec)
		c17Run(o, in)
	}
	seq := func(codec string, limit int, data []byte, sched []int, eofwd bool, tag string) {
		in := fmt.Sprintf("C17S %s %d %s %s %d", codec, limit, hx(data), ints(sched), b2i(eofwd))
		o.count("seq/" + codec + "/" + tag)
		c17Run(o, in)
	}
	// every split of a logical stream into carry + data, for a few schedules
	allCarries := func(codec string, limit int, L []byte) {
		for k := 0; k <= len(L); k++ {
			for _, e := range []bool{false, true} {
				call(codec, limit, L[:k], L[k:], nil, e)
				call(codec, limit, L[:k], L[k:], []int{1, 1, 1, 1, 1, 1, 1, 1, 1, 1, 1, 1, 1, 2, 3}, e)
				call(codec, limit, L[:k], L[k:], []int{1 + r.intn(3), 1 + r.intn(4), 1 + r.intn(5)}, e)
			}
		}
	}
	maxExh := 9
	if thorough {
		maxExh = 14
	}
	exhaustive := func(codec string, limit int, L []byte, tag string) {
		n := len(L)
		if n == 0 {
			seq(codec, limit, L, nil, false, tag)
			seq(codec, limit, L, nil, true, tag)
			return
		}
		if n > maxExh {
			for i := 0; i < 24; i++ {
				seq(codec, limit, L, partition(n, r.u64()), r.bool(), tag+"-sampled")
			}
			return
		}
		for mask := uint64(0); mask < 1<<uint(n-1); mask++ {
			seq(codec, limit, L, partition(n, mask), false, tag)
			seq(codec, limit, L, partition(n, mask), true, tag)
		}
	}

	// the write side: the frame WriteNext produces for every message size of a range and at the boundaries of
	// the length prefix (1 / 2 / 3 bytes), and a writer that refuses
	write := func(codec string, size, fill, failAt int) {
		o.count("write/" + codec)
		c17Run(o, fmt.Sprintf("C17W %s %d %d %d", codec, size, fill, failAt))
	}
	wmax := 700
	if thorough {
		wmax = 4200
	}
	for _, codec := range []string{"p", "j", "b"} {
		for sz := 0; sz <= wmax; sz++ {
			if codec != "p" && sz > 300 && sz%16 != 0 {
				continue
			}
			write(codec, sz, r.intn(256), 0)
		}
		for _, sz := range []int{1023, 1024, 1025, 4095, 4096, 4097, 8191, 8192, 16383, 16384, 16385, 32768, 65535, 65536} {
			write(codec, sz, r.intn(256), 0)
		}
		if thorough {
			for _, sz := range []int{1 << 17, 2097151, 2097152, 2097153} {
				write(codec, sz, r.intn(256), 0)
			}
		}
		for _, sz := range []int{0, 1, 5, 127, 128, 255, 256, 300, 5000} {
			write(codec, sz, 7, 1)
			write(codec, sz, 7, 2)
		}
	}
	// one buffer kept for a whole stream of messages of very different sizes (the capacity left over
	// from a large message meets a medium one that is only partly buffered)
	seqR := func(codec string, limit int, data []byte, sched []int, eofwd bool) {
		o.count("seq/" + codec + "/reused-buffer")
		c17Run(o, fmt.Sprintf("C17S %s %d %s %s %d R", codec, limit, hx(data), ints(sched), b2i(eofwd)))
	}
	for _, codec := range []string{"p", "j"} {
		for _, sizes := range [][]int{{10, 2040, 3000, 5, 4000}, {1200, 1700, 2300, 40, 2900, 3600}, {64, 100, 129, 257, 600, 1025, 1300, 2047, 2049}} {
			var ms [][]byte
			for i, n := range sizes {
				if codec == "j" {
					ms = append(ms, []byte(`{"text":"`+strings.Repeat(string(rune('a'+i)), n)+`"}`))
				} else {
					ms = append(ms, append([]byte{0x12, byte(n&0x7f | 0x80), byte(n >> 7)}, []byte(strings.Repeat(string(rune('a'+i)), n))...))
				}
			}
			L := writeAll(codec, ms)
			seqR(codec, 1<<20, L, nil, false)
			seqR(codec, 1<<20, L, []int{len(L) / 2, len(L)}, true)
			for si, step := range []int{512, 1000, 1024, 1500, 7, 1} {
				if si >= 4 && (len(L) > 11000 || tier != "thorough") {
					continue // the byte-at-a-time schedules of long streams are slow in the extracted model
				}
				var sch []int
				for k := 0; k < len(L); k += step {
					sch = append(sch, step)
				}
				seqR(codec, 1<<20, L, sch, step%2 == 1)
			}
		}
	}
	// ---- protobuf ----
	mk := func(n int, fill byte) []byte {
		b := make([]byte, n)
		for i := range b {
			b[i] = fill + byte(i)
		}
		return b
	}
	protoSeqs := [][][]byte{
		{}, {{}}, {{}, {}}, {mk(1, 'a')}, {mk(2, 'a'), {}}, {mk(1, 'a'), mk(2, 'x')}, {{}, mk(3, 'q'), {}},
		{mk(3, 'a'), mk(1, 0x80), mk(2, 0xfe)},
	}
	for _, ms := range protoSeqs {
		L := writeAll("p", ms)
		for _, lim := range []int{1, 2, 3, 4, 64} {
			exhaustive("p", lim, L, "roundtrip")
		}
		// every truncation
		for k := 0; k < len(L); k++ {
			seq("p", 64, L[:k], nil, false, "trunc")
			seq("p", 64, L[:k], partition(k, r.u64()), true, "trunc")
		}
	}
	for _, sz := range []int{0, 1, 2, 127, 128, 129, 300} {
		m := mk(sz, 'A')
		L := writeAll("p", [][]byte{m, mk(2, 'z')})
		for _, lim := range []int{sz - 1, sz, sz + 1, 4096} {
			if lim < 1 {
				continue
			}
			for i := 0; i < 6; i++ {
				seq("p", lim, L, partition(len(L), r.u64()&r.u64()), r.bool(), "boundary")
			}
			if sz <= 129 {
				call("p", lim, nil, L, nil, false)
				call("p", lim, L[:1], L[1:], nil, true)
				call("p", lim, L, nil, nil, false)
			}
		}
	}
	// all 1..10 (and 11) byte length prefixes over a boundary alphabet
	lastSet := []byte{0x00, 0x01, 0x02, 0x7f, 0x80, 0xff}
	contSet := []byte{0x80, 0xff, 0x81}
	for plen := 1; plen <= 11; plen++ {
		for _, cb := range contSet {
			for _, lb := range lastSet {
				p := make([]byte, plen)
				for i := range p {
					p[i] = cb
				}
				p[plen-1] = lb
				for _, tail := range [][]byte{nil, {1, 2, 3}} {
					L := append(append([]byte(nil), p...), tail...)
					for _, lim := range []int{1, 3, 4096} {
						call("p", lim, nil, L, nil, false)
						call("p", lim, nil, L, []int{1, 1, 1, 1, 1, 1, 1, 1, 1, 1, 1, 1}, true)
						call("p", lim, L[:plen/2], L[plen/2:], []int{2, 1, 3}, false)
						seq("p", lim, L, partition(len(L), r.u64()), r.bool(), "prefix")
					}
				}
			}
		}
	}
	nrand := 300
	if thorough {
		nrand = 6000
	}
	for i := 0; i < nrand; i++ {
		p := r.bytes(1 + r.intn(10))
		if r.intn(3) == 0 {
			p[len(p)-1] &= 0x7f
		}
		L := append(p, r.bytes(r.intn(6))...)
		call("p", 1+r.intn(300), nil, L, partition(len(L), r.u64()), r.bool())
	}
	allCarries("p", 8, writeAll("p", [][]byte{mk(3, 'a'), mk(2, 'b')}))
	allCarries("p", 2, writeAll("p", [][]byte{mk(3, 'a')}))
	allCarries("p", 200, writeAll("p", [][]byte{mk(130, 'a'), mk(1, 'b')}))

	// ---- JSON ----
	jmsgs := []string{`{}`, `{"a":1}`, `{"a":"}"}`, `{"a":"\\\""}`, `{"a":{"b":{}}}`, `{"s":"\\"}`, `{"k":"{\"x\":1}"}`, `{"é":"{"}`}
	jseqs := [][]string{{}, {`{}`}, {`{}`, `{}`}, {jmsgs[1], jmsgs[2]}, {jmsgs[3]}, {jmsgs[4], jmsgs[0]}, {jmsgs[5], jmsgs[1]}, {jmsgs[6]}, {jmsgs[7], jmsgs[2]}}
	for _, ms := range jseqs {
		var bs [][]byte
		for _, m := range ms {
			bs = append(bs, []byte(m))
		}
		L := writeAll("j", bs)
		for _, lim := range []int{2, 8, 64} {
			exhaustive("j", lim, L, "roundtrip")
		}
		for k := 0; k < len(L); k++ {
			seq("j", 64, L[:k], nil, false, "trunc")
			seq("j", 64, L[:k], partition(k, r.u64()), true, "trunc")
		}
	}
	for _, m := range jmsgs {
		L := []byte(m + `{"z":0}`)
		for _, lim := range []int{len(m) - 1, len(m), len(m) + 1} {
			for i := 0; i < 4; i++ {
				seq("j", lim, L, partition(len(L), r.u64()), r.bool(), "boundary")
			}
			call("j", lim, nil, L, nil, false)
			call("j", lim, L, nil, nil, true)
		}
		allCarries("j", 64, L)
	}
	for _, s := range []string{`}`, `{}}`, ` {} `, "{}\n{}\n", `x{}`, `"{"{}`, `{"a":"\`, `{{}`, `{"a":"b"`, "\n", `{"a":"\\}"}x`} {
		L := []byte(s)
		exhaustive("j", 64, L, "malformed")
		exhaustive("j", 3, L, "malformed")
	}
	for i := 0; i < nrand; i++ {
		alpha := []byte(`{}"\a `)
		L := make([]byte, r.intn(12))
		for j := range L {
			L[j] = alpha[r.intn(len(alpha))]
		}
		k := r.intn(len(L) + 1)
		call("j", 1+r.intn(14), L[:k], L[k:], partition(len(L)-k, r.u64()), r.bool())
		seq("j", 1+r.intn(14), L, partition(len(L), r.u64()), r.bool(), "random")
	}

	// ---- HttpBody chunks ----
	for _, lim := range []int{1, 2, 3, 4, 8} {
		for _, k := range []int{0, 1, 2, 3} {
			for _, d := range []int{-1, 0, 1} {
				n := k*lim + d
				if n < 0 {
					continue
				}
				L := mk(n, '0')
				exhaustive("b", lim, L, "upload")
				allCarries("b", lim, L)
			}
		}
	}
	for i := 0; i < nrand; i++ {
		lim := 1 + r.intn(9)
		L := r.bytes(r.intn(40))
		k := r.intn(len(L) + 1)
		call("b", lim, L[:k], L[k:], partition(len(L)-k, r.u64()), r.bool())
		seq("b", lim, L, partition(len(L), r.u64()&r.u64()), r.bool(), "random")
	}
	_ = protowire.AppendVarint
}

func init() { props["C17"] = prop{gen: c17Gen, run: c17Run} }
