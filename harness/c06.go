package main

import (
	"bytes"
	"compress/gzip"
	"context"
	"encoding/base64"
	"errors"
	"fmt"
	"io"
	"net"
	"net/http"
	"net/http/httptest"
	"strings"
	"sync"
	"time"

	"github.com/gobwas/ws"
	"github.com/gobwas/ws/wsutil"
	"google.golang.org/genproto/googleapis/api/httpbody"
	"google.golang.org/grpc"
	"google.golang.org/grpc/codes"
	"google.golang.org/grpc/status"
	"google.golang.org/protobuf/encoding/protojson"
	"google.golang.org/protobuf/proto"
	"google.golang.org/protobuf/reflect/protoreflect"
	"google.golang.org/protobuf/types/dynamicpb"
	"larking.io/api/testpb"
	"larking.io/larking"
)

// C06: stream sequence fidelity. A recording streaming handler reads until RecvMsg fails, then
// (after a clean end) sends the scripted replies and returns the scripted status.
//
//   C06 <tr> <shape> <codec> <gz> <limit> <cl> <body> <sched> <eofwd> <out> <code> <sent> <ztab>
//     ; <hseq> <end> <bad> <oc> <trace> <hstatus> <gstatus> <sframes> <mc> <respbody> <rztab> <ct>
//   tr     http | grpc | web | webtext | web2 | webtext2 (gRPC-web arriving over HTTP/2)
//   shape  bidi | client | server | up (stream of HttpBody in) | down (stream of HttpBody out)
//   codec  p | j       gz 0|1 (HTTP: Content-Encoding gzip; gRPC: Grpc-Encoding gzip)
//   limit  MaxReceiveMessageSize      cl  u (length unknown) | k (Content-Length = len(body))
//   body   the request body as the transport carries it (after gzip for http+gz: the plain
//          stream is given and compressed by the harness)
//   sent   =<frames> the client's frames, in order (well-formed stream)
//          <<frames>:<j> a stream cut strictly inside frame j (0-based): the first j must arrive, then an error
//          ? unknown (malformed): only the pure parser judges
//   ztab   compressed=plain pairs for the gzip payloads of the request (oracle values)
//   hseq   what the handler received: frame bytes handed to Unmarshal (or HttpBody data), P = message
//          built from parameters only; end = class of the error that ended RecvMsg
//   sframes what the codec marshalled for the handler's replies; respbody what the client got
//
//   C06W <shape> <texts> <fin> <recvn> <out> <code> ; <htexts> <end> <ctexts> <ccodes> <junk>
//   WebSocket through the loopback server: one text frame per message; fin = c<code> | c0 (close
//   frame without status) | abort (TCP close) | none (the server ends the call).

type c06Script struct {
	recvN int // -1: until RecvMsg fails
	out   [][]byte
	code  int
	shape string
	// recorded
	hseq    []string
	hmsgs   []proto.Message
	end     string
	bad     []byte
	ulog    [][]byte
	ufail   bool
	mlog    [][]byte
	sendErr string
	hdone   bool // the handler has returned (what is marshalled afterwards is the error body)
	done    chan struct{}
	// a bidi handler on a well-formed stream replies while it is still receiving (one scripted reply
	// after each message, the rest after the end of the stream): the client's view is the same
	interleave bool
	sentOut    int
}

type c06Env struct {
	mu  sync.Mutex
	cur *c06Script
	mux *larking.Mux
	lb  *loopback
}

var c06envs = map[int]*c06Env{}

type c06RecJSON struct {
	larking.CodecJSON
	e *c06Env
}

func (c c06RecJSON) Unmarshal(b []byte, v interface{}) error {
	err := c.CodecJSON.Unmarshal(b, v)
	c.e.recU(b, err)
	return err
}
func (c c06RecJSON) MarshalAppend(b []byte, v interface{}) ([]byte, error) {
	out, err := c.CodecJSON.MarshalAppend(b, v)
	if err == nil {
		c.e.recM(out[len(b):])
	}
	return out, err
}
func (c c06RecJSON) Marshal(v interface{}) ([]byte, error) { return c.MarshalAppend(nil, v) }

type c06RecProto struct {
	larking.CodecProto
	e *c06Env
}

func (c c06RecProto) Unmarshal(b []byte, v interface{}) error {
	err := c.CodecProto.Unmarshal(b, v)
	c.e.recU(b, err)
	return err
}
func (c c06RecProto) MarshalAppend(b []byte, v interface{}) ([]byte, error) {
	out, err := c.CodecProto.MarshalAppend(b, v)
	if err == nil {
		c.e.recM(out[len(b):])
	}
	return out, err
}
func (c c06RecProto) Marshal(v interface{}) ([]byte, error) { return c.MarshalAppend(nil, v) }

func (e *c06Env) recU(b []byte, err error) {
	if s := e.cur; s != nil {
		s.ulog = append(s.ulog, append([]byte(nil), b...))
		s.ufail = err != nil
	}
}
func (e *c06Env) recM(b []byte) {
	if s := e.cur; s != nil && !s.hdone {
		s.mlog = append(s.mlog, append([]byte(nil), b...))
	}
}

func c06Class(err error) string {
	if err == nil {
		return "none"
	}
	var ce wsutil.ClosedError
	switch {
	case err == io.EOF:
		return "eof"
	case errors.As(err, &ce):
		return fmt.Sprintf("closed%d", ce.Code)
	case strings.Contains(err.Error(), "larger than max"), strings.Contains(err.Error(), "max receive message size"):
		return "large"
	}
	return errClass(err)
}

func c06Setup(limit int) *c06Env {
	if e, ok := c06envs[limit]; ok {
		return e
	}
	e := &c06Env{}
	msg, hb := "larking.testpb.Message", "google.api.HttpBody"
	wsr := func(p string) []dynRule { return []dynRule{{Verb: "WEBSOCKET", Tmpl: "/c06/ws/" + p, Body: "*"}} }
	f := dynFile{Path: fmt.Sprintf("verif/c06_%d.proto", limit), Pkg: "verif.c06", Services: []dynService{{Name: "Ssvc", Methods: []dynMethod{
		{Name: "Bidi", In: msg, Out: msg, ClientStream: true, ServerStream: true, Rule: &dynRule{Verb: "POST", Tmpl: "/c06/bidi", Body: "*", Additional: wsr("bidi")}},
		{Name: "Client", In: msg, Out: msg, ClientStream: true, Rule: &dynRule{Verb: "POST", Tmpl: "/c06/client", Body: "*", Additional: wsr("client")}},
		{Name: "Server", In: msg, Out: msg, ServerStream: true, Rule: &dynRule{Verb: "POST", Tmpl: "/c06/server", Body: "*", Additional: wsr("server")}},
		{Name: "Up", In: hb, Out: msg, ClientStream: true, Rule: &dynRule{Verb: "POST", Tmpl: "/c06/up", Body: "*"}},
		{Name: "Down", In: msg, Out: hb, ServerStream: true, Rule: &dynRule{Verb: "POST", Tmpl: "/c06/down", Body: "*"}},
	}}}}
	fd, err := f.build()
	if err != nil {
		panic(err)
	}
	impl := &dynImpl{Stream: func(method string, in, outd protoreflect.MessageDescriptor, ss grpc.ServerStream) error {
		s := e.cur
		if s == nil {
			return status.Error(codes.Internal, "no script")
		}
		defer func() {
			s.hdone = true
			if s.done != nil {
				close(s.done)
			}
		}()
		var rerr error
		for n := 0; s.recvN < 0 || n < s.recvN; n++ {
			if n > 5000 {
				rerr = errors.New("runaway")
				break
			}
			m := dynamicpb.NewMessage(in)
			before := len(s.ulog)
			s.ufail = false
			if err := ss.RecvMsg(m); err != nil {
				rerr = err
				if s.ufail && len(s.ulog) > before {
					s.bad = s.ulog[len(s.ulog)-1]
					s.ulog = s.ulog[:len(s.ulog)-1]
					s.end = "invalid"
				}
				break
			}
			s.hmsgs = append(s.hmsgs, m)
			switch {
			case in.FullName() == "google.api.HttpBody":
				if ct := m.Get(in.Fields().ByName("content_type")).String(); ct == "" {
					s.hseq = append(s.hseq, "P")
				} else if len(s.hseq) == 0 && ct != c06UploadCT && ct != "application/json" && ct != "application/protobuf" {
					s.hseq = append(s.hseq, "x"+hx([]byte("content_type " + ct))[1:])
				} else {
					s.hseq = append(s.hseq, hx(m.Get(in.Fields().ByName("data")).Bytes()))
				}
			case len(s.ulog) > before:
				s.hseq = append(s.hseq, hx(s.ulog[len(s.ulog)-1]))
			default:
				s.hseq = append(s.hseq, "P")
			}
			if s.interleave && s.sentOut < len(s.out) && outd.FullName() != "google.api.HttpBody" {
				rm := dynamicpb.NewMessage(outd)
				if t := s.out[s.sentOut]; len(t) > 0 {
					rm.Set(outd.Fields().ByName("text"), protoreflect.ValueOfString(string(t)))
				}
				s.sentOut++
				if err := ss.SendMsg(rm); err != nil {
					s.sendErr = c06Class(err)
					return err
				}
			}
		}
		if s.end == "" {
			s.end = c06Class(rerr)
		}
		if rerr != nil && rerr != io.EOF {
			return rerr
		}
		for _, t := range s.out[s.sentOut:] {
			m := dynamicpb.NewMessage(outd)
			if outd.FullName() == "google.api.HttpBody" {
				m.Set(outd.Fields().ByName("content_type"), protoreflect.ValueOfString("application/x-c06"))
				m.Set(outd.Fields().ByName("data"), protoreflect.ValueOfBytes(t))
			} else if len(t) > 0 {
				m.Set(outd.Fields().ByName("text"), protoreflect.ValueOfString(string(t)))
			}
			if err := ss.SendMsg(m); err != nil {
				s.sendErr = c06Class(err)
				return err
			}
		}
		if s.code != 0 {
			return status.Error(codes.Code(s.code), "scripted")
		}
		return nil
	}}
	e.mux, err = dynMux([]protoreflect.FileDescriptor{fd}, impl,
		larking.MaxReceiveMessageSizeOption(limit),
		larking.CodecOption("application/json", c06RecJSON{e: e}),
		larking.CodecOption("application/protobuf", c06RecProto{e: e}),
		larking.CodecOption("application/octet-stream", c06RecProto{e: e}))
	if err != nil {
		panic(err)
	}
	c06envs[limit] = e
	return e
}

// frame <-> message, with the plain library codecs (oracle side of the harness)
func c06Decode(codec string, frame []byte) (proto.Message, bool) {
	var m testpb.Message
	var err error
	if codec == "j" {
		err = protojson.Unmarshal(frame, &m)
	} else {
		err = proto.Unmarshal(frame, &m)
	}
	return &m, err == nil
}

func c06Gzip(b []byte) []byte {
	var buf bytes.Buffer
	z := gzip.NewWriter(&buf)
	z.Write(b)
	z.Close()
	return buf.Bytes()
}
func c06Gunzip(b []byte) ([]byte, bool) {
	z, err := gzip.NewReader(bytes.NewReader(b))
	if err != nil {
		return nil, false
	}
	out, err := io.ReadAll(z)
	return out, err == nil
}

// the media type of plain HTTP uploads: parameters and letter case are part of it
const c06UploadCT = "Application/Vnd.C06+Bin; charset=utf-8; boundary=xYz"

var c06Paths = map[string][2]string{
	"bidi": {"/c06/bidi", "/verif.c06.Ssvc/Bidi"}, "client": {"/c06/client", "/verif.c06.Ssvc/Client"},
	"server": {"/c06/server", "/verif.c06.Ssvc/Server"}, "up": {"/c06/up", "/verif.c06.Ssvc/Up"},
	"down": {"/c06/down", "/verif.c06.Ssvc/Down"},
}

type c06Body struct {
	*scriptedReader
}

func (c06Body) Close() error { return nil }

func c06Run(o *out, input string) {
	f := strings.Fields(input)
	if f[0] == "C06W" {
		c06RunWS(o, input, f)
		return
	}
	tr, shape, codec, gz, limit, cl := f[1], f[2], f[3], f[4] == "1", atoi(f[5]), f[6]
	body, sched, eofwd, outs, code := unhx(f[7]), unints(f[8]), f[9] == "1", unhxs(f[10]), atoi(f[11])
	e := c06Setup(limit)
	s := &c06Script{recvN: -1, out: outs, code: code, shape: shape}
	s.interleave = shape == "bidi" && len(f) > 12 && strings.HasPrefix(f[12], "=")
	wire := body
	if tr == "http" && gz {
		wire = c06Gzip(body)
	}
	rd := &scriptedReader{data: wire, sched: sched, eofWithData: eofwd}
	var r *http.Request
	ctype := map[string]string{"p": "proto", "j": "json"}[codec]
	switch tr {
	case "http":
		r = httptest.NewRequest("POST", c06Paths[shape][0], c06Body{rd})
		if codec == "j" {
			r.Header.Set("Content-Type", "application/json")
		} else {
			r.Header.Set("Content-Type", "application/protobuf")
		}
		if shape == "up" {
			// an upload is a google.api.HttpBody: its content_type is the request's Content-Type as it was sent
			r.Header.Set("Content-Type", c06UploadCT)
		}
		if gz {
			r.Header.Set("Content-Encoding", "gzip")
		}
		r.ContentLength = -1
		if cl == "k" {
			r.ContentLength = int64(len(wire))
		}
	case "grpc":
		r = httptest.NewRequest("POST", c06Paths[shape][1], c06Body{rd})
		r.ProtoMajor, r.ProtoMinor = 2, 0
		r.Header.Set("Content-Type", "application/grpc+"+ctype)
	case "web", "web2":
		r = httptest.NewRequest("POST", c06Paths[shape][1], c06Body{rd})
		r.Header.Set("Content-Type", "application/grpc-web+"+ctype)
	case "webtext", "webtext2":
		r = httptest.NewRequest("POST", c06Paths[shape][1], c06Body{rd})
		r.Header.Set("Content-Type", "application/grpc-web-text+"+ctype)
	default:
		panic("bad transport " + tr)
	}
	if strings.HasSuffix(tr, "2") {
		r.ProtoMajor, r.ProtoMinor = 2, 0
	}
	if tr != "http" && gz {
		r.Header.Set("Grpc-Encoding", "gzip")
	}
	e.cur = s
	w, p := serveRec(e.mux, r)
	e.cur = nil
	if p != "" {
		o.emit(input, "panic")
		return
	}
	if s.end == "" {
		s.end = "nocall" // the handler was never reached
	}
	// oracle consistency: the handler's messages are what the library codec makes of the frames
	oc := 1
	for i, h := range s.hseq {
		m := s.hmsgs[i]
		switch {
		case h == "P":
			if proto.Size(m) != 0 {
				oc = 0
			}
		case shape == "up":
		default:
			want, ok := c06Decode(codec, unhx(h))
			if !ok || msgText(want) != msgText(m) {
				oc = 0
			}
		}
	}
	// marshal consistency: the recorded reply frames decode to the scripted replies
	mc := 1
	if shape != "down" {
		if s.end == "eof" && s.sendErr == "" && len(s.mlog) != len(outs) {
			mc = 0
		}
		for i, fr := range s.mlog {
			m, ok := c06Decode(codec, fr)
			if !ok || i >= len(outs) || m.(*testpb.Message).GetText() != string(outs[i]) {
				mc = 0
			}
		}
	}
	res := w.Result()
	gstatus := "none"
	if v, ok := res.Trailer["Grpc-Status"]; ok && len(v) > 0 {
		gstatus = v[0]
	} else if v, ok := res.Header["Grpc-Status"]; ok && len(v) > 0 {
		gstatus = v[0]
	}
	respBody := w.Body.Bytes()
	// lenient scan of the reply frames to supply gunzip values for flagged payloads (the verdict
	// is made by the extracted parser, this only feeds its decompression oracle)
	var rz []string
	if tr != "http" {
		raw := respBody
		if strings.HasPrefix(tr, "webtext") {
			if d, err := base64.StdEncoding.DecodeString(string(respBody)); err == nil {
				raw = d
			}
		}
		for len(raw) >= 5 {
			l := int(raw[1])<<24 | int(raw[2])<<16 | int(raw[3])<<8 | int(raw[4])
			if len(raw) < 5+l {
				break
			}
			if raw[0] == 1 {
				if pl, ok := c06Gunzip(raw[5 : 5+l]); ok {
					rz = append(rz, hx(raw[5:5+l])+"="+hx(pl))
				}
			}
			raw = raw[5+l:]
		}
	}
	rztab := "-"
	if len(rz) > 0 {
		rztab = strings.Join(rz, ",")
	}
	hseq := "-"
	if len(s.hseq) > 0 {
		hseq = strings.Join(s.hseq, ",")
	}
	trace := ints(rd.trace)
	if (tr == "http" && gz) || strings.HasPrefix(tr, "webtext") {
		trace = "-" // a decoder sits between the scripted reader and larking's reads
	}
	sendErr := s.sendErr
	if sendErr == "" {
		sendErr = "none"
	}
	bad := "-"
	if s.end == "invalid" {
		bad = hx(s.bad)
	}
	o.emit(input, fmt.Sprintf("%s %s %s %d %s %d %s %s %d %s %s %s %s", hseq, s.end, bad, oc, trace,
		w.Code, gstatus, hxs(s.mlog), mc, hx(respBody), rztab, hx([]byte(w.Result().Header.Get("Content-Type"))), sendErr))
}

// ---------------------------------------------------------------- WebSocket (loopback)

func c06RunWS(o *out, input string, f []string) {
	shape, texts, fin, recvN, outs, code := f[1], unhxs(f[2]), f[3], atoi(f[4]), unhxs(f[5]), atoi(f[6])
	// "+b": every other client message travels in a binary data frame; "+f": messages are fragmented
	shape, framing, _ := strings.Cut(shape, "+")
	e := c06Setup(4096)
	if e.lb == nil {
		lb, err := newLoopback(e.mux)
		if err != nil {
			panic(err)
		}
		e.lb = lb
	}
	s := &c06Script{recvN: recvN, out: outs, code: code, shape: shape, done: make(chan struct{})}
	e.cur = s
	defer func() { e.cur = nil }()
	ctx, cancel := context.WithTimeout(context.Background(), 15*time.Second)
	defer cancel()
	conn, br, _, err := ws.Dial(ctx, "ws"+strings.TrimPrefix(e.lb.url, "http")+"/c06/ws/"+shape)
	if err != nil {
		o.emit(input, "dial-error")
		return
	}
	defer conn.Close()
	var crd io.Reader = conn
	if br != nil {
		crd = br // frames that arrived together with the handshake response
	}
	conn.SetDeadline(time.Now().Add(15 * time.Second)) // a safety net only: every exchange ends with the server closing
	for i, t := range texts {
		payload := []byte(`{}`)
		if len(t) > 0 {
			payload = []byte(`{"text":"` + string(t) + `"}`)
		}
		var frs []ws.Frame
		switch {
		case framing == "b" && i%2 == 0:
			frs = []ws.Frame{ws.NewBinaryFrame(payload)}
		case framing == "f" && len(payload) > 2:
			k := 1 + i%(len(payload)-1)
			frs = []ws.Frame{ws.NewFrame(ws.OpText, false, append([]byte(nil), payload[:k]...)), ws.NewFrame(ws.OpContinuation, true, append([]byte(nil), payload[k:]...))}
		default:
			frs = []ws.Frame{ws.NewTextFrame(payload)}
		}
		for _, fr := range frs {
			if err := ws.WriteFrame(conn, ws.MaskFrameInPlace(fr)); err != nil {
				o.emit(input, "write-error")
				return
			}
		}
	}
	switch {
	case fin == "c0":
		ws.WriteFrame(conn, ws.MaskFrameInPlace(ws.NewCloseFrame(nil)))
	case strings.HasPrefix(fin, "c"):
		ws.WriteFrame(conn, ws.MaskFrameInPlace(ws.NewCloseFrame(ws.NewCloseFrameBody(ws.StatusCode(atoi(fin[1:])), ""))))
	case fin == "abort":
		if tc, ok := conn.(*net.TCPConn); ok {
			tc.CloseWrite()
		} else {
			conn.Close()
		}
	}
	// what the client receives until the connection ends
	var ctexts [][]byte
	var ccodes []int
	junk := 0
	for {
		h, err := ws.ReadHeader(crd)
		if err != nil {
			break
		}
		if h.Length > 1<<20 {
			junk++
			break
		}
		p := make([]byte, h.Length)
		if _, err := io.ReadFull(crd, p); err != nil {
			junk++
			break
		}
		switch {
		case h.OpCode == ws.OpClose:
			c, _ := ws.ParseCloseFrameData(p)
			if len(p) == 0 {
				c = 1005
			}
			ccodes = append(ccodes, int(c))
		case len(ccodes) > 0:
			junk++ // a data frame after a close frame
		case h.OpCode == ws.OpText || h.OpCode == ws.OpBinary:
			var m testpb.Message
			if !h.Fin || protojson.Unmarshal(p, &m) != nil {
				junk++
			} else {
				ctexts = append(ctexts, []byte(m.GetText()))
			}
		default:
			junk++
		}
	}
	select {
	case <-s.done:
	case <-time.After(15 * time.Second):
		o.emit(input, "handler-timeout")
		return
	}
	var htexts [][]byte
	for _, m := range s.hmsgs {
		htexts = append(htexts, []byte(m.ProtoReflect().Get(m.ProtoReflect().Descriptor().Fields().ByName("text")).String()))
	}
	o.emit(input, fmt.Sprintf("%s %s %s %s %d", hxs(htexts), s.end, hxs(ctexts), ints(ccodes), junk))
}

// ---------------------------------------------------------------- generators

func c06Frame(flag byte, payload []byte) []byte {
	n := len(payload)
	return append([]byte{flag, byte(n >> 24), byte(n >> 16), byte(n >> 8), byte(n)}, payload...)
}

// a request message with the given text in the codec's frame form (without stream framing)
func c06Msg(codec string, text string) []byte {
	if codec == "j" {
		if text == "" {
			return []byte(`{}`)
		}
		return []byte(`{"text":"` + text + `"}`)
	}
	b, _ := proto.Marshal(&testpb.Message{Text: text})
	return b
}

type c06Case struct {
	tr, shape, codec string
	gz               bool
	limit            int
	cl               string
	body             []byte
	sched            []int
	eofwd            bool
	out              [][]byte
	code             int
	sent             string
	ztab             []string
}

func (c c06Case) line() string {
	zt := "-"
	if len(c.ztab) > 0 {
		zt = strings.Join(c.ztab, ",")
	}
	return fmt.Sprintf("C06 %s %s %s %d %d %s %s %s %d %s %d %s %s", c.tr, c.shape, c.codec, b2i(c.gz), c.limit, c.cl,
		hx(c.body), ints(c.sched), b2i(c.eofwd), hxs(c.out), c.code, c.sent, zt)
}

func c06Texts(n int, fill byte) string {
	b := make([]byte, n)
	for i := range b {
		b[i] = 'a' + (fill+byte(i))%26
	}
	return string(b)
}

func c06Gen(o *out, r *rng, tier string) {
	thorough := tier == "thorough"
	maxExh := 12
	nSeeded := 8
	if thorough {
		maxExh, nSeeded = 14, 60
	}
	run := func(c c06Case, tag string) {
		o.count(c.tr + "/" + c.shape + "/" + tag)
		c06Run(o, c.line())
	}
	// all partitions of short bodies, seeded ones of longer bodies, both EOF styles
	schedules := func(c c06Case, tag string) {
		n := len(c.body)
		if c.tr == "http" && c.gz {
			n = len(c06Gzip(c.body))
		}
		if n == 0 {
			c.sched, c.eofwd = nil, false
			run(c, tag)
			return
		}
		if n <= maxExh {
			for mask := uint64(0); mask < 1<<uint(n-1); mask++ {
				c.sched = partition(n, mask)
				c.eofwd = false
				run(c, tag+"-all")
				c.eofwd = true
				run(c, tag+"-all")
			}
			return
		}
		c.sched, c.eofwd = nil, false
		run(c, tag)
		c.sched, c.eofwd = []int{1, 1, 1, 1, 1, 1, 1, 1, 1, 1, 1, 1, 1, 1, 1, 1, 1, 1, 1, 1, 1, 1, 1, 1, 1, 1, 1, 1, 1, 1, 1, 1, 1, 1, 1, 1, 1, 1, 1, 1, 1, 1}, true
		run(c, tag)
		for i := 0; i < nSeeded; i++ {
			c.sched, c.eofwd = partition(n, r.u64()&r.u64()), r.bool()
			run(c, tag)
		}
	}
	sentOf := func(frames [][]byte) string { return "=" + hxs(frames) }
	outsOf := func(k int) [][]byte {
		var outs [][]byte
		for i := 0; i < k; i++ {
			outs = append(outs, []byte(c06Texts((i*3)%5, byte(i))))
		}
		return outs
	}

	// ---- HTTP transcoding: JSON and length-delimited protobuf request streams ----
	for _, codec := range []string{"p", "j"} {
		textSets := [][]string{{}, {""}, {"", ""}, {"a"}, {"ab", ""}, {"a", "bc"}, {"", "xyz", ""}, {"abc", "d", "ef"},
			{"a", "b", "c", "d", "e", "f"}, {c06Texts(30, 3), "", c06Texts(7, 1)}}
		for ti, ts := range textSets {
			var frames [][]byte
			for _, t := range ts {
				frames = append(frames, c06Msg(codec, t))
			}
			L := writeAll(codec, frames)
			for _, shape := range []string{"bidi", "client"} {
				outs := outsOf(ti % 4)
				if shape == "client" {
					outs = outsOf(1)
				}
				c := c06Case{tr: "http", shape: shape, codec: codec, limit: 64, cl: "u", body: L, out: outs, sent: sentOf(frames)}
				if shape == "bidi" || ti%2 == 0 {
					schedules(c, "stream")
				}
				if shape == "bidi" {
					c.gz = true
					c.sched, c.eofwd = nil, false
					run(c, "gzip")
					c.sched, c.eofwd = partition(len(c06Gzip(L)), r.u64()), true
					run(c, "gzip")
					c.gz = false
					c.cl = "k"
					c.sched, c.eofwd = nil, ti%2 == 0
					run(c, "known-length")
				}
			}
			// every truncation offset
			pos := 0
			bounds := map[int]int{0: 0}
			for j, fr := range frames {
				pos += len(writeAll(codec, [][]byte{fr}))
				bounds[pos] = j + 1
			}
			for k := 0; k < len(L); k++ {
				c := c06Case{tr: "http", shape: "bidi", codec: codec, limit: 64, cl: "u", body: L[:k], out: outsOf(1)}
				if j, ok := bounds[k]; ok {
					c.sent = sentOf(frames[:j])
				} else {
					j := 0
					for b, jj := range bounds {
						if b < k && jj > j {
							j = jj
						}
					}
					c.sent = fmt.Sprintf("<%s:%d", hxs(frames), j)
				}
				c.sched, c.eofwd = nil, false
				run(c, "trunc")
				c.sched, c.eofwd = partition(k, r.u64()), true
				run(c, "trunc")
			}
		}
		// several short messages delivered by one read, long replies sent between the receives
		{
			frames := [][]byte{c06Msg(codec, "m1"), c06Msg(codec, "m2"), c06Msg(codec, "m3"), c06Msg(codec, "m4")}
			L := writeAll(codec, frames)
			outs := [][]byte{[]byte(c06Texts(300, 7)), []byte(c06Texts(500, 8)), []byte(c06Texts(40, 9)), []byte(c06Texts(900, 10))}
			c := c06Case{tr: "http", shape: "bidi", codec: codec, limit: 64, cl: "u", body: L, out: outs, sent: sentOf(frames)}
			c.sched, c.eofwd = nil, false
			run(c, "interleaved")
			c.sched, c.eofwd = []int{len(L) - 1, 1}, true
			run(c, "interleaved")
			c.cl = "k"
			run(c, "interleaved")
		}
		// messages at and around the limit
		for _, lim := range []int{16, 24, 40} {
			for _, d := range []int{-1, 0, 1} {
				var big []byte
				if codec == "j" {
					big = c06Msg("j", c06Texts(lim+d-11, 5)) // {"text":""} is 11 bytes
				} else {
					big = c06Msg("p", c06Texts(lim+d-2, 5)) // tag + length
				}
				frames := [][]byte{c06Msg(codec, "a"), big, c06Msg(codec, "z")}
				L := writeAll(codec, frames)
				c := c06Case{tr: "http", shape: "bidi", codec: codec, limit: lim, cl: "u", body: L, out: outsOf(2), sent: "?"}
				if d <= 0 {
					c.sent = sentOf(frames)
				}
				for i := 0; i < 4; i++ {
					c.sched, c.eofwd = partition(len(L), r.u64()&r.u64()), r.bool()
					run(c, "limit")
				}
			}
		}
	}
	// malformed HTTP streams
	for _, s := range []string{`}`, `{}}`, ` {} `, "{}\n{}\n", `x{}`, `{"text":"a"}{"text":`, `{"a":"\`, `{{}`, `{"text":1}`, `{"text":"a"}{"nope":1}{"text":"b"}`, "\n",
		// strings that end in an escaped backslash, escaped quotes, braces inside strings
		`{"text":"a\\"}{"text":"b"}`, `{"text":"\\"}{"text":"\\\\"}{}`, `{"text":"q\"}{"}{"text":"c:\\d\\"}`, `{"text":"\\\""}{"text":"}"}`} {
		c := c06Case{tr: "http", shape: "bidi", codec: "j", limit: 64, cl: "u", body: []byte(s), out: outsOf(1), sent: "?"}
		schedules(c, "malformed")
	}
	for _, b := range [][]byte{{0x80}, {0x05, 1, 2}, {0x02, 0x12, 0x00, 0x01, 0xff}, {0xff, 0xff, 0xff, 0xff, 0xff, 0xff, 0xff, 0xff, 0xff, 0x01, 1}, {0x7f, 1}, {0x01, 0x07, 0x00}, {0x00, 0x00, 0x03, 0x12, 0x01}} {
		c := c06Case{tr: "http", shape: "bidi", codec: "p", limit: 64, cl: "u", body: b, out: outsOf(1), sent: "?"}
		schedules(c, "malformed")
	}
	nrand := 600
	if thorough {
		nrand = 12000
	}
	for i := 0; i < nrand; i++ {
		codec := r.picks([]string{"p", "j"})
		var L []byte
		if codec == "j" {
			alpha := []string{`{`, `}`, `"`, `\`, `a`, ` `, `{"text":"q"}`, `{}`}
			for j, n := 0, r.intn(8); j < n; j++ {
				L = append(L, alpha[r.intn(len(alpha))]...)
			}
		} else {
			for j, n := 0, r.intn(4); j < n; j++ {
				if r.intn(3) == 0 {
					L = append(L, r.bytes(1+r.intn(3))...)
				} else {
					L = append(L, writeAll("p", [][]byte{c06Msg("p", c06Texts(r.intn(4), byte(j)))})...)
				}
			}
		}
		c := c06Case{tr: "http", shape: r.picks([]string{"bidi", "client"}), codec: codec, limit: 1 + r.intn(20), cl: "u", body: L, out: outsOf(1), sent: "?",
			sched: partition(len(L), r.u64()), eofwd: r.bool()}
		run(c, "random")
	}

	// ---- HttpBody uploads: every length around multiples of the chunk size ----
	for _, lim := range []int{1, 2, 3, 4, 8} {
		for k := 0; k <= 3; k++ {
			for _, d := range []int{-1, 0, 1} {
				n := k*lim + d
				if n < 0 || (k == 0 && d < 0) {
					continue
				}
				L := []byte(c06Texts(n, 0))
				c := c06Case{tr: "http", shape: "up", codec: "j", limit: lim, cl: "u", body: L, out: outsOf(1), sent: "?"}
				schedules(c, "upload")
				if n > 0 {
					c.cl = "k"
					c.sched, c.eofwd = partition(n, r.u64()), r.bool()
					run(c, "upload-known-length")
				}
				if n <= 12 {
					c.cl, c.gz = "u", true
					c.sched, c.eofwd = nil, false
					run(c, "upload-gzip")
				}
			}
		}
	}
	for i := 0; i < nrand/3; i++ {
		lim := 1 + r.intn(9)
		L := r.bytes(r.intn(40))
		c := c06Case{tr: "http", shape: "up", codec: "p", limit: lim, cl: "u", body: L, out: outsOf(1), sent: "?", sched: partition(len(L), r.u64()&r.u64()), eofwd: r.bool()}
		run(c, "upload-random")
	}

	// ---- request without a body, and the non-streaming request path (server streaming) ----
	for _, shape := range []string{"bidi", "client", "server", "up", "down"} {
		for _, codec := range []string{"p", "j"} {
			outs := outsOf(2)
			if shape == "client" || shape == "up" {
				outs = outsOf(1)
			}
			run(c06Case{tr: "http", shape: shape, codec: codec, limit: 64, cl: "k", out: outs, sent: "?"}, "no-body")
		}
	}
	for _, codec := range []string{"p", "j"} {
		for _, shape := range []string{"server", "down"} {
			for _, t := range []string{"", "a", c06Texts(20, 0), c06Texts(70, 0)} {
				m := c06Msg(codec, t)
				for _, k := range []int{0, 1, 3, 6} {
					c := c06Case{tr: "http", shape: shape, codec: codec, limit: 64, cl: "u", body: m, out: outsOf(k), sent: "?"}
					if len(m) <= 64 {
						c.sent = sentOf([][]byte{m})
					}
					c.sched, c.eofwd = partition(len(m), r.u64()), r.bool()
					run(c, "single-request")
				}
			}
		}
	}

	// ---- gRPC, gRPC-web (binary and base64 text; over HTTP/1.1 and HTTP/2) ----
	trs := []string{"grpc", "web", "webtext", "web2", "webtext2"}
	for _, codec := range []string{"p", "j"} {
		textSets := [][]string{{}, {""}, {"", ""}, {"a"}, {"ab", ""}, {"", "xyz", ""}, {"abc", "d", "ef"}, {"a", "b", "c", "d", "e", "f"}, {c06Texts(40, 2), "q"}}
		for ti, ts := range textSets {
			for _, gz := range []bool{false, true} {
				var frames [][]byte
				var L []byte
				var ztab []string
				for i, t := range ts {
					m := c06Msg(codec, t)
					frames = append(frames, m)
					if gz && i%2 == 0 {
						z := c06Gzip(m)
						ztab = append(ztab, hx(z)+"="+hx(m))
						L = append(L, c06Frame(1, z)...)
					} else {
						L = append(L, c06Frame(0, m)...)
					}
				}
				for _, tr := range trs {
					if (tr == "web2" || tr == "webtext2") && ti%3 != 0 {
						continue
					}
					wire := L
					if strings.HasPrefix(tr, "webtext") {
						wire = []byte(base64.StdEncoding.EncodeToString(L))
					}
					for _, shape := range []string{"bidi", "client"} {
						outs := outsOf(ti % 4)
						if shape == "client" {
							if ti%2 == 1 {
								continue
							}
							outs = outsOf(1)
						}
						c := c06Case{tr: tr, shape: shape, codec: codec, gz: gz, limit: 4096, cl: "u", body: wire, out: outs, code: []int{0, 0, 3, 13}[ti%4], sent: sentOf(frames), ztab: ztab}
						if gz || shape == "client" {
							c.sched, c.eofwd = partition(len(wire), r.u64()), r.bool()
							run(c, "stream")
							c.sched, c.eofwd = nil, false
							run(c, "stream")
						} else {
							schedules(c, "stream")
						}
					}
					// every truncation offset of the wire bytes
					if gz && codec == "j" {
						continue
					}
					pos := 0
					bounds := map[int]int{0: 0}
					for j := range frames {
						if gz && j%2 == 0 {
							pos += 5 + len(c06Gzip(frames[j]))
						} else {
							pos += 5 + len(frames[j])
						}
						bounds[pos] = j + 1
					}
					for k := 0; k < len(wire); k++ {
						c := c06Case{tr: tr, shape: "bidi", codec: codec, gz: gz, limit: 4096, cl: "u", body: wire[:k], out: outsOf(1), ztab: ztab}
						// dec = length of the framed stream that survives the cut
						dec, broken := k, false
						if strings.HasPrefix(tr, "webtext") {
							dec, broken = k/4*3, k%4 != 0 // whole quanta only; a partial quantum is an error
						}
						j := 0
						for b, jj := range bounds {
							if b <= dec && jj > j {
								j = jj
							}
						}
						if _, ok := bounds[dec]; ok && !broken {
							c.sent = sentOf(frames[:j])
						} else {
							c.sent = fmt.Sprintf("<%s:%d", hxs(frames), j)
						}
						c.sched, c.eofwd = nil, false
						run(c, "trunc")
						if ti%2 == 0 {
							c.sched, c.eofwd = partition(k, r.u64()), true
							run(c, "trunc")
						}
					}
				}
			}
		}
	}
	// malformed gRPC streams: flags, sizes, compression without / with a decompressor
	mal := [][]byte{
		c06Frame(2, c06Msg("p", "a")), c06Frame(0x80, c06Msg("p", "a")), c06Frame(1, c06Msg("p", "a")), c06Frame(1, append([]byte{0x1e}, c06Gzip(c06Msg("p", "a"))[1:]...)),
		append(c06Frame(0, c06Msg("p", "ok")), []byte{0, 0, 0, 0x10, 0x01, 1, 2, 3}...),
		append(c06Frame(0, c06Msg("p", "ok")), []byte{0, 0xff, 0xff, 0xff, 0xff}...),
		append(c06Frame(0, c06Msg("p", "ok")), c06Frame(0, []byte{0x12, 0x05, 'a'})...),
		c06Frame(0, c06Msg("p", c06Texts(63, 0))), c06Frame(0, c06Msg("p", c06Texts(62, 0))),
	}
	for _, L := range mal {
		for _, gz := range []bool{false, true} {
			for _, tr := range []string{"grpc", "web", "webtext"} {
				wire := L
				if tr == "webtext" {
					wire = []byte(base64.StdEncoding.EncodeToString(L))
				}
				var ztab []string
				if z := c06Gzip(c06Msg("p", "a")); bytes.Contains(L, z) {
					ztab = []string{hx(z) + "=" + hx(c06Msg("p", "a"))}
				}
				c := c06Case{tr: tr, shape: "bidi", codec: "p", gz: gz, limit: 64, cl: "u", body: wire, out: outsOf(1), sent: "?", ztab: ztab,
					sched: partition(len(wire), r.u64()), eofwd: r.bool()}
				run(c, "malformed")
			}
		}
	}
	for _, s := range []string{"!!!!", "AAAA!AAA", "AAAAA", "=AAA", "AA=A", "AAAAAAA=\n", "AAAA\r\nAAAA"} {
		c := c06Case{tr: "webtext", shape: "bidi", codec: "p", limit: 64, cl: "u", body: []byte(s), out: outsOf(1), sent: "?"}
		run(c, "malformed-base64")
	}
	for i := 0; i < nrand; i++ {
		var L []byte
		for j, n := 0, r.intn(4); j < n; j++ {
			switch r.intn(5) {
			case 0:
				L = append(L, r.bytes(1+r.intn(6))...)
			case 1:
				L = append(L, c06Frame(byte(r.intn(3)), r.bytes(r.intn(5)))...)
			default:
				L = append(L, c06Frame(0, c06Msg("p", c06Texts(r.intn(5), byte(j))))...)
			}
		}
		tr := r.picks([]string{"grpc", "web", "webtext"})
		wire := L
		if tr == "webtext" {
			wire = []byte(base64.StdEncoding.EncodeToString(L))
			if r.intn(4) == 0 && len(wire) > 0 {
				wire = wire[:r.intn(len(wire))]
			}
		}
		c := c06Case{tr: tr, shape: r.picks([]string{"bidi", "client", "server"}), codec: "p", gz: r.intn(4) == 0, limit: 4 + r.intn(30), cl: "u", body: wire, out: outsOf(1), sent: "?",
			sched: partition(len(wire), r.u64()), eofwd: r.bool()}
		run(c, "random")
	}
	// the send side: reply sequences incl. empty messages and messages at the send check
	for _, tr := range append([]string{"http"}, trs...) {
		for _, codec := range []string{"p", "j"} {
			for _, gz := range []bool{false, true} {
				if tr == "http" && gz {
					continue
				}
				for k := 0; k <= 6; k++ {
					for _, code := range []int{0, 5} {
						if tr == "http" && code != 0 {
							continue
						}
						outs := outsOf(k)
						if k == 5 {
							outs = [][]byte{[]byte(c06Texts(200, 1)), {}, {}, []byte(c06Texts(1, 1)), []byte(c06Texts(127, 0))}
						}
						m := c06Msg(codec, "go")
						body := m
						if tr != "http" {
							body = c06Frame(0, m)
						}
						if strings.HasPrefix(tr, "webtext") {
							body = []byte(base64.StdEncoding.EncodeToString(body))
						}
						shape := "server"
						run(c06Case{tr: tr, shape: shape, codec: codec, gz: gz, limit: 4096, cl: "u", body: body, out: outs, code: code, sent: sentOf([][]byte{m}),
							sched: partition(len(body), r.u64()), eofwd: r.bool()}, "send")
						if tr == "http" {
							run(c06Case{tr: tr, shape: "down", codec: codec, limit: 4096, cl: "u", body: body, out: outs, sent: sentOf([][]byte{m})}, "send-httpbody")
						}
					}
				}
			}
		}
	}

	// ---- WebSocket through the loopback server ----
	nws := 42
	if thorough {
		nws = 210
	}
	wsrun := func(shape string, texts [][]byte, fin string, recvN int, outs [][]byte, code int) {
		o.count("ws/" + shape + "/" + fin)
		c06Run(o, fmt.Sprintf("C06W %s %s %s %d %s %d", shape, hxs(texts), fin, recvN, hxs(outs), code))
	}
	for i := 0; i < nws; i++ {
		n := i % 7
		var texts [][]byte
		for j := 0; j < n; j++ {
			texts = append(texts, []byte(c06Texts((j*2+i)%4, byte(i+j))))
		}
		shape := []string{"bidi", "client"}[i%2] + []string{"", "+b", "+f"}[i/2%3]
		wsrun(shape, texts, "c1000", -1, nil, 0)                                                           // the client ends the stream
		wsrun("bidi"+[]string{"", "+b", "+f"}[i/2%3], texts, "none", n, outsOf(i%5), []int{0, 3, 13}[i%3]) // the server ends the call
		wsrun(shape, texts, "abort", -1, nil, 0)                                                           // the connection breaks
		if i%3 == 0 {
			wsrun(shape, texts, "c1001", -1, nil, 0)
			wsrun(shape, texts, "c0", -1, nil, 0)
			wsrun("server", [][]byte{[]byte("go")}, "none", 1, outsOf(n), 0)
		}
	}
	_ = httpbody.HttpBody{}
}

func init() { props["C06"] = prop{gen: c06Gen, run: c06Run} }
