//go:build verif

package main

import (
	"net/textproto"
	"os"
	"path/filepath"
	"strings"
	"testing"
)

// Supporting search for C09 (not part of the proof): Go's coverage-guided fuzzing of Mux.ServeHTTP
// through the same executor as the generated cases (recover + watchdog), seeded from corpus/C09.
// A failure prints "C09CRASH <case line> ; <observation>": that line is a replayable case.
//
//	go test -tags verif -run '^$' -fuzz '^FuzzC09$' -fuzztime 20s .

func c09HdrText(h [][2]string) string {
	var sb strings.Builder
	for _, kv := range h {
		sb.WriteString(kv[0] + ": " + kv[1] + "\n")
	}
	return sb.String()
}

func c09HdrParse(s string) (h [][2]string) {
	for _, l := range strings.Split(s, "\n") {
		k, v, ok := strings.Cut(l, ":")
		if !ok || k == "" {
			continue
		}
		h = append(h, [2]string{textproto.CanonicalMIMEHeaderKey(strings.TrimSpace(k)), strings.TrimPrefix(v, " ")})
		if len(h) >= 12 {
			break
		}
	}
	return h
}

func FuzzC09(f *testing.F) {
	dir := os.Getenv("VERIF_C09_CORPUS")
	if dir == "" {
		dir = filepath.Join("..", "corpus", "C09")
	}
	files, _ := filepath.Glob(filepath.Join(dir, "*.case"))
	n := 0
	for _, p := range files {
		for _, in := range readInputs(p) {
			c, err := c09Parse(in)
			if err != nil || c.via != "rec" {
				continue
			}
			f.Add(byte(c.cfg), byte(c.major), c.method, c.path, c.query, c09HdrText(c.hdr), c.body, byte(c.rd)*3+byte(strings.Index("auz", c.cl)))
			n++
		}
	}
	if n == 0 {
		f.Add(byte(0), byte(1), "GET", "/c09/i32/42", "tags=a", "Accept: application/json\n", []byte(nil), byte(0))
	}
	f.Fuzz(func(t *testing.T, cfg, major byte, method, path, query, hdrs string, body []byte, flags byte) {
		if len(path) > 1<<16 || len(query) > 1<<16 || len(body) > 1<<20 || len(hdrs) > 1<<14 {
			t.Skip()
		}
		c := c09Case{cfg: int(cfg) & 3, via: "rec", major: 1 + int(major)&1, method: method, path: path, query: query,
			hdr: c09HdrParse(hdrs), body: body, cl: string("auz"[int(flags)%3]), rd: int(flags) / 3 % 3}
		obs := c09Exec(c)
		if strings.HasPrefix(obs, "panic") || strings.HasPrefix(obs, "hang") {
			t.Fatalf("C09CRASH %s ; %s", c.line(), obs)
		}
	})
}
