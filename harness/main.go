// verifh drives larking (built from /repo's working tree with -tags verif) on generated or
// replayed cases and prints, per case, the input and what the implementation did.
package main

import (
	"encoding/json"
	"flag"
	"fmt"
	"os"
	"sort"
	"strconv"
)

type prop struct {
	gen func(o *out, r *rng, tier string) // generate inputs and run them
	run func(o *out, input string)        // run one input line
}

var props = map[string]prop{}

func main() {
	if len(os.Args) < 3 {
		fmt.Fprintln(os.Stderr, "usage: verifh <prop> gen|run [flags]")
		os.Exit(2)
	}
	id, mode := os.Args[1], os.Args[2]
	fs := flag.NewFlagSet("verifh", flag.ExitOnError)
	seed := fs.Uint64("seed", 1, "seed")
	tier := fs.String("tier", "quick", "tier")
	outp := fs.String("out", "cases.txt", "output")
	in := fs.String("in", "", "input case file (run mode)")
	statsp := fs.String("stats", "", "stats json output")
	fs.Parse(os.Args[3:])
	p, ok := props[id]
	if !ok {
		fmt.Fprintln(os.Stderr, "unknown property", id)
		os.Exit(2)
	}
	if s := os.Getenv("VERIF_SEED"); s != "" && !isFlagSet(fs, "seed") {
		if v, err := strconv.ParseUint(s, 10, 64); err == nil {
			*seed = v
		}
	}
	o := newOut(*outp)
	switch mode {
	case "gen":
		p.gen(o, newRng(*seed), *tier)
	case "run":
		for _, line := range readInputs(*in) {
			p.run(o, line)
		}
	default:
		fmt.Fprintln(os.Stderr, "bad mode", mode)
		os.Exit(2)
	}
	o.close()
	if *statsp != "" {
		keys := make([]string, 0, len(o.stats))
		for k := range o.stats {
			keys = append(keys, k)
		}
		sort.Strings(keys)
		m := map[string]interface{}{"cases": o.n, "distribution": o.stats}
		b, _ := json.MarshalIndent(m, "", " ")
		os.WriteFile(*statsp, b, 0o644)
	}
}

func isFlagSet(fs *flag.FlagSet, name string) bool {
	set := false
	fs.Visit(func(f *flag.Flag) {
		if f.Name == name {
			set = true
		}
	})
	return set
}
