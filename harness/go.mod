module verifh

go 1.22.7

require (
	github.com/gobwas/ws v1.2.0
	golang.org/x/net v0.29.0
	google.golang.org/genproto v0.0.0-20230410155749-daa745c078e1
	google.golang.org/grpc v1.68.0
	google.golang.org/protobuf v1.34.2
	larking.io v0.0.0
)

require (
	github.com/gobwas/httphead v0.1.0 // indirect
	github.com/gobwas/pool v0.2.1 // indirect
	golang.org/x/sys v0.25.0 // indirect
	golang.org/x/text v0.18.0 // indirect
)

replace larking.io => /repo
