package main

import (
	"bytes"
	"compress/gzip"
	"context"
	"encoding/base64"
	"encoding/json"
	"fmt"
	"io"
	"math"
	"net/http"
	"net/http/httptest"
	"net/url"
	"os"
	"runtime/debug"
	"sort"
	"strconv"
	"strings"

	"google.golang.org/protobuf/encoding/protojson"
	"google.golang.org/protobuf/proto"
	"google.golang.org/protobuf/reflect/protoreflect"
	"google.golang.org/protobuf/types/descriptorpb"
	"google.golang.org/protobuf/types/dynamicpb"
	"google.golang.org/protobuf/types/known/durationpb"
	"google.golang.org/protobuf/types/known/fieldmaskpb"
	"google.golang.org/protobuf/types/known/timestamppb"
	"google.golang.org/protobuf/types/known/wrapperspb"
	"larking.io/larking"
)

// C03 / C07: transcoded requests (path captures + query + body) against a dynamic schema.
//
//   <KIND> <schema> <rule> <caps> <query> <body> <oracles> <expect> ; <observation>
//
// schema   msg|msg|...~enum|enum    msg = <wkt>:<field>,<field>..  field = num.name.json.kind.card.oneof.pres
// rule     method!input!body!var,var     (body: * | - | dotted proto names; var: dotted proto names)
// caps     xhex,xhex (template order)     query  xkey=xval,xkey=xval (raw order)
// body     - | <codec j|p|u>:<gz 0|1|2>:<xbytes before compression>:<E | Z | tree of the body type>
// oracles  F32:xtext=<E|f..>,F64:..,W<code>:<quoted 0|1>:xtext=<E|(tree)>
// expect   C07: path=tree,path=tree (entries under each path-bound field, absolute paths)
//          C03: M:<tree> (the handler must receive exactly this) | E (must be rejected) | ? (tie only)
// observation  ok:<tree> | err:<http status> | panic
// tree     - | path:ent+path:ent..   ent = P | scalar | L[item/item]   item = scalar | M(tree)
//          scalar = b0|b1 | i<dec> | f<hexbits> | s<hex> | y<hex> | e<dec>

// ---------- schema ----------

func c03Field(name string, num int32, typ descriptorpb.FieldDescriptorProto_Type, typeName string, repeated bool) *descriptorpb.FieldDescriptorProto {
	f := &descriptorpb.FieldDescriptorProto{Name: proto.String(name), Number: proto.Int32(num), Type: typ.Enum(),
		Label: descriptorpb.FieldDescriptorProto_LABEL_OPTIONAL.Enum()}
	if repeated {
		f.Label = descriptorpb.FieldDescriptorProto_LABEL_REPEATED.Enum()
	}
	if typeName != "" {
		f.TypeName = proto.String(typeName)
	}
	return f
}

const c03Pkg = "verif.c03"

type c03Rule struct {
	Name string
	Verb string
	Tmpl string
	Body string
	Vars []string // dotted proto names, template order
}

var c03Rules = []c03Rule{
	{"R0", "GET", "/c03/r0", "", nil},
	{"R1", "GET", "/c03/r1/{f_string}", "", []string{"f_string"}},
	{"R2", "POST", "/c03/r2/{sub.name}", "*", []string{"sub.name"}},
	{"R3", "POST", "/c03/r3/{f_int32}/xx/{sub.id}", "sub", []string{"f_int32", "sub.id"}},
	{"R4", "PUT", "/c03/r4/{f_string}/{f_int64}", "sub.leaf", []string{"f_string", "f_int64"}},
	{"R5", "GET", "/c03/r5/{sub.leaf.tag}/{f_bool}", "", []string{"sub.leaf.tag", "f_bool"}},
	{"R6", "POST", "/c03/r6/{o_str}", "*", []string{"o_str"}},
	{"R7", "GET", "/c03/r7/{f_bytes}/{f_enum}/{f_uint64}", "", []string{"f_bytes", "f_enum", "f_uint64"}},
	{"R8", "GET", "/c03/r8/{dur}/{w_int64}/{mask}", "", []string{"dur", "w_int64", "mask"}},
	{"R9", "PATCH", "/c03/r9/{f_string=shelves/*}/books", "*", []string{"f_string"}},
	{"R10", "GET", "/c03/r10/{f_double}/{f_float}", "", []string{"f_double", "f_float"}},
	{"R11", "POST", "/c03/r11/{sub.b}", "*", []string{"sub.b"}},
	{"R12", "GET", "/c03/r12/{p_int32}/{f_sint32}/{f_sfixed32}/{f_uint32}/{f_fixed32}/{f_fixed64}/{f_sint64}/{f_sfixed64}", "",
		[]string{"p_int32", "f_sint32", "f_sfixed32", "f_uint32", "f_fixed32", "f_fixed64", "f_sint64", "f_sfixed64"}},
	{"R13", "POST", "/c03/r13/{sub.leaf.n}", "sub", []string{"sub.leaf.n"}},
	{"R14", "POST", "/c03/r14/{w_string}/{w_bytes}/{w_bool}", "*", []string{"w_string", "w_bytes", "w_bool"}},
	{"R15", "POST", "/c03/r15", "*", nil},
	{"R16", "POST", "/c03/r16", "sub", nil},
	// variables below a message field that is itself a member of a oneof (a sibling set from elsewhere replaces the parent)
	{"R17", "GET", "/c03/r17/{o_msg.name}", "", []string{"o_msg.name"}},
	{"R18", "POST", "/c03/r18/{sub.c.tag}", "*", []string{"sub.c.tag"}},
}

type c03Env struct {
	mux     *larking.Mux
	root    protoreflect.MessageDescriptor
	got     proto.Message
	msgs    []protoreflect.MessageDescriptor // schema index -> descriptor
	msgIdx  map[protoreflect.FullName]int
	enumIdx map[protoreflect.FullName]int
	enums   []protoreflect.EnumDescriptor
	schema  string
	rules   map[string]c03Rule
}

var c03env *c03Env

func c03Setup() *c03Env {
	if c03env != nil {
		return c03env
	}
	const (
		tBool    = descriptorpb.FieldDescriptorProto_TYPE_BOOL
		tInt32   = descriptorpb.FieldDescriptorProto_TYPE_INT32
		tSint32  = descriptorpb.FieldDescriptorProto_TYPE_SINT32
		tSfix32  = descriptorpb.FieldDescriptorProto_TYPE_SFIXED32
		tInt64   = descriptorpb.FieldDescriptorProto_TYPE_INT64
		tSint64  = descriptorpb.FieldDescriptorProto_TYPE_SINT64
		tSfix64  = descriptorpb.FieldDescriptorProto_TYPE_SFIXED64
		tUint32  = descriptorpb.FieldDescriptorProto_TYPE_UINT32
		tFix32   = descriptorpb.FieldDescriptorProto_TYPE_FIXED32
		tUint64  = descriptorpb.FieldDescriptorProto_TYPE_UINT64
		tFix64   = descriptorpb.FieldDescriptorProto_TYPE_FIXED64
		tFloat   = descriptorpb.FieldDescriptorProto_TYPE_FLOAT
		tDouble  = descriptorpb.FieldDescriptorProto_TYPE_DOUBLE
		tString  = descriptorpb.FieldDescriptorProto_TYPE_STRING
		tBytes   = descriptorpb.FieldDescriptorProto_TYPE_BYTES
		tEnum    = descriptorpb.FieldDescriptorProto_TYPE_ENUM
		tMessage = descriptorpb.FieldDescriptorProto_TYPE_MESSAGE
	)
	P := "." + c03Pkg + "."
	oneof := func(f *descriptorpb.FieldDescriptorProto, idx int32) *descriptorpb.FieldDescriptorProto {
		f.OneofIndex = proto.Int32(idx)
		return f
	}
	opt := func(f *descriptorpb.FieldDescriptorProto, idx int32) *descriptorpb.FieldDescriptorProto {
		f.OneofIndex = proto.Int32(idx)
		f.Proto3Optional = proto.Bool(true)
		return f
	}
	leaf := &descriptorpb.DescriptorProto{Name: proto.String("Leaf"),
		Field: []*descriptorpb.FieldDescriptorProto{
			c03Field("tag", 1, tString, "", false), c03Field("n", 2, tUint32, "", false),
			opt(c03Field("opt", 3, tInt32, "", false), 0),
		},
		OneofDecl: []*descriptorpb.OneofDescriptorProto{{Name: proto.String("_opt")}},
	}
	inner := &descriptorpb.DescriptorProto{Name: proto.String("Inner"),
		Field: []*descriptorpb.FieldDescriptorProto{
			c03Field("name", 1, tString, "", false), c03Field("id", 2, tInt32, "", false),
			c03Field("leaf", 3, tMessage, P+"Leaf", false), c03Field("nums", 4, tInt32, "", true),
			oneof(c03Field("a", 5, tString, "", false), 0), oneof(c03Field("b", 6, tInt64, "", false), 0),
			oneof(c03Field("c", 7, tMessage, P+"Leaf", false), 0),
			c03Field("data", 8, tBytes, "", false), c03Field("color", 9, tEnum, P+"Color", false),
			c03Field("leaves", 10, tMessage, P+"Leaf", true),
		},
		OneofDecl: []*descriptorpb.OneofDescriptorProto{{Name: proto.String("choice")}},
	}
	mapEntry := &descriptorpb.DescriptorProto{Name: proto.String("MpEntry"),
		Field:   []*descriptorpb.FieldDescriptorProto{c03Field("key", 1, tString, "", false), c03Field("value", 2, tString, "", false)},
		Options: &descriptorpb.MessageOptions{MapEntry: proto.Bool(true)},
	}
	G := ".google.protobuf."
	root := &descriptorpb.DescriptorProto{Name: proto.String("Root"),
		NestedType: []*descriptorpb.DescriptorProto{mapEntry},
		Field: []*descriptorpb.FieldDescriptorProto{
			c03Field("f_bool", 1, tBool, "", false), c03Field("f_int32", 2, tInt32, "", false),
			c03Field("f_sint32", 3, tSint32, "", false), c03Field("f_sfixed32", 4, tSfix32, "", false),
			c03Field("f_int64", 5, tInt64, "", false), c03Field("f_sint64", 6, tSint64, "", false),
			c03Field("f_sfixed64", 7, tSfix64, "", false), c03Field("f_uint32", 8, tUint32, "", false),
			c03Field("f_fixed32", 9, tFix32, "", false), c03Field("f_uint64", 10, tUint64, "", false),
			c03Field("f_fixed64", 11, tFix64, "", false), c03Field("f_float", 12, tFloat, "", false),
			c03Field("f_double", 13, tDouble, "", false), c03Field("f_string", 14, tString, "", false),
			c03Field("f_bytes", 15, tBytes, "", false), c03Field("f_enum", 16, tEnum, P+"Color", false),
			c03Field("f_null", 17, tEnum, G+"NullValue", false),
			c03Field("sub", 18, tMessage, P+"Inner", false), c03Field("subs", 19, tMessage, P+"Inner", true),
			c03Field("mp", 20, tMessage, P+"Root.MpEntry", true),
			c03Field("r_int32", 21, tInt32, "", true), c03Field("r_string", 22, tString, "", true),
			c03Field("r_bytes", 23, tBytes, "", true), c03Field("r_enum", 24, tEnum, P+"Color", true),
			c03Field("r_double", 25, tDouble, "", true), c03Field("r_bool", 26, tBool, "", true),
			c03Field("r_uint64", 27, tUint64, "", true), c03Field("r_sint64", 28, tSint64, "", true),
			oneof(c03Field("o_str", 30, tString, "", false), 0), oneof(c03Field("o_int", 31, tInt32, "", false), 0),
			oneof(c03Field("o_msg", 32, tMessage, P+"Inner", false), 0),
			opt(c03Field("p_string", 33, tString, "", false), 1), opt(c03Field("p_int32", 34, tInt32, "", false), 2),
			c03Field("ts", 40, tMessage, G+"Timestamp", false), c03Field("dur", 41, tMessage, G+"Duration", false),
			c03Field("mask", 42, tMessage, G+"FieldMask", false), c03Field("w_bool", 43, tMessage, G+"BoolValue", false),
			c03Field("w_int32", 44, tMessage, G+"Int32Value", false), c03Field("w_int64", 45, tMessage, G+"Int64Value", false),
			c03Field("w_uint32", 46, tMessage, G+"UInt32Value", false), c03Field("w_uint64", 47, tMessage, G+"UInt64Value", false),
			c03Field("w_float", 48, tMessage, G+"FloatValue", false), c03Field("w_double", 49, tMessage, G+"DoubleValue", false),
			c03Field("w_bytes", 50, tMessage, G+"BytesValue", false), c03Field("w_string", 51, tMessage, G+"StringValue", false),
			c03Field("r_ts", 52, tMessage, G+"Timestamp", true), c03Field("st", 53, tMessage, G+"Struct", false),
			c03Field("camel_case_name", 60, tString, "", false),
		},
		OneofDecl: []*descriptorpb.OneofDescriptorProto{{Name: proto.String("kind")}, {Name: proto.String("_p_string")}, {Name: proto.String("_p_int32")}},
	}
	color := &descriptorpb.EnumDescriptorProto{Name: proto.String("Color"), Value: []*descriptorpb.EnumValueDescriptorProto{
		{Name: proto.String("COLOR_UNSPECIFIED"), Number: proto.Int32(0)}, {Name: proto.String("RED"), Number: proto.Int32(1)},
		{Name: proto.String("GREEN"), Number: proto.Int32(2)}, {Name: proto.String("NEG"), Number: proto.Int32(-1)},
		{Name: proto.String("BIG"), Number: proto.Int32(2147483647)},
	}}
	f := dynFile{Path: "verif/c03.proto", Pkg: c03Pkg, Msgs: []*descriptorpb.DescriptorProto{root, inner, leaf},
		Enums: []*descriptorpb.EnumDescriptorProto{color}}
	svc := dynService{Name: "Tsvc"}
	e := &c03Env{rules: map[string]c03Rule{}}
	for _, r := range c03Rules {
		svc.Methods = append(svc.Methods, dynMethod{Name: r.Name, In: c03Pkg + ".Root", Out: "google.protobuf.Empty",
			Rule: &dynRule{Verb: r.Verb, Tmpl: r.Tmpl, Body: r.Body}})
		e.rules[r.Name] = r
	}
	f.Services = []dynService{svc}
	fd, err := f.build()
	if err != nil {
		panic(err)
	}
	impl := &dynImpl{Unary: func(ctx context.Context, method string, req proto.Message, out protoreflect.MessageDescriptor) (proto.Message, error) {
		e.got = proto.Clone(req)
		return dynamicpb.NewMessage(out), nil
	}}
	e.mux, err = dynMuxLater([]protoreflect.FileDescriptor{fd}, impl)
	if err != nil {
		panic(err)
	}
	e.root = fd.Messages().ByName("Root")
	e.msgIdx = map[protoreflect.FullName]int{}
	e.enumIdx = map[protoreflect.FullName]int{}
	e.schema = c03SchemaText(e)
	c03env = e
	return e
}

var c03Wkt = map[string]string{"Timestamp": "ts", "Duration": "du", "BoolValue": "wb", "Int32Value": "wi32", "Int64Value": "wi64",
	"UInt32Value": "wu32", "UInt64Value": "wu64", "FloatValue": "wf", "DoubleValue": "wd", "BytesValue": "wy", "StringValue": "ws", "FieldMask": "fm"}

func c03WktCode(md protoreflect.MessageDescriptor) string {
	n := string(md.FullName())
	if strings.HasPrefix(n, "google.protobuf.") {
		if c, ok := c03Wkt[n[16:]]; ok {
			return c
		}
	}
	return "0"
}

var c03KindCode = map[protoreflect.Kind]string{
	protoreflect.BoolKind: "b", protoreflect.Int32Kind: "i32", protoreflect.Sint32Kind: "s32", protoreflect.Sfixed32Kind: "sf32",
	protoreflect.Int64Kind: "i64", protoreflect.Sint64Kind: "s64", protoreflect.Sfixed64Kind: "sf64", protoreflect.Uint32Kind: "u32",
	protoreflect.Fixed32Kind: "f32", protoreflect.Uint64Kind: "u64", protoreflect.Fixed64Kind: "f64", protoreflect.FloatKind: "fl",
	protoreflect.DoubleKind: "db", protoreflect.StringKind: "st", protoreflect.BytesKind: "by",
}

// breadth-first numbering of the messages and enums reachable from Root
func c03SchemaText(e *c03Env) string {
	e.msgs = []protoreflect.MessageDescriptor{e.root}
	e.msgIdx[e.root.FullName()] = 0
	var msgTexts []string
	for i := 0; i < len(e.msgs); i++ {
		md := e.msgs[i]
		var fs []string
		fds := md.Fields()
		for j := 0; j < fds.Len(); j++ {
			fd := fds.Get(j)
			var kind string
			switch fd.Kind() {
			case protoreflect.EnumKind:
				en := fd.Enum()
				k, ok := e.enumIdx[en.FullName()]
				if !ok {
					k = len(e.enums)
					e.enumIdx[en.FullName()] = k
					e.enums = append(e.enums, en)
				}
				kind = "e" + strconv.Itoa(k)
			case protoreflect.MessageKind, protoreflect.GroupKind:
				sub := fd.Message()
				k, ok := e.msgIdx[sub.FullName()]
				if !ok {
					k = len(e.msgs)
					e.msgIdx[sub.FullName()] = k
					e.msgs = append(e.msgs, sub)
				}
				kind = "m" + strconv.Itoa(k)
				if fd.Kind() == protoreflect.GroupKind {
					kind = "g" + strconv.Itoa(k)
				}
			default:
				kind = c03KindCode[fd.Kind()]
			}
			card := "s"
			if fd.IsMap() {
				card = "m"
			} else if fd.IsList() {
				card = "r"
			}
			oo := "-"
			if o := fd.ContainingOneof(); o != nil {
				oo = strconv.Itoa(o.Index())
			}
			fs = append(fs, fmt.Sprintf("%d.%s.%s.%s.%s.%s.%d", fd.Number(), fd.Name(), fd.JSONName(), kind, card, oo, b2i(fd.HasPresence())))
		}
		msgTexts = append(msgTexts, c03WktCode(md)+":"+strings.Join(fs, ","))
	}
	var enumTexts []string
	for _, en := range e.enums {
		var vs []string
		for j := 0; j < en.Values().Len(); j++ {
			v := en.Values().Get(j)
			vs = append(vs, fmt.Sprintf("%s=%d", v.Name(), v.Number()))
		}
		enumTexts = append(enumTexts, fmt.Sprintf("%d:%s", b2i(en.FullName() == "google.protobuf.NullValue"), strings.Join(vs, ",")))
	}
	return strings.Join(msgTexts, "|") + "~" + strings.Join(enumTexts, "|")
}

// ---------- flattening ----------

func c03Scalar(fd protoreflect.FieldDescriptor, v protoreflect.Value) string {
	switch fd.Kind() {
	case protoreflect.BoolKind:
		return "b" + strconv.Itoa(b2i(v.Bool()))
	case protoreflect.Int32Kind, protoreflect.Sint32Kind, protoreflect.Sfixed32Kind, protoreflect.Int64Kind, protoreflect.Sint64Kind, protoreflect.Sfixed64Kind:
		return "i" + strconv.FormatInt(v.Int(), 10)
	case protoreflect.Uint32Kind, protoreflect.Fixed32Kind, protoreflect.Uint64Kind, protoreflect.Fixed64Kind:
		return "i" + strconv.FormatUint(v.Uint(), 10)
	case protoreflect.FloatKind:
		return "f" + strconv.FormatUint(uint64(math.Float32bits(float32(v.Float()))), 16)
	case protoreflect.DoubleKind:
		return "f" + strconv.FormatUint(math.Float64bits(v.Float()), 16)
	case protoreflect.StringKind:
		return "s" + hx([]byte(v.String()))[1:]
	case protoreflect.BytesKind:
		return "y" + hx(v.Bytes())[1:]
	case protoreflect.EnumKind:
		return "e" + strconv.Itoa(int(v.Enum()))
	}
	return "?"
}

func c03FlattenInto(m protoreflect.Message, prefix string, out *[]string) {
	fds := m.Descriptor().Fields()
	nums := make([]int, 0, fds.Len())
	for i := 0; i < fds.Len(); i++ {
		nums = append(nums, int(fds.Get(i).Number()))
	}
	sort.Ints(nums)
	for _, n := range nums {
		fd := fds.ByNumber(protoreflect.FieldNumber(n))
		if !m.Has(fd) {
			continue
		}
		p := prefix + strconv.Itoa(n)
		v := m.Get(fd)
		switch {
		case fd.IsMap():
			*out = append(*out, p+":X")
		case fd.IsList():
			l := v.List()
			items := make([]string, l.Len())
			for i := 0; i < l.Len(); i++ {
				if fd.Message() != nil {
					items[i] = "M(" + c03Flatten(l.Get(i).Message()) + ")"
				} else {
					items[i] = c03Scalar(fd, l.Get(i))
				}
			}
			*out = append(*out, p+":L["+strings.Join(items, "/")+"]")
		case fd.Message() != nil:
			*out = append(*out, p+":P")
			c03FlattenInto(v.Message(), p+".", out)
		default:
			*out = append(*out, p+":"+c03Scalar(fd, v))
		}
	}
}

func c03Flatten(m protoreflect.Message) string {
	var out []string
	c03FlattenInto(m, "", &out)
	return strings.Join(out, "+")
}
func c03Tree(m protoreflect.Message) string {
	if s := c03Flatten(m); s != "" {
		return s
	}
	return "-"
}

// ---------- field paths (by proto name, harness side) ----------

func c03Resolve(md protoreflect.MessageDescriptor, dotted string) []protoreflect.FieldDescriptor {
	var fds []protoreflect.FieldDescriptor
	for _, n := range strings.Split(dotted, ".") {
		fd := md.Fields().ByName(protoreflect.Name(n))
		if fd == nil {
			panic("c03: no field " + dotted)
		}
		fds = append(fds, fd)
		md = fd.Message()
	}
	return fds
}
func c03NumPath(fds []protoreflect.FieldDescriptor) string {
	ss := make([]string, len(fds))
	for i, fd := range fds {
		ss[i] = strconv.Itoa(int(fd.Number()))
	}
	return strings.Join(ss, ".")
}
func c03SetPath(m protoreflect.Message, fds []protoreflect.FieldDescriptor, v protoreflect.Value) {
	for _, fd := range fds[:len(fds)-1] {
		m = m.Mutable(fd).Message()
	}
	m.Set(fds[len(fds)-1], v)
}

// clear the field and every parent message that becomes empty by it
func c03ClearPath(m protoreflect.Message, fds []protoreflect.FieldDescriptor) {
	ms := []protoreflect.Message{m}
	for _, fd := range fds[:len(fds)-1] {
		if !m.Has(fd) {
			return
		}
		m = m.Mutable(fd).Message()
		ms = append(ms, m)
	}
	for i := len(fds) - 1; i >= 0; i-- {
		ms[i].Clear(fds[i])
		if c03Flatten(ms[i]) != "" {
			return
		}
	}
}
func c03GetPath(m protoreflect.Message, fds []protoreflect.FieldDescriptor) (protoreflect.Message, bool) {
	for _, fd := range fds {
		if !m.Has(fd) {
			return nil, false
		}
		m = m.Get(fd).Message()
	}
	return m, true
}

// entries of the tree at or under the numeric path p
func c03Under(tree, p string) string {
	if tree == "-" || tree == "" {
		return "-"
	}
	var out []string
	for _, e := range c03SplitTop(tree) {
		path, _, _ := strings.Cut(e, ":")
		if path == p || strings.HasPrefix(path, p+".") {
			out = append(out, e)
		}
	}
	if len(out) == 0 {
		return "-"
	}
	return strings.Join(out, "+")
}

// split a tree at its top-level '+' (nested trees are inside parentheses)
func c03SplitTop(tree string) []string {
	var out []string
	depth, start := 0, 0
	for i := 0; i < len(tree); i++ {
		switch tree[i] {
		case '(':
			depth++
		case ')':
			depth--
		case '+':
			if depth == 0 {
				out = append(out, tree[start:i])
				start = i + 1
			}
		}
	}
	return append(out, tree[start:])
}

// ---------- text forms (the client side: an encoder independent of larking) ----------

// b64 spelling: 0 std padded, 1 std raw, 2 url padded, 3 url raw
func c03B64(b []byte, variant int) string {
	switch variant & 3 {
	case 0:
		return base64.StdEncoding.EncodeToString(b)
	case 1:
		return base64.RawStdEncoding.EncodeToString(b)
	case 2:
		return base64.URLEncoding.EncodeToString(b)
	}
	return base64.RawURLEncoding.EncodeToString(b)
}

func c03Unquote(b []byte) string {
	if len(b) > 0 && b[0] == '"' {
		var s string
		if err := json.Unmarshal(b, &s); err == nil {
			return s
		}
	}
	return string(b)
}

// the proto3-JSON leaf text of a message-typed well-known value
func c03WktText(m proto.Message) string {
	b, err := protojson.Marshal(m)
	if err != nil {
		panic(err)
	}
	return c03Unquote(b)
}

// text of a scalar (style: enum by name when possible and style&4 == 0; bytes variant style&3)
func c03ScalarText(fd protoreflect.FieldDescriptor, v protoreflect.Value, style int) string {
	switch fd.Kind() {
	case protoreflect.BoolKind:
		return strconv.FormatBool(v.Bool())
	case protoreflect.Int32Kind, protoreflect.Sint32Kind, protoreflect.Sfixed32Kind, protoreflect.Int64Kind, protoreflect.Sint64Kind, protoreflect.Sfixed64Kind:
		return strconv.FormatInt(v.Int(), 10)
	case protoreflect.Uint32Kind, protoreflect.Fixed32Kind, protoreflect.Uint64Kind, protoreflect.Fixed64Kind:
		return strconv.FormatUint(v.Uint(), 10)
	case protoreflect.FloatKind:
		return c03WktText(wrapperspb.Float(float32(v.Float())))
	case protoreflect.DoubleKind:
		return c03WktText(wrapperspb.Double(v.Float()))
	case protoreflect.StringKind:
		return v.String()
	case protoreflect.BytesKind:
		return c03B64(v.Bytes(), style)
	case protoreflect.EnumKind:
		if ev := fd.Enum().Values().ByNumber(v.Enum()); ev != nil && style&4 == 0 {
			return string(ev.Name())
		}
		return strconv.Itoa(int(v.Enum()))
	}
	panic("c03: scalar text of " + fd.Kind().String())
}

func c03ValueText(fd protoreflect.FieldDescriptor, v protoreflect.Value, style int) string {
	if fd.Message() != nil {
		return c03WktText(v.Message().Interface())
	}
	return c03ScalarText(fd, v, style)
}

type c03KV struct{ K, V string }

// leaves of m as query pairs; spell(fd) chooses the JSON or the proto name of a field.
// ok=false if m contains something a query cannot carry.
func c03Leaves(m protoreflect.Message, prefix string, spell func(protoreflect.FieldDescriptor) string, style func() int, out *[]c03KV) bool {
	ok := true
	fds := m.Descriptor().Fields()
	for i := 0; i < fds.Len(); i++ {
		fd := fds.Get(i)
		if !m.Has(fd) {
			continue
		}
		key := prefix + spell(fd)
		v := m.Get(fd)
		wkt := fd.Message() != nil && c03WktCode(fd.Message()) != "0"
		switch {
		case fd.IsMap():
			ok = false
		case fd.IsList():
			if fd.Message() != nil && !wkt {
				ok = false
				continue
			}
			l := v.List()
			for j := 0; j < l.Len(); j++ {
				*out = append(*out, c03KV{key, c03ValueText(fd, l.Get(j), style())})
			}
		case fd.Message() != nil && !wkt:
			var sub []c03KV
			if !c03Leaves(v.Message(), key+".", spell, style, &sub) {
				ok = false
			}
			if len(sub) == 0 {
				ok = false // a present but empty message has no spelling
			}
			*out = append(*out, sub...)
		default:
			*out = append(*out, c03KV{key, c03ValueText(fd, v, style())})
		}
	}
	return ok
}

// ---------- oracles ----------

type c03Oracles struct {
	seen map[string]bool
	out  []string
}

func c03FloatOracle(is32 bool, text string) string {
	if is32 {
		var x float32
		if err := json.Unmarshal([]byte(text), &x); err != nil {
			return "E"
		}
		return "f" + strconv.FormatUint(uint64(math.Float32bits(x)), 16)
	}
	var x float64
	if err := json.Unmarshal([]byte(text), &x); err != nil {
		return "E"
	}
	return "f" + strconv.FormatUint(math.Float64bits(x), 16)
}

func c03NewWkt(code string) proto.Message {
	switch code {
	case "ts":
		return &timestamppb.Timestamp{}
	case "du":
		return &durationpb.Duration{}
	case "wb":
		return &wrapperspb.BoolValue{}
	case "wi32":
		return &wrapperspb.Int32Value{}
	case "wi64":
		return &wrapperspb.Int64Value{}
	case "wu32":
		return &wrapperspb.UInt32Value{}
	case "wu64":
		return &wrapperspb.UInt64Value{}
	case "wf":
		return &wrapperspb.FloatValue{}
	case "wd":
		return &wrapperspb.DoubleValue{}
	case "wy":
		return &wrapperspb.BytesValue{}
	case "ws":
		return &wrapperspb.StringValue{}
	case "fm":
		return &fieldmaskpb.FieldMask{}
	}
	return nil
}

// add the oracle values a conversion of text for field fd may ask for
func (oc *c03Oracles) add(fd protoreflect.FieldDescriptor, text string) {
	if oc.seen == nil {
		oc.seen = map[string]bool{}
	}
	put := func(s string) {
		if !oc.seen[s] {
			oc.seen[s] = true
			oc.out = append(oc.out, s)
		}
	}
	switch {
	case fd.Kind() == protoreflect.FloatKind:
		put("F32:" + hx([]byte(text)) + "=" + c03FloatOracle(true, text))
	case fd.Kind() == protoreflect.DoubleKind:
		put("F64:" + hx([]byte(text)) + "=" + c03FloatOracle(false, text))
	case fd.Message() != nil:
		code := c03WktCode(fd.Message())
		if code == "0" {
			return
		}
		for q := 0; q < 2; q++ {
			in := []byte(text)
			if q == 1 {
				in = []byte(strconv.Quote(text))
			}
			msg := c03NewWkt(code)
			res := "E"
			if err := protojson.Unmarshal(in, msg); err == nil {
				res = "(" + c03Flatten(msg.ProtoReflect()) + ")"
			}
			put(fmt.Sprintf("W%s:%d:%s=%s", code, q, hx([]byte(text)), res))
		}
	}
}
func (oc *c03Oracles) String() string {
	if len(oc.out) == 0 {
		return "-"
	}
	return strings.Join(oc.out, ",")
}

// field a query key / dotted name refers to, resolved the way a client would (either spelling)
func c03KeyField(md protoreflect.MessageDescriptor, key string) protoreflect.FieldDescriptor {
	var fd protoreflect.FieldDescriptor
	for _, n := range strings.Split(key, ".") {
		if md == nil {
			return nil
		}
		fd = md.Fields().ByJSONName(n)
		if fd == nil {
			fd = md.Fields().ByName(protoreflect.Name(n))
		}
		if fd == nil {
			return nil
		}
		md = fd.Message()
	}
	return fd
}

// ---------- a case ----------

type c03Body struct {
	Codec string // j p u
	Gz    int    // 0 plain, 1 gzip, 2 Content-Encoding: gzip over bytes that are not gzip
	Raw   []byte
	Dec   string // E | Z | tree
}

type c03Case struct {
	Kind   string
	Rule   c03Rule
	Caps   []string
	Query  []c03KV
	Body   *c03Body
	Expect string
}

func (e *c03Env) ruleText(r c03Rule) string {
	body := r.Body
	if body == "" {
		body = "-"
	}
	vars := "-"
	if len(r.Vars) > 0 {
		vars = strings.Join(r.Vars, ",")
	}
	return fmt.Sprintf("%s!0!%s!%s", r.Name, body, vars)
}

func (e *c03Env) bodyType(r c03Rule) protoreflect.MessageDescriptor {
	if r.Body == "" || r.Body == "*" {
		return e.root
	}
	fds := c03Resolve(e.root, r.Body)
	return fds[len(fds)-1].Message()
}

func (e *c03Env) line(c *c03Case) string {
	var oc c03Oracles
	for i, v := range c.Rule.Vars {
		if i < len(c.Caps) {
			fds := c03Resolve(e.root, v)
			oc.add(fds[len(fds)-1], c.Caps[i])
		}
	}
	for _, kv := range c.Query {
		if fd := c03KeyField(e.root, kv.K); fd != nil {
			oc.add(fd, kv.V)
		}
	}
	caps := "-"
	if len(c.Caps) > 0 {
		hs := make([]string, len(c.Caps))
		for i, s := range c.Caps {
			hs[i] = hx([]byte(s))
		}
		caps = strings.Join(hs, ",")
	}
	query := "-"
	if len(c.Query) > 0 {
		qs := make([]string, len(c.Query))
		for i, kv := range c.Query {
			qs[i] = hx([]byte(kv.K)) + "=" + hx([]byte(kv.V))
		}
		query = strings.Join(qs, ",")
	}
	body := "-"
	if c.Body != nil {
		body = fmt.Sprintf("%s:%d:%s:%s", c.Body.Codec, c.Body.Gz, hx(c.Body.Raw), c.Body.Dec)
	}
	return strings.Join([]string{c.Kind, e.schema, e.ruleText(c.Rule), caps, query, body, oc.String(), c.Expect}, " ")
}

// decode a body the way the registered codec should (independent call of the library)
func (e *c03Env) decodeBody(r c03Rule, codec string, raw []byte) string {
	msg := dynamicpb.NewMessage(e.bodyType(r))
	var err error
	switch codec {
	case "j":
		err = protojson.Unmarshal(raw, msg)
	case "p":
		err = proto.Unmarshal(raw, msg)
	default:
		return "E"
	}
	if err != nil {
		return "E"
	}
	return c03Tree(msg)
}

func c03Gzip(b []byte) []byte {
	var buf bytes.Buffer
	z := gzip.NewWriter(&buf)
	z.Write(b)
	z.Close()
	return buf.Bytes()
}

// build the URL path from the template and the captures
func c03URLPath(tmpl string, caps []string) string {
	var sb strings.Builder
	i, k := 0, 0
	for i < len(tmpl) {
		if tmpl[i] == '{' {
			j := strings.IndexByte(tmpl[i:], '}') + i
			if k < len(caps) {
				segs := strings.Split(caps[k], "/")
				for n, s := range segs {
					segs[n] = url.PathEscape(s)
				}
				sb.WriteString(strings.Join(segs, "/"))
			}
			k++
			i = j + 1
			continue
		}
		sb.WriteByte(tmpl[i])
		i++
	}
	return sb.String()
}

func (e *c03Env) send(c *c03Case) (obs string) {
	defer func() {
		if p := recover(); p != nil {
			if os.Getenv("C03_DEBUG") != "" {
				fmt.Fprintf(os.Stderr, "panic: %v\n%s\n", p, debug.Stack())
			}
			obs = "panic"
		}
	}()
	target := c03URLPath(c.Rule.Tmpl, c.Caps)
	if len(c.Query) > 0 {
		qs := make([]string, len(c.Query))
		for i, kv := range c.Query {
			qs[i] = url.QueryEscape(kv.K) + "=" + url.QueryEscape(kv.V)
		}
		target += "?" + strings.Join(qs, "&")
	}
	var req *http.Request
	if c.Body != nil {
		raw := c.Body.Raw
		if c.Body.Gz == 1 {
			raw = c03Gzip(raw)
		}
		if len(raw)%2 == 1 {
			// a body whose length is not declared (chunked upload, HTTP/2 without content-length):
			// ContentLength is -1 and the body must still be read
			req = httptest.NewRequest(c.Rule.Verb, target, struct{ io.Reader }{bytes.NewReader(raw)})
		} else {
			req = httptest.NewRequest(c.Rule.Verb, target, bytes.NewReader(raw))
		}
		switch c.Body.Codec {
		case "j":
			req.Header.Set("Content-Type", "application/json")
		case "p":
			req.Header.Set("Content-Type", "application/protobuf")
		case "f":
			req.Header.Set("Content-Type", "application/x-www-form-urlencoded")
		default:
			req.Header.Set("Content-Type", "application/x-unknown")
		}
		if c.Body.Gz != 0 {
			req.Header.Set("Content-Encoding", "gzip")
		}
		// the reply's media type is negotiated from Accept and has no say in how the request body is read:
		// a third of the requests ask for the other codec, a third for anything
		switch len(c.Body.Raw) % 3 * b2i(c.Body.Codec != "f") {
		case 1:
			req.Header.Set("Accept", map[string]string{"j": "application/protobuf", "p": "application/json"}[c.Body.Codec])
		case 2:
			req.Header.Set("Accept", "*/*")
		}
	} else {
		req = httptest.NewRequest(c.Rule.Verb, target, nil)
	}
	e.got = nil
	w := httptest.NewRecorder()
	e.mux.ServeHTTP(w, req)
	if e.got == nil {
		// the handler did not run: the request was refused
		if w.Code != 200 {
			return "err:" + strconv.Itoa(w.Code)
		}
		return "err:nohandler"
	}
	// the handler ran: what it received is the observation, whatever became of the reply (a request
	// with an unknown content type is decoded fine when the rule has no body, and the reply then has
	// no codec: that is the response side, property C04)
	return "ok:" + c03Tree(e.got.ProtoReflect())
}

func (e *c03Env) emit(o *out, c *c03Case) {
	o.emit(e.line(c), e.send(c))
}

// run one input line (corpus, replay): the request is rebuilt from the line, the oracle and
// expectation fields are kept as they are.
func c03Run(o *out, input string) {
	e := c03Setup()
	f := strings.Fields(input)
	if len(f) != 8 {
		o.emit(input, "badline")
		return
	}
	rname, _, _ := strings.Cut(f[2], "!")
	r, ok := e.rules[rname]
	if !ok {
		o.emit(input, "badrule")
		return
	}
	c := &c03Case{Kind: f[0], Rule: r}
	if f[3] != "-" {
		for _, h := range strings.Split(f[3], ",") {
			c.Caps = append(c.Caps, string(unhx(h)))
		}
	}
	if f[4] != "-" {
		for _, p := range strings.Split(f[4], ",") {
			k, v, _ := strings.Cut(p, "=")
			c.Query = append(c.Query, c03KV{string(unhx(k)), string(unhx(v))})
		}
	}
	if f[5] != "-" {
		p := strings.SplitN(f[5], ":", 4)
		c.Body = &c03Body{Codec: p[0], Gz: atoi(p[1]), Raw: unhx(p[2]), Dec: p[3]}
	}
	f[1] = e.schema
	o.emit(strings.Join(f, " "), e.send(c))
}
