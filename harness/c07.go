package main

import (
	"net/url"
	"strings"

	"google.golang.org/protobuf/proto"
	"google.golang.org/protobuf/reflect/protoreflect"
	"google.golang.org/protobuf/types/dynamicpb"
)

// C07: a path-bound field carries the captured value whatever the query string and the body say.
// Case lines are those of C03 (see c03.go); expect = numpath=entries,... for every variable.

func init() {
	props["C07"] = prop{gen: c07Gen, run: c03Run}
}

func c07Perms(n int) [][]int {
	if n == 0 {
		return [][]int{{}}
	}
	var out [][]int
	for _, p := range c07Perms(n - 1) {
		for i := 0; i <= len(p); i++ {
			q := append(append(append([]int{}, p[:i]...), n-1), p[i:]...)
			out = append(out, q)
		}
	}
	return out
}

// a competing value whose text differs from the capture
func c07Other(r *rng, fd protoreflect.FieldDescriptor, capture string) (protoreflect.Value, string) {
	for {
		v := c03GenValue(r, fd, true)
		t := c03ValueText(fd, v, r.intn(8))
		if t != capture && !strings.HasSuffix(capture, "/"+t) {
			return v, t
		}
	}
}

func c07One(e *c03Env, o *out, r *rng, rule c03Rule, mode string, allPerms bool) {
	M := dynamicpb.NewMessage(e.root)
	c03Fill(r, M, 2, true, 4+r.intn(8))
	if rule.Body != "" && rule.Body != "*" {
		c03Resolve(e.root, rule.Body)
		cur := protoreflect.Message(M)
		for _, fd := range c03Resolve(e.root, rule.Body) {
			cur = cur.Mutable(fd).Message()
		}
	}
	caps := e.genCaps(r, M, rule)
	// expected entries under every path-bound field
	tree := c03Tree(M)
	var exps []string
	for _, v := range rule.Vars {
		p := c03NumPath(c03Resolve(e.root, v))
		exps = append(exps, p+"="+c03Under(tree, p))
	}
	// the competitor message: same as M but other values at the path-bound fields
	comp := proto.Clone(M).ProtoReflect()
	var inject []c03KV
	inBody, inQuery := strings.Contains(mode, "b"), strings.Contains(mode, "q") || strings.Contains(mode, "f")
	for i, v := range rule.Vars {
		fds := c03Resolve(e.root, v)
		last := fds[len(fds)-1]
		val, txt := c07Other(r, last, caps[i])
		c03SetPath(comp, fds, val)
		if inQuery {
			names := func(json bool) string {
				ns := make([]string, len(fds))
				for k, fd := range fds {
					if json {
						ns[k] = fd.JSONName()
					} else {
						ns[k] = string(fd.Name())
					}
				}
				return strings.Join(ns, ".")
			}
			switch sp := r.intn(4); {
			case sp == 0 || names(true) == names(false):
				inject = append(inject, c03KV{names(false), txt})
			case sp == 1:
				inject = append(inject, c03KV{names(true), txt})
			case sp == 2:
				inject = append(inject, c03KV{names(true), txt}, c03KV{names(false), txt})
			default:
				_, txt2 := c07Other(r, last, caps[i])
				inject = append(inject, c03KV{names(false), txt}, c03KV{names(false), txt2})
			}
		}
		if strings.Contains(mode, "s") {
			// a sibling of a oneof through the query: of the path-bound field itself, or of a message field on the way to it
			// (setting the sibling replaces that parent as a whole)
			for depth := len(fds) - 1; depth >= 0; depth-- {
				step := fds[depth]
				if step.ContainingOneof() == nil || step.ContainingOneof().IsSynthetic() {
					continue
				}
				sibs := step.ContainingOneof().Fields()
				sib := sibs.Get(r.intn(sibs.Len()))
				if sib.Number() == step.Number() {
					continue
				}
				prefix := ""
				for _, fd := range fds[:depth] {
					prefix += string(fd.Name()) + "."
				}
				if sib.Message() != nil {
					lf := sib.Message().Fields().Get(0)
					inject = append(inject, c03KV{prefix + string(sib.Name()) + "." + string(lf.Name()), c03ValueText(lf, c03GenValue(r, lf, true), 0)})
				} else {
					inject = append(inject, c03KV{prefix + string(sib.Name()), c03ValueText(sib, c03GenValue(r, sib, true), 0)})
				}
				break
			}
		}
	}
	src := protoreflect.Message(M)
	if inBody {
		src = comp
	}
	codec := r.picks([]string{"j", "j", "p"})
	sp := e.split(r, src, rule, caps, codec, r.intn(2), inBody)
	if !sp.OK {
		return
	}
	kind := "C07"
	if strings.Contains(mode, "f") {
		// the competing values as a form-encoded body (no codec is registered for it: the request may be refused, but a
		// handler that is reached sees the captures in the path-bound fields)
		if len(inject) == 0 || rule.Body == "" {
			return
		}
		form := url.Values{}
		for _, kv := range inject {
			form.Add(kv.K, kv.V)
			if i := strings.LastIndex(kv.K, "."); i >= 0 && rule.Body != "*" {
				form.Add(kv.K[i+1:], kv.V) // (relative to the body field as well)
			}
		}
		kind, inject = "C07X", nil
		sp.Body = &c03Body{Codec: "f", Raw: []byte(form.Encode()), Dec: "E"}
	}
	query := append(append([]c03KV{}, sp.Query...), inject...)
	if strings.Contains(mode, "x") && kind == "C07" {
		// a key no query may use (through a repeated / map field, an unknown name): the request may be
		// refused, but if the handler is reached the path-bound fields carry the captures
		kind = "C07X"
		query = append(query, c03KV{r.picks(c03BadKeys[:8]), r.picks([]string{"x", "1", "a"})})
	}
	// key groups and their permutations
	var keys []string
	groups := map[string][]c03KV{}
	for _, kv := range query {
		if _, ok := groups[kv.K]; !ok {
			keys = append(keys, kv.K)
		}
		groups[kv.K] = append(groups[kv.K], kv)
	}
	var orders [][]int
	if len(keys) <= 4 && allPerms {
		orders = c07Perms(len(keys))
	} else {
		for n := 0; n < 2; n++ {
			p := make([]int, len(keys))
			for i := range p {
				p[i] = i
			}
			for i := len(p) - 1; i > 0; i-- {
				j := r.intn(i + 1)
				p[i], p[j] = p[j], p[i]
			}
			orders = append(orders, p)
		}
	}
	for _, ord := range orders {
		var q []c03KV
		for _, i := range ord {
			q = append(q, groups[keys[i]]...)
		}
		c := &c03Case{Kind: kind, Rule: rule, Caps: caps, Query: q, Body: sp.Body, Expect: strings.Join(exps, ",")}
		e.emit(o, c)
		o.count("rule=" + rule.Name)
		o.count("inject=" + mode)
		if rule.Body == "" {
			o.count("body=none")
		} else if rule.Body == "*" {
			o.count("body=*")
		} else {
			o.count("body=field")
		}
	}
}

func c07Gen(o *out, r *rng, tier string) {
	e := c03Setup()
	rounds := 60
	if tier == "thorough" {
		rounds = 600
	}
	for n := 0; n < rounds; n++ {
		for _, rule := range e.rules2() {
			if len(rule.Vars) == 0 {
				continue
			}
			modes := []string{"-", "q", "qs"}
			if rule.Body != "" {
				modes = append(modes, "b", "bq", "bqs", "f")
			}
			if n%4 == 0 {
				modes = append(modes, "qx")
				if rule.Body != "" {
					modes = append(modes, "bx", "bqx")
				}
			}
			for _, mode := range modes {
				c07One(e, o, r, rule, mode, n%3 == 0)
			}
		}
	}
}

func (e *c03Env) rules2() []c03Rule { return c03Rules }
