package main

import (
	"bytes"
	"compress/gzip"
	"context"
	"encoding/base64"
	"encoding/binary"
	"errors"
	"fmt"
	"io"
	"net/http/httptest"
	"strconv"
	"strings"
	"sync"
	"time"

	"github.com/gobwas/ws"
	"google.golang.org/grpc"
	"google.golang.org/grpc/codes"
	"google.golang.org/grpc/status"
	"google.golang.org/protobuf/encoding/protodelim"
	"google.golang.org/protobuf/encoding/protojson"
	"google.golang.org/protobuf/encoding/protowire"
	"google.golang.org/protobuf/proto"
	"google.golang.org/protobuf/reflect/protoreflect"
	"google.golang.org/protobuf/types/dynamicpb"
	"larking.io/api/testpb"
	"larking.io/larking"
)

// C08: message size limits on every protocol, both directions.
//
//   C08R <path> <maxRecv> <maxSend> <enc> <shape> <msgs> ; <got> <end> <csizes>
//   C08S <path> <maxRecv> <maxSend> <enc> <shape> <sizes> ; <att> <res> <arr> <end>
//
// path  : hu-json hu-proto hu-body (HTTP unary) hs-json hs-proto hs-body (HTTP streaming)
//         grpc web webtext ws
// enc   : id | gzip   (HTTP: Content-Encoding / Accept-Encoding; gRPC family: Grpc-Encoding, per message)
// shape : unary | stream | frag (ws: every message in two fragments)
// msgs  : comma list, one descriptor per message the client puts on the wire
//         m<size>[r]  a valid message whose encoded size (before compression) is exactly <size>;
//                     'a'-filled (highly compressible), with r: pseudo-random letters
//         m<size>b<cut> (protobuf paths) a valid two-field message of <size> bytes whose first <cut> bytes are a
//                     complete message too (a field boundary at <cut>): cutting it there goes unnoticed by the decoder
//         g<size>     <size> bytes that are framed like a message but do not decode
//         z<size>b<cut> (enc=gzip, gRPC family) the two-field message of m<size>b<cut>, compressed as two gzip members
//         u<size>     (enc=gzip, gRPC family) a valid message sent with the compressed flag clear
//         x<size>     (enc=gzip, gRPC family) compressed flag set, <size> bytes that are not gzip
//         p<P>:<A>    (gRPC family, hs-proto) a length prefix declaring P bytes followed by A bytes; ends the stream
// got   : for every message the handler received, its encoded size after decompression (the
//         size of the matching wire message, checked against what the handler decoded), `bad` if
//         the handler received something that was not sent
// end   : ok | size | refused | panic    (size = refusal positively identified as a size error:
//         ResourceExhausted or protodelim.SizeTooLargeError; never by error text)
// csizes: oracle values: compressed length of every m-message (enc=gzip on the gRPC family), else -
// sizes : encoded sizes of the replies the handler sends, in order
// att   : encoded sizes of the replies the handler attempted (measured with the path's codec)
// res   : per attempt ok | size | err as seen by the handler (unary: derived from the response)
// arr   : encoded sizes of the replies that reached the client (hs-body: total bytes)

type c08Env struct {
	mu      sync.Mutex
	mux     *larking.Mux
	lb      *loopback
	recv    int
	send    int
	expect  int // messages the handler reads (hs-body: total bytes to read)
	byBytes bool
	replies []int
	codec   string // codec of the replies: proto json body
	got     []int
	recvErr error
	att     []int
	sendRes []error
	done    chan struct{}
}

var (
	c08envs   = map[[2]int]*c08Env{}
	c08fd     protoreflect.FileDescriptor
	c08jsonOv int
)

const (
	c08Msg  = "larking.testpb.Message"
	c08Up   = "larking.testpb.UploadFileRequest"
	c08Body = "google.api.HttpBody"
)

func c08File() protoreflect.FileDescriptor {
	if c08fd != nil {
		return c08fd
	}
	f := dynFile{Path: "verif/c08.proto", Pkg: "verif.c08", Services: []dynService{{Name: "Lsvc", Methods: []dynMethod{
		{Name: "Unary", In: c08Msg, Out: c08Msg, Rule: &dynRule{Verb: "POST", Tmpl: "/c08/unary", Body: "*"}},
		{Name: "ClientStream", In: c08Msg, Out: c08Msg, ClientStream: true, Rule: &dynRule{Verb: "POST", Tmpl: "/c08/cstream", Body: "*"}},
		{Name: "ServerStream", In: c08Msg, Out: c08Msg, ServerStream: true, Rule: &dynRule{Verb: "POST", Tmpl: "/c08/sstream", Body: "*"}},
		{Name: "Bidi", In: c08Msg, Out: c08Msg, ClientStream: true, ServerStream: true, Rule: &dynRule{Verb: "WEBSOCKET", Tmpl: "/c08/ws", Body: "*"}},
		{Name: "BodyUnary", In: c08Up, Out: c08Body, Rule: &dynRule{Verb: "POST", Tmpl: "/c08/body/{filename}", Body: "file"}},
		{Name: "BodyStream", In: c08Up, Out: c08Body, ClientStream: true, ServerStream: true, Rule: &dynRule{Verb: "POST", Tmpl: "/c08/bodys/{filename}", Body: "file"}},
	}}}}
	fd, err := f.build()
	if err != nil {
		panic(err)
	}
	c08fd = fd
	b, err := protojson.Marshal(&testpb.Message{Text: "a"})
	if err != nil {
		panic(err)
	}
	c08jsonOv = len(b) - 1
	return fd
}

// fingerprint of a received request: what the handler can measure on the decoded message
func c08Fp(m proto.Message) int {
	r := m.ProtoReflect()
	if fd := r.Descriptor().Fields().ByName("file"); fd != nil {
		if !r.Has(fd) {
			return 0
		}
		body := r.Get(fd).Message()
		return len(body.Get(body.Descriptor().Fields().ByName("data")).Bytes())
	}
	return proto.Size(m)
}

func c08Text(n int, random bool) string {
	if !random {
		return strings.Repeat("a", n)
	}
	g := newRng(uint64(n) + 77)
	b := make([]byte, n)
	for i := range b {
		b[i] = byte('A' + g.intn(58)) // letters and a few signs, no quote, no backslash (92 is excluded below)
		if b[i] == '\\' {
			b[i] = 'z'
		}
	}
	return string(b)
}

// c08ProtoBytes: a protobuf encoding of exactly size bytes that testpb.Message decodes (nil, false if
// impossible: no message has a 1-byte encoding). Size 2 is an unknown varint field.
func c08ProtoBytes(size int, random bool) ([]byte, bool) {
	switch size {
	case 0:
		return nil, true
	case 1:
		return nil, false
	case 2:
		return []byte{0x78, 0x01}, true
	}
	try := func(size int, uid string) []byte {
		extra := 0
		if uid != "" {
			extra = 2 + len(uid)
		}
		for _, hdr := range []int{2, 3, 4, 5} {
			k := size - hdr
			if k < 1 {
				continue
			}
			m := &testpb.Message{Text: c08Text(k, random), UserId: uid}
			if proto.Size(m) == size+extra {
				b, err := proto.Marshal(m)
				if err != nil {
					panic(err)
				}
				return b
			}
		}
		return nil
	}
	if b := try(size, ""); b != nil {
		return b, true
	}
	if size > 5 {
		if b := try(size-3, "u"); b != nil {
			return b, true
		}
	}
	return nil, false
}

// c08Field: a length-delimited field of exactly total bytes (tag, length, payload); nil if impossible
func c08Field(tag byte, total int, fill byte) []byte {
	for _, ll := range []int{1, 2, 3} {
		k := total - 1 - ll
		if k < 0 {
			continue
		}
		if l := protowire.SizeVarint(uint64(k)); l == ll {
			b := protowire.AppendVarint([]byte{tag}, uint64(k))
			return append(b, bytes.Repeat([]byte{fill}, k)...)
		}
	}
	return nil
}

// c08TwoField: testpb.Message{message_id (cut bytes in all), text (the rest)}, size bytes
func c08TwoField(size, cut int) []byte {
	a, b := c08Field(0x0a, cut, 'i'), c08Field(0x12, size-cut, 't')
	if a == nil || b == nil {
		panic(fmt.Sprintf("c08: no two-field message of %d bytes with a boundary at %d", size, cut))
	}
	return append(a, b...)
}

// c08Wire: the bytes of one message on the wire (before compression / framing), the fingerprint
// the handler should measure, and whether it decodes.
func c08Wire(codec string, kind byte, size int, random bool) (wire []byte, fp int, valid bool) {
	if kind == 'g' || kind == 'x' {
		switch codec {
		case "json":
			if size == 2 {
				return []byte("{}"), 0, true // the only brace-balanced text of two bytes is a valid object
			}
			if size >= 2 {
				return []byte("{" + strings.Repeat("!", size-2) + "}"), -1, false
			}
			return []byte(strings.Repeat("{", size)), -1, false // an object that never closes
		case "body":
			return []byte(c08Text(size, true)), size, true
		default:
			return bytes.Repeat([]byte{0xff}, size), -1, size == 0
		}
	}
	switch codec {
	case "json":
		if size >= 11 {
			k := size - 11
			return []byte(`{"text":"` + c08Text(k, random) + `"}`), proto.Size(&testpb.Message{Text: c08Text(k, random)}), true
		}
		if size >= 2 {
			return []byte("{" + strings.Repeat(" ", size-2) + "}"), 0, true
		}
		return []byte(strings.Repeat("{", size)), 0, size == 0
	case "body":
		return []byte(c08Text(size, random)), size, true
	default:
		b, ok := c08ProtoBytes(size, random)
		if !ok {
			return bytes.Repeat([]byte{0x12}, size), -1, false
		}
		if len(b) != size {
			panic("c08: cannot build a message of the requested size")
		}
		return b, size, true
	}
}

func c08Gzip(b []byte) []byte {
	var buf bytes.Buffer
	z := gzip.NewWriter(&buf)
	z.Write(b)
	z.Close()
	return buf.Bytes()
}

func c08Gunzip(b []byte) ([]byte, error) {
	z, err := gzip.NewReader(bytes.NewReader(b))
	if err != nil {
		return nil, err
	}
	return io.ReadAll(z)
}

func c08IsSize(err error) bool {
	if err == nil {
		return false
	}
	var tl *protodelim.SizeTooLargeError
	if errors.As(err, &tl) {
		return true
	}
	if st, ok := status.FromError(err); ok && st.Code() == codes.ResourceExhausted {
		return true
	}
	return false
}

func (e *c08Env) reply(out protoreflect.MessageDescriptor, size int) (proto.Message, int) {
	m := dynamicpb.NewMessage(out)
	if out.FullName() == c08Body {
		m.Set(out.Fields().ByName("data"), protoreflect.ValueOfBytes([]byte(c08Text(size, false))))
		return m, size
	}
	var b []byte
	if e.codec == "json" {
		k := size - c08jsonOv
		if k < 0 {
			k = 0
		}
		b, _ = proto.Marshal(&testpb.Message{Text: c08Text(k, false)})
	} else {
		b, _ = c08ProtoBytes(size, false)
	}
	if err := proto.Unmarshal(b, m); err != nil {
		panic(err)
	}
	// the encoded size as the path's codec produces it
	if e.codec == "json" {
		jb, err := protojson.Marshal(m)
		if err != nil {
			panic(err)
		}
		return m, len(jb)
	}
	return m, proto.Size(m)
}

// replyBytes: the encoding of the reply of the given target size in the path's codec
func (e *c08Env) replyBytes(size int) []byte {
	if e.codec == "body" {
		return []byte(c08Text(size, false))
	}
	m, _ := e.reply((&testpb.Message{}).ProtoReflect().Descriptor(), size)
	if e.codec == "json" {
		b, _ := protojson.Marshal(m)
		return b
	}
	b, _ := proto.Marshal(m)
	return b
}

// sameReply: got is an encoding of the reply of the given target size, of the same length (field
// order of a dynamic message is not fixed, so the comparison is on the decoded messages)
func (e *c08Env) sameReply(size int, got []byte) bool {
	want := e.replyBytes(size)
	if len(want) != len(got) {
		return false
	}
	var a, b testpb.Message
	switch e.codec {
	case "body":
		return bytes.Equal(want, got)
	case "json":
		return protojson.Unmarshal(want, &a) == nil && protojson.Unmarshal(got, &b) == nil && proto.Equal(&a, &b)
	}
	return proto.Unmarshal(want, &a) == nil && proto.Unmarshal(got, &b) == nil && proto.Equal(&a, &b)
}

func c08Setup(recv, send int) *c08Env {
	key := [2]int{recv, send}
	if e, ok := c08envs[key]; ok {
		return e
	}
	fd := c08File()
	e := &c08Env{recv: recv, send: send}
	impl := &dynImpl{
		Unary: func(ctx context.Context, method string, req proto.Message, out protoreflect.MessageDescriptor) (proto.Message, error) {
			e.mu.Lock()
			defer e.mu.Unlock()
			e.got = append(e.got, c08Fp(req))
			size := 0
			if len(e.replies) > 0 {
				size = e.replies[0]
			}
			m, n := e.reply(out, size)
			e.att = append(e.att, n)
			return m, nil
		},
		Stream: func(method string, in, out protoreflect.MessageDescriptor, ss grpc.ServerStream) (err error) {
			defer func() {
				if e.done != nil {
					close(e.done)
				}
			}()
			total := 0
			for (e.byBytes && total < e.expect) || (!e.byBytes && len(e.got) < e.expect) {
				m := dynamicpb.NewMessage(in)
				if err := ss.RecvMsg(m); err != nil {
					e.mu.Lock()
					e.recvErr = err
					e.mu.Unlock()
					if err == io.EOF {
						break
					}
					return err
				}
				fp := c08Fp(m)
				total += fp
				e.mu.Lock()
				e.got = append(e.got, fp)
				e.mu.Unlock()
			}
			for _, size := range e.replies {
				m, n := e.reply(out, size)
				err := ss.SendMsg(m)
				e.mu.Lock()
				e.att = append(e.att, n)
				e.sendRes = append(e.sendRes, err)
				e.mu.Unlock()
				if err != nil {
					return err
				}
			}
			return nil
		},
	}
	var err error
	e.mux, err = dynMux([]protoreflect.FileDescriptor{fd}, impl,
		larking.MaxReceiveMessageSizeOption(recv), larking.MaxSendMessageSizeOption(send))
	if err != nil {
		panic(err)
	}
	c08envs[key] = e
	return e
}

type c08Desc struct {
	kind   byte
	cut    int // m<size>b<cut>
	size   int
	random bool
	prefix uint64
}

func c08ParseDescs(s string) []c08Desc {
	var ds []c08Desc
	if s == "-" || s == "" {
		return nil
	}
	for _, f := range strings.Split(s, ",") {
		d := c08Desc{kind: f[0]}
		body := f[1:]
		if d.kind == 'p' {
			ps, as, _ := strings.Cut(body, ":")
			p, err := strconv.ParseUint(ps, 10, 64)
			if err != nil {
				panic(err)
			}
			d.prefix, d.size = p, atoi(as)
		} else {
			if strings.HasSuffix(body, "r") {
				d.random, body = true, strings.TrimSuffix(body, "r")
			}
			if sz, cut, ok := strings.Cut(body, "b"); ok {
				body, d.cut = sz, atoi(cut)
			}
			d.size = atoi(body)
		}
		ds = append(ds, d)
	}
	return ds
}

func c08Codec(path string) string {
	switch path {
	case "hu-json", "hs-json", "ws":
		return "json"
	case "hu-body", "hs-body":
		return "body"
	}
	return "proto"
}

type c08ChunkReader struct {
	data []byte
	k    int
}

func (c *c08ChunkReader) Read(p []byte) (int, error) {
	if len(c.data) == 0 {
		return 0, io.EOF
	}
	n := c.k
	if n > len(p) {
		n = len(p)
	}
	if n > len(c.data) {
		n = len(c.data)
	}
	copy(p, c.data[:n])
	c.data = c.data[n:]
	if len(c.data) == 0 {
		return n, io.EOF
	}
	return n, nil
}

func c08Frame(flag byte, prefix uint32, payload []byte) []byte {
	h := []byte{flag, 0, 0, 0, 0}
	binary.BigEndian.PutUint32(h[1:], prefix)
	return append(h, payload...)
}

// the parts of a response every path reports
type c08Resp struct {
	ok       bool // the call succeeded as the client sees it
	sizeErr  bool // the client-visible code is ResourceExhausted
	frames   [][]byte
	rest     int
	panicked bool
}

func c08ParseGrpcBody(body []byte, gz bool) (frames [][]byte, trailers map[string]string, rest int) {
	trailers = map[string]string{}
	for len(body) >= 5 {
		l := int(binary.BigEndian.Uint32(body[1:5]))
		if len(body) < 5+l {
			break
		}
		p := body[5 : 5+l]
		if body[0]&0x80 != 0 {
			for _, line := range strings.Split(string(p), "\r\n") {
				if k, v, ok := strings.Cut(line, ":"); ok {
					trailers[strings.ToLower(k)] = strings.TrimSpace(v)
				}
			}
		} else {
			if body[0]&1 == 1 {
				if d, err := c08Gunzip(p); err == nil {
					p = d
				}
			}
			frames = append(frames, p)
		}
		body = body[5+l:]
	}
	return frames, trailers, len(body)
}

// c08Do performs one call and returns what the client saw.
func (e *c08Env) do(path, enc, shape string, wire [][]byte, flags []byte, prefixes []uint64, sendCase bool) c08Resp {
	var resp c08Resp
	gz := enc == "gzip"
	switch path {
	case "hu-json", "hu-proto", "hu-body", "hs-json", "hs-proto", "hs-body":
		var body []byte
		for i, w := range wire {
			if path == "hs-proto" && !sendCase {
				body = protowire.AppendVarint(body, prefixes[i])
			}
			body = append(body, w...)
		}
		url := map[string]string{"hu-json": "/c08/unary", "hu-proto": "/c08/unary", "hu-body": "/c08/body/f",
			"hs-json": "/c08/cstream", "hs-proto": "/c08/cstream", "hs-body": "/c08/bodys/f"}[path]
		if sendCase && (path == "hs-json" || path == "hs-proto") {
			url = "/c08/sstream"
		}
		ct := map[string]string{"json": "application/json", "proto": "application/protobuf", "body": "image/jpeg"}[c08Codec(path)]
		if gz && !sendCase {
			body = c08Gzip(body)
		}
		r := httptest.NewRequest("POST", url, bytes.NewReader(body))
		if shape == "chunks" {
			// the body arrives 3 bytes per Read, the last bytes together with io.EOF, length unknown
			r.Body = io.NopCloser(&c08ChunkReader{data: body, k: 3})
			r.ContentLength = -1
		}
		r.Header.Set("Content-Type", ct)
		if gz && !sendCase {
			r.Header.Set("Content-Encoding", "gzip")
		}
		if gz && sendCase {
			r.Header.Set("Accept-Encoding", "gzip")
		}
		w, p := serveRec(e.mux, r)
		if p != "" {
			resp.panicked = true
			return resp
		}
		resp.ok = w.Code == 200
		resp.sizeErr = w.Code == larking.HTTPStatusCode(codes.ResourceExhausted)
		rb := w.Body.Bytes()
		if w.Result().Header.Get("Content-Encoding") == "gzip" {
			if d, err := c08Gunzip(rb); err == nil {
				rb = d
			} else {
				resp.rest = -1
			}
		}
		resp.frames = [][]byte{rb}
	case "grpc", "web", "webtext":
		var body []byte
		for i, w := range wire {
			body = append(body, c08Frame(flags[i], uint32(prefixes[i]), w)...)
		}
		full := "/verif.c08.Lsvc/ClientStream"
		if sendCase {
			full = "/verif.c08.Lsvc/ServerStream"
		}
		if shape == "unary" {
			full = "/verif.c08.Lsvc/Unary"
		}
		var rd io.Reader = bytes.NewReader(body)
		if path == "webtext" {
			rd = strings.NewReader(base64.StdEncoding.EncodeToString(body))
		}
		r := httptest.NewRequest("POST", full, rd)
		switch path {
		case "grpc":
			r.ProtoMajor, r.ProtoMinor = 2, 0
			r.Header.Set("Content-Type", "application/grpc")
		case "web":
			r.Header.Set("Content-Type", "application/grpc-web+proto")
		case "webtext":
			r.Header.Set("Content-Type", "application/grpc-web-text+proto")
		}
		if gz {
			r.Header.Set("Grpc-Encoding", "gzip")
		}
		w, p := serveRec(e.mux, r)
		if p != "" {
			resp.panicked = true
			return resp
		}
		rb := w.Body.Bytes()
		if path == "webtext" {
			if d, err := base64.StdEncoding.DecodeString(string(rb)); err == nil {
				rb = d
			}
		}
		frames, tr, rest := c08ParseGrpcBody(rb, gz)
		resp.frames, resp.rest = frames, rest
		st := ""
		if path == "grpc" {
			res := w.Result()
			if v := res.Trailer.Get("Grpc-Status"); v != "" {
				st = v
			} else {
				st = res.Header.Get("Grpc-Status")
			}
		} else {
			if v, ok := tr["grpc-status"]; ok {
				st = v
			} else {
				st = w.Result().Header.Get("Grpc-Status") // (the header as it went out)
			}
		}
		resp.ok = w.Code == 200 && st == "0"
		resp.sizeErr = st == strconv.Itoa(int(codes.ResourceExhausted))
	case "ws":
		e.mu.Lock()
		if e.lb == nil {
			lb, err := newLoopback(e.mux)
			if err != nil {
				panic(err)
			}
			e.lb = lb
		}
		e.done = make(chan struct{})
		done := e.done
		e.mu.Unlock()
		ctx, cancel := context.WithTimeout(context.Background(), 5*time.Second)
		defer cancel()
		conn, _, _, err := ws.Dial(ctx, "ws"+strings.TrimPrefix(e.lb.url, "http")+"/c08/ws")
		if err != nil {
			return resp
		}
		defer conn.Close()
		conn.SetDeadline(time.Now().Add(5 * time.Second))
		go func() { // the server may stop reading after a refusal
			for _, w := range wire {
				if shape == "frag" && len(w) >= 2 {
					h := len(w) / 2
					f1 := ws.NewFrame(ws.OpText, false, append([]byte(nil), w[:h]...))
					f2 := ws.NewFrame(ws.OpContinuation, true, append([]byte(nil), w[h:]...))
					if ws.WriteFrame(conn, ws.MaskFrameInPlace(f1)) != nil || ws.WriteFrame(conn, ws.MaskFrameInPlace(f2)) != nil {
						return
					}
					continue
				}
				if ws.WriteFrame(conn, ws.MaskFrameInPlace(ws.NewTextFrame(append([]byte(nil), w...)))) != nil {
					return
				}
			}
		}()
		for {
			h, err := ws.ReadHeader(conn)
			if err != nil || h.Length > 1<<26 {
				break
			}
			p := make([]byte, h.Length)
			if _, err := io.ReadFull(conn, p); err != nil {
				break
			}
			if h.OpCode == ws.OpClose {
				code, _ := ws.ParseCloseFrameData(p)
				resp.ok = code == 1000
				break
			}
			if h.OpCode == ws.OpText || h.OpCode == ws.OpBinary {
				resp.frames = append(resp.frames, p)
			}
		}
		select {
		case <-done:
		case <-time.After(5 * time.Second):
		}
		e.mu.Lock()
		e.done = nil
		e.mu.Unlock()
	default:
		panic("bad C08 path " + path)
	}
	return resp
}

func c08Run(o *out, input string) {
	f := strings.Fields(input)
	if len(f) != 7 {
		panic("bad C08 case: " + input)
	}
	path, recv, send, enc, shape := f[1], atoi(f[2]), atoi(f[3]), f[4], f[5]
	e := c08Setup(recv, send)
	codec := c08Codec(path)
	gz := enc == "gzip"
	grpcFam := path == "grpc" || path == "web" || path == "webtext"
	e.mu.Lock()
	e.got, e.recvErr, e.att, e.sendRes, e.replies, e.codec, e.byBytes = nil, nil, nil, nil, nil, codec, false
	e.mu.Unlock()
	switch f[0] {
	case "C08R":
		ds := c08ParseDescs(f[6])
		var wire [][]byte
		var flags []byte
		var prefixes []uint64
		var fps []int
		var csizes []string
		for _, d := range ds {
			switch d.kind {
			case 'p':
				b, _, _ := c08Wire(codec, 'm', d.size, false)
				wire, flags, prefixes, fps = append(wire, b), append(flags, b2byte(gz && grpcFam)), append(prefixes, d.prefix), append(fps, -1)
			default:
				b, fp, valid := c08Wire(codec, d.kind, d.size, d.random)
				if d.kind == 'm' && d.cut > 0 && codec == "proto" {
					b = c08TwoField(d.size, d.cut)
					fp, valid = d.size, true
				}
				if !valid {
					fp = -1
				}
				if d.kind == 'z' {
					b = c08TwoField(d.size, d.cut)
					fp, valid = d.size, true
				}
				flag := byte(0)
				if grpcFam && gz && d.kind != 'u' {
					flag = 1
					if d.kind == 'z' {
						// one message as two concatenated gzip members (RFC 1952 section 2.2): the size recorded in the
						// frame's last four bytes is the last member's only
						b = append(c08Gzip(b[:d.cut]), c08Gzip(b[d.cut:])...)
						csizes = append(csizes, strconv.Itoa(len(b)))
					} else if d.kind != 'x' {
						b = c08Gzip(b)
						csizes = append(csizes, strconv.Itoa(len(b)))
					}
				}
				wire, flags, prefixes, fps = append(wire, b), append(flags, flag), append(prefixes, uint64(len(b))), append(fps, fp)
			}
		}
		e.expect = len(ds)
		if path == "hs-body" {
			e.byBytes, e.expect = true, 0
			for _, d := range ds {
				e.expect += d.size
			}
		}
		resp := e.do(path, enc, shape, wire, flags, prefixes, false)
		if resp.panicked {
			o.emit(input, "panic")
			return
		}
		e.mu.Lock()
		got, rerr := append([]int(nil), e.got...), e.recvErr
		e.mu.Unlock()
		var gs []string
		for i, g := range got {
			switch {
			case path == "hs-body":
				gs = append(gs, strconv.Itoa(g))
			case i < len(ds) && fps[i] == g && ds[i].kind != 'p':
				gs = append(gs, strconv.Itoa(ds[i].size))
			case i < len(ds) && ds[i].kind == 'p' && ds[i].prefix == uint64(ds[i].size) && g == ds[i].size:
				gs = append(gs, strconv.Itoa(ds[i].size))
			default:
				gs = append(gs, "bad")
			}
		}
		end := "ok"
		if !resp.ok {
			end = "refused"
			if resp.sizeErr || c08IsSize(rerr) {
				end = "size"
			}
		}
		o.emit(input, fmt.Sprintf("%s %s %s", joinOr(gs), end, joinOr(csizes)))
	case "C08S":
		e.replies = unints(f[6])
		e.expect = 1
		reqWire, _, _ := c08Wire(codec, 'm', map[string]int{"json": 2, "proto": 0, "body": 1}[codec], false)
		if path == "ws" || path == "hs-body" {
			e.expect = 1
		}
		if path == "hs-body" {
			e.byBytes = true
		}
		resp := e.do(path, enc, shape, [][]byte{reqWire}, []byte{0}, []uint64{uint64(len(reqWire))}, true)
		if resp.panicked {
			o.emit(input, "panic")
			return
		}
		e.mu.Lock()
		att, sres := append([]int(nil), e.att...), append([]error(nil), e.sendRes...)
		e.mu.Unlock()
		unary := shape == "unary" || (shape == "chunks" && strings.HasPrefix(path, "hu-"))
		var res, arr []string
		switch {
		case unary:
			// the reply is sent by larking after the handler returned
			if len(att) == 1 {
				if resp.ok && len(resp.frames) >= 1 && e.sameReply(e.replies[0], resp.frames[0]) {
					res = append(res, "ok")
				} else if resp.sizeErr {
					res = append(res, "size")
				} else {
					res = append(res, "err")
				}
			}
			// arrived = the client holds exactly the reply's encoding (an HTTP refusal may come as
			// a 200 whose body is the status)
			if len(att) == 1 && len(resp.frames) >= 1 {
				if e.sameReply(e.replies[0], resp.frames[0]) {
					arr = append(arr, strconv.Itoa(len(resp.frames[0])))
				}
			}
		default:
			for _, err := range sres {
				switch {
				case err == nil:
					res = append(res, "ok")
				case c08IsSize(err):
					res = append(res, "size")
				default:
					res = append(res, "err")
				}
			}
			nOK := 0
			for _, err := range sres {
				if err == nil {
					nOK++
				}
			}
			switch path {
			case "hs-body":
				// the replies are 'a'-filled and WriteNext adds no framing: the bytes that arrived
				// are the leading run of 'a' (a refusal appends a status object)
				if len(resp.frames) == 1 {
					n := 0
					for n < len(resp.frames[0]) && resp.frames[0][n] == 'a' {
						n++
					}
					arr = append(arr, strconv.Itoa(n))
					if nOK == len(sres) && n != len(resp.frames[0]) {
						arr = append(arr, "trailing"+strconv.Itoa(len(resp.frames[0])-n))
					}
				}
			case "hs-json", "hs-proto":
				// the first nOK frames are the replies; a refusal appends an unframed status
				rb := resp.frames[0]
				for i := 0; i < nOK && len(rb) > 0; i++ {
					if path == "hs-proto" {
						v, n := protowire.ConsumeVarint(rb)
						if n < 0 || uint64(len(rb)-n) < v {
							arr = append(arr, "bad")
							break
						}
						arr = append(arr, strconv.FormatUint(v, 10))
						rb = rb[n+int(v):]
					} else {
						n := c08JSONEnd(rb)
						if n <= 0 {
							arr = append(arr, "bad")
							break
						}
						arr = append(arr, strconv.Itoa(n))
						rb = rb[n:]
					}
				}
				if nOK == len(sres) && len(rb) != 0 {
					arr = append(arr, "trailing"+strconv.Itoa(len(rb)))
				}
			default:
				for _, fr := range resp.frames {
					arr = append(arr, strconv.Itoa(len(fr)))
				}
			}
		}
		end := "ok"
		if !resp.ok {
			end = "refused"
		}
		o.emit(input, fmt.Sprintf("%s %s %s %s", ints(att), joinOr(res), joinOr(arr), end))
	default:
		panic("bad C08 case " + input)
	}
}

// c08JSONEnd: length of the first brace-balanced object (no strings with braces are ever sent)
func c08JSONEnd(b []byte) int {
	depth, inStr, esc := 0, false, false
	for i, c := range b {
		switch {
		case esc:
			esc = false
		case inStr:
			if c == '\\' {
				esc = true
			} else if c == '"' {
				inStr = false
			}
		case c == '"':
			inStr = true
		case c == '{':
			depth++
		case c == '}':
			depth--
			if depth == 0 {
				return i + 1
			}
		}
	}
	return -1
}

func b2byte(b bool) byte {
	if b {
		return 1
	}
	return 0
}

func joinOr(ss []string) string {
	if len(ss) == 0 {
		return "-"
	}
	return strings.Join(ss, ",")
}

var c08Limits = []int{1, 5, 64, 128, 4096}

func c08Gen(o *out, r *rng, tier string) {
	c08File()
	rpaths := []string{"hu-json", "hu-proto", "hu-body", "hs-json", "hs-proto", "hs-body", "grpc", "web", "webtext", "ws"}
	grpcFam := func(p string) bool { return p == "grpc" || p == "web" || p == "webtext" }
	// smallest feasible valid encoded size >= n for the codec (proto: no 1-byte message; json: >= 2)
	feasible := func(codec string, n int) int {
		if n < 0 {
			n = 0
		}
		switch codec {
		case "json":
			if n < 2 {
				return 2
			}
		case "proto":
			if n == 1 {
				return 2
			}
		}
		return n
	}
	emitR := func(p string, recv, send int, enc, shape, msgs, tag string) {
		o.count("recv/" + p + "/" + enc + "/" + tag)
		c08Run(o, fmt.Sprintf("C08R %s %d %d %s %s %s", p, recv, send, enc, shape, msgs))
	}
	emitS := func(p string, recv, send int, enc, shape string, sizes []int, tag string) {
		o.count("send/" + p + "/" + enc + "/" + tag)
		c08Run(o, fmt.Sprintf("C08S %s %d %d %s %s %s", p, recv, send, enc, shape, ints(sizes)))
	}
	encs := func(p string) []string {
		if p == "ws" {
			return []string{"id"}
		}
		return []string{"id", "gzip"}
	}
	shapes := func(p string, nmsgs int) []string {
		switch {
		case strings.HasPrefix(p, "hu-"):
			return []string{"unary", "chunks"}
		case strings.HasPrefix(p, "hs-"):
			return []string{"stream", "chunks"}
		case grpcFam(p) && nmsgs == 1:
			return []string{"unary", "stream"}
		case p == "ws":
			return []string{"stream", "frag"}
		}
		return []string{"stream"}
	}
	// ---- receive: the boundary matrix ----
	for _, p := range rpaths {
		codec := c08Codec(p)
		for _, lim := range c08Limits {
			send := c08Limits[2+(lim+1)%3] // unrelated to the receive limit, roomy enough for the empty reply
			for _, enc := range encs(p) {
				for _, sz := range []int{lim - 1, lim, lim + 1, 10 * lim} {
					for _, sh := range shapes(p, 1) {
						if codec != "body" && feasible(codec, sz) != sz {
							if sz > 0 {
								emitR(p, lim, send, enc, sh, fmt.Sprintf("g%d", sz), "garbage")
							}
							continue
						}
						emitR(p, lim, send, enc, sh, fmt.Sprintf("m%d", sz), "boundary")
						if sz > 8 {
							emitR(p, lim, send, enc, sh, fmt.Sprintf("m%dr", sz), "boundary-random")
						}
					}
				}
				if strings.HasPrefix(p, "hu-") {
					continue
				}
				// streams: a within-limit message before and after the boundary message
				small := feasible(codec, lim/2)
				if small > lim {
					continue
				}
				for _, sz := range []int{lim, lim + 1} {
					sz = feasible(codec, sz)
					for _, sh := range shapes(p, 3) {
						emitR(p, lim, send, enc, sh, fmt.Sprintf("m%d,m%d,m%d", small, sz, small), "stream3")
					}
				}
			}
		}
		// highly compressible: 1 MiB under a 128-byte limit (and a roomy limit that admits it)
		for _, enc := range encs(p) {
			for _, sh := range shapes(p, 1) {
				emitR(p, 128, 64, enc, sh, "m1048576", "bomb")
			}
		}
		emitR(p, 4096, 64, encs(p)[len(encs(p))-1], shapes(p, 1)[0], "m40000", "bomb")
	}
	// gRPC family: declared prefixes, uncompressed / corrupt messages on a compressed stream
	for _, p := range []string{"grpc", "web", "webtext"} {
		for _, lim := range c08Limits {
			for _, enc := range []string{"id", "gzip"} {
				for _, pr := range []uint64{1 << 31, 1<<32 - 1, uint64(lim) + 1, uint64(lim), 1 << 24} {
					for _, a := range []int{0, 3} {
						emitR(p, lim, 64, enc, "stream", fmt.Sprintf("p%d:%d", pr, a), "prefix")
					}
				}
				emitR(p, lim, 64, enc, "stream", fmt.Sprintf("p%d:%d", lim, lim), "prefix-exact")
			}
			for _, sz := range []int{lim, lim + 1} {
				if feasible("proto", sz) == sz {
					emitR(p, lim, 64, "gzip", "stream", fmt.Sprintf("u%d", sz), "flag-clear")
				}
				emitR(p, lim, 64, "gzip", "stream", fmt.Sprintf("x%d", sz), "not-gzip")
			}
		}
	}
	// limits that do not fit in 32 bits (MaxReceiveMessageSizeOption takes an int): small messages are within them
	for _, p := range []string{"grpc", "web", "webtext", "hs-proto", "hu-proto", "hu-json", "ws"} {
		for _, lim := range []int{1 << 32, 1<<32 + 16, 1 << 40, 1<<31 + 5} {
			for _, enc := range encs(p) {
				emitR(p, lim, 64, enc, shapes(p, 1)[0], "m100", "limit-above-32-bits")
			}
		}
	}
	// gzip frames made of two members: a large first member and a last member of a few bytes (whose recorded size is all
	// the frame's trailer tells), over and within the limit
	for _, p := range []string{"grpc", "web", "webtext"} {
		for _, lim := range []int{64, 1024, 4096} {
			for _, size := range []int{lim - 9, lim, lim + 1, 3 * lim, 100 * lim} {
				for _, tail := range []int{3, 12} {
					if size-tail > 2 && c08Field(0x0a, size-tail, 'i') != nil && c08Field(0x12, tail, 't') != nil {
						emitR(p, lim, 64, "gzip", "stream", fmt.Sprintf("z%db%d", size, size-tail), "gzip-two-members")
						emitR(p, lim, 64, "gzip", "stream", fmt.Sprintf("m5,z%db%d,m7", size, size-tail), "gzip-two-members")
					}
				}
			}
		}
	}
	// a message over the limit whose first <limit> bytes are a complete message as well: a reader that
	// stops at the limit instead of refusing would hand the handler a truncated message
	for _, p := range []string{"grpc", "web", "webtext", "hs-proto", "hu-proto"} {
		for _, lim := range []int{5, 64, 128, 4096} {
			for _, enc := range encs(p) {
				for _, sh := range shapes(p, 1) {
					for _, size := range []int{lim + 3, 2*lim + 7, 10 * lim} {
						if c08Field(0x0a, lim, 'i') != nil && c08Field(0x12, size-lim, 't') != nil {
							emitR(p, lim, 64, enc, sh, fmt.Sprintf("m%db%d", size, lim), "boundary-at-limit")
						}
					}
				}
			}
		}
	}
	// HTTP protobuf streams: varint prefixes up to 2^64-1
	for _, lim := range c08Limits {
		for _, enc := range []string{"id", "gzip"} {
			for _, pr := range []uint64{1 << 31, 1<<32 - 1, 1 << 32, 1 << 63, 1<<63 - 1, 1<<64 - 1, uint64(lim) + 1, uint64(lim)} {
				for _, a := range []int{0, 3} {
					emitR("hs-proto", lim, 64, enc, "stream", fmt.Sprintf("p%d:%d", pr, a), "prefix")
				}
			}
			emitR("hs-proto", lim, 64, enc, "stream", fmt.Sprintf("m%d,p%d:%d", feasible("proto", lim/2), uint64(1)<<63, 2), "prefix-after")
		}
	}
	// ---- send: the boundary matrix ----
	spaths := rpaths
	for _, p := range spaths {
		codec := c08Codec(p)
		feasS := func(n int) int {
			if codec == "json" {
				if n <= 2 {
					return 2
				}
				if n <= c08jsonOv {
					return c08jsonOv + 1
				}
				return n
			}
			return feasible(codec, n)
		}
		for _, lim := range c08Limits {
			for _, recv := range []int{c08Limits[1+(lim+2)%4], 2, 1 << 20} {
				for _, enc := range encs(p) {
					shp := "stream"
					if strings.HasPrefix(p, "hu-") {
						shp = "unary"
					}
					if strings.HasPrefix(p, "h") && recv == 2 {
						shp = "chunks"
					}
					for _, sz := range []int{lim - 1, lim, lim + 1, 10 * lim} {
						emitS(p, recv, lim, enc, shp, []int{feasS(sz)}, "boundary")
						if grpcFam(p) {
							emitS(p, recv, lim, enc, "unary", []int{feasS(sz)}, "boundary")
						}
					}
					if shp == "stream" {
						small := feasS(lim / 2)
						emitS(p, recv, lim, enc, shp, []int{small, feasS(lim), small, feasS(lim + 1), small}, "stream5")
					}
				}
			}
		}
	}
	// ---- random cases ----
	n := 1500
	if tier == "thorough" {
		n = 30000
	}
	for i := 0; i < n; i++ {
		p := rpaths[r.intn(len(rpaths))]
		codec := c08Codec(p)
		lim := c08Limits[r.intn(len(c08Limits))]
		if r.intn(4) == 0 {
			lim = 1 + r.intn(300)
		}
		other := c08Limits[2+r.intn(len(c08Limits)-2)]
		enc := encs(p)[r.intn(len(encs(p)))]
		pickSize := func() int {
			switch r.intn(6) {
			case 0:
				return lim - 1
			case 1:
				return lim
			case 2:
				return lim + 1
			case 3:
				return r.intn(lim + 1)
			case 4:
				return lim + 1 + r.intn(3*lim+2)
			}
			return r.intn(2*lim + 2)
		}
		if r.bool() {
			k := 1
			if !strings.HasPrefix(p, "hu-") && p != "hs-body" {
				k = 1 + r.intn(4)
			}
			var ms []string
			for j := 0; j < k; j++ {
				sz := pickSize()
				switch {
				case (grpcFam(p) || p == "hs-proto") && j == k-1 && r.intn(6) == 0:
					pr := []uint64{uint64(sz), uint64(lim) + 1, 1 << 31, 1<<32 - 1}[r.intn(4)]
					if p == "hs-proto" && r.bool() {
						pr = []uint64{1 << 63, 1<<64 - 1, 1 << 32, r.u64()}[r.intn(4)]
					}
					a := r.intn(lim + 2)
					if uint64(a) > pr {
						a = int(pr) // at most the declared bytes follow
					}
					ms = append(ms, fmt.Sprintf("p%d:%d", pr, a))
				case grpcFam(p) && enc == "gzip" && r.intn(8) == 0:
					if r.bool() && feasible("proto", sz) == sz {
						ms = append(ms, fmt.Sprintf("u%d", sz))
					} else {
						ms = append(ms, fmt.Sprintf("x%d", sz))
					}
				case codec != "body" && (feasible(codec, sz) != sz || r.intn(12) == 0):
					if sz < 1 {
						sz = 1
					}
					if p == "hs-json" && sz == 1 && j != k-1 {
						sz = 3 // an object that never closes swallows the rest of a JSON stream: last position only
					}
					ms = append(ms, fmt.Sprintf("g%d", sz))
				default:
					if sz < 0 {
						sz = 0
					}
					suffix := ""
					if r.intn(3) == 0 {
						suffix = "r"
					}
					ms = append(ms, fmt.Sprintf("m%d%s", sz, suffix))
				}
			}
			sh := shapes(p, k)
			shape := sh[r.intn(len(sh))]
			if last := ms[len(ms)-1]; grpcFam(p) && (last[0] == 'p' || last == "x0") {
				shape = "stream" // a frame that stops short is an end of stream, which a unary call does not have
			}
			emitR(p, lim, other, enc, shape, strings.Join(ms, ","), "random")
		} else {
			shp := "stream"
			k := 1 + r.intn(4)
			if strings.HasPrefix(p, "hu-") || (grpcFam(p) && r.intn(3) == 0) {
				shp, k = "unary", 1
			}
			if strings.HasPrefix(p, "h") && r.intn(3) == 0 {
				shp = "chunks"
			}
			var szs []int
			for j := 0; j < k; j++ {
				sz := pickSize()
				if codec == "json" {
					if sz <= 2 {
						sz = 2
					} else if sz <= c08jsonOv {
						sz = c08jsonOv + 1
					}
				} else {
					sz = feasible(codec, sz)
				}
				szs = append(szs, sz)
			}
			emitS(p, other, lim, enc, shp, szs, "random")
		}
	}
	for _, e := range c08envs {
		if e.lb != nil {
			e.lb.close()
			e.lb = nil
		}
	}
}

func init() { props["C08"] = prop{gen: c08Gen, run: c08Run} }
