package main

import (
	"math"
	"sort"
	"strconv"
	"strings"
	"time"

	"google.golang.org/protobuf/encoding/protojson"
	"google.golang.org/protobuf/proto"
	"google.golang.org/protobuf/reflect/protoreflect"
	"google.golang.org/protobuf/types/dynamicpb"
	"google.golang.org/protobuf/types/known/durationpb"
	"google.golang.org/protobuf/types/known/fieldmaskpb"
	"google.golang.org/protobuf/types/known/timestamppb"
	"google.golang.org/protobuf/types/known/wrapperspb"
)

// ---------- values ----------

var c03Int64s = []int64{0, 1, -1, 2, 7, 42, 127, 128, 255, 256, -128, -129, 65535, 65536, 2147483646, 2147483647, 2147483648,
	-2147483647, -2147483648, -2147483649, 4294967295, 4294967296, 9007199254740993, math.MaxInt64 - 1, math.MaxInt64, math.MinInt64, math.MinInt64 + 1}
var c03Uint64s = []uint64{0, 1, 2, 9, 10, 255, 4294967294, 4294967295, 4294967296, 1 << 63, 1<<63 - 1, 1<<63 + 1, math.MaxUint64 - 1, math.MaxUint64}
var c03Floats = []float64{0, 1, -1, 0.5, -0.25, 1.5e10, 3.4028234663852886e38, 1.401298464324817e-45, 1e-7, 123456.789, -2.5e-3, 16777217,
	math.MaxFloat64, math.SmallestNonzeroFloat64, 1e21, 1e20, 0.1, math.Copysign(0, -1)}
var c03PathChars = "abcXYZ019_-.~!$&'()*+,;=@"
var c03Strings = []string{"", "a", "x y", "a/b", "ü", "日本", "a&b=c", "%41", "+", "null", "true", "0", "\"q\"", "a\\b", "line\nbreak", " lead", "trail ",
	"a.b", "A-Z_0", "é", "?", "#frag", "a:b", "\x01"}

func c03PathString(r *rng) string {
	n := 1 + r.intn(6)
	b := make([]byte, n)
	for i := range b {
		b[i] = c03PathChars[r.intn(len(c03PathChars))]
	}
	s := string(b)
	if r.intn(8) == 0 {
		s += "é"
	}
	return s
}

func c03Bytes(r *rng) []byte {
	switch r.intn(10) {
	case 0:
		return []byte{}
	case 1:
		return []byte{byte(r.pick([]int{0, 1, 0x3e, 0x3f, 0xfb, 0xff, 0x80, 'A'}))}
	case 2:
		return []byte{0xfb, 0xff}
	case 3:
		return []byte{0xfb, 0xef, 0xbe} // "++++" / "----"
	case 4:
		return []byte{0xff, 0xff, 0xff} // "////" / "____"
	case 5:
		return []byte{0, 0, 0}
	}
	return r.bytes(r.intn(9))
}

func c03InRange(fd protoreflect.FieldDescriptor, x int64) bool {
	switch fd.Kind() {
	case protoreflect.Int32Kind, protoreflect.Sint32Kind, protoreflect.Sfixed32Kind:
		return x >= math.MinInt32 && x <= math.MaxInt32
	}
	return true
}

// a value for one element of fd; pathSafe: its text must survive as a URL path segment
func c03GenValue(r *rng, fd protoreflect.FieldDescriptor, pathSafe bool) protoreflect.Value {
	switch fd.Kind() {
	case protoreflect.BoolKind:
		return protoreflect.ValueOfBool(r.bool())
	case protoreflect.Int32Kind, protoreflect.Sint32Kind, protoreflect.Sfixed32Kind:
		for {
			x := c03Int64s[r.intn(len(c03Int64s))]
			if r.intn(4) == 0 {
				x = int64(int32(r.u64()))
			}
			if c03InRange(fd, x) {
				return protoreflect.ValueOfInt32(int32(x))
			}
		}
	case protoreflect.Int64Kind, protoreflect.Sint64Kind, protoreflect.Sfixed64Kind:
		x := c03Int64s[r.intn(len(c03Int64s))]
		if r.intn(4) == 0 {
			x = int64(r.u64())
		}
		return protoreflect.ValueOfInt64(x)
	case protoreflect.Uint32Kind, protoreflect.Fixed32Kind:
		for {
			x := c03Uint64s[r.intn(len(c03Uint64s))]
			if r.intn(4) == 0 {
				x = uint64(uint32(r.u64()))
			}
			if x <= math.MaxUint32 {
				return protoreflect.ValueOfUint32(uint32(x))
			}
		}
	case protoreflect.Uint64Kind, protoreflect.Fixed64Kind:
		x := c03Uint64s[r.intn(len(c03Uint64s))]
		if r.intn(4) == 0 {
			x = r.u64()
		}
		return protoreflect.ValueOfUint64(x)
	case protoreflect.FloatKind:
		for {
			x := c03Floats[r.intn(len(c03Floats))]
			if r.intn(4) == 0 {
				x = float64(math.Float32frombits(uint32(r.u64())))
			}
			f := float32(x)
			if !math.IsInf(float64(f), 0) && !math.IsNaN(float64(f)) {
				return protoreflect.ValueOfFloat32(f)
			}
		}
	case protoreflect.DoubleKind:
		for {
			x := c03Floats[r.intn(len(c03Floats))]
			if r.intn(4) == 0 {
				x = math.Float64frombits(r.u64())
			}
			if !math.IsInf(x, 0) && !math.IsNaN(x) {
				return protoreflect.ValueOfFloat64(x)
			}
		}
	case protoreflect.StringKind:
		if pathSafe {
			return protoreflect.ValueOfString(c03PathString(r))
		}
		if r.intn(3) == 0 {
			return protoreflect.ValueOfString(c03PathString(r))
		}
		return protoreflect.ValueOfString(c03Strings[r.intn(len(c03Strings))])
	case protoreflect.BytesKind:
		b := c03Bytes(r)
		if pathSafe && len(b) == 0 {
			b = []byte{0xfb}
		}
		return protoreflect.ValueOfBytes(b)
	case protoreflect.EnumKind:
		vals := fd.Enum().Values()
		if vals.Len() > 1 && r.intn(5) != 0 {
			return protoreflect.ValueOfEnum(vals.Get(r.intn(vals.Len())).Number())
		}
		if fd.Enum().FullName() == "google.protobuf.NullValue" {
			return protoreflect.ValueOfEnum(0)
		}
		return protoreflect.ValueOfEnum(protoreflect.EnumNumber(r.pick([]int{3, 17, -5, 2147483646, -2147483648})))
	case protoreflect.MessageKind:
		return protoreflect.ValueOfMessage(c03GenWkt(r, c03WktCode(fd.Message()), pathSafe).ProtoReflect())
	}
	panic("c03GenValue: " + fd.Kind().String())
}

func c03GenWkt(r *rng, code string, pathSafe bool) proto.Message {
	switch code {
	case "ts":
		secs := []int64{0, 1, -1, 1600000000, 253402300799, -62135596800, 951782400}
		nanos := []int32{0, 1, 999999999, 500000000, 120000000, 1000}
		return &timestamppb.Timestamp{Seconds: secs[r.intn(len(secs))], Nanos: nanos[r.intn(len(nanos))]}
	case "du":
		switch r.intn(6) {
		case 0:
			return durationpb.New(0)
		case 1:
			return &durationpb.Duration{Seconds: -1, Nanos: -500000000}
		case 2:
			return &durationpb.Duration{Seconds: 315576000000, Nanos: 999999999}
		case 3:
			return &durationpb.Duration{Seconds: -315576000000}
		case 4:
			return &durationpb.Duration{Nanos: -1}
		}
		return durationpb.New(time.Duration(int64(r.u64()>>12)) - time.Duration(1<<50))
	case "wb":
		return wrapperspb.Bool(r.bool())
	case "wi32":
		return wrapperspb.Int32(int32(c03Int64s[r.intn(len(c03Int64s))]))
	case "wi64":
		return wrapperspb.Int64(c03Int64s[r.intn(len(c03Int64s))])
	case "wu32":
		return wrapperspb.UInt32(uint32(c03Uint64s[r.intn(len(c03Uint64s))]))
	case "wu64":
		return wrapperspb.UInt64(c03Uint64s[r.intn(len(c03Uint64s))])
	case "wf":
		for {
			f := float32(c03Floats[r.intn(len(c03Floats))])
			if !math.IsInf(float64(f), 0) {
				return wrapperspb.Float(f)
			}
		}
	case "wd":
		return wrapperspb.Double(c03Floats[r.intn(len(c03Floats))])
	case "wy":
		b := c03Bytes(r)
		if pathSafe {
			// protojson emits the padded standard alphabet: keep '/' out of a path segment
			for len(b) == 0 || strings.Contains(c03B64(b, 0), "/") {
				b = []byte{byte('a' + r.intn(20)), byte(r.intn(60))}
			}
		}
		return wrapperspb.Bytes(b)
	case "ws":
		if pathSafe {
			return wrapperspb.String(c03PathString(r))
		}
		// the text of a string wrapper that begins and ends with '"' is not quoted by larking: keep to plain ones
		ss := []string{"a", "x y", "ü", "a&b=c", "+", "null", "0", "a.b", "日本", "😀", "𝄞 clef", "a𐍈b", "tab\there", "\u00e9 literally"}
		return wrapperspb.String(ss[r.intn(len(ss))])
	case "fm":
		ps := [][]string{{"a"}, {"a", "b_c"}, {"sub.name", "f_int32"}, {"x.y.z"}, {}}
		p := ps[r.intn(len(ps))]
		if pathSafe && len(p) == 0 {
			p = []string{"a"}
		}
		return &fieldmaskpb.FieldMask{Paths: p}
	}
	panic("c03GenWkt " + code)
}

// ---------- messages ----------

func c03IsWkt(fd protoreflect.FieldDescriptor) bool {
	return fd.Message() != nil && c03WktCode(fd.Message()) != "0"
}

// fill m with a random subset of its fields. queryable: only what a query string can express
// (no repeated plain messages, every present plain sub-message non-empty).
func c03Fill(r *rng, m protoreflect.Message, depth int, queryable bool, density int) {
	fds := m.Descriptor().Fields()
	for i := 0; i < fds.Len(); i++ {
		fd := fds.Get(i)
		if r.intn(100) >= density {
			continue
		}
		switch {
		case fd.IsMap():
			continue
		case fd.Message() != nil && string(fd.Message().FullName()) == "google.protobuf.Struct":
			continue
		case fd.IsList():
			if fd.Message() != nil && !c03IsWkt(fd) {
				if queryable || depth <= 0 {
					continue
				}
				l := m.Mutable(fd).List()
				for n := r.intn(3); n >= 0; n-- {
					sub := dynamicpb.NewMessage(fd.Message())
					c03Fill(r, sub, depth-1, false, density)
					l.Append(protoreflect.ValueOfMessage(sub))
				}
				continue
			}
			l := m.Mutable(fd).List()
			for n := r.intn(4); n >= 0; n-- {
				l.Append(c03GenValue(r, fd, false))
			}
		case fd.Message() != nil && !c03IsWkt(fd):
			if depth <= 0 {
				continue
			}
			sub := m.Mutable(fd).Message()
			c03Fill(r, sub, depth-1, queryable, density)
			if queryable && c03Flatten(sub) == "" {
				// give it one leaf
				lf := sub.Descriptor().Fields().Get(0)
				v := c03GenValue(r, lf, true)
				sub.Set(lf, v)
				if !sub.Has(lf) {
					m.Clear(fd)
				}
			}
		default:
			m.Set(fd, c03GenValue(r, fd, false))
		}
	}
}

// set the path-bound fields of M to path-safe values and return their capture texts
func (e *c03Env) genCaps(r *rng, M protoreflect.Message, rule c03Rule) []string {
	caps := make([]string, len(rule.Vars))
	for i, v := range rule.Vars {
		fds := c03Resolve(e.root, v)
		last := fds[len(fds)-1]
		for {
			val := c03GenValue(r, last, true)
			txt := c03ValueText(last, val, 2+r.intn(2)+4*r.intn(2)) // URL alphabets only in a path
			if strings.HasPrefix(rule.Tmpl, "/c03/r9/") {
				txt = "shelves/" + txt
				val = protoreflect.ValueOfString(txt)
			}
			if txt == "" || strings.ContainsAny(txt, "/:?#% \"\\") && !strings.HasPrefix(txt, "shelves/") {
				continue
			}
			if strings.HasPrefix(txt, "shelves/") && strings.ContainsAny(txt[8:], "/:?#% \"\\") {
				continue
			}
			c03SetPath(M, fds, val)
			caps[i] = txt
			break
		}
	}
	return caps
}

type c03Split struct {
	Caps  []string
	Query []c03KV
	Body  *c03Body
	OK    bool
}

// the client side of a rule: captures for the variables, the body part, the rest as query.
func (e *c03Env) split(r *rng, M protoreflect.Message, rule c03Rule, caps []string, codec string, gz int, keepInBody bool) c03Split {
	sp := c03Split{Caps: caps, OK: true}
	rest := proto.Clone(M.Interface()).ProtoReflect()
	for _, v := range rule.Vars {
		c03ClearPath(rest, c03Resolve(e.root, v))
	}
	var bodyMsg protoreflect.Message
	switch rule.Body {
	case "":
	case "*":
		if keepInBody {
			bodyMsg = proto.Clone(M.Interface()).ProtoReflect()
		} else {
			bodyMsg = rest
		}
		rest = dynamicpb.NewMessage(e.root)
	default:
		fds := c03Resolve(e.root, rule.Body)
		src := rest
		if keepInBody {
			src = M
		}
		if sub, ok := c03GetPath(src, fds); ok {
			bodyMsg = proto.Clone(sub.Interface()).ProtoReflect()
		} else {
			bodyMsg = dynamicpb.NewMessage(fds[len(fds)-1].Message())
		}
		c03ClearPath(rest, fds)
	}
	if bodyMsg != nil {
		var raw []byte
		var err error
		if codec == "j" {
			raw, err = protojson.MarshalOptions{UseProtoNames: r.bool(), UseEnumNumbers: r.bool()}.Marshal(bodyMsg.Interface())
		} else {
			raw, err = proto.Marshal(bodyMsg.Interface())
		}
		if err != nil {
			panic(err)
		}
		if len(raw) > 0 {
			sp.Body = &c03Body{Codec: codec, Gz: gz, Raw: raw, Dec: e.decodeBody(rule, codec, raw)}
		} else if rule.Body != "*" && c03Flatten(bodyMsg) == "" {
			// an empty protobuf body is no body: the body field is then absent, which is what M must say
			if _, ok := c03GetPath(M, c03Resolve(e.root, rule.Body)); ok {
				sp.OK = false
			}
		}
	}
	spellJSON := map[string]bool{}
	spell := func(fd protoreflect.FieldDescriptor) string {
		k := string(fd.FullName())
		if _, ok := spellJSON[k]; !ok {
			spellJSON[k] = r.bool()
		}
		if spellJSON[k] {
			return fd.JSONName()
		}
		return string(fd.Name())
	}
	if !c03Leaves(rest, "", spell, func() int { return r.intn(8) }, &sp.Query) {
		sp.OK = false
	}
	// shuffle key groups, keep the order of the values of one key
	keys := []string{}
	groups := map[string][]c03KV{}
	for _, kv := range sp.Query {
		if _, ok := groups[kv.K]; !ok {
			keys = append(keys, kv.K)
		}
		groups[kv.K] = append(groups[kv.K], kv)
	}
	for i := len(keys) - 1; i > 0; i-- {
		j := r.intn(i + 1)
		keys[i], keys[j] = keys[j], keys[i]
	}
	sp.Query = sp.Query[:0]
	for _, k := range keys {
		sp.Query = append(sp.Query, groups[k]...)
	}
	return sp
}

func init() {
	props["C03"] = prop{gen: c03Gen, run: c03Run}
}

func (e *c03Env) genRoundtrip(o *out, r *rng, rule c03Rule) {
	for try := 0; try < 5; try++ {
		M := dynamicpb.NewMessage(e.root)
		queryable := rule.Body != "*"
		c03Fill(r, M, 2, queryable, r.pick([]int{5, 15, 30, 60}))
		if rule.Body != "" && rule.Body != "*" {
			// the body part may hold anything
			cur := protoreflect.Message(M)
			for _, fd := range c03Resolve(e.root, rule.Body) {
				cur = cur.Mutable(fd).Message()
			}
			if r.bool() {
				c03Fill(r, cur, 1, false, 50)
			}
		}
		caps := e.genCaps(r, M, rule)
		codec := r.picks([]string{"j", "p"})
		gz := r.intn(2)
		sp := e.split(r, M, rule, caps, codec, gz, r.intn(3) == 0)
		if !sp.OK {
			continue
		}
		c := &c03Case{Kind: "C03", Rule: rule, Caps: caps, Query: sp.Query, Body: sp.Body, Expect: "M:" + c03Tree(M)}
		e.emit(o, c)
		o.count("rule=" + rule.Name)
		o.count("roundtrip")
		if sp.Body != nil {
			o.count("codec=" + codec)
			o.count("gzip=" + strconv.Itoa(gz))
		}
		return
	}
}

// text that is not a proto3-JSON form of any value of the field
func c03BadTexts(fd protoreflect.FieldDescriptor) []string {
	if fd.Message() != nil {
		switch c03WktCode(fd.Message()) {
		case "ts":
			return []string{"2020-13-01T00:00:00Z", "notatime", "2020-01-01", "1600000000", "2020-01-01T00:00:00"}
		case "du":
			return []string{"1", "1m", "abc", "s", "1.0000000001s", "--1s"}
		case "wb":
			return []string{"TRUE", "1", "yes"}
		case "wi32":
			return []string{"abc", "1.5", "2147483648", "-2147483649"}
		case "wi64":
			return []string{"abc", "1.5", "9223372036854775808"}
		case "wu32":
			return []string{"-1", "4294967296", "x"}
		case "wu64":
			return []string{"-1", "18446744073709551616"}
		case "wf", "wd":
			return []string{"abc", "1e", "--1"}
		case "wy":
			return []string{"Q", "Q!", "QQ=", "-+"}
		}
		return nil
	}
	switch fd.Kind() {
	case protoreflect.BoolKind:
		return []string{"TRUE", "True", "1", "0", "yes", "t", "tru", "truee", "\"true\"", "", "FALSE", "false1"}
	case protoreflect.Int32Kind, protoreflect.Sint32Kind, protoreflect.Sfixed32Kind:
		return []string{"1e2", "1.0", "2147483648", "-2147483649", "+1", "01", "0x1", "--1", "1 2", "\"1\"", "abc", "1_0", "", "1.", "-", "4294967295", "-00", "1e0"}
	case protoreflect.Int64Kind, protoreflect.Sint64Kind, protoreflect.Sfixed64Kind:
		return []string{"9223372036854775808", "-9223372036854775809", "1e2", "1.5", "0x1", "+1", "00", "", "1,0", "18446744073709551615"}
	case protoreflect.Uint32Kind, protoreflect.Fixed32Kind:
		return []string{"-1", "4294967296", "1e2", "1.0", "+1", "-5", "", "0x0", "-2147483648"}
	case protoreflect.Uint64Kind, protoreflect.Fixed64Kind:
		return []string{"-1", "18446744073709551616", "1.0", "1e3", "", "-9223372036854775808", "a"}
	case protoreflect.FloatKind:
		return []string{"abc", "1e", "--1", "1e39", "-1e39", "0x1p3", ".5", "5.", "+1", "1,5", "", "3.5e38"}
	case protoreflect.DoubleKind:
		return []string{"abc", "1e", "--1", "1e999", "-1e309", "0x1p3", ".5", "5.", "+1", "1,5", ""}
	case protoreflect.BytesKind:
		return []string{"-+", "+_", "Q", "QQ=", "QQ===", "Q!", "QUJD=", "=QUJ", "QQ==QQ==", "Q Q", "_/", "QUJDQ", "Q=", "===="}
	case protoreflect.EnumKind:
		if fd.Enum().FullName() == "google.protobuf.NullValue" {
			return []string{"NULL", "nil", "1.0", "Null"}
		}
		return []string{"red", "Red", "UNKNOWN", "1.0", "2147483648", "RED ", "1e1", "", "-2147483649", "RED,GREEN"}
	}
	return nil
}

func c03PathSafe(s string) bool {
	if s == "" {
		return false
	}
	for _, c := range s {
		if !strings.ContainsRune(c03PathChars, c) && !(c >= 'a' && c <= 'z') && !(c >= 'A' && c <= 'Z') && !(c >= '0' && c <= '9') {
			return false
		}
	}
	return true
}

// a valid request in which one text is replaced by one that is invalid for its field
func (e *c03Env) genMalformed(o *out, r *rng, rule c03Rule) {
	M := dynamicpb.NewMessage(e.root)
	c03Fill(r, M, 1, true, 6)
	if rule.Body != "" && rule.Body != "*" {
		cur := protoreflect.Message(M)
		for _, fd := range c03Resolve(e.root, rule.Body) {
			cur = cur.Mutable(fd).Message()
		}
	}
	caps := e.genCaps(r, M, rule)
	sp := e.split(r, M, rule, caps, "j", 0, false)
	if !sp.OK {
		return
	}
	inPath := len(rule.Vars) > 0 && r.bool()
	if inPath {
		i := r.intn(len(rule.Vars))
		fds := c03Resolve(e.root, rule.Vars[i])
		bad := c03BadTexts(fds[len(fds)-1])
		if len(bad) == 0 {
			return
		}
		t := bad[r.intn(len(bad))]
		if !c03PathSafe(t) || strings.HasPrefix(rule.Tmpl, "/c03/r9/") {
			return
		}
		caps = append([]string{}, caps...)
		caps[i] = t
		o.count("malformed=path:" + fds[len(fds)-1].Kind().String())
	} else {
		// any field of Root (or of sub) that a query can name
		var fd protoreflect.FieldDescriptor
		key := ""
		for {
			fds := e.root.Fields()
			fd = fds.Get(r.intn(fds.Len()))
			key = string(fd.Name())
			if r.bool() {
				key = fd.JSONName()
			}
			if fd.Name() == "sub" {
				in := fd.Message().Fields()
				fd = in.Get(r.intn(in.Len()))
				key += "." + string(fd.Name())
			}
			if len(c03BadTexts(fd)) > 0 && !fd.IsMap() {
				break
			}
		}
		bad := c03BadTexts(fd)
		// drop pairs that name the same field, then add the bad one somewhere
		var q []c03KV
		for _, kv := range sp.Query {
			if c03KeyField(e.root, kv.K) != fd {
				q = append(q, kv)
			}
		}
		at := r.intn(len(q) + 1)
		q = append(q[:at], append([]c03KV{{key, bad[r.intn(len(bad))]}}, q[at:]...)...)
		sp.Query = q
		o.count("malformed=query:" + fd.Kind().String())
	}
	c := &c03Case{Kind: "C03", Rule: rule, Caps: caps, Query: sp.Query, Body: sp.Body, Expect: "E"}
	e.emit(o, c)
	o.count("malformed")
}

var c03BadKeys = []string{"subs.name", "subs.leaf.tag", "mp.key", "mp.value", "sub.leaves.tag", "o_msg.leaves.n", "r_ts.seconds", "oMsg.leaves.tag",
	"nope", "sub.nope", "f_string.x", "", "sub..name", ".sub", "sub.", "sub", "st", "subs", "mp", "o_msg", "sub.leaf", "sub.leaves", "F_STRING", "fstring", "st.fields"}

// keys that no query may use: through repeated / map fields (T3), unknown names, plain message fields
func (e *c03Env) genBadKey(o *out, r *rng, rule c03Rule, key string) {
	M := dynamicpb.NewMessage(e.root)
	if rule.Body != "" && rule.Body != "*" {
		cur := protoreflect.Message(M)
		for _, fd := range c03Resolve(e.root, rule.Body) {
			cur = cur.Mutable(fd).Message()
		}
	}
	caps := e.genCaps(r, M, rule)
	sp := e.split(r, M, rule, caps, "j", 0, false)
	q := append(sp.Query, c03KV{key, r.picks([]string{"x", "1", "", "true"})})
	if r.bool() {
		q = append([]c03KV{{"f_int32", "5"}}, q...)
	}
	c := &c03Case{Kind: "C03", Rule: rule, Caps: caps, Query: q, Body: sp.Body, Expect: "E"}
	e.emit(o, c)
	o.count("badkey")
}

var c03Lenient = map[string][]string{
	"f_int32": {" 12", "12\n", "\t-7 ", "null", "-0", "0", " null ", "12\x00", "1\n2"}, "f_uint32": {"null", " 4294967295", "-0", "0"},
	"f_int64": {"null", " -9223372036854775808 ", "-0"}, "f_uint64": {" 18446744073709551615\r\n", "-0", "null"},
	"f_bool": {" true", "false\n", "null", " null"}, "f_enum": {"1", " 2 ", "null", "-1", "7", "2147483647", "RED", " RED", "-0"},
	"f_null":   {"null", "NULL_VALUE", "0", "5", " null"},
	"f_bytes":  {"QR", "QUJD\n", "Q\nQ", "QQ==\n", "QQ\n==", "QUI", "QUI=", "-w", "_w==", "+w==", "/w", "\r\n", "QUJDQQ", "QUJDQR=="},
	"f_string": {"null", "\"q\"", " ", "%"},
	"f_float":  {"1e2", " 1.5", "null", "NaN", "Infinity", "-Infinity", "1E-2", "-0", "3.4028235e38", "16777217"},
	"f_double": {"1e2", "null", "NaN", "Infinity", "-Infinity", "1e308", "4.9e-324", "0.1"},
	"w_string": {"\"abc\"", "\"", "\"\"", "", "a\"b", "\"a", "a\\b", "\\u0041", "\"\\u0041\""}, "w_bytes": {"\"QUJD\"", "QR", "", "\""},
	"w_int64": {"\"5\"", " 5", "5.0", "1e2", "null"}, "w_int32": {"\"5\"", "1e1", "null"}, "w_bool": {"null", "\"true\""},
	"w_double": {"\"NaN\"", "NaN", "\"1.5\"", "Infinity"}, "w_float": {"NaN", "1e39"},
	"ts":      {"\"2020-01-02T03:04:05Z\"", "2020-01-02T03:04:05.5+01:00", "2020-01-02t03:04:05z", "null", "", "0001-01-01T00:00:00Z", "9999-12-31T23:59:59.999999999Z", "10000-01-01T00:00:00Z"},
	"dur":     {"\"1s\"", "1.5s", "-0.5s", "null", "315576000001s", "1.s", "+1s", ""},
	"mask":    {"a,b", "\"a\"", "a_b", "fooBar", "a,,b", "null", " a"},
	"r_int32": {"1", " 2", "null"}, "r_ts": {"2020-01-02T03:04:05Z"},
	"o_str": {""}, "o_int": {"0", "null"}, "p_int32": {"0", "null"}, "p_string": {""},
}

// texts on which only the tie speaks (what exactly is accepted is the model's statement)
func (e *c03Env) genLenient(o *out, r *rng) {
	keys := make([]string, 0, len(c03Lenient))
	for k := range c03Lenient {
		keys = append(keys, k)
	}
	sort.Strings(keys)
	n := 1 + r.intn(3)
	var q []c03KV
	for i := 0; i < n; i++ {
		k := keys[r.intn(len(keys))]
		vs := c03Lenient[k]
		fd := e.root.Fields().ByName(protoreflect.Name(k))
		name := k
		if r.bool() {
			name = fd.JSONName()
		}
		dup := false
		for _, kv := range q {
			if c03KeyField(e.root, kv.K) == fd && kv.K != name {
				dup = true // two spellings of one field race on the map order: not generated
			}
		}
		if dup {
			continue
		}
		q = append(q, c03KV{name, vs[r.intn(len(vs))]})
	}
	rule := c03Rules[0]
	c := &c03Case{Kind: "C03", Rule: rule, Query: q, Expect: "?"}
	e.emit(o, c)
	o.count("lenient")
}

// bodies: malformed, wrong content type, broken compression, body without body rule and vice versa
func (e *c03Env) genBodyCases(o *out, r *rng) {
	for _, rule := range []c03Rule{e.rules["R15"], e.rules["R16"], e.rules["R2"], e.rules["R0"], e.rules["R13"]} {
		M := dynamicpb.NewMessage(e.root)
		c03Fill(r, M, 1, true, 8)
		caps := e.genCaps(r, M, rule)
		raws := [][]byte{[]byte("{"), []byte("{}"), []byte("[]"), []byte("null"), []byte(`{"nope":1}`), []byte(`{"name":"n","id":3}`), []byte(`{"fInt32":7,"sub":{"id":9}}`),
			{0x08}, {0x10, 0x05}, {0x7f}, []byte(" "), []byte(`{"fInt32":"7"}`), []byte(`{"f_int32":1e2}`)}
		raw := raws[r.intn(len(raws))]
		codec := r.picks([]string{"j", "j", "p", "u"})
		gz := r.pick([]int{0, 0, 1, 2})
		dec := e.decodeBody(rule, codec, raw)
		if gz == 2 {
			dec = "Z"
		}
		var q []c03KV
		if r.bool() {
			q = append(q, c03KV{"f_sint32", "-3"})
		}
		body := &c03Body{Codec: codec, Gz: gz, Raw: raw, Dec: dec}
		if r.intn(6) == 0 {
			body = nil
		}
		c := &c03Case{Kind: "C03", Rule: rule, Caps: caps, Query: q, Body: body, Expect: "?"}
		e.emit(o, c)
		o.count("bodycase")
	}
}

func c03Gen(o *out, r *rng, tier string) {
	e := c03Setup()
	rounds := 240
	if tier == "thorough" {
		rounds = 4000
	}
	for n := 0; n < rounds; n++ {
		for _, rule := range c03Rules {
			e.genRoundtrip(o, r, rule)
			e.genMalformed(o, r, rule)
		}
		for i := 0; i < 8; i++ {
			e.genLenient(o, r)
		}
		e.genBadKey(o, r, c03Rules[r.intn(len(c03Rules))], c03BadKeys[n%len(c03BadKeys)])
		e.genBodyCases(o, r)
	}
}
