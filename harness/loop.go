package main

import (
	"context"
	"io"
	"log"
	"net"
	"net/http"
	"time"

	"google.golang.org/grpc"
	"google.golang.org/grpc/credentials/insecure"
	"larking.io/larking"
)

// loopback serves a Mux on 127.0.0.1 with larking.NewServer (HTTP/1 + h2c) and returns a gRPC
// client connection and the base URL.
type loopback struct {
	srv  *http.Server
	lis  net.Listener
	conn *grpc.ClientConn
	url  string
}

func newLoopback(m *larking.Mux, opts ...larking.ServerOption) (*loopback, error) {
	hs, err := larking.NewServer(m, opts...)
	if err != nil {
		return nil, err
	}
	lis, err := net.Listen("tcp", "127.0.0.1:0")
	if err != nil {
		return nil, err
	}
	hs.ErrorLog = log.New(io.Discard, "", 0) // recovered handler panics are observed by the client side
	go hs.Serve(lis)
	conn, err := grpc.Dial(lis.Addr().String(), grpc.WithTransportCredentials(insecure.NewCredentials()))
	if err != nil {
		return nil, err
	}
	return &loopback{srv: hs, lis: lis, conn: conn, url: "http://" + lis.Addr().String()}, nil
}

func (l *loopback) close() {
	l.conn.Close()
	ctx, cancel := context.WithTimeout(context.Background(), 500*time.Millisecond)
	defer cancel()
	l.srv.Shutdown(ctx)
	l.srv.Close()
}
