package main

import (
	"bufio"
	"bytes"
	"context"
	"encoding/base64"
	"encoding/json"
	"fmt"
	"io"
	"net/http"
	"net/http/httptest"
	"strconv"
	"strings"
	"time"
	"unicode/utf8"

	"github.com/gobwas/ws"
	spb "google.golang.org/genproto/googleapis/rpc/status"
	"google.golang.org/grpc"
	"google.golang.org/grpc/codes"
	"google.golang.org/grpc/metadata"
	"google.golang.org/grpc/status"
	"google.golang.org/protobuf/encoding/protodelim"
	"google.golang.org/protobuf/encoding/protojson"
	"google.golang.org/protobuf/proto"
	"google.golang.org/protobuf/reflect/protoreflect"
	"google.golang.org/protobuf/types/dynamicpb"
	"google.golang.org/protobuf/types/known/anypb"
	"google.golang.org/protobuf/types/known/wrapperspb"
	"larking.io/api/testpb"
	"larking.io/larking"
)

// C05: a handler returns a scripted status (after k replies on the streaming method); each
// protocol's client-side view is recorded. Decoding that is larking's own business (percent
// escapes, frames, base64) is left to the extracted Coq functions.
//   C05 <proto> <code> <msg hex> <details 0|1> <k>

type c05Env struct {
	mux     *larking.Mux
	muxBig  *larking.Mux // the default options
	muxSend *larking.Mux // MaxSendMessageSizeOption(48): a limit on reply messages, not on error reports
	lb      *loopback
	code    uint32
	msg     string
	details bool
	k       int
	flags   string // h: the handler sends its header explicitly first; u: the detail is of a type the server does not know;
	// t: the handler waits until the call's deadline has passed before it returns its own status
}

var c05env *c05Env

func c05Setup() *c05Env {
	if c05env != nil {
		return c05env
	}
	e := &c05Env{}
	msg := "larking.testpb.Message"
	f := dynFile{Path: "verif/c05.proto", Pkg: "verif.c05", Services: []dynService{{Name: "Esvc", Methods: []dynMethod{
		{Name: "Unary", In: msg, Out: msg, Rule: &dynRule{Verb: "GET", Tmpl: "/c05/unary"}},
		{Name: "Stream", In: msg, Out: msg, ServerStream: true, Rule: &dynRule{Verb: "GET", Tmpl: "/c05/stream",
			Additional: []dynRule{{Verb: "WEBSOCKET", Tmpl: "/c05/ws", Body: "*"}}}},
	}}}}
	fd, err := f.build()
	if err != nil {
		panic(err)
	}
	mkErr := func() error {
		if e.code == 0 {
			return nil
		}
		st := status.New(codes.Code(e.code), e.msg)
		if e.details && strings.Contains(e.flags, "u") {
			// a detail whose message type is not linked into the server (what a proxied backend may return)
			p := st.Proto()
			p.Details = append(p.Details, &anypb.Any{TypeUrl: "type.googleapis.com/acme.billing.v1.QuotaInfo", Value: []byte{0x0a, 0x03, 'a', 'b', 'c'}})
			return status.FromProto(p).Err()
		}
		if e.details {
			st2, err := st.WithDetails(wrapperspb.String("detail"))
			if err != nil {
				panic(err)
			}
			st = st2
		}
		return st.Err()
	}
	before := func(ctx context.Context, sendHeader func(metadata.MD) error) {
		if strings.Contains(e.flags, "h") {
			sendHeader(metadata.Pairs("x-c05", "1")) //nolint
		}
		if strings.Contains(e.flags, "t") {
			select {
			case <-ctx.Done():
			case <-time.After(2 * time.Second):
			}
		}
	}
	reply := func(out protoreflect.MessageDescriptor, i int) proto.Message {
		m := dynamicpb.NewMessage(out)
		m.Set(out.Fields().ByName("text"), protoreflect.ValueOfString(fmt.Sprintf("reply-%d", i)))
		return m
	}
	impl := &dynImpl{
		Unary: func(ctx context.Context, method string, req proto.Message, out protoreflect.MessageDescriptor) (proto.Message, error) {
			before(ctx, func(md metadata.MD) error { return grpc.SendHeader(ctx, md) })
			if err := mkErr(); err != nil {
				return nil, err
			}
			return reply(out, 0), nil
		},
		Stream: func(method string, in, out protoreflect.MessageDescriptor, ss grpc.ServerStream) error {
			if err := ss.RecvMsg(dynamicpb.NewMessage(in)); err != nil {
				return err
			}
			before(ss.Context(), ss.SendHeader)
			for i := 0; i < e.k; i++ {
				if err := ss.SendMsg(reply(out, i)); err != nil {
					return err
				}
			}
			return mkErr()
		},
	}
	e.mux, err = dynMux([]protoreflect.FileDescriptor{fd}, impl)
	if err != nil {
		panic(err)
	}
	e.muxBig = e.mux
	e.muxSend, err = dynMux([]protoreflect.FileDescriptor{fd}, impl, larking.MaxSendMessageSizeOption(48))
	if err != nil {
		panic(err)
	}
	c05env = e
	return e
}

func serveRec(m http.Handler, r *http.Request) (w *httptest.ResponseRecorder, panicked string) {
	w = httptest.NewRecorder()
	defer func() {
		if p := recover(); p != nil {
			panicked = fmt.Sprint(p)
		}
	}()
	m.ServeHTTP(w, r)
	return w, ""
}

func decodeStatusJSON(b []byte) (*spb.Status, bool) {
	var st spb.Status
	if err := protojson.Unmarshal(b, &st); err != nil {
		return nil, false
	}
	return &st, true
}

func c05Run(o *out, input string) {
	f := strings.Fields(input)
	e := c05Setup()
	proto_, code64, msg, details, k := f[1], f[2], string(unhx(f[3])), f[4] == "1", atoi(f[5])
	c, _ := strconv.ParseUint(code64, 10, 32)
	e.code, e.msg, e.details, e.k = uint32(c), msg, details, k
	path := "/c05/unary"
	full := "/verif.c05.Esvc/Unary"
	// "+<n>" after the shape: the request names a media type no codec is registered under
	// "~s" after the shape: the mux with a small MaxSendMessageSize (in-process protocols only)
	f6, flags, _ := strings.Cut(f[6], "^")
	e.flags = flags
	shapeAll, small := strings.CutSuffix(f6, "~s")
	e.mux = e.muxBig
	if small {
		e.mux = e.muxSend
	}
	defer func() { e.mux = e.muxBig }()
	shape, ctv, _ := strings.Cut(shapeAll, "+")
	reqCT := map[string]string{"": "", "1": "text/plain; charset=utf-8", "2": "image/jpeg", "3": "application/json; charset=utf-8"}[ctv]
	if k >= 0 && (proto_ == "ws" || shape == "stream") {
		path, full = "/c05/stream", "/verif.c05.Esvc/Stream"
	}
	stobs := func(st *spb.Status) string {
		return fmt.Sprintf("%d %s %d", uint32(st.GetCode()), hx([]byte(st.GetMessage())), len(st.GetDetails()))
	}
	switch proto_ {
	case "http-json", "http-proto":
		r := httptest.NewRequest("GET", path, nil)
		if proto_ == "http-proto" {
			r.Header.Set("Accept", "application/protobuf")
		}
		if reqCT != "" {
			r.Header.Set("Content-Type", reqCT)
		}
		w, p := serveRec(e.mux, r)
		if p != "" {
			o.emit(input, "panic")
			return
		}
		body := w.Body.Bytes()
		n := 0
		var st *spb.Status
		ok := true
		if proto_ == "http-json" {
			dec := json.NewDecoder(bytes.NewReader(body))
			var vals []json.RawMessage
			for {
				var v json.RawMessage
				if err := dec.Decode(&v); err != nil {
					if err != io.EOF {
						ok = false
					}
					break
				}
				vals = append(vals, v)
			}
			if e.code != 0 && len(vals) > 0 {
				st, ok = decodeStatusJSON(vals[len(vals)-1])
				vals = vals[:len(vals)-1]
			}
			n = len(vals)
		} else {
			rd := bufio.NewReader(bytes.NewReader(body))
			if path == "/c05/stream" {
				for i := 0; i < k; i++ {
					var m testpb.Message
					if err := protodelim.UnmarshalFrom(rd, &m); err != nil {
						ok = false
						break
					}
					n++
				}
			} else if e.code == 0 {
				var m testpb.Message
				ok = proto.Unmarshal(body, &m) == nil
				n = 1
				rd = bufio.NewReader(bytes.NewReader(nil))
			}
			rest, _ := io.ReadAll(rd)
			if e.code != 0 {
				st = &spb.Status{}
				if err := proto.Unmarshal(rest, st); err != nil {
					ok = false
				}
			} else if len(rest) > 0 {
				ok = false
			}
		}
		if !ok || (e.code != 0 && st == nil) {
			o.emit(input, fmt.Sprintf("%d undecodable %s", w.Code, hx(body)))
			return
		}
		if st == nil {
			st = &spb.Status{}
		}
		o.emit(input, fmt.Sprintf("%d %s %d %s", w.Code, stobs(st), n, hx([]byte(w.Result().Header.Get("Content-Type")))))
	case "twirp":
		r := httptest.NewRequest("POST", full, strings.NewReader("{}"))
		r.Header.Set("Content-Type", "application/json")
		r.Header.Set("Twirp-Version", "v8.1.0")
		w, p := serveRec(e.mux, r)
		if p != "" {
			o.emit(input, "panic")
			return
		}
		var te struct {
			Code string `json:"code"`
			Msg  string `json:"msg"`
		}
		if e.code != 0 {
			if err := json.Unmarshal(w.Body.Bytes(), &te); err != nil {
				o.emit(input, fmt.Sprintf("%d undecodable %s", w.Code, hx(w.Body.Bytes())))
				return
			}
		}
		o.emit(input, fmt.Sprintf("%d %s %s", w.Code, hx([]byte(te.Code)), hx([]byte(te.Msg))))
	case "grpc", "grpc-json":
		payload := []byte(nil)
		ct := "application/grpc"
		if proto_ == "grpc-json" {
			payload, ct = []byte("{}"), "application/grpc+json"
		}
		r := httptest.NewRequest("POST", full, bytes.NewReader(grpcFrame(payload)))
		r.ProtoMajor, r.ProtoMinor = 2, 0
		r.Header.Set("Content-Type", ct)
		if strings.Contains(e.flags, "t") {
			r.Header.Set("Grpc-Timeout", "30m")
		}
		w, p := serveRec(e.mux, r)
		if p != "" {
			o.emit(input, "panic")
			return
		}
		res := w.Result()
		get := func(k string) string {
			if v, ok := res.Trailer[k]; ok && len(v) > 0 {
				return hx([]byte(v[0]))
			}
			if v, ok := res.Header[k]; ok && len(v) > 0 {
				return hx([]byte(v[0]))
			}
			return "none"
		}
		det := "none"
		if v := get("Grpc-Status-Details-Bin"); v != "none" {
			raw, err := base64.RawStdEncoding.DecodeString(string(unhx(v)))
			var st spb.Status
			if err == nil && proto.Unmarshal(raw, &st) == nil {
				det = strings.ReplaceAll(stobs(&st), " ", ",")
			} else {
				det = "undecodable"
			}
		}
		// count reply frames
		body := w.Body.Bytes()
		n := 0
		for len(body) >= 5 {
			l := int(body[1])<<24 | int(body[2])<<16 | int(body[3])<<8 | int(body[4])
			if len(body) < 5+l {
				n = -1
				break
			}
			body = body[5+l:]
			n++
		}
		o.emit(input, fmt.Sprintf("%d %s %s %s %d", w.Code, get("Grpc-Status"), get("Grpc-Message"), det, n))
	case "web", "web-text":
		frame := grpcFrame(nil)
		ct := "application/grpc-web+proto"
		var body io.Reader = bytes.NewReader(frame)
		if proto_ == "web-text" {
			ct = "application/grpc-web-text+proto"
			body = strings.NewReader(base64.StdEncoding.EncodeToString(frame))
		}
		r := httptest.NewRequest("POST", full, body)
		r.Header.Set("Content-Type", ct)
		if strings.Contains(e.flags, "t") {
			r.Header.Set("Grpc-Timeout", "30m")
		}
		w, p := serveRec(e.mux, r)
		if p != "" {
			o.emit(input, "panic")
			return
		}
		// (the header as it went out: what was set after the response header was committed is not part of it)
		sent := w.Result().Header
		hv := func(k string) string {
			if v, ok := sent[k]; ok && len(v) > 0 {
				return hx([]byte(v[0]))
			}
			return "none"
		}
		o.emit(input, fmt.Sprintf("%d %s %s %s %s %s", w.Code, hx([]byte(sent.Get("Content-Type"))), hx(w.Body.Bytes()),
			hv("Grpc-Status"), hv("Grpc-Message"), hv("Grpc-Status-Details-Bin")))
	case "ws":
		if e.lb == nil {
			lb, err := newLoopback(e.mux)
			if err != nil {
				panic(err)
			}
			e.lb = lb
		}
		ctx, cancel := context.WithTimeout(context.Background(), 3*time.Second)
		defer cancel()
		conn, _, _, err := ws.Dial(ctx, "ws"+strings.TrimPrefix(e.lb.url, "http")+"/c05/ws")
		if err != nil {
			o.emit(input, "dial-error "+hx([]byte(err.Error())))
			return
		}
		defer conn.Close()
		conn.SetDeadline(time.Now().Add(3 * time.Second))
		// the handler first receives one message
		fr := ws.NewTextFrame([]byte("{}"))
		fr = ws.MaskFrameInPlace(fr)
		if err := ws.WriteFrame(conn, fr); err != nil {
			o.emit(input, "write-error "+hx([]byte(err.Error())))
			return
		}
		n := 0
		for {
			h, err := ws.ReadHeader(conn)
			if err != nil {
				o.emit(input, fmt.Sprintf("no-close-frame %d", n))
				return
			}
			if h.Length > 1<<20 {
				o.emit(input, "oversized-frame 0")
				return
			}
			p := make([]byte, h.Length)
			if _, err := io.ReadFull(conn, p); err != nil {
				o.emit(input, fmt.Sprintf("truncated-frame %d", n))
				return
			}
			if h.OpCode == ws.OpClose {
				if h.Length > 125 {
					o.emit(input, fmt.Sprintf("close-frame-too-long %d", h.Length))
					return
				}
				codeW, reason := ws.ParseCloseFrameData(p)
				if len(p) == 0 {
					codeW = 1005 // no status
				}
				valid := 1
				if !utf8.ValidString(reason) {
					valid = 0
				}
				o.emit(input, fmt.Sprintf("close %d %s %d %d", codeW, hx([]byte(reason)), n, valid))
				return
			}
			n++
		}
	default:
		panic("bad proto " + proto_)
	}
}

func c05Gen(o *out, r *rng, tier string) {
	protos := []string{"http-json", "http-proto", "twirp", "grpc", "grpc-json", "web", "web-text", "ws"}
	msgs := []string{"", "boom", "%", "a%", "%a", "a%b", "100% sure", "tab\there", "nl\nx", "\x01", "\x7f", "é", "é!", "日本語", "aüb%c", "~ ", " lead", "trail ",
		strings.Repeat("x", 122), strings.Repeat("x", 123), strings.Repeat("x", 124), strings.Repeat("é", 62), strings.Repeat("é", 70), strings.Repeat("m", 1500), "%%%", "%41", "ü%", "%ü"}
	// all strings of length <= 2 over a boundary alphabet of valid UTF-8 pieces
	alpha := []string{"a", "%", " ", "~", "\x1f", "\x7f", "ü"}
	for _, a := range alpha {
		for _, b := range alpha {
			msgs = append(msgs, a+b)
		}
	}
	codesList := []uint32{0, 1, 2, 3, 4, 5, 6, 7, 8, 9, 10, 11, 12, 13, 14, 15, 16, 17, 18, 20, 99, 1 << 31, 4294967295}
	emit := func(p string, c uint32, m string, d bool, k int, shape string) {
		o.count(p + "/" + shape)
		c05Run(o, fmt.Sprintf("C05 %s %d %s %d %d %s", p, c, hx([]byte(m)), b2i(d), k, shape))
	}
	for _, p := range protos {
		// every code with a plain message, with and without details
		for _, c := range codesList {
			emit(p, c, "msg", false, 0, "unary")
			emit(p, c, "with details", true, 0, "unary")
			if (p == "http-json" || p == "http-proto" || p == "twirp") && c != 0 {
				// an error report is not a reply message: the send limit does not apply to it
				emit(p, c, strings.Repeat("long message ", 20), c%2 == 1, 0, "unary~s")
			}
			if p == "http-json" && c != 0 { // (a success reply under a media type without a codec is C04's business)
				emit(p, c, "msg", c%2 == 0, 0, fmt.Sprintf("unary+%d", 1+c%3))
			}
		}
		// the handler sends its header explicitly before it fails; a detail of a type the server does not know (binary
		// reports carry it verbatim); the handler's own status after the call's deadline has passed
		for _, c := range []uint32{0, 5, 9, 13} {
			emit(p, c, "after SendHeader", c == 9, 0, "unary^h")
			if p != "twirp" {
				emit(p, c, "after SendHeader", false, int(c%3), "stream^h")
			}
			if p == "http-proto" && c != 0 {
				emit(p, c, "foreign detail", true, 0, "unary^u")
			}
			if (p == "grpc" || p == "web" || p == "web-text") && c != 0 {
				emit(p, c, "own status after the deadline", c == 5, 0, "unary^t")
			}
		}
		// every message with two codes
		for i, m := range msgs {
			emit(p, 3, m, false, 0, "unary")
			if p != "twirp" {
				emit(p, uint32(1+i%16), m, i%3 == 0, i%3, "stream")
			}
		}
	}
	n := 150
	if tier == "thorough" {
		n = 5000
	}
	pieces := []string{"a", "B", "%", " ", "~", "\t", "\n", "\x01", "\x7f", "é", "ü", "日", "😀", "0", ":", "\"", "\\", "\r"}
	for i := 0; i < n; i++ {
		var sb strings.Builder
		for j, l := 0, r.intn(12); j < l; j++ {
			sb.WriteString(pieces[r.intn(len(pieces))])
		}
		p := protos[r.intn(len(protos))]
		shape := "unary"
		k := 0
		if p != "twirp" && r.bool() {
			shape, k = "stream", r.intn(4)
		}
		emit(p, codesList[1+r.intn(len(codesList)-1)], sb.String(), r.intn(3) == 0, k, shape)
	}
}

func init() { props["C05"] = prop{gen: c05Gen, run: c05Run} }
