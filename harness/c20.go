package main

import (
	"bytes"
	"context"
	"crypto/tls"
	"encoding/base64"
	"fmt"
	"io"
	"net/http"
	"net/http/httptest"
	"sort"
	"strconv"
	"strings"

	"google.golang.org/protobuf/proto"
	"google.golang.org/protobuf/types/known/emptypb"
	"larking.io/api/testpb"
	"larking.io/larking"
)

// C20: NewServer mount prefixes (MuxHandleOption / HTTPHandlerOption) are transparent.
//
//   C20 <nilmux 0|1> <opts> <kind> <hexpath>
//        ; err | panic | srv <status> <class> <arg> <eq> <rec>
//
// opts: '+'-joined ServerOptions in call order ('-' = none)
//   t            TLSCredsOption(nil)
//   m            MuxHandleOption()                  (nil pattern slice)
//   m0           MuxHandleOption([]string{}...)     (empty, non-nil slice)
//   m:<hex>,...  MuxHandleOption(patterns...)
//   h:<hex>      HTTPHandlerOption(pattern, recording handler #i)   i = position of the option
//   x:<hex>      HTTPHandlerOption(pattern, nil)
// kind: get getq post patch twirp twirppb grpc grpcjson web webtext  (method, headers, body; see c20Request)
// observation (the request is sent to hs.Handler of the *http.Server returned by NewServer):
//   class/arg:  extra <i>:<hexpath seen by handler i> | redir <hex Location path> | nf - (net/http's own
//               404 page) | mux - (anything else: the response was produced by the larking Mux)
//   eq:   byte offsets o into path such that the bare Mux, driven directly with path[o:] (same method,
//         headers, body), gives a response identical field by field (status, headers, trailers, body) and
//         the recording service saw the same call; '-' if none. Only offsets at a '/' are candidates.
//   rec:  hex of "<method>|<request message>" recorded by the service during the server call, '-' if none

type c20Svc struct {
	testpb.UnimplementedMessagingServer
	rec []string
}

func (s *c20Svc) note(m string, req proto.Message) {
	s.rec = append(s.rec, m+"|"+msgText(req))
}
func (s *c20Svc) GetMessageOne(ctx context.Context, r *testpb.GetMessageRequestOne) (*testpb.Message, error) {
	s.note("GetMessageOne", r)
	return &testpb.Message{MessageId: "one", Text: r.Name}, nil
}
func (s *c20Svc) GetMessageTwo(ctx context.Context, r *testpb.GetMessageRequestTwo) (*testpb.Message, error) {
	s.note("GetMessageTwo", r)
	return &testpb.Message{MessageId: r.MessageId, UserId: r.UserId, Text: strconv.FormatInt(r.Revision, 10)}, nil
}
func (s *c20Svc) UpdateMessage(ctx context.Context, r *testpb.UpdateMessageRequestOne) (*testpb.Message, error) {
	s.note("UpdateMessage", r)
	return &testpb.Message{MessageId: r.MessageId, Text: "updated"}, nil
}
func (s *c20Svc) UpdateMessageBody(ctx context.Context, r *testpb.Message) (*testpb.Message, error) {
	s.note("UpdateMessageBody", r)
	return r, nil
}
func (s *c20Svc) Action(ctx context.Context, r *testpb.Message) (*emptypb.Empty, error) {
	s.note("Action", r)
	return &emptypb.Empty{}, nil
}
func (s *c20Svc) ActionSegment(ctx context.Context, r *testpb.Message) (*emptypb.Empty, error) {
	s.note("ActionSegment", r)
	return &emptypb.Empty{}, nil
}
func (s *c20Svc) ActionResource(ctx context.Context, r *testpb.Message) (*emptypb.Empty, error) {
	s.note("ActionResource", r)
	return &emptypb.Empty{}, nil
}
func (s *c20Svc) ActionSegments(ctx context.Context, r *testpb.Message) (*emptypb.Empty, error) {
	s.note("ActionSegments", r)
	return &emptypb.Empty{}, nil
}
func (s *c20Svc) BatchGet(ctx context.Context, r *emptypb.Empty) (*emptypb.Empty, error) {
	s.note("BatchGet", r)
	return &emptypb.Empty{}, nil
}
func (s *c20Svc) VariableOne(ctx context.Context, r *testpb.Message) (*emptypb.Empty, error) {
	s.note("VariableOne", r)
	return &emptypb.Empty{}, nil
}
func (s *c20Svc) VariableTwo(ctx context.Context, r *testpb.Message) (*emptypb.Empty, error) {
	s.note("VariableTwo", r)
	return &emptypb.Empty{}, nil
}
func (s *c20Svc) GetShelf(ctx context.Context, r *testpb.GetShelfRequest) (*testpb.Shelf, error) {
	s.note("GetShelf", r)
	return &testpb.Shelf{Name: r.Name}, nil
}
func (s *c20Svc) GetBook(ctx context.Context, r *testpb.GetBookRequest) (*testpb.Book, error) {
	s.note("GetBook", r)
	return &testpb.Book{Name: r.Name, Title: "title"}, nil
}
func (s *c20Svc) CreateBook(ctx context.Context, r *testpb.CreateBookRequest) (*testpb.Book, error) {
	s.note("CreateBook", r)
	return &testpb.Book{Name: r.Parent + "/books/new"}, nil
}

// the WebSocket binding WEBSOCKET /v1/{name=rooms/*} of testpb.ChatRoom: every message is echoed with its room name
type c20Chat struct {
	testpb.UnimplementedChatRoomServer
	svc *c20Svc
}

func (c *c20Chat) Chat(st testpb.ChatRoom_ChatServer) error {
	for {
		m, err := st.Recv()
		if err != nil {
			return nil
		}
		c.svc.note("Chat", m)
		if err := st.Send(&testpb.ChatMessage{Name: m.Name, Text: "echo " + m.Text}); err != nil {
			return err
		}
	}
}

type c20Env struct {
	mux *larking.Mux
	svc *c20Svc
}

var c20env *c20Env

func c20Setup() *c20Env {
	if c20env != nil {
		return c20env
	}
	m, err := larking.NewMux()
	if err != nil {
		panic(err)
	}
	svc := &c20Svc{}
	if err := m.VerifRegisterService(&testpb.Messaging_ServiceDesc, svc); err != nil {
		panic(err)
	}
	if err := m.VerifRegisterService(&testpb.ChatRoom_ServiceDesc, &c20Chat{svc: svc}); err != nil {
		panic(err)
	}
	c20env = &c20Env{mux: m, svc: svc}
	return c20env
}

const c20Query = "revision=2" // one parameter: larking reports unknown parameters in map order

func c20Request(kind, path string) *http.Request {
	frame := grpcFrame(nil)
	mk := func(method string, body []byte) *http.Request {
		var rd io.Reader
		if body != nil {
			rd = bytes.NewReader(body)
		}
		r := httptest.NewRequest(method, "http://example.com/", rd)
		r.URL.Path, r.URL.RawPath = path, ""
		r.RequestURI = r.URL.RequestURI()
		return r
	}
	var r *http.Request
	switch kind {
	case "get":
		r = mk("GET", nil)
	case "getq":
		r = mk("GET", nil)
		r.URL.RawQuery = c20Query
	case "post":
		r = mk("POST", []byte("{}"))
		r.Header.Set("Content-Type", "application/json")
	case "patch":
		r = mk("PATCH", []byte(`{"text":"hi"}`))
		r.Header.Set("Content-Type", "application/json")
	case "twirp":
		r = mk("POST", []byte(`{"name":"n"}`))
		r.Header.Set("Content-Type", "application/json")
		r.Header.Set("Twirp-Version", "v8.1.0")
	case "twirppb":
		r = mk("POST", []byte{0x0a, 0x01, 'n'})
		r.Header.Set("Content-Type", "application/protobuf")
		r.Header.Set("Twirp-Version", "v8.1.0")
	case "grpc":
		r = mk("POST", frame)
		r.ProtoMajor, r.ProtoMinor, r.Proto = 2, 0, "HTTP/2.0"
		r.Header.Set("Content-Type", "application/grpc")
		r.Header.Set("Te", "trailers")
	case "grpcjson":
		r = mk("POST", grpcFrame([]byte("{}")))
		r.ProtoMajor, r.ProtoMinor, r.Proto = 2, 0, "HTTP/2.0"
		r.Header.Set("Content-Type", "application/grpc+json")
		r.Header.Set("Te", "trailers")
	case "grpcmax", "webmax":
		// one message of exactly the default receive limit (4 MiB): the largest request a bare Mux accepts
		n := 4 << 20
		m := &testpb.GetMessageRequestOne{Name: strings.Repeat("n", n-5)}
		for proto.Size(m) < n {
			m.Name += "n"
		}
		b, _ := proto.Marshal(m)
		if len(b) != n {
			panic("c20: cannot build a message of the limit's size")
		}
		r = mk("POST", grpcFrame(b))
		if kind == "grpcmax" {
			r.ProtoMajor, r.ProtoMinor, r.Proto = 2, 0, "HTTP/2.0"
			r.Header.Set("Content-Type", "application/grpc")
			r.Header.Set("Te", "trailers")
		} else {
			r.Header.Set("Content-Type", "application/grpc-web+proto")
		}
	case "postbig":
		// a JSON body beyond the limit: refused, and refused the same way wherever the Mux is mounted
		r = mk("POST", []byte(`{"text":"`+strings.Repeat("t", 4<<20)+`"}`))
		r.Header.Set("Content-Type", "application/json")
	case "web":
		r = mk("POST", frame)
		r.Header.Set("Content-Type", "application/grpc-web+proto")
	case "webtext":
		r = mk("POST", []byte(base64.StdEncoding.EncodeToString(frame)))
		r.Header.Set("Content-Type", "application/grpc-web-text")
	default:
		panic("bad C20 kind " + kind)
	}
	return r
}

var c20Kinds = []string{"get", "getq", "post", "patch", "twirp", "twirppb", "grpc", "grpcjson", "web", "webtext"}

// c20Digest renders everything a client can see of a response.
func c20Digest(w *httptest.ResponseRecorder, panicked string) string {
	if panicked != "" {
		return "panic"
	}
	res := w.Result()
	var sb strings.Builder
	fmt.Fprintf(&sb, "%d\n", res.StatusCode)
	dump := func(h http.Header) {
		keys := make([]string, 0, len(h))
		for k := range h {
			keys = append(keys, k)
		}
		sort.Strings(keys)
		for _, k := range keys {
			fmt.Fprintf(&sb, "%s=%q\n", k, h[k])
		}
	}
	dump(res.Header)
	sb.WriteString("--\n")
	dump(res.Trailer)
	sb.WriteString("--\n")
	sb.Write(w.Body.Bytes())
	return sb.String()
}

type c20Extra struct {
	idx  int
	hits *[]string
}

func (h c20Extra) ServeHTTP(w http.ResponseWriter, r *http.Request) {
	*h.hits = append(*h.hits, fmt.Sprintf("%d:%s", h.idx, hx([]byte(r.URL.Path))))
	w.Header().Set("X-Extra", strconv.Itoa(h.idx))
	fmt.Fprintf(w, "extra %d", h.idx)
}

func c20Opts(spec string, hits *[]string) []larking.ServerOption {
	var opts []larking.ServerOption
	if spec == "-" || spec == "" {
		return nil
	}
	for i, o := range strings.Split(spec, "+") {
		switch {
		case o == "L": // not an option: the services are registered after NewServer (always written last)
		case o == "t":
			opts = append(opts, larking.TLSCredsOption(nil))
		case o == "T": // a TLS configuration: how the listener is wrapped, not what the handler serves
			opts = append(opts, larking.TLSCredsOption(&tls.Config{MinVersion: tls.VersionTLS12}))
		case o == "m":
			opts = append(opts, larking.MuxHandleOption())
		case o == "m0":
			opts = append(opts, larking.MuxHandleOption([]string{}...))
		case strings.HasPrefix(o, "m:"):
			var ps []string
			for _, p := range strings.Split(o[2:], ",") {
				ps = append(ps, string(unhx(p)))
			}
			opts = append(opts, larking.MuxHandleOption(ps...))
		case strings.HasPrefix(o, "h:"):
			opts = append(opts, larking.HTTPHandlerOption(string(unhx(o[2:])), c20Extra{idx: i, hits: hits}))
		case strings.HasPrefix(o, "x:"):
			opts = append(opts, larking.HTTPHandlerOption(string(unhx(o[2:])), nil))
		default:
			panic("bad C20 option " + o)
		}
	}
	return opts
}

func c20NewServer(m *larking.Mux, opts []larking.ServerOption) (hs *http.Server, err error, panicked bool) {
	defer func() {
		if p := recover(); p != nil {
			panicked = true
		}
	}()
	hs, err = larking.NewServer(m, opts...)
	return hs, err, false
}

func c20Run(o *out, input string) {
	f := strings.Fields(input)
	if len(f) == 5 && f[0] == "C20L" {
		c20lRun(o, input)
		return
	}
	if len(f) != 5 || f[0] != "C20" {
		panic("bad C20 case: " + input)
	}
	e := c20Setup()
	nilmux, spec, kind, path := f[1] == "1", f[2], f[3], string(unhx(f[4]))
	var hits []string
	opts := c20Opts(spec, &hits)
	m := e.mux
	late := strings.HasSuffix(spec, "L")
	if late {
		// a mux that has nothing yet when the server is built: routes published afterwards are served under every mount
		var err error
		if m, err = larking.NewMux(); err != nil {
			panic(err)
		}
	}
	if nilmux {
		m = nil
	}
	hs, err, panicked := c20NewServer(m, opts)
	if late && m != nil && err == nil && !panicked {
		if err := m.VerifRegisterService(&testpb.Messaging_ServiceDesc, e.svc); err != nil {
			panic(err)
		}
		if err := m.VerifRegisterService(&testpb.ChatRoom_ServiceDesc, &c20Chat{svc: e.svc}); err != nil {
			panic(err)
		}
		old := e.mux
		e.mux = m
		defer func() { e.mux = old }()
	}
	if panicked {
		o.count("observed/NewServer-panic")
		o.emit(input, "panic")
		return
	}
	if err != nil {
		o.count("observed/NewServer-error")
		o.emit(input, "err")
		return
	}
	if hs == nil || hs.Handler == nil {
		o.emit(input, "panic") // a server without a handler is no server
		return
	}
	// the request through the server's handler (h2c wrapper -> ServeMux -> StripPrefix -> Mux)
	e.svc.rec = nil
	w, p := serveRec(hs.Handler, c20Request(kind, path))
	srvDigest := c20Digest(w, p)
	srvRec := strings.Join(e.svc.rec, "\n")
	status := 0
	if p == "" {
		status = w.Code
	}
	class, arg := "mux", "-"
	switch {
	case p != "":
		class = "panic"
	case len(hits) > 0:
		class, arg = "extra", strings.Join(hits, "&")
	case status >= 300 && status < 400 && w.Result().Header.Get("Location") != "":
		loc := w.Result().Header.Get("Location")
		if q := "?" + c20Query; kind == "getq" && strings.HasSuffix(loc, q) {
			loc = strings.TrimSuffix(loc, q) // the query must survive a redirect; it is not part of the compared path
		}
		class, arg = "redir", hx([]byte(loc))
	case status == 404 && w.Body.String() == "404 page not found\n":
		class = "nf"
	}
	if class == "extra" && srvRec != "" {
		class = "extra+mux"
	}
	// the bare mux with every suffix of the path that starts at a '/'
	var eq []int
	if class == "mux" {
		for off := 0; off < len(path); off++ {
			if path[off] != '/' {
				continue
			}
			e.svc.rec = nil
			w2, p2 := serveRec(e.mux, c20Request(kind, path[off:]))
			if c20Digest(w2, p2) == srvDigest && strings.Join(e.svc.rec, "\n") == srvRec {
				eq = append(eq, off)
			}
		}
	}
	rec := "-"
	if srvRec != "" {
		rec = hx([]byte(srvRec))
	}
	o.count("observed/" + class)
	o.emit(input, fmt.Sprintf("srv %d %s %s %s %s", status, class, arg, ints(eq), rec))
}

func c20Case(nilmux bool, opts []string, kind, path string) string {
	spec := "-"
	if len(opts) > 0 {
		spec = strings.Join(opts, "+")
	}
	return fmt.Sprintf("C20 %d %s %s %s", b2i(nilmux), spec, kind, hx([]byte(path)))
}

func c20M(ps ...string) string {
	hs := make([]string, len(ps))
	for i, p := range ps {
		hs[i] = hx([]byte(p))
	}
	return "m:" + strings.Join(hs, ",")
}
func c20H(p string) string { return "h:" + hx([]byte(p)) }

// request paths served by the test service (with the kind that serves them) and near misses
var c20Base = []struct{ kind, path string }{
	{"get", "/v1/messages/name/123"}, {"getq", "/v1/messages/123456"}, {"get", "/v1/users/me/messages"},
	{"getq", "/v1/users/me/messages/77"}, {"patch", "/v1/messages/123"}, {"patch", "/v1/messages/123/body"},
	{"post", "/v1/action:cancel"}, {"post", "/v1/foo:clear"}, {"get", "/v1/actions/7:fetch"},
	{"post", "/v1/a/b/c:watch"}, {"get", "/v3/events:batchGet"}, {"get", "/x/one"}, {"get", "/api/one"},
	{"get", "/twirp/two"}, {"get", "/v1/shelves/1"}, {"get", "/v1/shelves/1/books/2"}, {"post", "/v1/shelves/1/books"},
	{"get", "/v1/messages"}, {"get", "/v1"}, {"get", "/v2/messages/1"}, {"get", "/one"}, {"get", "/"},
	{"get", "/v1/messages/"}, {"get", "/x/one/"}, {"post", "/v1/one"}, {"get", "/a b/one"}, {"get", "/%41/one"},
	{"twirp", "/larking.testpb.Messaging/GetMessageOne"}, {"twirppb", "/larking.testpb.Messaging/GetMessageOne"},
	{"twirp", "/larking.testpb.Messaging/GetShelf"}, {"twirp", "/larking.testpb.Messaging/Nope"},
	{"grpc", "/larking.testpb.Messaging/GetMessageOne"}, {"grpc", "/larking.testpb.Messaging/BatchGet"},
	{"grpcjson", "/larking.testpb.Messaging/GetMessageTwo"}, {"grpc", "/larking.testpb.Messaging/Nope"},
	{"grpc", "/larking.testpb.Nope/GetMessageOne"}, {"grpc", "/Messaging/GetMessageOne"}, {"grpc", "/"},
	{"web", "/larking.testpb.Messaging/GetMessageOne"}, {"webtext", "/larking.testpb.Messaging/GetShelf"},
	{"web", "/larking.testpb.Messaging/Nope"}, {"webtext", "/larking.testpb.Messaging"},
}

var c20MountPool = []string{"/", "/api", "/api/", "/pfx", "/twirp", "/twirp/", "/twirp/v2", "/twirp/v2/", "/v1", "/v1/",
	"/a/b/c", "", "/larking.testpb.Messaging", "/x", "/apix", "/ap", "/v1/messages/", "/one", "/A", "/a-b", "/v1/messages/name", "/twirp/v2/x"}
var c20ExtraPool = []string{"/metrics", "/debug/", "/healthz", "/api/special", "/api", "/api/", "/twirp/v2/x/", "/", "/v1/messages/name/",
	"/pfx/", "/x/one", "/debug/pprof/", "/v1/", "/metrics/", "/a/b"}

// prefixes put in front of a base path: the mounts of the configuration, and near misses of them
func c20Prefixes(mounts []string, r *rng) []string {
	ps := []string{""}
	for _, m := range mounts {
		p := strings.TrimSuffix(m, "/")
		ps = append(ps, p)
		if p != "" {
			ps = append(ps, p+"x", p[:len(p)-1], p+p, p+"/x")
		}
	}
	ps = append(ps, "/api", "/twirp", "/twirp/v2", "/pfx", "/bad", "/v1", "/debug", "/metrics")
	return ps
}

func c20Unclean(path string, r *rng) string {
	switch r.intn(6) {
	case 0:
		return strings.Replace(path, "/", "//", 1)
	case 1:
		return path + "/."
	case 2:
		return path + "/.."
	case 3:
		return "/." + path
	case 4:
		i := strings.LastIndex(path, "/")
		return path[:i] + "/../" + path[i+1:]
	default:
		return path + "//"
	}
}

func c20Gen(o *out, r *rng, tier string) {
	emit := func(tag string, nilmux bool, opts []string, kind, path string) {
		o.count(tag + "/" + kind)
		before := o.n
		c20Run(o, c20Case(nilmux, opts, kind, path))
		_ = before
	}
	// 1. fixed mount configurations x every base request x every prefix
	configs := [][]string{
		nil,
		{c20M("/")},
		{c20M("/api")},
		{c20M("/api/")},
		{c20M("/", "/api/", "/pfx")},
		{c20M("/twirp", "/twirp/v2")},
		{c20M("/twirp/v2/", "/twirp/", "/")},
		{c20M("/v1")},
		{c20M("/", "/v1/")},
		{c20M("")},
		{c20M("/a/b/c", "/a-b")},
		{c20M("/api"), c20H("/metrics"), c20H("/debug/")},
		{c20H("/metrics"), c20M("/", "/api"), c20H("/api/special")},
		{c20H("/api"), c20M("/api", "/twirp")},
		{c20H("/"), c20M("/api", "/twirp")},
		{"t", c20H("/healthz"), "m", c20M("/pfx", "/api")},
		{"T", c20H("/healthz"), "m", c20M("/pfx", "/api")}, {"T", c20M("/api/", "/twirp"), c20H("/metrics")}, {c20M("/api/"), "T"}, {"T"}, {c20M("/api/", "/twirp"), "L"}, {c20M("/", "/api"), c20H("/metrics"), "L"}, {"L"},
	}
	mountsOf := func(cfg []string) []string {
		var ms []string
		for _, c := range cfg {
			if strings.HasPrefix(c, "m:") {
				for _, p := range strings.Split(c[2:], ",") {
					ms = append(ms, string(unhx(p)))
				}
			}
			if strings.HasPrefix(c, "h:") {
				ms = append(ms, string(unhx(c[2:])))
			}
		}
		return ms
	}
	for _, cfg := range configs {
		ms := mountsOf(cfg)
		for _, pre := range c20Prefixes(ms, r) {
			for _, b := range c20Base {
				emit("fixed", false, cfg, b.kind, pre+b.path)
			}
			// the bare prefix and the prefix with a trailing slash
			if pre != "" {
				emit("bare-prefix", false, cfg, "get", pre)
				emit("bare-prefix", false, cfg, "grpc", pre)
			}
		}
		for _, m := range ms { // the extra handlers' own patterns and paths below / beside them
			for _, s := range []string{"", "/", "/sub", "x", "/sub/"} {
				emit("extra-pattern", false, cfg, "get", strings.TrimSuffix(m, "/")+s)
			}
		}
	}
	// 2. option validation
	valid := [][]string{
		{c20M("/api"), c20M("/pfx")}, {"m", c20M("/api")}, {"m", "m", c20M("/api")}, {"m0", c20M("/api")}, {"m0", "m"}, {"m0"}, {"m"},
		{c20M("/api"), "m"}, {c20M("/api"), "m0"}, {c20M("/api", "/api/")}, {c20M("/api", "/api")}, {c20M("/", "")},
		{c20H("/api/"), c20M("/api")}, {c20M("/api"), c20H("/api/")}, {c20H("/x"), c20H("/x")}, {c20H("")},
		{"x:" + hx([]byte("/nil"))}, {c20M("/a"), c20M("/b"), c20H("")}, {c20H(""), c20M("/a"), c20M("/b")},
		{c20H("/"), c20M("/")}, {c20H("/")}, {"t", "t"}, {c20H("/m"), c20H("/m/")},
	}
	for _, cfg := range valid {
		for _, nm := range []bool{false, true} {
			emit("validation", nm, cfg, "get", "/api/x/one")
			emit("validation", nm, cfg, "grpc", "/api/larking.testpb.Messaging/BatchGet")
		}
	}
	emit("validation", true, nil, "get", "/x/one")
	// 2b. requests at and beyond the receive limit, under a few mounts
	for _, cfg := range [][]string{nil, {c20M("/")}, {c20M("/api")}, {c20M("/api/", "/twirp")}, {c20H("/metrics"), c20M("/pfx/")}} {
		pre := ""
		for _, c := range cfg {
			if strings.HasPrefix(c, "m:") {
				pre = strings.TrimSuffix(string(unhx(strings.Split(strings.TrimPrefix(c, "m:"), ",")[0])), "/")
			}
		}
		emit("limit", false, cfg, "grpcmax", pre+"/larking.testpb.Messaging/GetMessageOne")
		emit("limit", false, cfg, "webmax", pre+"/larking.testpb.Messaging/GetMessageOne")
		emit("limit", false, cfg, "postbig", pre+"/v1/messages/msg_1/body")
	}
	// 3. random configurations
	n := 2500
	if tier == "thorough" {
		n = 60000
	}
	for i := 0; i < n; i++ {
		var cfg []string
		nm := 1 + r.intn(3)
		var ms []string
		for j := 0; j < nm; j++ {
			m := c20MountPool[r.intn(len(c20MountPool))]
			dup := false
			for _, q := range ms {
				dup = dup || strings.TrimSuffix(q, "/") == strings.TrimSuffix(m, "/")
			}
			if dup && r.intn(8) != 0 { // registering one prefix twice panics in ServeMux.Handle: keep a few
				continue
			}
			ms = append(ms, m)
		}
		nx := 0
		if r.intn(3) == 0 {
			nx = 1 + r.intn(2)
		}
		cfg = append(cfg, c20M(ms...))
		if r.intn(10) == 0 { // the default mount: no MuxHandleOption, one without patterns, or an empty slice
			cfg = [][]string{nil, {"m"}, {"m0"}, {"t"}, {"m", "t", "m"}, {"T"}, {"T", "m"}}[r.intn(7)]
			ms = []string{"/"}
		}
		all := append([]string(nil), ms...)
		for j := 0; j < nx; j++ {
			x := c20ExtraPool[r.intn(len(c20ExtraPool))]
			dup := false
			for _, q := range all {
				dup = dup || x == q || x == strings.TrimSuffix(q, "/")+"/"
			}
			if dup && r.intn(8) != 0 {
				continue
			}
			all = append(all, x)
			if r.bool() {
				cfg = append(cfg, c20H(x))
			} else {
				cfg = append([]string{c20H(x)}, cfg...)
			}
		}
		switch r.intn(40) {
		case 0:
			cfg = append(cfg, c20M(c20MountPool[r.intn(len(c20MountPool))]))
		case 1:
			cfg = append([]string{"m"}, cfg...)
		case 2:
			cfg = append(cfg, r.picks([]string{"t", "T", "T"}))
		case 3:
			if len(cfg) > 0 {
				cfg = cfg[1:]
			}
		}
		if r.intn(5) == 0 {
			cfg = append([]string{"T"}, cfg...) // the same mounts and handlers on a server that will listen with TLS
		}
		if r.intn(6) == 0 {
			cfg = append(append([]string{}, cfg...), "L") // the services are registered after the server was built
		}
		pres := c20Prefixes(all, r)
		for k := 0; k < 4; k++ {
			b := c20Base[r.intn(len(c20Base))]
			kind := b.kind
			if r.intn(6) == 0 {
				kind = c20Kinds[r.intn(len(c20Kinds))]
			}
			path := pres[r.intn(len(pres))] + b.path
			switch r.intn(12) {
			case 0:
				path = pres[r.intn(len(pres))]
				if path == "" {
					path = "/"
				}
			case 1:
				path = pres[r.intn(len(pres))] + "/"
			case 2:
				emit("unclean", false, cfg, kind, c20Unclean(path, r))
				continue
			case 3:
				path = pres[r.intn(len(pres))] + pres[r.intn(len(pres))] + b.path
			}
			emit(fmt.Sprintf("random/%dm%dx", len(ms), nx), false, cfg, kind, path)
		}
	}
}

func c20GenAll(o *out, r *rng, tier string) {
	c20Gen(o, r, tier)
	c20lGen(o, r, tier)
}

func c20RunAll(o *out, input string) {
	c20Run(o, input)
	if strings.HasPrefix(input, "C20L ") && len(c20loops) > 64 {
		c20lClose()
	}
}

func init() { props["C20"] = prop{gen: c20GenAll, run: c20RunAll} }
