package main

import (
	"bytes"
	"context"
	"fmt"
	"io"
	"net/http"
	"net/http/httptest"
	"strconv"
	"strings"

	"google.golang.org/grpc"
	"google.golang.org/grpc/codes"
	"google.golang.org/grpc/metadata"
	"google.golang.org/grpc/stats"
	"google.golang.org/grpc/status"
	"google.golang.org/protobuf/encoding/protowire"
	"google.golang.org/protobuf/proto"
	"google.golang.org/protobuf/reflect/protoreflect"
	"google.golang.org/protobuf/reflect/protoregistry"
	"google.golang.org/protobuf/types/dynamicpb"
	"larking.io/larking"
)

// C18: recording unary / stream interceptors and a recording stats.Handler on a Mux whose handlers
// execute a script. One case = one RPC:
//
//   C18 <proto> <shape> <routed> <rulebody> <reqs> <hk> <acts> <reply> <code> <imode> <icpt> <stats>
//     proto    http | grpc | web
//     shape    u | c | s | b            (unary, client-, server-, bidi-streaming)
//     routed   1 | 0                    (0: a path / method name nothing is registered for)
//     rulebody 1 | 0                    (HTTP: POST rule with body:"*"  |  GET rule without a body clause)
//     reqs     request message payloads (hex, comma separated, - = none)
//     hk       U | S                    (registered as a unary method / as a stream)
//     acts     the handler's script: r = RecvMsg, s<hex> = SendMsg(payload), h = SendHeader, c = cancel the
//              request context; an op that fails makes the handler return that error, except io.EOF from RecvMsg
//              (a unary handler has no stream: only h and c act)
//     reply    unary reply payload (hex), code = status code the handler returns at the end (0 = OK)
//     imode    p = pass through | j<code> = return the code without calling the handler | o<code> = call the
//              handler, then return the code | r<hex> = call the handler and, if it succeeds, return this message
//              instead of its reply | k<hex> = return this message without calling the handler (r, k: unary
//              interceptor; the stream interceptor passes through)
//     icpt, stats  1 | 0                (options installed)
//   ; valid panic calls ev hlog dlv iret hs gs body  bpanic bhlog bdlv bhs bgs bbody
//     valid    oracle: proto.Unmarshal accepts the i-th request payload
//     calls    interceptor calls  u:<name> | s:<name>:<cs><ss>
//     ev       stats events  T:<name> H:<name> B:<cs><ss> I:<len>:<wire> OH O:<len>:<wire> OT E:<code> (suffix ! = IsClient(), ? = ctx not from TagRPC)
//     hlog     results of the handler's stream operations  k = ok, f = io.EOF, e<code>
//     dlv      the request messages the handler received (deterministic re-marshal)
//     iret     code the interceptor returned (- = not called)
//     hs gs body   HTTP status, grpc-status (trailer, trailer frame or header; - = none), response body
//     b*       the same scenario on a Mux without interceptors and stats handler

type c18Act struct {
	k byte
	p []byte
}

type c18Env struct {
	mux  [4]*larking.Mux // index = icpt*2 + stats
	in   protoreflect.MessageDescriptor
	acts []c18Act
	hk   string
	repl []byte
	code int
	imk  byte
	imc  int
	imsg []byte // imode r / k: the message the interceptor returns as its own

	cancel context.CancelFunc
	calls  []string
	ev     []string
	hlog   []string
	dlv    []string
	iret   string
}

type c18TagKey struct{}

var c18env *c18Env

func c18MethodName(shape string) string { return "M" + shape }

func (e *c18Env) logOp(err error) {
	switch {
	case err == nil:
		e.hlog = append(e.hlog, "k")
	case err == io.EOF:
		e.hlog = append(e.hlog, "f")
	default:
		e.hlog = append(e.hlog, fmt.Sprintf("e%d", uint32(status.Code(err))))
	}
}

func c18MkErr(code int) error {
	if code == 0 {
		return nil
	}
	return status.Error(codes.Code(code), "c18 scripted")
}

func c18Code(err error) string { return strconv.Itoa(int(uint32(status.Code(err)))) }

// ---- recording stats handler ----
type c18Stats struct{ e *c18Env }

func (s c18Stats) TagRPC(ctx context.Context, info *stats.RPCTagInfo) context.Context {
	s.e.ev = append(s.e.ev, "T:"+hx([]byte(info.FullMethodName)))
	return context.WithValue(ctx, c18TagKey{}, true)
}

// c18Retained: the event objects as they were handed over, beside the text each had at that moment; a stats handler may
// keep its events, so an event must not change after it was delivered (c18EvCheck)
type c18Retained struct {
	st   stats.RPCStats
	text string
}

var c18kept []c18Retained

// c18EvCheck formats the retained events again: a text that changed since delivery is reported as one more token
func c18EvCheck(ev []string) []string {
	for _, k := range c18kept {
		if now := c18EvText(k.st); now != k.text {
			ev = append(append([]string(nil), ev...), "R:"+strings.ReplaceAll(k.text, ":", ".")+">"+strings.ReplaceAll(now, ":", "."))
			break
		}
	}
	c18kept = nil
	return ev
}

// c18MD: the request metadata as interceptors and handlers must see it -- the probe key of request(), and nothing a
// stats handler did to its InHeader event
func c18MD(ctx context.Context) string {
	md, _ := metadata.FromIncomingContext(ctx)
	if v := md.Get("x-c18-probe"); len(v) != 1 || v[0] != "1" || len(md.Get("x-c18-planted")) != 0 {
		return "!md"
	}
	return ""
}

func c18EvText(st stats.RPCStats) string {
	var x string
	b := func(v bool) string { return strconv.Itoa(b2i(v)) }
	switch v := st.(type) {
	case *stats.InHeader:
		x = "H:" + hx([]byte(v.FullMethod))
	case *stats.Begin:
		x = "B:" + b(v.IsClientStream) + b(v.IsServerStream)
	case *stats.InPayload:
		x = fmt.Sprintf("I:%d:%d", v.Length, v.WireLength)
	case *stats.OutHeader:
		x = "OH"
	case *stats.OutPayload:
		x = fmt.Sprintf("O:%d:%d", v.Length, v.WireLength)
	case *stats.OutTrailer:
		x = "OT"
	case *stats.End:
		x = "E:" + c18Code(v.Error)
	default:
		x = fmt.Sprintf("X:%T", st)
	}
	return x
}

func (s c18Stats) HandleRPC(ctx context.Context, st stats.RPCStats) {
	x := c18EvText(st)
	c18kept = append(c18kept, c18Retained{st, x})
	if h, ok := st.(*stats.InHeader); ok && h.Header != nil {
		// an exporter that masks what it records: the event is the stats handler's own, so nothing of this
		// may reach the interceptors or the handler (c18MD)
		delete(h.Header, "x-c18-probe")
		h.Header.Set("x-c18-planted", "1")
	}
	if st.IsClient() {
		x += "!"
	}
	if ctx.Value(c18TagKey{}) == nil {
		x += "?"
	}
	s.e.ev = append(s.e.ev, x)
}
func (s c18Stats) TagConn(ctx context.Context, _ *stats.ConnTagInfo) context.Context { return ctx }
func (s c18Stats) HandleConn(context.Context, stats.ConnStats)                       {}

// ---- recording interceptors ----
func (e *c18Env) unaryIcpt(ctx context.Context, req interface{}, info *grpc.UnaryServerInfo, h grpc.UnaryHandler) (resp interface{}, err error) {
	e.calls = append(e.calls, "u"+c18MD(ctx)+":"+hx([]byte(info.FullMethod)))
	defer func() {
		if p := recover(); p != nil {
			panic(p)
		}
		e.iret = c18Code(err)
	}()
	switch e.imk {
	case 'j':
		return nil, c18MkErr(e.imc)
	case 'o':
		h(ctx, req) //nolint
		return nil, c18MkErr(e.imc)
	case 'r', 'k':
		if e.imk == 'r' {
			if _, err := h(ctx, req); err != nil {
				return nil, err
			}
		}
		own := dynamicpb.NewMessage(e.in) // every C18 method answers with the request's message type
		if err := proto.Unmarshal(e.imsg, own); err != nil {
			panic("c18: interceptor payload is not a message: " + err.Error())
		}
		return own, nil
	}
	return h(ctx, req)
}

func (e *c18Env) streamIcpt(srv interface{}, ss grpc.ServerStream, info *grpc.StreamServerInfo, h grpc.StreamHandler) (err error) {
	e.calls = append(e.calls, fmt.Sprintf("s%s:%s:%d%d", c18MD(ss.Context()), hx([]byte(info.FullMethod)), b2i(info.IsClientStream), b2i(info.IsServerStream)))
	defer func() {
		if p := recover(); p != nil {
			panic(p)
		}
		e.iret = c18Code(err)
	}()
	switch e.imk {
	case 'j':
		return c18MkErr(e.imc)
	case 'o':
		h(srv, ss) //nolint
		return c18MkErr(e.imc)
	}
	return h(srv, ss)
}

// ---- scripted handlers ----
func (e *c18Env) unaryUser(ctx context.Context, outd protoreflect.MessageDescriptor) (interface{}, error) {
	if x := c18MD(ctx); x != "" {
		e.dlv = append(e.dlv, x)
	}
	for _, a := range e.acts {
		switch a.k {
		case 'h':
			err := grpc.SendHeader(ctx, nil)
			e.logOp(err)
			if err != nil {
				return nil, err
			}
		case 'c':
			e.cancel()
			e.logOp(nil)
		}
	}
	if err := c18MkErr(e.code); err != nil {
		return nil, err
	}
	m := dynamicpb.NewMessage(outd)
	if err := proto.Unmarshal(e.repl, m); err != nil {
		panic("c18: reply payload is not a message: " + err.Error())
	}
	return m, nil
}

func (e *c18Env) streamUser(in, outd protoreflect.MessageDescriptor, ss grpc.ServerStream) error {
	if x := c18MD(ss.Context()); x != "" {
		e.dlv = append(e.dlv, x)
	}
	for _, a := range e.acts {
		switch a.k {
		case 'r':
			m := dynamicpb.NewMessage(in)
			err := ss.RecvMsg(m)
			e.logOp(err)
			if err == io.EOF {
				continue
			}
			if err != nil {
				return err
			}
			e.dlv = append(e.dlv, msgText(m))
		case 's':
			m := dynamicpb.NewMessage(outd)
			if err := proto.Unmarshal(a.p, m); err != nil {
				panic("c18: send payload is not a message: " + err.Error())
			}
			err := ss.SendMsg(m)
			e.logOp(err)
			if err != nil {
				return err
			}
		case 'h':
			err := ss.SendHeader(nil)
			e.logOp(err)
			if err != nil {
				return err
			}
		case 'c':
			e.cancel()
			e.logOp(nil)
		}
	}
	return c18MkErr(e.code)
}

// the service descriptor is written by hand (as protoc-gen-go-grpc would) so that the result of the
// generated code's dec() call is part of the handler log
func (e *c18Env) serviceDesc(sd protoreflect.ServiceDescriptor) *grpc.ServiceDesc {
	gsd := &grpc.ServiceDesc{ServiceName: string(sd.FullName()), HandlerType: (*interface{})(nil)}
	mds := sd.Methods()
	for i := 0; i < mds.Len(); i++ {
		md := mds.Get(i)
		full := fmt.Sprintf("/%s/%s", sd.FullName(), md.Name())
		in, outd := md.Input(), md.Output()
		if md.IsStreamingClient() || md.IsStreamingServer() {
			gsd.Streams = append(gsd.Streams, grpc.StreamDesc{
				StreamName:    string(md.Name()),
				ClientStreams: md.IsStreamingClient(),
				ServerStreams: md.IsStreamingServer(),
				Handler: func(srv interface{}, ss grpc.ServerStream) error {
					return e.streamUser(in, outd, ss)
				},
			})
			continue
		}
		gsd.Methods = append(gsd.Methods, grpc.MethodDesc{
			MethodName: string(md.Name()),
			Handler: func(srv interface{}, ctx context.Context, dec func(interface{}) error, interceptor grpc.UnaryServerInterceptor) (interface{}, error) {
				req := dynamicpb.NewMessage(in)
				err := dec(req)
				e.logOp(err)
				if err != nil {
					return nil, err
				}
				e.dlv = append(e.dlv, msgText(req))
				h := func(ctx context.Context, r interface{}) (interface{}, error) { return e.unaryUser(ctx, outd) }
				if interceptor == nil {
					return h(ctx, req)
				}
				return interceptor(ctx, req, &grpc.UnaryServerInfo{Server: srv, FullMethod: full}, h)
			},
		})
	}
	return gsd
}

func c18Setup() *c18Env {
	if c18env != nil {
		return c18env
	}
	e := &c18Env{}
	msg := "larking.testpb.Message"
	mk := func(name string, cs, ss bool) dynMethod {
		p := "/c18/" + strings.ToLower(name)
		return dynMethod{Name: name, In: msg, Out: msg, ClientStream: cs, ServerStream: ss,
			Rule: &dynRule{Verb: "POST", Tmpl: p, Body: "*", Additional: []dynRule{{Verb: "GET", Tmpl: p + "/nb"}}}}
	}
	f := dynFile{Path: "verif/c18.proto", Pkg: "verif.c18", Services: []dynService{{Name: "Svc", Methods: []dynMethod{
		mk("Mu", false, false), mk("Mc", true, false), mk("Ms", false, true), mk("Mb", true, true),
	}}}}
	fd, err := f.build()
	if err != nil {
		panic(err)
	}
	e.in = fd.Services().Get(0).Methods().Get(0).Input()
	for i := 0; i < 4; i++ {
		files := &protoregistry.Files{}
		if err := files.RegisterFile(fd); err != nil {
			panic(err)
		}
		opts := []larking.MuxOption{larking.FilesOption(files)}
		if i&2 != 0 {
			opts = append(opts, larking.UnaryServerInterceptorOption(e.unaryIcpt), larking.StreamServerInterceptorOption(e.streamIcpt))
		}
		if i&1 != 0 {
			opts = append(opts, larking.StatsOption(c18Stats{e}))
		}
		m, err := larking.NewMux(opts...)
		if err != nil {
			panic(err)
		}
		if err := safeRegister(m, e.serviceDesc(fd.Services().Get(0))); err != nil {
			panic(err)
		}
		e.mux[i] = m
	}
	c18env = e
	return e
}

type c18Case struct {
	proto, shape  string
	routed, rbody bool
	reqs          [][]byte
	hk            string
	acts          []c18Act
	reply         []byte
	code          int
	imk           byte
	imc           int
	imsg          []byte
	icpt, statsOn bool
	ns            string // name space of the service: "c18" (local handlers, default) or "c18p" (proxied)
}

func c18Parse(input string) c18Case {
	f := strings.Fields(input)
	if len(f) != 13 || f[0] != "C18" {
		panic("bad C18 case: " + input)
	}
	c := c18Case{proto: f[1], shape: f[2], routed: f[3] == "1", rbody: f[4] == "1", reqs: unhxs(f[5]), hk: f[6],
		reply: unhx(f[8]), code: atoi(f[9]), icpt: f[11] == "1", statsOn: f[12] == "1"}
	if f[7] != "-" {
		for _, a := range strings.Split(f[7], ",") {
			act := c18Act{k: a[0]}
			if a[0] == 's' {
				act.p = unhx(a[1:])
			}
			c.acts = append(c.acts, act)
		}
	}
	c.imk, c.imc, c.imsg = c18ParseMode(f[10])
	return c
}

// imode: p | j<code> | o<code> | r<hex> | k<hex>
func c18ParseMode(s string) (k byte, code int, msg []byte) {
	k = s[0]
	switch k {
	case 'j', 'o':
		code = atoi(s[1:])
	case 'r', 'k':
		msg = unhx(s[1:])
	}
	return
}

func (c c18Case) request() (*http.Request, context.CancelFunc) {
	ns := c.ns
	if ns == "" {
		ns = "c18"
	}
	m := c18MethodName(c.shape)
	if !c.routed {
		m = "Zz"
	}
	var r *http.Request
	switch c.proto {
	case "grpc", "web":
		var body []byte
		for _, p := range c.reqs {
			body = append(body, grpcFrame(p)...)
		}
		r = httptest.NewRequest("POST", "/verif."+ns+".Svc/"+m, bytes.NewReader(body))
		if c.proto == "grpc" {
			r.ProtoMajor, r.ProtoMinor = 2, 0
			r.Header.Set("Content-Type", "application/grpc")
		} else {
			r.Header.Set("Content-Type", "application/grpc-web+proto")
		}
	case "http":
		var body []byte
		if c.shape == "c" || c.shape == "b" {
			for _, p := range c.reqs {
				body = protowire.AppendVarint(body, uint64(len(p)))
				body = append(body, p...)
			}
		} else if len(c.reqs) > 0 {
			body = c.reqs[0]
		}
		path, verb := "/"+ns+"/"+strings.ToLower(m), "POST"
		if !c.rbody {
			path, verb = path+"/nb", "GET"
		}
		r = httptest.NewRequest(verb, path, bytes.NewReader(body))
		r.Header.Set("Content-Type", "application/protobuf")
		r.Header.Set("Accept", "application/protobuf")
	default:
		panic("bad proto " + c.proto)
	}
	r.Header.Set("X-C18-Probe", "1")
	ctx, cancel := context.WithCancel(context.Background())
	return r.WithContext(ctx), cancel
}

type c18Obs struct {
	panicked                   bool
	calls, ev, hlog, dlv, iret string
	hs                         int
	gs, body                   string
}

func c18Join(xs []string) string {
	if len(xs) == 0 {
		return "-"
	}
	return strings.Join(xs, ",")
}

func c18Exec(e *c18Env, c c18Case, icpt, statsOn bool) c18Obs {
	e.acts, e.hk, e.repl, e.code, e.imk, e.imc, e.imsg = c.acts, c.hk, c.reply, c.code, c.imk, c.imc, c.imsg
	e.calls, e.ev, e.hlog, e.dlv, e.iret = nil, nil, nil, nil, "-"
	c18kept = nil
	r, cancel := c.request()
	e.cancel = cancel
	defer cancel()
	w, p := serveRec(e.mux[b2i(icpt)*2+b2i(statsOn)], r)
	o := c18Obs{panicked: p != "", calls: c18Join(e.calls), ev: c18Join(c18EvCheck(e.ev)), hlog: c18Join(e.hlog), dlv: c18Join(e.dlv), iret: e.iret, gs: "-"}
	if p != "" {
		o.body = "x"
		return o
	}
	res := w.Result()
	o.hs = res.StatusCode
	body := w.Body.Bytes()
	o.body = hx(body)
	get := func(k string) (string, bool) {
		if v, ok := res.Trailer[k]; ok && len(v) > 0 {
			return v[0], true
		}
		if v, ok := res.Header[k]; ok && len(v) > 0 {
			return v[0], true
		}
		return "", false
	}
	switch c.proto {
	case "grpc":
		if v, ok := get("Grpc-Status"); ok {
			o.gs = v
		}
	case "web":
		if v, ok := webTrailers(body)["grpc-status"]; ok && len(v) > 0 {
			o.gs = v[0]
		} else if v, ok := get("Grpc-Status"); ok {
			o.gs = v
		}
	}
	return o
}

func c18Run(o *out, input string) {
	if strings.HasPrefix(input, "C18P ") {
		c18pRun(o, input)
		return
	}
	e := c18Setup()
	c := c18Parse(input)
	valid := make([]string, len(c.reqs))
	for i, p := range c.reqs {
		valid[i] = strconv.Itoa(b2i(proto.Unmarshal(p, dynamicpb.NewMessage(e.in)) == nil))
	}
	a := c18Exec(e, c, c.icpt, c.statsOn)
	b := c18Exec(e, c, false, false)
	o.emit(input, fmt.Sprintf("%s %d %s %s %s %s %s %d %s %s %d %s %s %d %s %s", c18Join(valid), b2i(a.panicked), a.calls, a.ev, a.hlog, a.dlv, a.iret,
		a.hs, a.gs, a.body, b2i(b.panicked), b.hlog, b.dlv, b.hs, b.gs, b.body))
}

// ---- generators ----

// c18Payload returns a valid testpb.Message encoding of exactly n bytes (n = 0, 2, 3, ...); a proto
// message cannot be 1 byte long.
func c18Payload(n int, r *rng) []byte {
	switch {
	case n <= 0:
		return nil
	case n == 1, n == 2:
		return []byte{0x20, 0x01} // unknown varint field 4
	}
	// field 2 (text): tag, length varint, k ASCII bytes
	k := n - 2
	if k > 127 {
		k = n - 3
	}
	if n == 130 { // 2 + 128 needs a 2-byte length: 130 is one (unknown) field 16 with a 2-byte tag and 127 bytes
		// (a message with two fields would be re-marshalled by dynamicpb in map order)
		return append([]byte{0x82, 0x01, 127}, r.bytes(127)...)
	}
	b := protowire.AppendVarint([]byte{0x12}, uint64(k))
	for i := 0; i < k; i++ {
		b = append(b, byte('a'+r.intn(26)))
	}
	return b
}

var c18Invalid = [][]byte{{0x12}, {0x12, 0x05, 0x61}, {0x0a, 0x01, 0xff}, {0xff}}

func c18Line(c c18Case) string {
	acts := make([]string, len(c.acts))
	for i, a := range c.acts {
		acts[i] = string(a.k)
		if a.k == 's' {
			acts[i] += hx(a.p)
		}
	}
	im := "p"
	switch c.imk {
	case 'j', 'o':
		im = fmt.Sprintf("%c%d", c.imk, c.imc)
	case 'r', 'k':
		im = string(c.imk) + hx(c.imsg)
	}
	return fmt.Sprintf("C18 %s %s %d %d %s %s %s %s %d %s %d %d", c.proto, c.shape, b2i(c.routed), b2i(c.rbody), hxs(c.reqs), c.hk, c18Join(acts),
		hx(c.reply), c.code, im, b2i(c.icpt), b2i(c.statsOn))
}

func c18Gen(o *out, r *rng, tier string) {
	protos := []string{"http", "grpc", "web"}
	shapes := []string{"u", "c", "s", "b"}
	sizes := []int{0, 2, 3, 4, 5, 6, 7, 8, 9, 10, 16, 64, 129, 130, 131, 300}
	run := func(c c18Case, tag string) {
		o.count(tag)
		o.count("proto/" + c.proto + "/" + c.shape)
		o.count(fmt.Sprintf("opts/icpt=%d,stats=%d", b2i(c.icpt), b2i(c.statsOn)))
		c18Run(o, c18Line(c))
	}
	S := func(p []byte) c18Act { return c18Act{k: 's', p: p} }
	R, H, C := c18Act{k: 'r'}, c18Act{k: 'h'}, c18Act{k: 'c'}
	// canonical well-behaved handler for a shape, on nreq request messages and replies of size n
	canon := func(shape string, nreq, n int) (hk string, acts []c18Act) {
		switch shape {
		case "u":
			return "U", nil
		case "c":
			for i := 0; i <= nreq+1; i++ {
				acts = append(acts, R)
			}
			return "S", append(acts, S(c18Payload(n, r)))
		case "s":
			return "S", []c18Act{R, S(c18Payload(n, r)), S(c18Payload(n+1, r)), S(c18Payload(0, r))}
		default:
			for i := 0; i <= nreq+1; i++ {
				acts = append(acts, R, S(c18Payload(n+i, r)))
			}
			return "S", acts
		}
	}
	// 1. the full product protocols x shapes x option combinations x message sizes x ok / failing handler
	for _, p := range protos {
		for _, sh := range shapes {
			for opt := 0; opt < 4; opt++ {
				for _, n := range sizes {
					for _, code := range []int{0, []int{3, 5, 13, 16, 2, 14}[(n+opt)%6]} {
						c := c18Case{proto: p, shape: sh, routed: true, rbody: true, reqs: [][]byte{c18Payload(n, r)}, reply: c18Payload(n, r), code: code,
							imk: 'p', icpt: opt&2 != 0, statsOn: opt&1 != 0}
						if sh == "c" || sh == "b" {
							c.reqs = append(c.reqs, c18Payload(sizes[(n+1)%len(sizes)], r))
						}
						c.hk, c.acts = canon(sh, len(c.reqs), n)
						run(c, "product")
					}
				}
				// requests without a body / without messages, body-less HTTP rule
				for _, rb := range []bool{true, false} {
					c := c18Case{proto: p, shape: sh, routed: true, rbody: rb, reply: c18Payload(5, r), imk: 'p', icpt: opt&2 != 0, statsOn: opt&1 != 0}
					c.hk, c.acts = canon(sh, 0, 3)
					run(c, "no-request-message")
					c.reqs = [][]byte{c18Payload(4, r)}
					run(c, "rule-body-variants")
				}
				// nothing registered under the name
				c := c18Case{proto: p, shape: sh, routed: false, rbody: true, reqs: [][]byte{c18Payload(3, r)}, reply: nil, imk: 'p', icpt: opt&2 != 0, statsOn: opt&1 != 0}
				c.hk, c.acts = canon(sh, 1, 3)
				run(c, "unrouted")
			}
		}
	}
	// 2. random scenarios: scripts over {r, s, h, c}, invalid payloads, interceptor modes
	n := 2500
	if tier == "thorough" {
		n = 60000
	}
	for i := 0; i < n; i++ {
		c := c18Case{proto: protos[r.intn(3)], shape: shapes[r.intn(4)], routed: r.intn(25) != 0, rbody: r.intn(5) != 0, imk: 'p',
			icpt: r.intn(4) != 0, statsOn: r.intn(4) != 0}
		malformed := false
		for j, l := 0, r.intn(4); j < l; j++ {
			if r.intn(12) == 0 {
				c.reqs = append(c.reqs, c18Invalid[r.intn(len(c18Invalid))])
				malformed = true
			} else {
				c.reqs = append(c.reqs, c18Payload(r.pick([]int{0, 0, 2, 3, 4, 5, 6, 7, 9, 33, 131}), r))
			}
		}
		if c.shape == "u" {
			c.hk = "U"
			for j, l := 0, r.intn(3); j < l; j++ {
				if r.intn(4) == 0 {
					c.acts = append(c.acts, C)
				} else {
					c.acts = append(c.acts, H)
				}
			}
			c.reply = c18Payload(r.pick([]int{0, 2, 3, 4, 5, 6, 12}), r)
		} else {
			c.hk = "S"
			for j, l := 0, r.intn(8); j < l; j++ {
				switch x := r.intn(20); {
				case x < 8:
					c.acts = append(c.acts, R)
				case x < 16:
					c.acts = append(c.acts, S(c18Payload(r.pick([]int{0, 2, 3, 4, 5, 6, 8, 40}), r)))
				case x < 19:
					c.acts = append(c.acts, H)
				default:
					c.acts = append(c.acts, C)
				}
			}
		}
		if r.intn(3) == 0 {
			c.code = r.pick([]int{1, 2, 3, 5, 7, 13, 14, 16})
		}
		switch x := r.intn(10); {
		case x == 0:
			c.imk, c.imc = 'j', r.pick([]int{7, 16, 3})
			if c.hk == "S" && r.intn(3) == 0 {
				c.imc = 0
			}
		case x == 1:
			c.imk, c.imc = 'o', r.pick([]int{7, 16, 3})
			if c.hk == "S" && r.intn(3) == 0 {
				c.imc = 0
			}
		case x == 2:
			c.imk, c.imsg = 'r', c18Payload(r.pick([]int{0, 2, 3, 7, 40, 131}), r)
		case x == 3:
			c.imk, c.imsg = 'k', c18Payload(r.pick([]int{0, 2, 3, 7, 40, 131}), r)
		}
		tag := "random"
		if malformed {
			tag = "random-malformed"
		}
		run(c, tag)
	}
	// 3a. a unary interceptor that answers with a message of its own, on every protocol, handler succeeding / failing
	for _, p := range protos {
		for _, mk := range []byte{'r', 'k'} {
			for _, n := range []int{0, 3, 64} {
				for _, code := range []int{0, 5} {
					for _, st := range []bool{false, true} {
						run(c18Case{proto: p, shape: "u", routed: true, rbody: true, reqs: [][]byte{c18Payload(3, r)}, hk: "U", reply: c18Payload(9, r), code: code,
							imk: mk, imsg: c18Payload(n, r), icpt: true, statsOn: st}, "interceptor-own-reply")
					}
				}
			}
		}
	}
	// 3. an interceptor that returns (nil, nil) for a unary method makes larking call SendMsg(nil)
	for _, p := range protos {
		run(c18Case{proto: p, shape: "u", routed: true, rbody: true, reqs: [][]byte{c18Payload(3, r)}, hk: "U", reply: nil, imk: 'j', imc: 0, icpt: true, statsOn: true}, "interceptor-nil-reply")
	}
}

func init() {
	props["C18"] = prop{gen: func(o *out, r *rng, tier string) { c18Gen(o, r, tier); c18pGen(o, r, tier) }, run: c18Run}
}
