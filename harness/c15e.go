package main

// C15E <d ns> ; <grpc-timeout header hex>
//
// The grpc-timeout a grpc-go client writes for a call whose context has d nanoseconds left -- the header a backend behind
// RegisterConn receives from the mux. Observed on a cleartext HTTP/2 server that records the header and answers
// UNIMPLEMENTED. Ties Model/TimeoutForward.v (EncodeDuration, a library function) to the grpc-go in /repo's go.mod.

import (
	"context"
	"fmt"
	"net"
	"net/http"
	"strings"
	"time"

	"golang.org/x/net/http2"
	"golang.org/x/net/http2/h2c"
	"google.golang.org/grpc"
	"google.golang.org/grpc/credentials/insecure"
	"google.golang.org/protobuf/types/known/emptypb"
)

type c15eEnv struct {
	conn *grpc.ClientConn
	got  chan string
}

var c15eenv *c15eEnv

func c15eSetup() *c15eEnv {
	if c15eenv != nil {
		return c15eenv
	}
	e := &c15eEnv{got: make(chan string, 4)}
	lis, err := net.Listen("tcp", "127.0.0.1:0")
	if err != nil {
		panic(err)
	}
	h := http.HandlerFunc(func(w http.ResponseWriter, r *http.Request) {
		v := "absent"
		if t := r.Header["Grpc-Timeout"]; len(t) > 0 {
			v = t[0]
		}
		select {
		case e.got <- v:
		default:
		}
		w.Header().Set("Content-Type", "application/grpc")
		w.Header().Set("Grpc-Status", "12")
		w.WriteHeader(200)
	})
	go (&http.Server{Handler: h2c.NewHandler(h, &http2.Server{})}).Serve(lis)
	e.conn, err = grpc.Dial(lis.Addr().String(), grpc.WithTransportCredentials(insecure.NewCredentials()))
	if err != nil {
		panic(err)
	}
	c15eenv = e
	return e
}

func c15eRun(o *out, input string) {
	f := strings.Fields(input)
	var d int64
	fmt.Sscanf(f[1], "%d", &d)
	e := c15eSetup()
	for len(e.got) > 0 {
		<-e.got
	}
	ctx, cancel := context.WithTimeout(context.Background(), time.Duration(d))
	defer cancel()
	e.conn.Invoke(ctx, "/verif.c15e.E/Probe", &emptypb.Empty{}, &emptypb.Empty{}) //nolint: the answer is UNIMPLEMENTED
	select {
	case v := <-e.got:
		o.emit(input, hx([]byte(v)))
	case <-time.After(3 * time.Second):
		o.emit(input, "none")
	}
}

func c15eGen(o *out, r *rng, tier string) {
	n := 40
	if tier == "thorough" {
		n = 600
	}
	emit := func(d int64) {
		o.count("forwarded-timeout")
		c15eRun(o, fmt.Sprintf("C15E %d", d))
	}
	// around every place where EncodeDuration changes its unit (eight digits of the finer unit), plus round values
	for _, u := range []int64{1, 1000, 1000000, 1000000000, 60000000000} {
		for _, k := range []int64{99999998, 99999999, 100000000, 100000001} {
			if v := k * u; v > 2000000000 && v/u == k { // (below two seconds the call would time out before it is sent)
				emit(v)
				emit(v + u/2 + 1)
			}
		}
	}
	for _, d := range []int64{3e9, 5e9 + 1, 59999999999, 60e9, 3600e9, 3600e9 + 1, 86400e9, 1 << 55, 1 << 62, 1<<63 - 1} {
		emit(d)
	}
	for i := 0; i < n; i++ {
		// log-uniform above two seconds
		sh := 31 + r.intn(32)
		emit(int64(r.u64()>>1)>>(63-sh) | 1<<31)
	}
}

func init() {
	p := props["C15"]
	g, rn := p.gen, p.run
	props["C15"] = prop{
		gen: func(o *out, r *rng, tier string) { g(o, r, tier); c15eGen(o, r, tier) },
		run: func(o *out, in string) {
			if strings.HasPrefix(in, "C15E") {
				c15eRun(o, in)
			} else {
				rn(o, in)
			}
		},
	}
}
