package main

// C06Z <codec j|p> <damage> <n> ; <texts the handler received> <end eof|err> <http status>
//
// An HTTP client stream with Content-Encoding: gzip whose compressed stream is damaged AFTER the last
// complete message (cut inside or before the 8-byte gzip trailer, wrong CRC-32, wrong ISIZE, trailing
// garbage that is not a gzip member): the decompressed bytes end on a message boundary, so only the gzip
// layer knows that the body is not what the client sent. The handler may be given the messages, but the
// stream must not end like one the client completed (io.EOF) and the call must not be answered 200.
// damage = none is the intact control.

import (
	"bytes"
	"context"
	"encoding/binary"
	"fmt"
	"io"
	"net/http/httptest"
	"strings"

	"google.golang.org/grpc"
	"google.golang.org/protobuf/encoding/protojson"
	"google.golang.org/protobuf/proto"
	"google.golang.org/protobuf/reflect/protoreflect"
	"google.golang.org/protobuf/types/dynamicpb"
	"larking.io/api/testpb"
	"larking.io/larking"
)

type c06zEnv struct {
	mux   *larking.Mux
	texts []string
	end   string
}

var c06zenv *c06zEnv

func c06zSetup() *c06zEnv {
	if c06zenv != nil {
		return c06zenv
	}
	e := &c06zEnv{}
	msg := "larking.testpb.Message"
	f := dynFile{Path: "verif/c06z.proto", Pkg: "verif.c06z", Services: []dynService{{Name: "Zsvc", Methods: []dynMethod{
		{Name: "Up", In: msg, Out: msg, ClientStream: true, Rule: &dynRule{Verb: "POST", Tmpl: "/c06z/up", Body: "*"}},
	}}}}
	fd, err := f.build()
	if err != nil {
		panic(err)
	}
	impl := &dynImpl{
		Unary: func(ctx context.Context, method string, req proto.Message, out protoreflect.MessageDescriptor) (proto.Message, error) {
			return dynamicpb.NewMessage(out), nil
		},
		Stream: func(method string, in, out protoreflect.MessageDescriptor, ss grpc.ServerStream) error {
			for {
				m := dynamicpb.NewMessage(in)
				err := ss.RecvMsg(m)
				if err == io.EOF {
					e.end = "eof"
					break
				}
				if err != nil {
					e.end = "err"
					return err
				}
				e.texts = append(e.texts, m.Get(in.Fields().ByName("text")).String())
			}
			return ss.SendMsg(dynamicpb.NewMessage(out))
		},
	}
	e.mux, err = dynMux([]protoreflect.FileDescriptor{fd}, impl)
	if err != nil {
		panic(err)
	}
	c06zenv = e
	return e
}

func c06zRun(o *out, input string) {
	f := strings.Fields(input)
	codec, damage, n := f[1], f[2], atoi(f[3])
	e := c06zSetup()
	e.texts, e.end = nil, "none"
	var plain bytes.Buffer
	for i := 0; i < n; i++ {
		m := &testpb.Message{Text: fmt.Sprintf("message-%d-%s", i, strings.Repeat("x", i*7))}
		if codec == "p" {
			b, _ := proto.Marshal(m)
			var l [10]byte
			k := binary.PutUvarint(l[:], uint64(len(b)))
			plain.Write(l[:k])
			plain.Write(b)
		} else {
			b, _ := protojson.Marshal(m)
			plain.Write(b)
		}
	}
	z := c06Gzip(plain.Bytes())
	switch damage {
	case "none":
	case "cut1":
		z = z[:len(z)-1]
	case "cut4":
		z = z[:len(z)-4]
	case "cut8":
		z = z[:len(z)-8]
	case "crc":
		z[len(z)-8] ^= 0xff
	case "isize":
		z[len(z)-1] ^= 0x01
	case "tail":
		z = append(z, 'j', 'u', 'n', 'k')
	}
	r := httptest.NewRequest("POST", "/c06z/up", bytes.NewReader(z))
	if codec == "p" {
		r.Header.Set("Content-Type", "application/protobuf")
	} else {
		r.Header.Set("Content-Type", "application/json")
	}
	r.Header.Set("Content-Encoding", "gzip")
	w, p := serveRec(e.mux, r)
	if p != "" {
		o.emit(input, "panic")
		return
	}
	ts := "-"
	if len(e.texts) > 0 {
		ts = hxs(func() [][]byte {
			var bs [][]byte
			for _, t := range e.texts {
				bs = append(bs, []byte(t))
			}
			return bs
		}())
	}
	o.emit(input, fmt.Sprintf("%s %s %d", ts, e.end, w.Code))
}

func c06zGen(o *out) {
	for _, codec := range []string{"j", "p"} {
		for _, n := range []int{1, 3} {
			// the intact control first and last: a damaged body must not spoil the next request either
			for _, d := range []string{"none", "cut1", "cut4", "cut8", "crc", "isize", "tail", "none"} {
				o.count("http-gzip-damaged/" + d)
				c06zRun(o, fmt.Sprintf("C06Z %s %s %d", codec, d, n))
			}
		}
	}
}

func init() {
	p := props["C06"]
	g, rn := p.gen, p.run
	props["C06"] = prop{
		gen: func(o *out, r *rng, tier string) { g(o, r, tier); c06zGen(o) },
		run: func(o *out, in string) {
			if strings.HasPrefix(in, "C06Z") {
				c06zRun(o, in)
			} else {
				rn(o, in)
			}
		},
	}
}
