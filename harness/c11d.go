package main

// C11, the routing trie under removal (RD cases, run by ./check C11 beside the register / drop histories):
//
//	RD <ruleset> <dropped method indices a.b.c> <verb> <path hex> <classifier> ; <reg> <delRule results 0|1,...> <status,method,fields>
//
// the rule set is registered through the real Mux (as the RT cases of C01), then path.delRule is applied
// for every dropped method (hook VerifDelRule: a copy of the published state, delRule, publish -- what
// state.removeHandler does for a method that lost its last handler), then one request is routed.
// Judged by the string-level template specification against the rule set WITHOUT the dropped methods
// ("removal = never having registered") and compared with the extracted Model/TrieDel.v.

import (
	"fmt"
	"strings"

	"larking.io/larking"
)

func c11dRun(o *out, input string) {
	f := strings.Fields(input)
	ms := c01DecRuleset(f[1])
	cm := c01Build(false, ms)
	oks := "-"
	res := "0,-,-"
	if cm.reg == "acc" {
		var names []string
		if f[2] != "-" {
			for _, i := range strings.Split(f[2], ".") {
				names = append(names, ms[atoi(i)].full())
			}
		}
		mux := cm.h.(*larking.Mux)
		panicked := false
		var got []bool
		func() {
			defer func() {
				if p := recover(); p != nil {
					panicked = true
				}
			}()
			got = mux.VerifDelRule(names...)
		}()
		if panicked {
			o.emit(input, cm.reg+" panic 0,-,-")
			return
		}
		var bs []string
		for _, b := range got {
			bs = append(bs, fmt.Sprint(b2i(b)))
		}
		if len(bs) > 0 {
			oks = strings.Join(bs, ",")
		}
		res = cm.req(f[3], string(unhx(f[4])))
	}
	o.emit(input, cm.reg+" "+oks+" "+res)
}

func c11dGen(o *out, r *rng, tier string) {
	sets := 150
	if tier == "thorough" {
		sets = 3000
	}
	for i := 0; i < sets; i++ {
		ms := c01RuleSet(r)
		// methods bound under several verbs on one template, and a wildcard rule that takes over
		if r.intn(3) == 0 && len(ms) > 0 {
			k := r.intn(len(ms))
			if len(ms[k].Bindings) > 0 {
				b := ms[k].Bindings[0]
				for _, v := range []string{"GET", "POST", "DELETE"} {
					if v != b.Verb && b.Verb != "*" {
						ms[k].Bindings = append(ms[k].Bindings, c01Binding{Verb: v, Tmpl: b.Tmpl})
					}
				}
			}
		}
		rs := c01EncRuleset(ms)
		// drop one or two methods (sometimes one twice, sometimes none)
		var drops []string
		switch r.intn(8) {
		case 0:
		case 1:
			k := r.intn(len(ms))
			drops = []string{fmt.Sprint(k), fmt.Sprint(k)}
		default:
			for j, n := 0, 1+r.intn(2); j < n; j++ {
				drops = append(drops, fmt.Sprint(r.intn(len(ms))))
			}
		}
		ds := "-"
		if len(drops) > 0 {
			ds = strings.Join(drops, ".")
		}
		for _, p := range c01Paths(r, ms, 6) {
			verb := c01ReqVerb(r, ms)
			o.count("RD")
			c11dRun(o, fmt.Sprintf("RD %s %s %s %s %s", rs, ds, verb, hx([]byte(p)), c01ClsOf(ms, p)))
		}
	}
}

func init() {
	p := props["C11"]
	g, rn := p.gen, p.run
	props["C11"] = prop{
		gen: func(o *out, r *rng, tier string) {
			g(o, r, tier)
			if !strings.HasPrefix(tier, "race") {
				c11dGen(o, r, tier)
			}
		},
		run: func(o *out, in string) {
			if strings.HasPrefix(in, "RD ") {
				c11dRun(o, in)
			} else {
				rn(o, in)
			}
		},
	}
}
