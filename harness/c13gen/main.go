// c13gen: the C13 translator. Reads larking/*.go (go/ast only, no type checking, works offline)
// and emits, for every function that obtains an object from a process-wide sync.Pool (directly or
// through a package function that returns one), the pool-relevant event scripts of
// coq/theories/Model/Pools.v -- one script per control-flow path, package-local callees inlined,
// defers run at every exit, loops unrolled twice.
//
// It recognises a fixed set of syntactic shapes (see whitelist below). Whatever touches a pooled
// object in a way that is not recognised becomes Escape, which the Coq checker never accepts.
//
//	go run ./c13gen -repo /repo -out PoolScripts.v -json scripts.json
package main

import (
	"encoding/json"
	"flag"
	"fmt"
	"go/ast"
	"go/parser"
	"go/token"
	"os"
	"path/filepath"
	"sort"
	"strings"
)

// ---------- events ----------

type event struct {
	Op   string `json:"op"` // Get Put Reset Write Read Alias CopyOut Retain Escape
	P    int    `json:"p"`
	V, W int
	Pos  string `json:"pos"`
	Note string `json:"note,omitempty"`
}

func (e event) coq() string {
	switch e.Op {
	case "Get", "Put":
		return fmt.Sprintf("%s %d %d", e.Op, e.P, e.V)
	case "Alias", "CopyOut":
		return fmt.Sprintf("%s %d %d", e.Op, e.V, e.W)
	}
	return fmt.Sprintf("%s %d", e.Op, e.V)
}

// ---------- abstract values ----------

const (
	kNone   = iota // not a pooled object
	kObj           // a pooled object, or a value sharing its storage
	kStruct        // a local struct value whose fields may hold pooled objects
	kNil
	kPriv  // a private copy of pooled bytes
	kTuple // several results of an inlined call
	kFresh // memory the request allocated itself (make / new) and values grown from it: no pooled object,
	// but owned by the request -- it may be stored into a pooled cell (*bp = b after b = make(...))
)

type aval struct {
	kind   int
	v      int // script variable
	tok    int // which Get
	typ    string
	fields map[string]*aval
}

var none = &aval{kind: kNone}

func (a *aval) tracked() bool { return a != nil && a.kind == kObj }

// every pooled object reachable from a
func (a *aval) objs(seen map[*aval]bool) []*aval {
	if a == nil || seen[a] {
		return nil
	}
	seen[a] = true
	switch a.kind {
	case kObj, kPriv:
		return []*aval{a}
	case kStruct, kTuple:
		var out []*aval
		keys := make([]string, 0, len(a.fields))
		for k := range a.fields {
			keys = append(keys, k)
		}
		sort.Strings(keys)
		for _, k := range keys {
			out = append(out, a.fields[k].objs(seen)...)
		}
		return out
	}
	return nil
}

// ---------- state ----------

type state struct {
	env     map[string]*aval
	events  []event
	nvar    int
	ntok    int
	defers  map[int][]ast.Node // frame -> deferred calls
	ret     bool
	brk     bool
	cnt     bool
	retvals []*aval
	stack   []string // functions being inlined
	// a panic unwinds: no further statement of any frame runs (in particular the assignment the
	// panicking call stood in does not happen), the deferred calls of every frame do
	panicked bool
}

func (s *state) clone() *state {
	memo := map[*aval]*aval{}
	var cp func(a *aval) *aval
	cp = func(a *aval) *aval {
		if a == nil || a == none {
			return a
		}
		if b, ok := memo[a]; ok {
			return b
		}
		b := &aval{kind: a.kind, v: a.v, tok: a.tok, typ: a.typ}
		memo[a] = b
		if a.fields != nil {
			b.fields = map[string]*aval{}
			for k, f := range a.fields {
				b.fields[k] = cp(f)
			}
		}
		return b
	}
	n := &state{env: map[string]*aval{}, nvar: s.nvar, ntok: s.ntok, defers: map[int][]ast.Node{}, ret: s.ret, brk: s.brk, cnt: s.cnt, panicked: s.panicked}
	for k, a := range s.env {
		n.env[k] = cp(a)
	}
	n.events = append([]event(nil), s.events...)
	for k, d := range s.defers {
		n.defers[k] = append([]ast.Node(nil), d...)
	}
	for _, a := range s.retvals {
		n.retvals = append(n.retvals, cp(a))
	}
	n.stack = append([]string(nil), s.stack...)
	return n
}

type sv struct {
	st *state
	v  *aval
}

// ---------- the package ----------

type pkgInfo struct {
	fset         *token.FileSet
	funcs        map[string][]*ast.FuncDecl // by name (functions and methods)
	imports      map[string]bool
	pools        map[string]int // pool expression suffix -> id
	typePool     map[string]int // struct type with a `pool: &x.poolY` literal -> id
	relevant     map[string]bool
	constructors map[string]bool
	frames       int
	budget       int
	over         bool
}

var poolIDs = map[string]int{"bytesPool": 0, "bufPool": 1, "poolCompressor": 2, "poolDecompressor": 3}

func recvType(fd *ast.FuncDecl) string {
	if fd.Recv == nil || len(fd.Recv.List) == 0 {
		return ""
	}
	return typeName(fd.Recv.List[0].Type)
}

func typeName(e ast.Expr) string {
	switch t := e.(type) {
	case *ast.StarExpr:
		return typeName(t.X)
	case *ast.Ident:
		return t.Name
	case *ast.SelectorExpr:
		return typeName(t.X) + "." + t.Sel.Name
	case *ast.ParenExpr:
		return typeName(t.X)
	case *ast.UnaryExpr:
		return typeName(t.X)
	case *ast.CompositeLit:
		return typeName(t.Type)
	}
	return ""
}

func (p *pkgInfo) pos(n ast.Node) string {
	ps := p.fset.Position(n.Pos())
	return fmt.Sprintf("%s:%d", filepath.Base(ps.Filename), ps.Line)
}

// poolOf: is e an expression denoting one of the pools? `recvTyp` is the type of the receiver of
// the function being analysed (for z.pool).
func (p *pkgInfo) poolOf(e ast.Expr, st *state, fr *frame) (int, bool) {
	switch t := e.(type) {
	case *ast.Ident:
		id, ok := p.pools[t.Name]
		return id, ok
	case *ast.SelectorExpr:
		if id, ok := p.pools[t.Sel.Name]; ok {
			return id, true
		}
		if t.Sel.Name == "pool" {
			// z.pool: the pool recorded in the composite literal of z's type
			if base, ok := t.X.(*ast.Ident); ok {
				if a := st.env[fr.key(base.Name)]; a != nil && a.typ != "" {
					if id, ok := p.typePool[a.typ]; ok {
						return id, true
					}
				}
				if fr.recvName == base.Name {
					if id, ok := p.typePool[fr.recvTyp]; ok {
						return id, true
					}
				}
			}
		}
	case *ast.UnaryExpr:
		return p.poolOf(t.X, st, fr)
	case *ast.ParenExpr:
		return p.poolOf(t.X, st, fr)
	}
	return 0, false
}

type frame struct {
	id       int
	fn       *ast.FuncDecl
	recvName string
	recvTyp  string
	top      bool
}

func (f *frame) key(name string) string { return fmt.Sprintf("%d:%s", f.id, name) }

// ---------- whitelist of calls that are not package functions ----------
// name -> effect on (receiver, args). Trusted library facts: io.Writer.Write and
// proto/protojson Unmarshal do not retain their argument, io.ReadFull / Reader.Read write into it,
// encoding/binary reads or writes it in place, bytes.NewReader and Buffer.Bytes share storage.
type effect struct {
	recv   string   // "", "R", "W", "Reset"
	args   []string // per position: "", "R", "W", "lendR" (a reader that is read to EOF)
	result string   // "", "recv", "arg0"
}

var whitelist = map[string]effect{
	"Write":           {recv: "W", args: []string{"R"}},
	"WriteString":     {recv: "W", args: []string{"R"}},
	"Read":            {recv: "R", args: []string{"W"}},
	"ReadFull":        {args: []string{"lendR", "W"}},
	"ReadAtLeast":     {args: []string{"lendR", "W"}},
	"ReadFrom":        {recv: "W", args: []string{"lendR"}},
	"Unmarshal":       {args: []string{"R"}},
	"PutUint16":       {args: []string{"W"}},
	"PutUint32":       {args: []string{"W"}},
	"PutUint64":       {args: []string{"W"}},
	"Uint16":          {args: []string{"R"}},
	"Uint32":          {args: []string{"R"}},
	"Uint64":          {args: []string{"R"}},
	"ConsumeVarint":   {args: []string{"R"}},
	"AppendVarint":    {args: []string{"W"}, result: "arg0"},
	"MarshalAppend":   {args: []string{"W"}, result: "arg0"},
	"bytes.NewReader": {result: "arg0"},
	"bytes.NewBuffer": {result: "arg0"},
	"gzip.NewReader":  {args: []string{"R"}},
	"NewWriterLevel":  {args: []string{"W"}},
	"gzip.NewWriter":  {args: []string{"W"}},
	"ValueOfBytes":    {result: "arg0"},
	"Bytes":           {result: "recv"},
	"Len":             {},
	"Cap":             {},
	"Reset":           {recv: "Reset"},
	"Flush":           {recv: "W"},
	"Close":           {recv: "W"},
	"Equal":           {args: []string{"R", "R"}},
	"HasPrefix":       {args: []string{"R", "R"}},
	"ParseError":      {},
	"Errorf":          {},
	"Sprintf":         {},
	"Name":            {},
}

// calls through these names on an *untracked* receiver are interface-contract calls and are not inlined
var contractNames = map[string]bool{"Write": true, "Read": true, "Unmarshal": true, "Marshal": true, "Flush": true, "Close": true, "Name": true, "Reset": true}

// ---------- the interpreter ----------

type interp struct {
	p *pkgInfo
}

func (in *interp) emit(st *state, op string, pool int, a, b *aval, n ast.Node, note string) {
	e := event{Op: op, P: pool, Pos: in.p.pos(n), Note: note}
	if a != nil {
		e.V = a.v
	}
	if b != nil {
		e.W = b.v
	}
	st.events = append(st.events, e)
}

func (in *interp) newObj(st *state, typ string) *aval {
	a := &aval{kind: kObj, v: st.nvar, tok: st.ntok, typ: typ}
	st.nvar++
	st.ntok++
	return a
}

// use(a, how): how in R W Reset
func (in *interp) use(st *state, a *aval, how string, n ast.Node, note string) {
	if a == nil {
		return
	}
	switch a.kind {
	case kObj:
		switch how {
		case "R":
			in.emit(st, "Read", 0, a, nil, n, note)
		case "W":
			in.emit(st, "Write", 0, a, nil, n, note)
		case "Reset":
			in.emit(st, "Reset", 0, a, nil, n, note)
		}
	case kStruct:
		for _, o := range a.objs(map[*aval]bool{}) {
			if o.kind == kObj {
				in.use(st, o, how, n, note)
			}
		}
	}
}

// an unclassified use of a value
func (in *interp) escape(st *state, a *aval, n ast.Node, note string) {
	for _, o := range a.objs(map[*aval]bool{}) {
		if o.kind == kObj {
			in.emit(st, "Escape", 0, o, nil, n, note)
		} else if o.kind == kPriv {
			in.emit(st, "Retain", 0, o, nil, n, note)
		}
	}
}

func (in *interp) retain(st *state, a *aval, n ast.Node, note string) {
	for _, o := range a.objs(map[*aval]bool{}) {
		in.emit(st, "Retain", 0, o, nil, n, note)
	}
}

func sig(a *aval, seen map[*aval]bool) string {
	if a == nil || seen[a] {
		return "."
	}
	seen[a] = true
	s := fmt.Sprintf("(%d %d %d %s", a.kind, a.v, a.tok, a.typ)
	keys := make([]string, 0, len(a.fields))
	for k := range a.fields {
		keys = append(keys, k)
	}
	sort.Strings(keys)
	for _, k := range keys {
		s += " " + k + "=" + sig(a.fields[k], seen)
	}
	return s + ")"
}

func (s *state) signature() string {
	var sb strings.Builder
	for _, e := range s.events {
		sb.WriteString(e.coq() + "@" + e.Pos + ";")
	}
	keys := make([]string, 0, len(s.env))
	for k := range s.env {
		keys = append(keys, k)
	}
	sort.Strings(keys)
	seen := map[*aval]bool{}
	for _, k := range keys {
		sb.WriteString(k + "=" + sig(s.env[k], seen) + ";")
	}
	fmt.Fprintf(&sb, "%v %v %v %v %d|", s.ret, s.brk, s.cnt, s.panicked, len(s.retvals))
	for _, a := range s.retvals {
		sb.WriteString(sig(a, map[*aval]bool{}) + ",")
	}
	dk := make([]int, 0, len(s.defers))
	for k := range s.defers {
		dk = append(dk, k)
	}
	sort.Ints(dk)
	for _, k := range dk {
		fmt.Fprintf(&sb, "d%d:", k)
		for _, d := range s.defers[k] {
			fmt.Fprintf(&sb, "%d,", d.Pos())
		}
	}
	return sb.String()
}

func (in *interp) check(sts []*state) []*state {
	if len(sts) > 8 {
		seen := map[string]bool{}
		var out []*state
		for _, s := range sts {
			k := s.signature()
			if !seen[k] {
				seen[k] = true
				out = append(out, s)
			}
		}
		sts = out
	}
	if len(sts) > in.p.budget {
		in.p.over = true
		return sts[:1]
	}
	return sts
}

func (in *interp) evalList(st *state, fr *frame, es []ast.Expr) []struct {
	st *state
	vs []*aval
} {
	type r = struct {
		st *state
		vs []*aval
	}
	cur := []r{{st, nil}}
	for _, e := range es {
		var next []r
		for _, c := range cur {
			for _, x := range in.eval(c.st, fr, e) {
				// values found so far belong to c.st; when eval forked, re-resolve is not needed for
				// kNone values, and tracked values are looked up again through the environment by
				// later uses -- forks only happen inside inlined calls, whose results are fresh.
				vs := append(append([]*aval(nil), c.vs...), first(x.v))
				next = append(next, r{x.st, vs})
			}
		}
		cur = next
	}
	if len(cur) > 1 {
		// forked: values computed before the fork belong to another copy of the state
		for _, c := range cur {
			for i, e := range es {
				if q := in.quiet(c.st, fr, e); q.kind != kNone {
					c.vs[i] = q
				}
			}
		}
	}
	return cur
}

func (in *interp) eval(st *state, fr *frame, e ast.Expr) []sv {
	one := func(v *aval) []sv { return []sv{{st, v}} }
	switch t := e.(type) {
	case nil:
		return one(none)
	case *ast.Ident:
		if t.Name == "nil" {
			return one(&aval{kind: kNil})
		}
		if a, ok := st.env[fr.key(t.Name)]; ok {
			return one(a)
		}
		return one(none)
	case *ast.BasicLit:
		return one(none)
	case *ast.ParenExpr:
		return in.eval(st, fr, t.X)
	case *ast.StarExpr:
		return in.eval(st, fr, t.X)
	case *ast.UnaryExpr:
		return in.eval(st, fr, t.X) // &x, !x, -x: same object or nothing
	case *ast.SelectorExpr:
		var out []sv
		for _, x := range in.eval(st, fr, t.X) {
			switch x.v.kind {
			case kStruct:
				if f, ok := x.v.fields[t.Sel.Name]; ok {
					out = append(out, sv{x.st, f})
				} else {
					out = append(out, sv{x.st, none})
				}
			case kObj:
				out = append(out, sv{x.st, x.v}) // a field of a pooled object is part of it
			default:
				out = append(out, sv{x.st, none})
			}
		}
		return out
	case *ast.SliceExpr:
		var out []sv
		for _, x := range in.eval(st, fr, t.X) {
			s2 := x.st
			for _, idx := range []ast.Expr{t.Low, t.High, t.Max} {
				if idx != nil {
					s2 = in.eval(s2, fr, idx)[0].st
				}
			}
			if lit, ok := t.High.(*ast.BasicLit); ok && lit.Value == "0" && t.Low == nil {
				in.use(s2, x.v, "Reset", t, "[:0]")
			}
			out = append(out, sv{s2, first(x.v)})
		}
		return out
	case *ast.IndexExpr:
		var out []sv
		for _, x := range in.eval(st, fr, t.X) {
			s2 := in.eval(x.st, fr, t.Index)[0].st
			in.use(s2, x.v, "R", t, "index")
			out = append(out, sv{s2, none})
		}
		return out
	case *ast.TypeAssertExpr:
		var out []sv
		for _, x := range in.eval(st, fr, t.X) {
			if x.v.kind == kObj && t.Type != nil {
				x.v.typ = typeName(t.Type)
			}
			out = append(out, x)
		}
		return out
	case *ast.BinaryExpr:
		var out []sv
		for _, x := range in.eval(st, fr, t.X) {
			for _, y := range in.eval(x.st, fr, t.Y) {
				out = append(out, sv{y.st, none})
			}
		}
		return out
	case *ast.KeyValueExpr:
		return in.eval(st, fr, t.Value)
	case *ast.CompositeLit:
		cur := []sv{{st, &aval{kind: kStruct, typ: typeName(t.Type), fields: map[string]*aval{}}}}
		for i, el := range t.Elts {
			name := fmt.Sprintf("#%d", i)
			val := el
			if kv, ok := el.(*ast.KeyValueExpr); ok {
				if id, ok := kv.Key.(*ast.Ident); ok {
					name = id.Name
				}
				val = kv.Value
			}
			var next []sv
			for _, c := range cur {
				for _, x := range in.eval(c.st, fr, val) {
					// the struct value under construction must be the one of x.st
					sval := c.v
					if x.st != c.st {
						sval = &aval{kind: kStruct, typ: c.v.typ, fields: map[string]*aval{}}
						for k, f := range c.v.fields {
							sval.fields[k] = f
						}
					}
					if x.v.kind == kObj || x.v.kind == kStruct || x.v.kind == kPriv || x.v.kind == kNil {
						sval.fields[name] = x.v
					}
					next = append(next, sv{x.st, sval})
				}
			}
			cur = next
		}
		for i := range cur {
			if _, wrapper := in.p.typePool[cur[i].v.typ]; len(cur[i].v.objs(map[*aval]bool{})) == 0 && !wrapper {
				// nothing pooled inside: an ordinary value (keep typed wrappers: their nil field matters)
				hasNil := false
				for _, f := range cur[i].v.fields {
					if f.kind == kNil {
						hasNil = true
					}
				}
				if !hasNil {
					cur[i].v = none
				}
			}
		}
		return cur
	case *ast.FuncLit:
		// a closure that mentions pooled objects and is not a deferred call: unclassified
		ast.Inspect(t.Body, func(n ast.Node) bool {
			if id, ok := n.(*ast.Ident); ok {
				if a, ok := st.env[fr.key(id.Name)]; ok && len(a.objs(map[*aval]bool{})) > 0 {
					in.escape(st, a, t, "captured by a closure")
				}
			}
			return true
		})
		return one(none)
	case *ast.CallExpr:
		return in.call(st, fr, t)
	case *ast.ArrayType, *ast.MapType, *ast.ChanType, *ast.FuncType, *ast.InterfaceType, *ast.StructType:
		return one(none)
	}
	return one(none)
}

func isBuiltinType(name string) bool {
	switch name {
	case "string", "int", "int8", "int16", "int32", "int64", "uint", "uint8", "uint16", "uint32", "uint64", "byte", "rune", "float32", "float64", "bool", "uintptr", "error", "any":
		return true
	}
	return false
}

func (in *interp) call(st *state, fr *frame, c *ast.CallExpr) []sv {
	p := in.p
	// conversions
	switch f := c.Fun.(type) {
	case *ast.ArrayType, *ast.MapType, *ast.InterfaceType, *ast.ParenExpr:
		var out []sv
		for _, r := range in.evalList(st, fr, c.Args) {
			for _, a := range r.vs {
				in.use(r.st, a, "R", c, "conversion")
			}
			out = append(out, sv{r.st, none})
		}
		return out
	case *ast.Ident:
		if isBuiltinType(f.Name) {
			var out []sv
			for _, r := range in.evalList(st, fr, c.Args) {
				for _, a := range r.vs {
					in.use(r.st, a, "R", c, "conversion")
				}
				out = append(out, sv{r.st, none})
			}
			return out
		}
		switch f.Name {
		case "len", "cap":
			var out []sv
			for _, r := range in.evalList(st, fr, c.Args) {
				out = append(out, sv{r.st, none})
			}
			return out
		case "make", "new":
			return []sv{{st, &aval{kind: kFresh}}}
		case "panic", "print", "println", "min", "max", "delete", "close", "clear":
			var out []sv
			for _, r := range in.evalList(st, fr, c.Args) {
				for _, a := range r.vs {
					in.escape(r.st, a, c, f.Name)
				}
				if f.Name == "panic" {
					r.st.ret, r.st.retvals, r.st.panicked = true, nil, true
				}
				out = append(out, sv{r.st, none})
			}
			return out
		case "append":
			var out []sv
			for _, r := range in.evalList(st, fr, c.Args) {
				dst := r.vs[0]
				for _, a := range r.vs[1:] {
					if c.Ellipsis != token.NoPos {
						in.use(r.st, a, "R", c, "append source (copied)")
					} else {
						in.escape(r.st, a, c, "appended as an element")
					}
				}
				if dst.kind == kObj {
					in.use(r.st, dst, "W", c, "append")
					out = append(out, sv{r.st, dst})
				} else if dst.kind == kFresh {
					out = append(out, sv{r.st, dst})
				} else {
					out = append(out, sv{r.st, none})
				}
			}
			return out
		case "copy":
			var out []sv
			for _, r := range in.evalList(st, fr, c.Args) {
				dst, src := r.vs[0], r.vs[1]
				if dst.kind != kObj && src.kind == kObj {
					// a private copy: make + copy. The destination must be a plain local variable.
					if id, ok := c.Args[0].(*ast.Ident); ok {
						pv := &aval{kind: kPriv, v: r.st.nvar}
						r.st.nvar++
						in.emit(r.st, "CopyOut", 0, src, pv, c, "copy into "+id.Name)
						r.st.env[fr.key(id.Name)] = pv
					} else {
						in.use(r.st, src, "R", c, "copy source")
					}
				} else {
					in.use(r.st, src, "R", c, "copy source")
					in.use(r.st, dst, "W", c, "copy destination")
				}
				out = append(out, sv{r.st, none})
			}
			return out
		}
	}

	// pool operations
	if sel, ok := c.Fun.(*ast.SelectorExpr); ok && (sel.Sel.Name == "Get" || sel.Sel.Name == "Put") {
		if id, ok := p.poolOf(sel.X, st, fr); ok {
			if sel.Sel.Name == "Get" {
				a := in.newObj(st, "")
				in.emit(st, "Get", id, a, nil, c, "")
				return []sv{{st, a}}
			}
			var out []sv
			for _, r := range in.evalList(st, fr, c.Args) {
				a := r.vs[0]
				switch a.kind {
				case kObj:
					in.emit(r.st, "Put", id, a, nil, c, "")
				case kStruct:
					// a wrapper that holds the pooled part is put as a whole: everything inside goes with it
					for _, o := range a.objs(map[*aval]bool{}) {
						if o.kind == kObj {
							in.emit(r.st, "Put", id, o, nil, c, "inside the value put")
						}
					}
				}
				out = append(out, sv{r.st, none})
			}
			return out
		}
	}

	// the handler entry: the request-scoped stream is lent for the duration of the call
	if sel, ok := c.Fun.(*ast.SelectorExpr); ok && sel.Sel.Name == "handler" {
		if x, ok := sel.X.(*ast.Ident); ok && x.Name == "hd" {
			cur := []*state{st}
			for _, r := range in.evalList(st, fr, c.Args) {
				cur = []*state{r.st}
				for _, a := range r.vs {
					var next []*state
					for _, s := range cur {
						next = append(next, in.lend(s, fr, a, c)...)
					}
					cur = next
				}
			}
			var out []sv
			for _, s := range cur {
				out = append(out, sv{s, none})
			}
			return out
		}
	}

	// callee name and receiver
	name, qual := "", ""
	var recvExpr ast.Expr
	switch f := c.Fun.(type) {
	case *ast.Ident:
		name = f.Name
	case *ast.SelectorExpr:
		name = f.Sel.Name
		recvExpr = f.X
		if id, ok := f.X.(*ast.Ident); ok && p.imports[id.Name] {
			if _, shadow := st.env[fr.key(id.Name)]; !shadow {
				recvExpr = nil // pkg.Func
				name = "." + name
				qual = id.Name + "."
			}
		}
	}
	external := strings.HasPrefix(name, ".")
	name = strings.TrimPrefix(name, ".")

	// evaluate receiver and arguments
	exprs := c.Args
	if recvExpr != nil {
		exprs = append([]ast.Expr{recvExpr}, c.Args...)
	}
	var out []sv
	for _, r := range in.evalList(st, fr, exprs) {
		var recv *aval
		args := r.vs
		if recvExpr != nil {
			recv, args = r.vs[0], r.vs[1:]
		}
		interesting := false
		for _, a := range r.vs {
			if len(a.objs(map[*aval]bool{})) > 0 || a.kind == kStruct {
				interesting = true
			}
		}
		// package-local callees
		var cands []*ast.FuncDecl
		if !external {
			for _, fd := range p.funcs[name] {
				if (fd.Recv != nil) != (recvExpr != nil) {
					continue
				}
				cands = append(cands, fd)
			}
			if recv != nil && recv.typ != "" {
				var exact []*ast.FuncDecl
				for _, fd := range cands {
					if recvType(fd) == recv.typ {
						exact = append(exact, fd)
					}
				}
				if exact != nil {
					cands = exact
				} else if recv.kind == kObj || recv.kind == kStruct {
					cands = nil // a typed pooled object without such a package method: library method
				}
			}
			if recvExpr != nil && (recv == nil || (recv.kind != kObj && recv.kind != kStruct)) && contractNames[name] {
				cands = nil
			}
			// a method M that calls x.field.M(...) delegates to the implementation it wraps (e.g.
			// CodecProto.MarshalAppend -> c.MarshalOptions.MarshalAppend): a library call, not the
			// sibling implementations of the package's own interface
			if _, isSel := recvExpr.(*ast.SelectorExpr); isSel && len(r.st.stack) > 0 &&
				strings.HasSuffix(r.st.stack[len(r.st.stack)-1], "."+name) {
				if _, wl := whitelist[name]; wl {
					cands = nil
				}
			}
		}
		var usable []*ast.FuncDecl
		for _, fd := range cands {
			key := recvType(fd) + "." + fd.Name.Name
			onStack := false
			for _, s := range r.st.stack {
				if s == key {
					onStack = true
				}
			}
			if !onStack && fd.Body != nil && len(r.st.stack) < 8 && (interesting || p.constructors[fd.Name.Name]) {
				usable = append(usable, fd)
			}
		}
		if len(usable) > 0 {
			for i, fd := range usable {
				s2 := r.st
				vs := r.vs
				if i < len(usable)-1 {
					s2 = r.st.clone()
					// re-evaluate in the clone so that values belong to it
					rr := in.evalListQuiet(s2, fr, exprs)
					vs = rr
				}
				var rv *aval
				var ra []*aval
				if recvExpr != nil {
					rv, ra = vs[0], vs[1:]
				} else {
					ra = vs
				}
				out = append(out, in.inline(s2, fd, rv, ra, c)...)
			}
			continue
		}
		if !interesting {
			res := none
			if eff, ok := whitelist[name]; ok && eff.result == "arg0" && len(args) > 0 && args[0].kind == kFresh {
				res = args[0] // MarshalAppend(b, m), AppendVarint(b, n) on the request's own memory
			}
			out = append(out, sv{r.st, res})
			continue
		}
		eff, ok := whitelist[qual+name]
		if !ok || qual == "" {
			eff, ok = whitelist[name]
		}
		if ok {
			res := none
			if recv != nil {
				switch eff.recv {
				case "R", "W", "Reset":
					in.use(r.st, recv, eff.recv, c, name)
				case "":
					// no effect on the receiver
				}
			}
			cur := []*state{r.st}
			for i, a := range args {
				how := ""
				if i < len(eff.args) {
					how = eff.args[i]
				} else if i == 0 && eff.result == "arg0" {
					continue
				} else if len(a.objs(map[*aval]bool{})) > 0 && name != "Reset" && name != "Errorf" && name != "Sprintf" {
					for _, s := range cur {
						in.escape(s, a, c, "argument of "+name)
					}
					continue
				}
				switch how {
				case "R", "W":
					for _, s := range cur {
						in.use(s, a, how, c, name)
					}
				case "lendR":
					var next []*state
					for _, s := range cur {
						next = append(next, in.lendRead(s, fr, a, c, 2)...)
					}
					cur = next
				}
			}
			switch eff.result {
			case "recv":
				res = recv
			case "arg0":
				if len(args) > 0 && (args[0].kind == kObj || args[0].kind == kPriv) {
					res = args[0]
				}
			}
			for _, s := range cur {
				out = append(out, sv{s, res})
			}
			continue
		}
		// unknown callee touching pooled objects
		for _, a := range r.vs {
			in.escape(r.st, a, c, "passed to "+name)
		}
		out = append(out, sv{r.st, none})
	}
	return out
}

// evalListQuiet re-resolves expressions in a cloned state without emitting events (the events
// were already emitted before the clone).
func (in *interp) evalListQuiet(st *state, fr *frame, es []ast.Expr) []*aval {
	n := len(st.events)
	nv, nt := st.nvar, st.ntok
	var vs []*aval
	for _, e := range es {
		vs = append(vs, in.quiet(st, fr, e))
	}
	st.events = st.events[:n]
	st.nvar, st.ntok = nv, nt
	return vs
}

func (in *interp) quiet(st *state, fr *frame, e ast.Expr) *aval {
	switch t := e.(type) {
	case *ast.Ident:
		if t.Name == "nil" {
			return &aval{kind: kNil}
		}
		if a, ok := st.env[fr.key(t.Name)]; ok {
			return a
		}
	case *ast.ParenExpr:
		return in.quiet(st, fr, t.X)
	case *ast.StarExpr:
		return in.quiet(st, fr, t.X)
	case *ast.UnaryExpr:
		return in.quiet(st, fr, t.X)
	case *ast.SliceExpr:
		return in.quiet(st, fr, t.X)
	case *ast.SelectorExpr:
		x := in.quiet(st, fr, t.X)
		if x.kind == kStruct {
			if f, ok := x.fields[t.Sel.Name]; ok {
				return f
			}
			return none
		}
		if x.kind == kObj {
			return x
		}
	}
	return none
}

// lend: unknown code (the handler) may use the value for the duration of the call
func (in *interp) lend(st *state, fr *frame, a *aval, n ast.Node) []*state {
	switch a.kind {
	case kObj:
		if in.hasMethod(a.typ, "Read") {
			return in.lendRead(st, fr, a, n, 3)
		}
		in.use(st, a, "W", n, "lent to the handler")
		in.use(st, a, "R", n, "lent to the handler")
		return []*state{st}
	case kStruct:
		if in.hasMethod(a.typ, "Read") {
			return in.lendRead(st, fr, a, n, 3)
		}
		cur := []*state{st}
		keys := make([]string, 0, len(a.fields))
		for k := range a.fields {
			keys = append(keys, k)
		}
		sort.Strings(keys)
		for _, k := range keys {
			var next []*state
			for _, s := range cur {
				f := a.fields[k]
				if s != st {
					f = in.refind(st, s, f)
				}
				next = append(next, in.lend(s, fr, f, n)...)
			}
			cur = in.check(next)
		}
		return cur
	}
	return []*state{st}
}

// refind: the counterpart in clone `to` of value a of state `from` (same position in the env graph)
func (in *interp) refind(from, to *state, a *aval) *aval {
	var path []string
	var found bool
	var walk func(x *aval, seen map[*aval]bool) bool
	walk = func(x *aval, seen map[*aval]bool) bool {
		if x == a {
			return true
		}
		if x == nil || seen[x] {
			return false
		}
		seen[x] = true
		for k, f := range x.fields {
			path = append(path, k)
			if walk(f, seen) {
				return true
			}
			path = path[:len(path)-1]
		}
		return false
	}
	keys := make([]string, 0, len(from.env))
	for k := range from.env {
		keys = append(keys, k)
	}
	sort.Strings(keys)
	for _, k := range keys {
		path = []string{k}
		if walk(from.env[k], map[*aval]bool{}) {
			found = true
			break
		}
	}
	if !found {
		return a
	}
	x := to.env[path[0]]
	for _, k := range path[1:] {
		x = x.fields[k]
	}
	return x
}

func (in *interp) hasMethod(typ, name string) bool {
	if typ == "" {
		return false
	}
	for _, fd := range in.p.funcs[name] {
		if recvType(fd) == typ {
			return true
		}
	}
	return false
}

// lendRead: a reader is read `times` times by code we do not see (ReadFrom, ReadFull, the handler):
// every call may or may not hit EOF, and reading again after EOF is legal for an io.Reader.
func (in *interp) lendRead(st *state, fr *frame, a *aval, n ast.Node, times int) []*state {
	if a.kind != kObj && a.kind != kStruct {
		return []*state{st}
	}
	var method *ast.FuncDecl
	for _, fd := range in.p.funcs["Read"] {
		if recvType(fd) == a.typ {
			method = fd
		}
	}
	if method == nil {
		in.use(st, a, "R", n, "read by a library call")
		return []*state{st}
	}
	type pair struct {
		st *state
		a  *aval
	}
	cur := []pair{{st, a}}
	for i := 0; i < times; i++ {
		var next []pair
		for _, c := range cur {
			// remember where the reader sits so that it can be found again in forked states
			c.st.env["lend:reader"] = c.a
			for _, r := range in.inline(c.st, method, c.a, []*aval{none}, n) {
				next = append(next, pair{r.st, r.st.env["lend:reader"]})
			}
		}
		cur = next
		if len(cur) > in.p.budget {
			in.p.over = true
			cur = cur[:1]
		}
	}
	var out []*state
	for _, c := range cur {
		delete(c.st.env, "lend:reader")
		out = append(out, c.st)
	}
	return out
}

func (in *interp) inline(st *state, fd *ast.FuncDecl, recv *aval, args []*aval, at ast.Node) []sv {
	p := in.p
	p.frames++
	fr := &frame{id: p.frames, fn: fd, recvTyp: recvType(fd)}
	if fd.Recv != nil && len(fd.Recv.List) > 0 && len(fd.Recv.List[0].Names) > 0 {
		fr.recvName = fd.Recv.List[0].Names[0].Name
		if recv != nil {
			st.env[fr.key(fr.recvName)] = recv
		}
	}
	i := 0
	for _, f := range fd.Type.Params.List {
		for _, nm := range f.Names {
			if i < len(args) && args[i] != nil {
				st.env[fr.key(nm.Name)] = args[i]
			}
			i++
		}
	}
	st.stack = append(st.stack, recvType(fd)+"."+fd.Name.Name)
	outs := in.block(fd.Body.List, []*state{st}, fr)
	var res []sv
	for _, s0 := range outs {
		for _, s := range in.runDefers(s0, fr) {
			rv := none
			if len(s.retvals) == 1 && s.retvals[0] != nil {
				rv = s.retvals[0]
			} else if len(s.retvals) > 1 {
				rv = &aval{kind: kTuple, fields: map[string]*aval{}}
				for i, a := range s.retvals {
					if a != nil && a.kind != kNone {
						rv.fields[fmt.Sprintf("%d", i)] = a
					}
				}
			} else if s.ret && fd.Type.Results != nil {
				// named results returned by a bare return
				if len(fd.Type.Results.List) > 0 && len(fd.Type.Results.List[0].Names) > 0 {
					if a, ok := s.env[fr.key(fd.Type.Results.List[0].Names[0].Name)]; ok {
						rv = a
					}
				}
			}
			s.ret, s.brk, s.cnt, s.retvals = s.panicked, false, false, nil
			s.stack = s.stack[:len(s.stack)-1]
			for k := range s.env {
				if strings.HasPrefix(k, fmt.Sprintf("%d:", fr.id)) {
					delete(s.env, k)
				}
			}
			res = append(res, sv{s, rv})
		}
	}
	return res
}

// first: the value of a possibly multi-valued expression used as a single value
func first(a *aval) *aval {
	if a != nil && a.kind == kTuple {
		if f, ok := a.fields["0"]; ok {
			return f
		}
		return none
	}
	return a
}

func (in *interp) runDefers(st *state, fr *frame) []*state {
	ds := st.defers[fr.id]
	delete(st.defers, fr.id)
	cur := []*state{st}
	for i := len(ds) - 1; i >= 0; i-- {
		var next []*state
		for _, s := range cur {
			wasRet, rv := s.ret, s.retvals
			s.ret, s.retvals = false, nil
			var outs []*state
			switch d := ds[i].(type) {
			case *ast.CallExpr:
				if fl, ok := d.Fun.(*ast.FuncLit); ok {
					outs = in.block(fl.Body.List, []*state{s}, fr)
				} else {
					for _, r := range in.call(s, fr, d) {
						outs = append(outs, r.st)
					}
				}
			}
			for _, o := range outs {
				o.ret, o.retvals = wasRet, rv
				if o != s {
					// values returned earlier belong to s; find their counterparts
					var nrv []*aval
					for _, a := range rv {
						nrv = append(nrv, in.refind(s, o, a))
					}
					o.retvals = nrv
				}
			}
			next = append(next, outs...)
		}
		cur = next
	}
	// only the first is used by inline for value passing; keep all by flattening there
	if len(cur) == 0 {
		return []*state{st}
	}
	return cur
}

func (in *interp) block(stmts []ast.Stmt, sts []*state, fr *frame) []*state {
	cur := sts
	for _, s := range stmts {
		var next []*state
		for _, st := range cur {
			if st.ret || st.brk || st.cnt {
				next = append(next, st)
				continue
			}
			next = append(next, in.stmt(s, st, fr)...)
		}
		cur = in.check(next)
	}
	return cur
}

func (in *interp) states(rs []sv) []*state {
	var out []*state
	for _, r := range rs {
		out = append(out, r.st)
	}
	return out
}

// nilness of a condition `X == nil` / `X != nil` when X is known
func (in *interp) condKnown(st *state, fr *frame, cond ast.Expr) (known bool, val bool) {
	be, ok := cond.(*ast.BinaryExpr)
	if !ok || (be.Op != token.EQL && be.Op != token.NEQ) {
		return false, false
	}
	var x ast.Expr
	if id, ok := be.Y.(*ast.Ident); ok && id.Name == "nil" {
		x = be.X
	} else if id, ok := be.X.(*ast.Ident); ok && id.Name == "nil" {
		x = be.Y
	} else {
		return false, false
	}
	a := in.quiet(st, fr, x)
	// only fields of local wrapper structs are known precisely
	if _, isSel := x.(*ast.SelectorExpr); !isSel {
		return false, false
	}
	base := in.quiet(st, fr, x.(*ast.SelectorExpr).X)
	if base.kind != kStruct {
		return false, false
	}
	switch a.kind {
	case kNil:
		return true, be.Op == token.EQL
	case kObj:
		return true, be.Op == token.NEQ
	}
	return false, false
}

func (in *interp) assign(st *state, fr *frame, lhs ast.Expr, rhs *aval, define bool, at ast.Node) {
	switch l := lhs.(type) {
	case *ast.Ident:
		if l.Name == "_" {
			return
		}
		key := fr.key(l.Name)
		old, had := st.env[key]
		switch rhs.kind {
		case kObj:
			if had && old.kind == kObj && old.tok == rhs.tok {
				// x = f(x): same object
				if old != rhs && old.v != rhs.v {
					st.env[key] = rhs
				}
				return
			}
			if fr.top || define {
				// a new name for the object: its own script variable, aliased
				nv := &aval{kind: kObj, v: st.nvar, tok: rhs.tok, typ: rhs.typ}
				st.nvar++
				in.emit(st, "Alias", 0, rhs, nv, at, l.Name)
				st.env[key] = nv
				return
			}
			st.env[key] = rhs
		case kStruct, kPriv, kNil, kFresh:
			st.env[key] = rhs
		default:
			if had {
				delete(st.env, key)
			}
		}
	case *ast.StarExpr:
		// *bp = b : the pooled cell takes the (possibly grown) slice
		base := in.quiet(st, fr, l.X)
		if base.kind == kObj {
			switch {
			case rhs.kind == kObj && rhs.tok != base.tok:
				in.escape(st, rhs, at, "stored inside another pooled object")
			case rhs.kind == kObj, rhs.kind == kPriv, rhs.kind == kNil, rhs.kind == kFresh:
				// its own (possibly grown) slice, memory this request made, or nothing
			default:
				// memory of unknown owner (a handler's message, a caller's buffer) would enter the pool
				in.escape(st, base, at, "memory the request does not own stored into a pooled object")
			}
			return
		}
		if len(rhs.objs(map[*aval]bool{})) > 0 {
			in.retain(st, rhs, at, "stored through a pointer")
		}
	case *ast.IndexExpr:
		base := in.quiet(st, fr, l.X)
		if base.kind == kObj {
			in.use(st, base, "W", at, "element store")
			if len(rhs.objs(map[*aval]bool{})) > 0 {
				in.escape(st, rhs, at, "stored as an element")
			}
			return
		}
		if len(rhs.objs(map[*aval]bool{})) > 0 {
			in.retain(st, rhs, at, "stored in a slice or map")
		}
	case *ast.SelectorExpr:
		base := in.quiet(st, fr, l.X)
		switch base.kind {
		case kStruct:
			if rhs.kind == kNone {
				delete(base.fields, l.Sel.Name)
			} else {
				base.fields[l.Sel.Name] = rhs
			}
		case kObj:
			if rhs.kind == kObj && rhs.tok != base.tok {
				in.escape(st, rhs, at, "stored inside another pooled object")
			} else {
				in.use(st, base, "W", at, "field store")
			}
		default:
			if len(rhs.objs(map[*aval]bool{})) > 0 {
				in.retain(st, rhs, at, "stored in field "+l.Sel.Name)
			}
		}
	case *ast.ParenExpr:
		in.assign(st, fr, l.X, rhs, define, at)
	}
}

func (in *interp) stmt(s ast.Stmt, st *state, fr *frame) []*state {
	switch t := s.(type) {
	case *ast.ExprStmt:
		return in.states(in.eval(st, fr, t.X))
	case *ast.AssignStmt:
		if len(t.Rhs) == 1 && len(t.Lhs) >= 1 {
			var out []*state
			for _, r := range in.eval(st, fr, t.Rhs[0]) {
				if r.st.panicked {
					out = append(out, r.st) // the call panicked: nothing is assigned
					continue
				}
				// element / compound stores read the left side first
				if r.v.kind == kTuple {
					for i, l := range t.Lhs {
						x, ok := r.v.fields[fmt.Sprintf("%d", i)]
						if !ok {
							x = none
						}
						in.assign(r.st, fr, l, x, t.Tok == token.DEFINE, t)
					}
				} else {
					in.assign(r.st, fr, t.Lhs[0], r.v, t.Tok == token.DEFINE, t)
					for _, l := range t.Lhs[1:] {
						in.assign(r.st, fr, l, none, t.Tok == token.DEFINE, t)
					}
				}
				out = append(out, r.st)
			}
			return out
		}
		cur := []*state{st}
		for i, rh := range t.Rhs {
			var next []*state
			for _, c := range cur {
				for _, r := range in.eval(c, fr, rh) {
					if i < len(t.Lhs) {
						in.assign(r.st, fr, t.Lhs[i], first(r.v), t.Tok == token.DEFINE, t)
					}
					next = append(next, r.st)
				}
			}
			cur = next
		}
		return cur
	case *ast.IncDecStmt, *ast.EmptyStmt:
		return []*state{st}
	case *ast.DeclStmt:
		if gd, ok := t.Decl.(*ast.GenDecl); ok {
			cur := []*state{st}
			for _, sp := range gd.Specs {
				vs, ok := sp.(*ast.ValueSpec)
				if !ok {
					continue
				}
				for i, nm := range vs.Names {
					var next []*state
					for _, c := range cur {
						if i < len(vs.Values) {
							for _, r := range in.eval(c, fr, vs.Values[i]) {
								in.assign(r.st, fr, nm, r.v, true, t)
								next = append(next, r.st)
							}
						} else {
							delete(c.env, fr.key(nm.Name))
							next = append(next, c)
						}
					}
					cur = next
				}
			}
			return cur
		}
		return []*state{st}
	case *ast.DeferStmt:
		st.defers[fr.id] = append(st.defers[fr.id], t.Call)
		return []*state{st}
	case *ast.GoStmt:
		for _, r := range in.evalList(st, fr, t.Call.Args) {
			for _, a := range r.vs {
				in.escape(r.st, a, t, "passed to a goroutine")
			}
		}
		if fl, ok := t.Call.Fun.(*ast.FuncLit); ok {
			in.eval(st, fr, fl)
		}
		return []*state{st}
	case *ast.ReturnStmt:
		var out []*state
		for _, r := range in.evalList(st, fr, t.Results) {
			r.st.ret = true
			r.st.retvals = r.vs
			if fr.top {
				for _, a := range r.vs {
					if len(a.objs(map[*aval]bool{})) > 0 {
						in.retain(r.st, a, t, "returned to the caller")
					}
				}
			}
			out = append(out, r.st)
		}
		return out
	case *ast.BlockStmt:
		return in.block(t.List, []*state{st}, fr)
	case *ast.LabeledStmt:
		return in.stmt(t.Stmt, st, fr)
	case *ast.BranchStmt:
		switch t.Tok {
		case token.BREAK:
			st.brk = true
		case token.CONTINUE:
			st.cnt = true
		default:
			// goto / fallthrough: not a recognised shape
			for _, a := range st.env {
				in.escape(st, a, t, "goto")
			}
		}
		return []*state{st}
	case *ast.IfStmt:
		cur := []*state{st}
		if t.Init != nil {
			cur = in.stmt(t.Init, st, fr)
		}
		var out []*state
		for _, c := range cur {
			if c.ret {
				out = append(out, c)
				continue
			}
			for _, r := range in.eval(c, fr, t.Cond) {
				known, val := in.condKnown(r.st, fr, t.Cond)
				var thenS, elseS *state
				switch {
				case known && val:
					thenS = r.st
				case known && !val:
					elseS = r.st
				default:
					thenS = r.st
					elseS = r.st.clone()
				}
				if thenS != nil {
					out = append(out, in.block(t.Body.List, []*state{thenS}, fr)...)
				}
				if elseS != nil {
					if t.Else != nil {
						out = append(out, in.stmt(t.Else, elseS, fr)...)
					} else {
						out = append(out, elseS)
					}
				}
			}
		}
		return in.check(out)
	case *ast.ForStmt, *ast.RangeStmt:
		var body *ast.BlockStmt
		var init, post ast.Stmt
		var cond ast.Expr
		if f, ok := t.(*ast.ForStmt); ok {
			body, init, post, cond = f.Body, f.Init, f.Post, f.Cond
		} else {
			r := t.(*ast.RangeStmt)
			body = r.Body
			cond = r.X
		}
		cur := []*state{st}
		if init != nil {
			cur = in.stmt(init, st, fr)
		}
		var done []*state
		for iter := 0; iter < 2; iter++ {
			var next []*state
			for _, c := range cur {
				if cond != nil {
					c = in.eval(c, fr, cond)[0].st
				}
				if cond != nil {
					done = append(done, c.clone()) // the loop ends here
				}
				for _, o := range in.block(body.List, []*state{c}, fr) {
					if o.ret {
						done = append(done, o)
						continue
					}
					if o.brk {
						o.brk = false
						done = append(done, o)
						continue
					}
					o.cnt = false
					if post != nil {
						o = in.stmt(post, o, fr)[0]
					}
					next = append(next, o)
				}
			}
			cur = in.check(next)
		}
		if cond != nil {
			done = append(done, cur...)
		}
		// (a `for { }` without condition is left by return or break only: the paths still inside it
		// after two rounds repeat the events of the second round and are not continued past the loop)
		return in.check(done)
	case *ast.SwitchStmt, *ast.TypeSwitchStmt, *ast.SelectStmt:
		var body *ast.BlockStmt
		cur := []*state{st}
		switch sw := t.(type) {
		case *ast.SwitchStmt:
			body = sw.Body
			if sw.Init != nil {
				cur = in.stmt(sw.Init, st, fr)
			}
			if sw.Tag != nil {
				var next []*state
				for _, c := range cur {
					next = append(next, in.states(in.eval(c, fr, sw.Tag))...)
				}
				cur = next
			}
		case *ast.TypeSwitchStmt:
			body = sw.Body
			if sw.Init != nil {
				cur = in.stmt(sw.Init, st, fr)
			}
			var next []*state
			for _, c := range cur {
				next = append(next, in.stmt(sw.Assign, c, fr)...)
			}
			cur = next
		case *ast.SelectStmt:
			body = sw.Body
		}
		var out []*state
		for _, c := range cur {
			hasDefault := false
			for _, cl := range body.List {
				var stmts []ast.Stmt
				switch cc := cl.(type) {
				case *ast.CaseClause:
					stmts = cc.Body
					if cc.List == nil {
						hasDefault = true
					}
				case *ast.CommClause:
					stmts = cc.Body
					if cc.Comm != nil {
						stmts = append([]ast.Stmt{cc.Comm}, stmts...)
					} else {
						hasDefault = true
					}
				}
				for _, o := range in.block(stmts, []*state{c.clone()}, fr) {
					o.brk = false
					out = append(out, o)
				}
			}
			if !hasDefault {
				out = append(out, c)
			}
		}
		return in.check(out)
	case *ast.SendStmt:
		for _, r := range in.eval(st, fr, t.Value) {
			in.escape(r.st, r.v, t, "sent on a channel")
		}
		return []*state{st}
	}
	return []*state{st}
}

// ---------- the checker of Model/Pools.v, ported for diagnostics only ----------

func firstBad(evs []event) int {
	vars := map[int]int{}
	stat := map[int]int{} // 0 dead, 1 dirty, 2 clean
	pool := map[int]int{}
	nxt := 0
	for i, e := range evs {
		t, bound := vars[e.V]
		switch e.Op {
		case "Get":
			vars[e.V] = nxt
			stat[nxt] = 1
			pool[nxt] = e.P
			nxt++
		case "Put":
			if !bound || stat[t] == 0 || pool[t] != e.P {
				return i
			}
			stat[t] = 0
		case "Reset":
			if !bound || stat[t] == 0 {
				return i
			}
			stat[t] = 2
		case "Write", "Read":
			if !bound || stat[t] != 2 {
				return i
			}
		case "Alias":
			if !bound || stat[t] == 0 {
				return i
			}
			vars[e.W] = t
		case "CopyOut":
			if !bound || stat[t] != 2 {
				return i
			}
			delete(vars, e.W)
		case "Retain":
			if bound {
				return i
			}
		case "Escape":
			return i
		}
	}
	return -1
}

// ---------- main ----------

type scriptOut struct {
	Func   string  `json:"func"`
	Pos    string  `json:"pos"`
	Paths  int     `json:"paths"`
	Events []event `json:"events"`
	Bad    int     `json:"bad"`
}

func main() {
	repo := flag.String("repo", "/repo", "larking checkout")
	outp := flag.String("out", "PoolScripts.v", "Coq output")
	jsonp := flag.String("json", "", "JSON side output")
	flag.Parse()

	p := &pkgInfo{fset: token.NewFileSet(), funcs: map[string][]*ast.FuncDecl{}, imports: map[string]bool{},
		pools: map[string]int{}, typePool: map[string]int{}, relevant: map[string]bool{}, constructors: map[string]bool{}, budget: 40000}
	dir := filepath.Join(*repo, "larking")
	ents, err := os.ReadDir(dir)
	if err != nil {
		fmt.Fprintln(os.Stderr, err)
		os.Exit(2)
	}
	var files []*ast.File
	var names []string
	for _, e := range ents {
		n := e.Name()
		if !strings.HasSuffix(n, ".go") || strings.HasSuffix(n, "_test.go") || strings.HasPrefix(n, "verif_hooks") {
			continue
		}
		names = append(names, n)
	}
	sort.Strings(names)
	for _, n := range names {
		f, err := parser.ParseFile(p.fset, filepath.Join(dir, n), nil, parser.ParseComments)
		if err != nil {
			fmt.Fprintln(os.Stderr, err)
			os.Exit(2)
		}
		files = append(files, f)
	}
	// pools: package-level sync.Pool variables and sync.Pool struct fields
	nextID := 4
	addPool := func(name string) {
		if _, ok := p.pools[name]; ok {
			return
		}
		if id, ok := poolIDs[name]; ok {
			p.pools[name] = id
		} else {
			p.pools[name] = nextID
			nextID++
		}
	}
	isSyncPool := func(e ast.Expr) bool {
		if cl, ok := e.(*ast.CompositeLit); ok {
			e = cl.Type
		}
		sel, ok := e.(*ast.SelectorExpr)
		if !ok {
			return false
		}
		x, ok := sel.X.(*ast.Ident)
		return ok && x.Name == "sync" && sel.Sel.Name == "Pool"
	}
	for _, f := range files {
		for _, im := range f.Imports {
			path := strings.Trim(im.Path.Value, `"`)
			nm := path[strings.LastIndex(path, "/")+1:]
			if im.Name != nil {
				nm = im.Name.Name
			}
			p.imports[nm] = true
		}
		for _, d := range f.Decls {
			switch dd := d.(type) {
			case *ast.FuncDecl:
				p.funcs[dd.Name.Name] = append(p.funcs[dd.Name.Name], dd)
			case *ast.GenDecl:
				for _, sp := range dd.Specs {
					switch s := sp.(type) {
					case *ast.ValueSpec:
						for i, nm := range s.Names {
							if (s.Type != nil && isSyncPool(s.Type)) || (i < len(s.Values) && isSyncPool(s.Values[i])) {
								addPool(nm.Name)
							}
						}
					case *ast.TypeSpec:
						if stt, ok := s.Type.(*ast.StructType); ok {
							for _, fl := range stt.Fields.List {
								if isSyncPool(fl.Type) {
									for _, nm := range fl.Names {
										addPool(nm.Name)
									}
								}
							}
						}
					}
				}
			}
		}
	}
	// T{pool: &x.poolY}
	for _, f := range files {
		ast.Inspect(f, func(n ast.Node) bool {
			cl, ok := n.(*ast.CompositeLit)
			if !ok {
				return true
			}
			for _, el := range cl.Elts {
				if kv, ok := el.(*ast.KeyValueExpr); ok {
					if k, ok := kv.Key.(*ast.Ident); ok && k.Name == "pool" {
						var sel string
						switch v := kv.Value.(type) {
						case *ast.UnaryExpr:
							if s, ok := v.X.(*ast.SelectorExpr); ok {
								sel = s.Sel.Name
							} else if id, ok := v.X.(*ast.Ident); ok {
								sel = id.Name
							}
						}
						if id, ok := p.pools[sel]; ok {
							p.typePool[typeName(cl.Type)] = id
						}
					}
				}
			}
			return true
		})
	}
	// functions that (transitively, by name) perform pool operations
	direct := map[*ast.FuncDecl]bool{}
	calls := map[*ast.FuncDecl]map[string]bool{}
	var all []*ast.FuncDecl
	for _, fds := range p.funcs {
		all = append(all, fds...)
	}
	sort.Slice(all, func(i, j int) bool { return all[i].Pos() < all[j].Pos() })
	for _, fd := range all {
		if fd.Body == nil {
			continue
		}
		calls[fd] = map[string]bool{}
		ast.Inspect(fd.Body, func(n ast.Node) bool {
			c, ok := n.(*ast.CallExpr)
			if !ok {
				return true
			}
			switch f := c.Fun.(type) {
			case *ast.Ident:
				calls[fd][f.Name] = true
			case *ast.SelectorExpr:
				calls[fd][f.Sel.Name] = true
				if f.Sel.Name == "Get" || f.Sel.Name == "Put" {
					nm := ""
					switch x := f.X.(type) {
					case *ast.Ident:
						nm = x.Name
					case *ast.SelectorExpr:
						nm = x.Sel.Name
					}
					if _, ok := p.pools[nm]; ok || nm == "pool" {
						direct[fd] = true
					}
				}
			}
			return true
		})
	}
	for fd := range direct {
		p.relevant[fd.Name.Name] = true
	}
	for changed := true; changed; {
		changed = false
		for _, fd := range all {
			if p.relevant[fd.Name.Name] || fd.Body == nil {
				continue
			}
			for c := range calls[fd] {
				if p.relevant[c] && !contractNames[c] && len(p.funcs[c]) > 0 {
					p.relevant[fd.Name.Name] = true
					changed = true
					break
				}
			}
		}
	}
	// entries: functions that contain a Get, directly or through a one- or two-level package call
	getters := map[string]bool{}
	for fd := range direct {
		has := false
		ast.Inspect(fd.Body, func(n ast.Node) bool {
			if c, ok := n.(*ast.CallExpr); ok {
				if s, ok := c.Fun.(*ast.SelectorExpr); ok && s.Sel.Name == "Get" {
					nm := ""
					switch x := s.X.(type) {
					case *ast.Ident:
						nm = x.Name
					case *ast.SelectorExpr:
						nm = x.Sel.Name
					}
					if _, ok := p.pools[nm]; ok {
						has = true
					}
				}
			}
			return true
		})
		if has {
			getters[fd.Name.Name] = true
		}
	}
	in := &interp{p: p}
	type analysed struct {
		fname string
		done  []*state
		over  bool
		ctor  bool
	}
	analyse := func(fd *ast.FuncDecl) analysed {
		fname := fd.Name.Name
		if rt := recvType(fd); rt != "" {
			fname = rt + "." + fname
		}
		p.frames++
		fr := &frame{id: p.frames, fn: fd, recvTyp: recvType(fd), top: true}
		if fd.Recv != nil && len(fd.Recv.List[0].Names) > 0 {
			fr.recvName = fd.Recv.List[0].Names[0].Name
		}
		st := &state{env: map[string]*aval{}, defers: map[int][]ast.Node{}, stack: []string{recvType(fd) + "." + fd.Name.Name}}
		p.over = false
		finals := in.block(fd.Body.List, []*state{st}, fr)
		var done []*state
		for _, f := range finals {
			done = append(done, in.runDefers(f, fr)...)
		}
		a := analysed{fname: fname, done: done, over: p.over}
		for _, f := range done {
			for _, e := range f.events {
				if e.Op == "Retain" && e.Note == "returned to the caller" {
					a.ctor = true
				}
			}
		}
		return a
	}
	// a function that hands the pooled object to its caller is a constructor: it is analysed
	// inlined in every package caller; standing alone its result would be a Retain.
	// Entries: the functions that contain a Get and the callers of constructors.
	for changed := true; changed; {
		changed = false
		for _, fd := range all {
			if fd.Body == nil || p.constructors[fd.Name.Name] {
				continue
			}
			cand := getters[fd.Name.Name]
			for c := range calls[fd] {
				if p.constructors[c] {
					cand = true
				}
			}
			if !cand {
				continue
			}
			if a := analyse(fd); a.ctor && len(calledBy(all, calls, fd)) > 0 {
				p.constructors[fd.Name.Name] = true
				changed = true
			}
		}
	}
	var outs []scriptOut
	for _, fd := range all {
		if fd.Body == nil || p.constructors[fd.Name.Name] {
			continue
		}
		entry := getters[fd.Name.Name]
		for c := range calls[fd] {
			if p.constructors[c] {
				entry = true
			}
		}
		if !entry {
			continue
		}
		a := analyse(fd)
		// one script per distinct event sequence; a sequence that is a proper prefix of another one
		// of the same function is dropped (a prefix of a well-bracketed script is well-bracketed:
		// PoolsProofs.well_bracketed_prefix)
		var keys []string
		byKey := map[string][]event{}
		for _, f := range a.done {
			if len(f.events) == 0 {
				continue
			}
			var sb strings.Builder
			for _, e := range f.events {
				sb.WriteString(e.coq() + ";")
			}
			if _, ok := byKey[sb.String()]; !ok {
				keys = append(keys, sb.String())
				byKey[sb.String()] = f.events
			}
		}
		sort.Strings(keys)
		for i, k := range keys {
			if i+1 < len(keys) && strings.HasPrefix(keys[i+1], k) {
				continue
			}
			outs = append(outs, scriptOut{Func: a.fname, Pos: p.pos(fd), Paths: len(a.done), Events: byKey[k], Bad: firstBad(byKey[k])})
		}
		if a.over {
			outs = append(outs, scriptOut{Func: a.fname, Pos: p.pos(fd), Paths: len(a.done),
				Events: []event{{Op: "Escape", Pos: p.pos(fd), Note: "too many paths to enumerate"}}, Bad: 0})
		}
	}

	var sb strings.Builder
	sb.WriteString("(* GENERATED by harness/c13gen from larking/*.go -- do not edit; regenerated by ./check C13.\n")
	sb.WriteString("   One script per control-flow path of every function that obtains an object from a sync.Pool;\n")
	sb.WriteString("   pools: 0 bytesPool, 1 bufPool, 2 poolCompressor, 3 poolDecompressor. *)\n")
	sb.WriteString("From Larking Require Import Model.Pools.\nRequire Import List.\nImport ListNotations.\n\n")
	for i, s := range outs {
		fmt.Fprintf(&sb, "(* %s (%s) *)\nDefinition s_%d : script :=\n  [", s.Func, s.Pos, i)
		for j, e := range s.Events {
			if j > 0 {
				sb.WriteString(";\n   ")
			}
			note := e.Pos
			if e.Note != "" {
				note += " " + e.Note
			}
			fmt.Fprintf(&sb, "%s (* %s *)", e.coq(), strings.ReplaceAll(strings.ReplaceAll(note, "(*", "( *"), "*)", "* )"))
		}
		sb.WriteString("].\n\n")
	}
	sb.WriteString("Definition all_scripts : list script :=\n  [")
	for i := range outs {
		if i > 0 {
			sb.WriteString("; ")
		}
		fmt.Fprintf(&sb, "s_%d", i)
	}
	sb.WriteString("].\n\n")
	fmt.Fprintf(&sb, "Definition n_scripts : nat := %d.\n\n", len(outs))
	sb.WriteString("Lemma all_scripts_well_bracketed : forallb well_bracketed all_scripts = true.\nProof. vm_compute. reflexivity. Qed.\n")
	if err := os.WriteFile(*outp, []byte(sb.String()), 0o644); err != nil {
		fmt.Fprintln(os.Stderr, err)
		os.Exit(2)
	}
	if *jsonp != "" {
		b, _ := json.MarshalIndent(outs, "", " ")
		os.WriteFile(*jsonp, b, 0o644)
	}
	bad := 0
	funcs := map[string]bool{}
	for _, s := range outs {
		funcs[s.Func] = true
		if s.Bad >= 0 {
			bad++
			e := s.Events[s.Bad]
			fmt.Printf("NOT-WELL-BRACKETED %s (%s): event %d `%s` at %s %s\n", s.Func, s.Pos, s.Bad, e.coq(), e.Pos, e.Note)
		}
	}
	fmt.Printf("scripts=%d functions=%d bad=%d\n", len(outs), len(funcs), bad)
}

func calledBy(all []*ast.FuncDecl, calls map[*ast.FuncDecl]map[string]bool, fd *ast.FuncDecl) []*ast.FuncDecl {
	var out []*ast.FuncDecl
	for _, g := range all {
		if g != fd && calls[g][fd.Name.Name] {
			out = append(out, g)
		}
	}
	return out
}
