package main

import (
	"bytes"
	"compress/gzip"
	"context"
	"fmt"
	"google.golang.org/grpc"
	"google.golang.org/grpc/metadata"
	"io"
	"math"
	"net/http"
	"net/http/httptest"
	"sort"
	"strings"

	spb "google.golang.org/genproto/googleapis/rpc/status"
	"google.golang.org/protobuf/encoding/protojson"
	"google.golang.org/protobuf/proto"
	"google.golang.org/protobuf/reflect/protoreflect"
	"google.golang.org/protobuf/reflect/protoregistry"
	"google.golang.org/protobuf/types/descriptorpb"
	"google.golang.org/protobuf/types/dynamicpb"
	"larking.io/larking"
)

// C04: unary response fidelity and truthful response headers.
//
//   C04N <accept lines> <offers> <default>               ; <result> <parsed specs value:milli-q,...>
//   C04E <accept-encoding lines> <offers>                ; <result>
//   C04  <mux> <maxsend> <method> <reqct> <accept lines> <accept-encoding lines> <reqbody> <reply>
//        ; <status> <ct> <ce> <ceok> <blen> <raw> <dec:eq> <errcode>
//          | <codecs key:kind,...> <path kinds> <selname> <ishb> <hbct> <hblen> <lenj> <lenp> <lenx> <hasbody> <reqname> <comps>
//   C04R <selector> <body> <reply>                       ; rej|regpanic|acc <status> <dec:eq> | <path kinds>
//
// byte strings are x<hex>; lists are comma separated; "-" is the empty list / an absent header.
// Everything after "|" in an observation is an oracle value computed by protobuf-go (never by
// larking): which codec kind is registered under which key, the field kinds along the
// response_body path, the selected message's name, the lengths of its independent encodings.

const (
	c04Pkg    = "verif.c04"
	c04Outer  = "@Outer"
	c04Inner  = "@Inner"
	c04Req    = "@Req"
	c04HB     = "google.api.HttpBody"
	c04Cplx   = "larking.testpb.ComplexRequest"
	c04TMsg   = "larking.testpb.Message"
	c04CustA  = "application/vnd.verif+x"
	c04CustB  = "text/x-verif"
	c04CustC  = "application/a+verif" // sorts before every built-in type
	c04PrefA  = 0xA7
	c04PrefB  = 0xB3
	c04MaxHex = 1 << 22
)

type c04Method struct {
	Name, Verb, Tmpl, Body, Resp, In, Out string
}

var c04Methods = []c04Method{
	{"Plain", "GET", "/c04/plain", "", "", c04Req, c04Outer},
	{"Complex", "GET", "/c04/complex", "", "complex", c04Req, c04Outer},
	{"Deep", "GET", "/c04/deep", "", "inner.deep", c04Req, c04Outer},
	{"Ts", "GET", "/c04/ts", "", "ts", c04Req, c04Outer},
	{"Body", "GET", "/c04/body", "", "body", c04Req, c04Outer},
	{"Http", "GET", "/c04/http", "", "", c04Req, c04HB},
	{"Echo", "POST", "/c04/echo", "*", "", c04Req, c04Outer},
	{"EchoSel", "POST", "/c04/echosel", "inner", "msg", c04Req, c04Outer},
	{"Msg", "GET", "/c04/msg", "", "msg", c04Req, c04Outer},
	{"InnerRaw", "GET", "/c04/innerraw", "", "inner.raw", c04Req, c04Outer},
	{"Cplx", "GET", "/c04/cplx", "", "", c04Req, c04Cplx},
	// request and reply of one message type (a codec remembered per message type would be the request's)
	{"Same", "POST", "/c04/same", "*", "", c04Outer, c04Outer},
	{"SameSel", "POST", "/c04/samesel", "inner", "inner", c04Outer, c04Outer},
}

func c04Field(name string, num int32, typ descriptorpb.FieldDescriptorProto_Type, tname string, rep bool) *descriptorpb.FieldDescriptorProto {
	f := &descriptorpb.FieldDescriptorProto{Name: proto.String(name), Number: proto.Int32(num), Type: typ.Enum(),
		Label: descriptorpb.FieldDescriptorProto_LABEL_OPTIONAL.Enum(), JsonName: proto.String(name)}
	if rep {
		f.Label = descriptorpb.FieldDescriptorProto_LABEL_REPEATED.Enum()
	}
	if tname != "" {
		f.TypeName = proto.String("." + tname)
	}
	return f
}

func c04Msgs(pkg string) []*descriptorpb.DescriptorProto {
	c04Inner := pkg + ".Inner"
	M, S, I, B := descriptorpb.FieldDescriptorProto_TYPE_MESSAGE, descriptorpb.FieldDescriptorProto_TYPE_STRING,
		descriptorpb.FieldDescriptorProto_TYPE_INT32, descriptorpb.FieldDescriptorProto_TYPE_BYTES
	return []*descriptorpb.DescriptorProto{
		{Name: proto.String("Inner"), Field: []*descriptorpb.FieldDescriptorProto{
			c04Field("deep", 1, M, c04Cplx, false), c04Field("note", 2, S, "", false), c04Field("raw", 3, M, c04HB, false)}},
		{Name: proto.String("Outer"), Field: []*descriptorpb.FieldDescriptorProto{
			c04Field("complex", 1, M, c04Cplx, false), c04Field("inner", 2, M, c04Inner, false), c04Field("label", 3, S, "", false),
			c04Field("items", 4, M, c04Inner, true), c04Field("body", 5, M, c04HB, false), c04Field("msg", 6, M, c04TMsg, false),
			c04Field("ts", 7, M, "google.protobuf.Timestamp", false), c04Field("num", 8, I, "", false), c04Field("blob", 9, B, "", false)}},
		// the request type shares field names with Outer but not their types / numbers
		{Name: proto.String("Req"), Field: []*descriptorpb.FieldDescriptorProto{
			c04Field("label", 1, S, "", false), c04Field("inner", 2, M, c04Inner, false), c04Field("complex", 3, S, "", false),
			c04Field("msg", 4, S, "", false), c04Field("ts", 5, I, "", false)}},
	}
}

// ---- custom codec: protobuf binary behind one prefix byte ----
type c04Codec struct {
	name   string
	prefix byte
}

func (c c04Codec) Marshal(v interface{}) ([]byte, error) { return c.MarshalAppend(nil, v) }
func (c c04Codec) MarshalAppend(b []byte, v interface{}) ([]byte, error) {
	m, ok := v.(proto.Message)
	if !ok {
		return nil, fmt.Errorf("not a message")
	}
	return proto.MarshalOptions{}.MarshalAppend(append(b, c.prefix), m)
}
func (c c04Codec) Unmarshal(data []byte, v interface{}) error {
	if len(data) == 0 || data[0] != c.prefix {
		return fmt.Errorf("bad prefix")
	}
	return proto.Unmarshal(data[1:], v.(proto.Message))
}
func (c c04Codec) Name() string { return c.name }

type c04Mux struct {
	mux    *larking.Mux
	regErr map[string]string // method -> "" | "rej" | "regpanic"
	codecs string            // oracle: key:kind list
	comps  string            // oracle: compressor keys with a non-nil compressor
}

type c04Env struct {
	fd    protoreflect.FileDescriptor
	muxes map[string]*c04Mux
	reply []byte
}

var c04env *c04Env

func c04Abs(pkg, name string) string {
	if strings.HasPrefix(name, "@") {
		return pkg + "." + name[1:]
	}
	return name
}

// one service per method, so that a rejected rule does not take the others with it
func c04BuildFile(pkg, path string, methods []c04Method) protoreflect.FileDescriptor {
	f := dynFile{Path: path, Pkg: pkg, Msgs: c04Msgs(pkg)}
	for _, m := range methods {
		f.Services = append(f.Services, dynService{Name: "S" + m.Name, Methods: []dynMethod{
			{Name: m.Name, In: c04Abs(pkg, m.In), Out: c04Abs(pkg, m.Out), Rule: &dynRule{Verb: m.Verb, Tmpl: m.Tmpl, Body: m.Body, RespBody: m.Resp}}}})
	}
	fd, err := f.build()
	if err != nil {
		panic(err)
	}
	return fd
}

func c04Setup() *c04Env {
	if c04env != nil {
		return c04env
	}
	e := &c04Env{muxes: map[string]*c04Mux{}}
	e.fd = c04BuildFile(c04Pkg, "verif/c04.proto", c04Methods)
	c04env = e
	return e
}

func (e *c04Env) impl() *dynImpl {
	return &dynImpl{Unary: func(ctx context.Context, method string, req proto.Message, out protoreflect.MessageDescriptor) (proto.Message, error) {
		m := dynamicpb.NewMessage(out)
		if err := proto.Unmarshal(e.reply, m); err != nil {
			panic("c04: scripted reply does not parse: " + err.Error())
		}
		// a handler may send its header metadata before it returns the reply; the response must be
		// labelled and encoded the same way (requested by the harness on every other request)
		if md, ok := metadata.FromIncomingContext(ctx); ok && len(md.Get("x-verif-early")) > 0 {
			grpc.SendHeader(ctx, metadata.Pairs("x-early", "1"))
		}
		return m, nil
	}}
}

func c04RegisterAll(fd protoreflect.FileDescriptor, impl *dynImpl, opts ...larking.MuxOption) (*larking.Mux, map[string]string) {
	files := &protoregistry.Files{}
	if err := files.RegisterFile(fd); err != nil {
		panic(err)
	}
	m, err := larking.NewMux(append([]larking.MuxOption{larking.FilesOption(files)}, opts...)...)
	if err != nil {
		panic(err)
	}
	errs := map[string]string{}
	sds := fd.Services()
	for i := 0; i < sds.Len(); i++ {
		sd := sds.Get(i)
		name := string(sd.Methods().Get(0).Name())
		if err := safeRegister(m, serviceDesc(sd, impl)); err != nil {
			if isPanic(err) {
				errs[name] = "regpanic"
			} else {
				errs[name] = "rej"
			}
		}
	}
	return m, errs
}

func (e *c04Env) get(variant, maxsend int) *c04Mux {
	key := fmt.Sprintf("%d/%d", variant, maxsend)
	if m, ok := e.muxes[key]; ok {
		return m
	}
	if variant >= 2 {
		// variants 2, 3, 4 are three muxes created one after the other in this order -- one custom codec, another
		// custom codec, none -- so that each is judged against its own codecs with the others existing beside it
		for v := 2; v <= 4; v++ {
			e.muxes[fmt.Sprintf("%d/%d", v, maxsend)] = e.build(v, maxsend)
		}
		return e.muxes[key]
	}
	m := e.build(variant, maxsend)
	e.muxes[key] = m
	return m
}

func (e *c04Env) build(variant, maxsend int) *c04Mux {
	var opts []larking.MuxOption
	codecs := map[string]string{"application/json": "json", "application/protobuf": "proto", "application/octet-stream": "proto", c04HB: "body"}
	if variant == 1 {
		opts = append(opts, larking.CodecOption(c04CustA, c04Codec{"verifa", c04PrefA}), larking.CodecOption(c04CustB, c04Codec{"verifb", c04PrefB}))
		codecs[c04CustA], codecs[c04CustB] = "xa", "xb"
	}
	if variant == 2 {
		opts = append(opts, larking.CodecOption(c04CustA, c04Codec{"verifa", c04PrefA}))
		codecs[c04CustA] = "xa"
	}
	if variant == 3 {
		opts = append(opts, larking.CodecOption(c04CustC, c04Codec{"verifc", c04PrefB}))
		codecs[c04CustC] = "xb"
	}
	if maxsend > 0 {
		opts = append(opts, larking.MaxSendMessageSizeOption(maxsend))
	}
	mux, errs := c04RegisterAll(e.fd, e.impl(), opts...)
	keys := make([]string, 0, len(codecs))
	for k := range codecs {
		keys = append(keys, k)
	}
	sort.Strings(keys)
	var parts []string
	for _, k := range keys {
		parts = append(parts, hx([]byte(k))+":"+codecs[k])
	}
	return &c04Mux{mux: mux, regErr: errs, codecs: strings.Join(parts, ","), comps: hx([]byte("gzip"))}
}

func c04Hdr(s string) []string {
	var out []string
	for _, b := range unhxs(s) {
		out = append(out, string(b))
	}
	return out
}

func c04Strs(ss []string) string {
	bs := make([][]byte, len(ss))
	for i, s := range ss {
		bs[i] = []byte(s)
	}
	return hxs(bs)
}

// kinds along a response_body path on the response type, and the selected message
func c04Select(reply protoreflect.Message, sel string) (kinds []string, cur protoreflect.Message) {
	cur = reply
	if sel == "" {
		return nil, cur
	}
	desc := reply.Descriptor()
	ok := true
	for _, name := range strings.Split(sel, ".") {
		if desc == nil {
			kinds = append(kinds, "x")
			ok = false
			continue
		}
		fd := desc.Fields().ByJSONName(name)
		if fd == nil {
			fd = desc.Fields().ByName(protoreflect.Name(name))
		}
		switch {
		case fd == nil:
			kinds = append(kinds, "x")
			desc, ok = nil, false
		case fd.IsList() || fd.IsMap():
			kinds = append(kinds, "r")
			desc, ok = fd.Message(), false
			if fd.IsMap() {
				desc = nil
			}
		case fd.Message() == nil:
			kinds = append(kinds, "s")
			desc, ok = nil, false
		default:
			kinds = append(kinds, "m")
			desc = fd.Message()
			if ok {
				cur = cur.Get(fd).Message()
				if !cur.IsValid() { // unset: the selected field is the empty message
					cur = dynamicpb.NewMessage(fd.Message())
				}
			}
		}
	}
	if !ok {
		cur = nil
	}
	return kinds, cur
}

func c04Kinds(k []string) string {
	if len(k) == 0 {
		return "-"
	}
	return strings.Join(k, ",")
}

// independent decoder chosen by the response Content-Type
func c04Decode(ct string, variant1 bool, body []byte, into proto.Message) (kind string, err error) {
	switch ct {
	case "application/json":
		return "json", protojson.Unmarshal(body, into)
	case "application/protobuf", "application/octet-stream":
		return "proto", proto.Unmarshal(body, into)
	case c04CustA, c04CustB, c04CustC:
		if !variant1 {
			return "none", fmt.Errorf("no codec")
		}
		p, kind := byte(c04PrefA), "xa"
		if ct == c04CustB || ct == c04CustC {
			p, kind = c04PrefB, "xb"
		}
		if len(body) == 0 || body[0] != p {
			return kind, fmt.Errorf("bad prefix")
		}
		return kind, proto.Unmarshal(body[1:], into)
	}
	return "none", fmt.Errorf("no codec")
}

func c04DecEq(ct string, variant1 bool, body []byte, sel protoreflect.Message) string {
	into := dynamicpb.NewMessage(sel.Descriptor())
	kind, err := c04Decode(ct, variant1, body, into)
	if err != nil {
		return kind + ":0"
	}
	if proto.Equal(sel.Interface(), into) {
		return kind + ":1"
	}
	return kind + ":0"
}

func c04Unwire(ce string, present bool, body []byte) ([]byte, string) {
	switch {
	case !present || ce == "identity":
		return body, "1"
	case ce == "gzip":
		z, err := gzip.NewReader(bytes.NewReader(body))
		if err != nil {
			return body, "0"
		}
		b, err := io.ReadAll(z)
		if err != nil {
			return body, "0"
		}
		return b, "1"
	}
	return body, "0"
}

func c04HdrObs(h http.Header, k string) (string, string, bool) {
	vs, ok := h[k]
	if !ok || len(vs) == 0 {
		return "-", "", false
	}
	return hx([]byte(vs[0])), vs[0], true
}

type c04Resp struct {
	panicked bool
	status   int
	ct, ce   string // observation fields
	ceok     string
	body     []byte // after undoing the content encoding
	ctv      string
}

func c04Do(mux *larking.Mux, verb, path, reqct, accept, acceptEnc string, reqbody []byte, early bool) c04Resp {
	var rd io.Reader
	if len(reqbody) > 0 {
		rd = bytes.NewReader(reqbody)
	}
	r := httptest.NewRequest(verb, path, rd)
	if reqct != "-" {
		r.Header["Content-Type"] = []string{string(unhx(reqct))}
	}
	if a := c04Hdr(accept); len(a) > 0 {
		r.Header["Accept"] = a
	}
	if a := c04Hdr(acceptEnc); len(a) > 0 {
		r.Header["Accept-Encoding"] = a
	}
	if early {
		r.Header.Set("X-Verif-Early", "1")
	}
	w, p := serveRec(mux, r)
	if p != "" {
		return c04Resp{panicked: true}
	}
	res := w.Result()
	out := c04Resp{status: res.StatusCode}
	var cev string
	var cep bool
	out.ct, out.ctv, _ = c04HdrObs(res.Header, "Content-Type")
	out.ce, cev, cep = c04HdrObs(res.Header, "Content-Encoding")
	out.body, out.ceok = c04Unwire(cev, cep, w.Body.Bytes())
	return out
}

func c04ErrCode(ct string, variant1 bool, body []byte) string {
	var st spb.Status
	if _, err := c04Decode(ct, variant1, body, &st); err != nil {
		return "?"
	}
	return fmt.Sprint(st.Code)
}

func c04Run(o *out, input string) {
	f := strings.Fields(input)
	switch f[0] {
	case "C04N":
		hdr := http.Header{}
		if a := c04Hdr(f[1]); len(a) > 0 {
			hdr["Accept"] = a
		}
		var res string
		var vals []string
		var qs []float64
		func() {
			defer func() {
				if recover() != nil {
					res = "panic"
				}
			}()
			vals, qs = larking.VerifParseAccept(hdr["Accept"])
			res = hx([]byte(larking.VerifNegotiateContentType(hdr, c04Hdr(f[2]), string(unhx(f[3])))))
		}()
		var specs []string
		for i := range vals {
			q := "nan"
			if m := qs[i] * 1000; !math.IsNaN(m) && !math.IsInf(m, 0) && math.Abs(m-math.Round(m)) < 1e-6 {
				q = fmt.Sprint(int64(math.Round(m)))
			}
			specs = append(specs, hx([]byte(vals[i]))+":"+q)
		}
		sp := "-"
		if len(specs) > 0 {
			sp = strings.Join(specs, ",")
		}
		o.emit(input, res+" "+sp)
	case "C04E":
		hdr := http.Header{}
		if a := c04Hdr(f[1]); len(a) > 0 {
			hdr["Accept-Encoding"] = a
		}
		res := "panic"
		func() {
			defer func() { recover() }()
			res = hx([]byte(larking.VerifNegotiateContentEncoding(hdr, c04Hdr(f[2]))))
		}()
		o.emit(input, res)
	case "C04":
		e := c04Setup()
		variant, maxsend := atoi(f[1]), atoi(f[2])
		var md *c04Method
		for i := range c04Methods {
			if c04Methods[i].Name == f[3] {
				md = &c04Methods[i]
			}
		}
		if md == nil {
			panic("bad C04 method " + f[3])
		}
		cm := e.get(variant, maxsend)
		e.reply = unhx(f[8])
		// oracle part
		reply := dynamicpb.NewMessage(c04Find(e.fd, c04Abs(c04Pkg, md.Out)))
		if err := proto.Unmarshal(e.reply, reply); err != nil {
			panic(err)
		}
		kinds, sel := c04Select(reply, md.Resp)
		ishb, hbct, hbdata := "0", "-", "-"
		lenj, lenp := -1, -1
		selname := "-"
		if sel != nil {
			selname = hx([]byte(sel.Descriptor().FullName()))
			if sel.Descriptor().FullName() == c04HB {
				ishb = "1"
				hbct = hx([]byte(sel.Get(sel.Descriptor().Fields().ByName("content_type")).String()))
				hbdata = fmt.Sprint(len(sel.Get(sel.Descriptor().Fields().ByName("data")).Bytes()))
			}
			if b, err := (protojson.MarshalOptions{}).Marshal(sel.Interface()); err == nil {
				lenj = len(b)
			}
			if b, err := (proto.MarshalOptions{}).Marshal(sel.Interface()); err == nil {
				lenp = len(b)
			}
		}
		reqbody := unhx(f[7])
		hasBody := b2i(md.Body != "" && len(reqbody) > 0)
		reqname := c04Abs(c04Pkg, md.In)
		if md.Body != "" && md.Body != "*" {
			reqname = c04Abs(c04Pkg, c04Inner)
		}
		oracle := fmt.Sprintf("| %s %s %s %s %s %s %d %d %d %d %s %s", cm.codecs, c04Kinds(kinds), selname, ishb, hbct, hbdata,
			lenj, lenp, lenp+1, hasBody, hx([]byte(reqname)), cm.comps)
		if st := cm.regErr[md.Name]; st != "" {
			o.emit(input, st+" - - 1 0 - none:0 - "+oracle)
			return
		}
		rs := c04Do(cm.mux, md.Verb, md.Tmpl, f[4], f[5], f[6], reqbody, false)
		if rs.panicked {
			o.emit(input, "panic - - 1 0 - none:0 - "+oracle)
			return
		}
		raw, dec, code := "-", "none:0", "-"
		if rs.status == 200 {
			if sel != nil {
				if ishb == "1" {
					raw = fmt.Sprint(b2i(bytes.Equal(rs.body, sel.Get(sel.Descriptor().Fields().ByName("data")).Bytes())))
				}
				dec = c04DecEq(rs.ctv, variant >= 1, rs.body, sel)
			}
		} else {
			code = c04ErrCode(rs.ctv, variant >= 1, rs.body)
		}
		o.emit(input, fmt.Sprintf("%d %s %s %s %d %s %s %s %s", rs.status, rs.ct, rs.ce, rs.ceok, len(rs.body), raw, dec, code, oracle))
		if rs.status == 200 && (len(input)+len(reqbody))%2 == 1 {
			// the same call with a handler that sends its header metadata before it returns the reply:
			// the response must be labelled and encoded identically
			re := c04Do(cm.mux, md.Verb, md.Tmpl, f[4], f[5], f[6], reqbody, true)
			obs := "same"
			// bodies are compared decoded: the byte order of a marshalled dynamic message is not stable
			dec2 := "none:0"
			if sel != nil && !re.panicked && re.status == 200 {
				dec2 = c04DecEq(re.ctv, variant >= 1, re.body, sel)
			}
			if re.panicked || re.status != rs.status || re.ct != rs.ct || re.ce != rs.ce || dec2 != dec {
				obs = fmt.Sprintf("diff status=%d/%d ct=%s/%s ce=%s/%s decoded=%s/%s", rs.status, re.status, rs.ct, re.ct, rs.ce, re.ce, dec, dec2)
				obs = strings.ReplaceAll(obs, " ", "_")
				obs = "diff " + obs[5:]
			}
			o.count("early-header")
			o.emit("C04H "+strings.Join(f[1:], " "), obs)
		}
	case "C04H":
		// replayed through its C04 twin
		c04Run(o, "C04 "+strings.Join(f[1:], " "))
	case "C04R":
		e := c04Setup()
		sel, body := string(unhx(f[1])), string(unhx(f[2]))
		e.reply = unhx(f[3])
		fd := c04BuildFile("verif.c04r", "verif/c04r.proto", []c04Method{{"Sel", "POST", "/c04r/sel", body, sel, c04Req, c04Outer}})
		reply := dynamicpb.NewMessage(fd.Messages().ByName("Outer"))
		if err := proto.Unmarshal(e.reply, reply); err != nil {
			panic(err)
		}
		kinds, selm := c04Select(reply, sel)
		oracle := "| " + c04Kinds(kinds)
		mux, errs := c04RegisterAll(fd, e.impl())
		if st := errs["Sel"]; st != "" {
			o.emit(input, st+" "+oracle)
			return
		}
		rs := c04Do(mux, "POST", "/c04r/sel", "-", "-", "-", nil, false)
		if rs.panicked {
			o.emit(input, "acc panic none:0 "+oracle)
			return
		}
		dec := "none:0"
		if rs.status == 200 && selm != nil {
			if selm.Descriptor().FullName() == c04HB {
				dec = fmt.Sprintf("raw:%d", b2i(bytes.Equal(rs.body, selm.Get(selm.Descriptor().Fields().ByName("data")).Bytes()) &&
					rs.ctv == selm.Get(selm.Descriptor().Fields().ByName("content_type")).String()))
			} else {
				dec = c04DecEq(rs.ctv, false, rs.body, selm)
			}
		}
		o.emit(input, fmt.Sprintf("acc %d %s %s", rs.status, dec, oracle))
	default:
		panic("bad C04 case kind " + f[0])
	}
}

func c04Find(fd protoreflect.FileDescriptor, full string) protoreflect.MessageDescriptor {
	if md := fd.Messages().ByName(protoreflect.Name(strings.TrimPrefix(full, string(fd.Package())+"."))); md != nil {
		return md
	}
	d, err := protoregistry.GlobalFiles.FindDescriptorByName(protoreflect.FullName(full))
	if err != nil {
		panic(err)
	}
	return d.(protoreflect.MessageDescriptor)
}

func init() { props["C04"] = prop{gen: c04Gen, run: c04Run} }
