package main

// C07H <reader a|r> <captured type hex> <header type hex> <filename hex> ; <content_type the handler saw hex> <filename hex> <status>
//
// A path variable that binds a field INSIDE a google.api.HttpBody body: rule POST /c07h/{file.content_type=*/*}/{filename}
// with body "file" on a client-streaming upload. The body mapping supplies content_type from the request's Content-Type
// header; the path-bound field must carry the captured value whichever way the handler reads the first message
// (a: larking.AsHTTPBodyReader, r: stream.RecvMsg).

import (
	"bytes"
	"context"
	"fmt"
	"io"
	"net/http/httptest"
	"strings"

	"google.golang.org/grpc"
	"google.golang.org/protobuf/proto"
	"google.golang.org/protobuf/reflect/protoreflect"
	"google.golang.org/protobuf/types/dynamicpb"
	"larking.io/larking"
)

type c07hEnv struct {
	mux    *larking.Mux
	reader string
	ct, fn string
	seen   bool
}

var c07henv *c07hEnv

func c07hSetup() *c07hEnv {
	if c07henv != nil {
		return c07henv
	}
	e := &c07hEnv{}
	f := dynFile{Path: "verif/c07h.proto", Pkg: "verif.c07h", Services: []dynService{{Name: "Up", Methods: []dynMethod{
		{Name: "Put", In: "larking.testpb.UploadFileRequest", Out: "larking.testpb.Message", ClientStream: true,
			Rule: &dynRule{Verb: "POST", Tmpl: "/c07h/{file.content_type=*/*}/{filename}", Body: "file"}},
	}}}}
	fd, err := f.build()
	if err != nil {
		panic(err)
	}
	impl := &dynImpl{
		Unary: func(ctx context.Context, method string, req proto.Message, out protoreflect.MessageDescriptor) (proto.Message, error) {
			return dynamicpb.NewMessage(out), nil
		},
		Stream: func(method string, in, out protoreflect.MessageDescriptor, ss grpc.ServerStream) error {
			m := dynamicpb.NewMessage(in)
			if e.reader == "a" {
				rd, err := larking.AsHTTPBodyReader(ss, m)
				if err != nil {
					return err
				}
				io.Copy(io.Discard, rd)
			} else {
				if err := ss.RecvMsg(m); err != nil {
					return err
				}
				for ss.RecvMsg(dynamicpb.NewMessage(in)) == nil {
				}
			}
			file := m.Get(in.Fields().ByName("file")).Message()
			e.ct = file.Get(file.Descriptor().Fields().ByName("content_type")).String()
			e.fn = m.Get(in.Fields().ByName("filename")).String()
			e.seen = true
			return ss.SendMsg(dynamicpb.NewMessage(out))
		},
	}
	e.mux, err = dynMux([]protoreflect.FileDescriptor{fd}, impl)
	if err != nil {
		panic(err)
	}
	c07henv = e
	return e
}

func c07hRun(o *out, input string) {
	f := strings.Fields(input)
	e := c07hSetup()
	e.reader, e.seen, e.ct, e.fn = f[1], false, "", ""
	capt, hdr, name := string(unhx(f[2])), string(unhx(f[3])), string(unhx(f[4]))
	r := httptest.NewRequest("POST", "/c07h/"+capt+"/"+name, bytes.NewReader([]byte("the bytes of the upload")))
	if hdr != "" {
		r.Header.Set("Content-Type", hdr)
	}
	w, p := serveRec(e.mux, r)
	if p != "" {
		o.emit(input, "- - panic")
		return
	}
	if !e.seen {
		o.emit(input, fmt.Sprintf("- - %d", w.Code))
		return
	}
	o.emit(input, fmt.Sprintf("%s %s %d", hx([]byte(e.ct)), hx([]byte(e.fn)), w.Code))
}

func c07hGen(o *out) {
	for _, rd := range []string{"a", "r"} {
		for _, capt := range []string{"image/png", "text/plain", "application/x-a.b-c"} {
			for _, hdr := range []string{"", "image/png", "application/octet-stream", "application/x-foo", "text/plain; charset=utf-8"} {
				o.count("httpbody-field-bound-by-path/" + rd)
				c07hRun(o, fmt.Sprintf("C07H %s %s %s %s", rd, hx([]byte(capt)), hx([]byte(hdr)), hx([]byte("cat.jpg"))))
			}
		}
	}
}

func init() {
	p := props["C07"]
	g, rn := p.gen, p.run
	props["C07"] = prop{
		gen: func(o *out, r *rng, tier string) { g(o, r, tier); c07hGen(o) },
		run: func(o *out, in string) {
			if strings.HasPrefix(in, "C07H") {
				c07hRun(o, in)
			} else {
				rn(o, in)
			}
		},
	}
}
