package main

// C04G <accept p|j> <id,id,...> ; <status>:<1 if the body decodes to the reply the handler returned> per call
//
// Unary replies of a generated (fast-path) message type with sub-messages, from a handler that keeps one
// reply object and refreshes it in place between calls (a reply backed by a cached object): every reply
// must reach the client as exactly the message the handler returned at that call, whatever was encoded
// before. The service is grpc-go's generated Channelz service, reached through its implicit rule
// POST /grpc.channelz.v1.Channelz/GetServer.

import (
	"bytes"
	"context"
	"fmt"
	"net/http/httptest"
	"strings"

	channelzpb "google.golang.org/grpc/channelz/grpc_channelz_v1"
	"google.golang.org/protobuf/encoding/protojson"
	"google.golang.org/protobuf/proto"
	"larking.io/larking"
)

type c04gServer struct {
	channelzpb.UnimplementedChannelzServer
	rsp  *channelzpb.GetServerResponse
	last proto.Message
}

func (s *c04gServer) GetServer(ctx context.Context, req *channelzpb.GetServerRequest) (*channelzpb.GetServerResponse, error) {
	id := req.GetServerId()
	s.rsp.Server.Ref.ServerId = id
	s.rsp.Server.Ref.Name = "srv-" + strings.Repeat("n", int(id))
	if id%2 == 1 {
		s.rsp.Server.ListenSocket = append(s.rsp.Server.ListenSocket, &channelzpb.SocketRef{SocketId: id, Name: strings.Repeat("s", int(id%7))})
	} else if len(s.rsp.Server.ListenSocket) > 0 {
		s.rsp.Server.ListenSocket[0].Name = strings.Repeat("t", int(id%131))
	}
	s.last = proto.Clone(s.rsp)
	return s.rsp, nil
}

func c04gRun(o *out, input string) {
	f := strings.Fields(input)
	m, err := larking.NewMux()
	if err != nil {
		panic(err)
	}
	srv := &c04gServer{rsp: &channelzpb.GetServerResponse{Server: &channelzpb.Server{
		Ref: &channelzpb.ServerRef{}, Data: &channelzpb.ServerData{CallsStarted: 7}}}}
	channelzpb.RegisterChannelzServer(m, srv)
	accept := map[string]string{"p": "application/protobuf", "j": "application/json"}[f[1]]
	var res []string
	for _, id := range unints(f[2]) {
		reqBody, _ := proto.Marshal(&channelzpb.GetServerRequest{ServerId: int64(id)})
		r := httptest.NewRequest("POST", "/grpc.channelz.v1.Channelz/GetServer", bytes.NewReader(reqBody))
		r.Header.Set("Content-Type", "application/protobuf")
		r.Header.Set("Accept", accept)
		w := httptest.NewRecorder()
		srv.last = nil
		st := func() (st string) {
			defer func() {
				if recover() != nil {
					st = "panic"
				}
			}()
			m.ServeHTTP(w, r)
			return fmt.Sprint(w.Code)
		}()
		ok := 0
		if st == "200" && srv.last != nil {
			got := &channelzpb.GetServerResponse{}
			var derr error
			if f[1] == "p" {
				derr = proto.Unmarshal(w.Body.Bytes(), got)
			} else {
				derr = protojson.Unmarshal(w.Body.Bytes(), got)
			}
			ok = b2i(derr == nil && proto.Equal(got, srv.last))
		}
		res = append(res, fmt.Sprintf("%s:%d", st, ok))
	}
	o.emit(input, strings.Join(res, ","))
}

func c04gGen(o *out, r *rng) {
	for _, a := range []string{"p", "j"} {
		for _, ids := range [][]int{{3, 40, 1, 300, 2}, {1, 2, 3, 4, 5, 6, 7, 8}, {200, 100, 50, 25, 12, 6, 3, 1}, {0, 129, 0, 127, 128}} {
			o.count("reused-reply/" + a)
			c04gRun(o, fmt.Sprintf("C04G %s %s", a, ints(ids)))
		}
		for i := 0; i < 6; i++ {
			var ids []int
			for k := 0; k < 3+r.intn(6); k++ {
				ids = append(ids, r.intn(400))
			}
			o.count("reused-reply/" + a)
			c04gRun(o, fmt.Sprintf("C04G %s %s", a, ints(ids)))
		}
	}
}

func init() {
	p := props["C04"]
	g, rn := p.gen, p.run
	props["C04"] = prop{
		gen: func(o *out, r *rng, tier string) { g(o, r, tier); c04gGen(o, r) },
		run: func(o *out, in string) {
			if strings.HasPrefix(in, "C04G") {
				c04gRun(o, in)
			} else {
				rn(o, in)
			}
		},
	}
}
