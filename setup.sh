#!/bin/sh
# MANIFEST.setup_cmd: build everything from files on disk (offline).
set -e
cd "$(dirname "$0")"
export GOFLAGS=-mod=mod GOPROXY=off GOSUMDB=off GOTOOLCHAIN=local
mkdir -p _build evidence
python3 - <<EOF
import glob,os
os.chdir("coq")
vs=sorted(glob.glob("theories/**/*.v",recursive=True))
open("_CoqProject","w").write("-Q theories Larking\n"+"\n".join(vs)+"\n")
EOF
( cd coq && coq_makefile -f _CoqProject -o Makefile && timeout 3000 make -j16 ) > _build/setup-coq.log 2>&1 || { tail -30 _build/setup-coq.log; exit 1; }
rm -rf _build/extract && mkdir -p _build/extract
python3 lib/mkextract.py coq/extract/parts _build/extract/Extract.v
( cd _build/extract && timeout 900 coqc -Q ../../coq/theories Larking Extract.v ) > _build/setup-extract.log 2>&1 || { tail -30 _build/setup-extract.log; exit 1; }
./ocaml/build.sh "$PWD/_build/extract" "$PWD/_build/modelrun"
cp /repo/go.sum harness/go.sum
( cd harness && go build -tags verif -o ../_build/verifh . )
echo setup ok
