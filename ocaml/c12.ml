(* C12: published-snapshot monitor on C11's histories.
   input : C12 <catalogue> <ops>      observation: one field per step  <result>:<same|new>:<changed>
   Specification (on the implementation's own observations): no captured snapshot ever changes its
   structural fingerprint (C12_published_immutable / C12_snapshot_content_fixed observed on the
   implementation), and a step that failed left the published pointer alone (C12_all_or_nothing).
   Model side: the results predicted by Registry.step, and "a failing step publishes nothing". *)
open Registry

let run inp obs : string option * string option =
  match inp with
  | ["C12"; cats; opss] ->
    let cat = C11.parse_cat cats in
    let names = String.split_on_char ',' opss in
    let ops = Stdlib.List.map (fun s -> fst (C11.parse_op cat s)) names in
    if Stdlib.List.length ops <> Stdlib.List.length obs then (Some "unparsable C12 case", None) else
    let spec = ref None and mism = ref None and mx = ref mux0 and i = ref 0 in
    Stdlib.List.iter2 (fun (op, name) o ->
        incr i;
        match String.split_on_char ':' o with
        | [res; ptr; changed] ->
          let r = C11.result_of res in
          if changed <> "-" && !spec = None then
            spec := Some (Printf.sprintf "step %d (%s): the snapshot(s) captured after step(s) %s were modified in place" !i name changed);
          if (r = RErr || r = RPanic || r = RFalse) && ptr <> "same" && !spec = None then
            spec := Some (Printf.sprintf "step %d (%s) returned %s but published a new state" !i name res);
          if r = RPanic && !spec = None then spec := Some (Printf.sprintf "step %d (%s) panicked" !i name);
          let (m', r') = step !mx op in
          if r' <> r && !mism = None then
            mism := Some (Printf.sprintf "step %d (%s): model of the registry returns %s, implementation %s" !i name (C11.string_of_result r') res);
          if (r' = RErr || r' = RPanic || r' = RFalse) && m'.published <> !mx.published && !mism = None then
            mism := Some (Printf.sprintf "step %d: the model publishes on a failing step" !i);
          mx := m'
        | _ -> failwith "step") (Stdlib.List.combine ops names) obs;
    (!spec, !mism)
  | _ -> (Some "unparsable C12 case", None)

let () = Evalreg.register "C12" run
