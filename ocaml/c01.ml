(* Routing cases RT / RTP / RG (properties C01, C02, C16): the extracted model of lexer + trie +
   search predicts what the mux does; the extracted template specification (Spec/Template.v) judges
   what the mux did. *)
open Util
module L = Stdlib.List

(* ---- strings: UTF-8 bytes (hex) -> runes the way Go's lexer sees them ---- *)
let runes_of_string (s : string) : int list =
  let n = String.length s in
  let rec go i acc =
    if i >= n then L.rev acc else
    let c = Char.code s.[i] in
    let cont k = if i + k < n then let d = Char.code s.[i + k] in if d land 0xC0 = 0x80 then Some (d land 0x3F) else None else None in
    if c < 0x80 then go (i + 1) (c :: acc)
    else if c >= 0xC2 && c <= 0xDF then
      (match cont 1 with Some a -> go (i + 2) ((((c land 0x1F) lsl 6) lor a) :: acc) | None -> go (i + 1) (0xFFFD :: acc))
    else if c >= 0xE0 && c <= 0xEF then
      (match cont 1, cont 2 with
       | Some a, Some b ->
         let r = ((c land 0x0F) lsl 12) lor (a lsl 6) lor b in
         if r < 0x800 || (r >= 0xD800 && r <= 0xDFFF) then go (i + 1) (0xFFFD :: acc) else go (i + 3) (r :: acc)
       | _ -> go (i + 1) (0xFFFD :: acc))
    else if c >= 0xF0 && c <= 0xF4 then
      (match cont 1, cont 2, cont 3 with
       | Some a, Some b, Some d ->
         let r = ((c land 0x07) lsl 18) lor (a lsl 12) lor (b lsl 6) lor d in
         if r < 0x10000 || r > 0x10FFFF then go (i + 1) (0xFFFD :: acc) else go (i + 4) (r :: acc)
       | _ -> go (i + 1) (0xFFFD :: acc))
    else go (i + 1) (0xFFFD :: acc)
  in go 0 []
let str_of_string s = L.map n_of_int (runes_of_string s)
let string_of_hexfield h = bytes_str (bytes_of_hex h)
let utf8_of_runes (rs : BinNums.coq_N list) : string =
  let b = Buffer.create 16 in
  L.iter (fun r -> let r = int_of_n r in
           if r < 0x80 then Buffer.add_char b (Char.chr r)
           else if r < 0x800 then (Buffer.add_char b (Char.chr (0xC0 lor (r lsr 6))); Buffer.add_char b (Char.chr (0x80 lor (r land 0x3F))))
           else if r < 0x10000 then (Buffer.add_char b (Char.chr (0xE0 lor (r lsr 12))); Buffer.add_char b (Char.chr (0x80 lor ((r lsr 6) land 0x3F))); Buffer.add_char b (Char.chr (0x80 lor (r land 0x3F))))
           else (Buffer.add_char b (Char.chr (0xF0 lor (r lsr 18))); Buffer.add_char b (Char.chr (0x80 lor ((r lsr 12) land 0x3F))); Buffer.add_char b (Char.chr (0x80 lor ((r lsr 6) land 0x3F))); Buffer.add_char b (Char.chr (0x80 lor (r land 0x3F))))) rs;
  Buffer.contents b

(* ---- classifier: ASCII natively, the rest from the case's cls field ---- *)
let parse_cls (s : string) : (int list * int list) =
  if s = "-" then ([], []) else
  match String.split_on_char ',' s with
  | [l; n] ->
    let f x = if String.length x <= 1 then [] else L.map int_of_string (L.filter (fun y -> y <> "") (String.split_on_char '.' (String.sub x 1 (String.length x - 1)))) in
    (f l, f n)
  | _ -> failwith "cls"
let classifier cls =
  let (ls, ns) = parse_cls cls in
  let is_letter r = let r = int_of_n r in (r >= 65 && r <= 90) || (r >= 97 && r <= 122) || L.mem r ls in
  let is_number r = let r = int_of_n r in (r >= 48 && r <= 57) || L.mem r ns in
  (is_letter, is_number)

(* ---- the fixed request type verif.rt.Msg (harness/c01.go c01Msgs) ---- *)
(* (json or proto name, canonical proto name, kind) per message *)
type fk = Str | Int32 | Bytes | Msg of string | RepStr | RepMsg of string
let schema = [
  "Msg", [("s1","s1",Str); ("s2","s2",Str); ("s3","s3",Str); ("num","num",Int32); ("nest","nest",Msg "Nest");
          ("rep","rep",RepStr); ("camel_case","camel_case",Str); ("camelCase","camel_case",Str); ("rnest","rnest",RepMsg "Nest"); ("data","data",Bytes)];
  "Nest", [("a","a",Str); ("b","b",Str); ("deep","deep",Msg "Deep")];
  "Deep", [("x","x",Str)] ]
(* fieldPath(): Some (canonical names, kinds) *)
let resolve_path (keys : string list) : (string list * fk list) option =
  let rec go msg keys = match keys with
    | [] -> Some ([], [])
    | k :: rest ->
      (match L.find_opt (fun (n, _, _) -> n = k) (L.assoc msg schema) with
       | None -> None
       | Some (_, canon, kind) ->
         if rest = [] then Some ([canon], [kind]) else
         (match kind with
          | Msg m | RepMsg m -> (match go m rest with Some (a, b) -> Some (canon :: a, kind :: b) | None -> None)
          | _ -> None))
  in if keys = [] then None else go "Msg" keys
let keys_of (fp : BinNums.coq_N list list) = L.map utf8_of_runes fp
let resolves _mid fp = resolve_path (keys_of fp) <> None
let body_ok _mid fp = match resolve_path (keys_of fp) with
  | Some (_, kinds) -> L.for_all (function Msg _ -> true | _ -> false) kinds | None -> false
(* the reply type of every method of the routing harness is verif.rt.Msg too: a response_body selector is
   usable under the same condition as a body selector *)
let resp_ok mid fp = body_ok mid fp

let int32_text (s : string) : int option =
  if s = "null" then Some 0 else
  let re = Str.regexp "^-?\\(0\\|[1-9][0-9]*\\)$" in
  if Str.string_match re s 0 && String.length s <= 11 then
    let v = int_of_string s in if v >= -2147483648 && v <= 2147483647 then Some v else None
  else None
let okconv fp text =
  match resolve_path (keys_of fp) with
  | Some (_, kinds) -> (match L.nth kinds (L.length kinds - 1) with
      | Int32 -> int32_text (utf8_of_runes text) <> None
      | Bytes -> Params.parse_bytes (str_bytes (utf8_of_runes text)) <> None
      | Msg _ | RepMsg _ -> false
      | _ -> true)
  | None -> false

(* expected "fields" observation from (field path, text) pairs applied in order *)
let fields_of (params : (BinNums.coq_N list list * BinNums.coq_N list) list) : string =
  let tbl : (string * string list) list ref = ref [] in
  L.iter (fun (fp, text) ->
      match resolve_path (keys_of fp) with
      | Some (canon, kinds) ->
        let name = String.concat "." canon and txt = utf8_of_runes text in
        let v = (match L.nth kinds (L.length kinds - 1) with
            | Int32 -> (match int32_text txt with Some 0 -> None | Some i -> Some ("i" ^ string_of_int i) | None -> Some "?")
            | Bytes -> (match Params.parse_bytes (str_bytes txt) with Some [] -> None | Some b -> Some ("b" ^ hex_of_bytes b) | None -> Some "?")
            | _ -> Some (hex_of_bytes (str_bytes txt))) in
        let is_rep = (match L.nth kinds (L.length kinds - 1) with RepStr -> true | _ -> false) in
        (match v with
         | None -> tbl := L.remove_assoc name !tbl
         | Some v ->
           if is_rep then tbl := (name, (try L.assoc name !tbl with Not_found -> []) @ [v]) :: L.remove_assoc name !tbl
           else tbl := (name, [v]) :: L.remove_assoc name !tbl)
      | None -> ()) params;
  if !tbl = [] then "-" else
  String.concat "," (L.sort compare (L.map (fun (n, vs) -> n ^ "=" ^ String.concat "|" vs) !tbl))

(* ---- rule sets ---- *)
type binding = { verb : string; tmpl : string; body : string; resp : string; nested : bool }
type meth = { svc : string; name : string; bindings : binding list; config : binding list }
let full m = "/verif.rt." ^ m.svc ^ "/" ^ m.name
let dec_binding b = match String.split_on_char '~' b with
  | verb :: t :: body :: resp :: rest ->
    let und x = if x = "-" then "" else x in
    (* a custom kind in any spelling is the upper-case verb (rules.go addRule: strings.ToUpper(v.Custom.Kind)); the
       harness spells kinds in ASCII only *)
    { verb = String.uppercase_ascii verb; tmpl = string_of_hexfield t; body = und body; resp = und resp; nested = rest <> [] }
  | _ -> failwith "binding"
let dec_ruleset (s : string) : meth list =
  if s = "-" then [] else
  L.map (fun p ->
      let i = String.index p '=' in
      let nm = String.sub p 0 i and bs = String.sub p (i + 1) (String.length p - i - 1) in
      let j = String.index nm '.' in
      let svc = String.sub nm 0 j and name = String.sub nm (j + 1) (String.length nm - j - 1) in
      let (bs, cfg) = match String.index_opt bs '@' with
        | Some k -> (String.sub bs 0 k, String.sub bs (k + 1) (String.length bs - k - 1))
        | None -> (bs, "") in
      let bindings = if bs = "_" then [] else L.map dec_binding (String.split_on_char '+' bs) in
      let config = if cfg = "" then [] else L.map dec_binding (String.split_on_char '+' cfg) in
      { svc; name; bindings; config }) (String.split_on_char ';' s)

let bsel_of (b : string) : Trie.bsel =
  if b = "" then Trie.BNone else if b = "*" then Trie.BStar
  else Trie.BField (L.map str_of_string (String.split_on_char '.' b))
let brule_of (b : binding) : Trie.brule =
  { Trie.b_verb = str_of_string b.verb; b_tmpl = str_of_string b.tmpl; b_body = bsel_of b.body;
    b_resp = (if b.resp = "" then [] else L.map str_of_string (String.split_on_char '.' b.resp)); b_nested = b.nested }
let mdecl_of (m : meth) : Trie.mdecl =
  { Trie.d_id = str_of_string (full m);
    d_config = (match m.config with [] -> [] | b :: adds -> [ { Trie.h_main = brule_of b; h_adds = L.map brule_of adds } ]);
    d_annot = (match m.bindings with [] -> None | b :: adds -> Some { Trie.h_main = brule_of b; h_adds = L.map brule_of adds }) }

(* services in order of first appearance, each registered all-or-nothing; the first failure stops *)
let group (ms : meth list) : meth list list =
  let order = L.fold_left (fun acc m -> if L.mem m.svc acc then acc else acc @ [m.svc]) [] ms in
  L.map (fun s -> L.filter (fun m -> m.svc = s) ms) order

let model_build cls (ms : meth list) : Trie.node * string =
  let (il, inum) = classifier cls in
  let rec go root = function
    | [] -> (root, "acc")
    | svc :: rest ->
      (match Trie.register_methods resolves body_ok resp_ok il inum root (L.map mdecl_of svc) with
       | GoSem.Ok root' -> go root' rest
       | GoSem.Err _ -> (root, "rej")
       | GoSem.Panic _ -> (root, "panic")
       | GoSem.OutOfFuel -> (root, "fuel"))
  in go Trie.empty_node (group ms)

let model_route cls root verb path : string =
  let (il, inum) = classifier cls in
  match Match.route okconv il inum root (str_of_string verb) (str_of_string path) with
  | GoSem.Ok r ->
    let (m, _) = r in
    Printf.sprintf "200,%s,%s" (utf8_of_runes m.Trie.m_id) (fields_of (Match.path_params r))
  | GoSem.Err GoSem.ENotFound -> "404,-,-"
  | GoSem.Err GoSem.EMethod -> "400,-,-"
  | GoSem.Err _ -> "500,-,-"
  | GoSem.Panic _ -> "panic,-,-"
  | GoSem.OutOfFuel -> "fuel,-,-"

(* ---- specification side (Spec/Template.v) ---- *)
type sb = { owner : string; sverb : string; st : Template.tmpl option; raw : binding option }
let spec_bindings cls (ms : meth list) : sb list =
  let (il, inum) = classifier cls in
  L.concat_map (fun m ->
      { owner = full m; sverb = "*"; st = Template.parse_tmpl il inum (str_of_string (full m)); raw = None } ::
      L.map (fun b -> { owner = full m; sverb = b.verb; st = Template.parse_tmpl il inum (str_of_string b.tmpl); raw = Some b }) (m.config @ m.bindings)) ms

let shape_eq (a : Template.tmpl) (b : Template.tmpl) =
  L.length a.Template.t_segs = L.length b.Template.t_segs
  && L.for_all2 Template.tseg_shape_eqb a.Template.t_segs b.Template.t_segs
  && a.Template.t_verb = b.Template.t_verb
let verbs_overlap a b = a = b || a = "*" || b = "*"

let tmpl_fields (t : Template.tmpl) : BinNums.coq_N list list list =
  L.concat_map (function Template.TVar (fp, _) -> [fp] | _ -> []) t.Template.t_segs

(* should this registration be accepted?  (per service all-or-nothing is the harness's business:
   the whole set is accepted iff every rule is fine and no two bindings of different methods collide) *)
let spec_reg cls (ms : meth list) : string =
  let bs = spec_bindings cls ms in
  let rule_ok b =
    match b.st with
    | None -> false
    | Some t ->
      L.for_all (fun fp -> resolves () fp) (tmpl_fields t)
      && (match b.raw with
          | None -> true
          | Some r -> (r.body = "" || r.body = "*" || body_ok () (L.map str_of_string (String.split_on_char '.' r.body)))
                      && (r.resp = "" || resp_ok () (L.map str_of_string (String.split_on_char '.' r.resp)))
                      && not r.nested) in
  let rec pairs = function [] -> [] | x :: r -> L.map (fun y -> (x, y)) r @ pairs r in
  let collide (a, b) = a.owner <> b.owner && verbs_overlap a.sverb b.sverb
                       && (match a.st, b.st with Some x, Some y -> shape_eq x y | _ -> false) in
  if L.for_all rule_ok bs && not (L.exists collide (pairs bs)) then "acc" else "rej"

(* judge one observed routing result *)
let spec_route cls (ms : meth list) verb path (status, meth, fields) : string option =
  let (il, inum) = classifier cls in
  let bs = spec_bindings cls ms in
  let p = str_of_string path in
  (* larking documents a limit of 64 tokens per path: 2 per piece (separator + text) and the end marker *)
  let ntok = 1 + 2 * L.length (L.filter (fun c -> c = '/' || c = ':') (L.init (String.length path) (String.get path)))
             - (if String.length path > 1 && path.[String.length path - 1] = '/' then 2 else 0)
             + (if String.length path = 0 || path.[0] <> '/' then 2 else 0) in
  let matches strict b =
    if strict && ntok > 64 then None else
    if not (Template.covers (str_of_string b.sverb) (str_of_string verb)) then None else
    match b.st with
    | Some t -> (match Template.inst il inum strict t p with Some caps -> Some (t, caps) | None -> None)
    | None -> None in
  if status = "panic" then Some "the mux panicked on this request" else
  if meth <> "-" then begin
    (* C01: some rule of the dispatched method covers verb and path, captures = fields, nothing else set *)
    let owned = L.filter (fun b -> b.owner = meth) bs in
    let ok = L.exists (fun b -> match matches false b with
        | Some (_, caps) -> fields_of (L.rev caps) = fields   (* Go applies the deepest variable first *)
        | None -> false) owned in
    if not ok then Some (Printf.sprintf "dispatched to %s, but none of its rules carries verb %s with a template matching %S and captures equal to the fields received (%s)" meth verb path fields)
    else begin
      (* C02 precedence: the method owns a matching binding that no other method's matching binding beats *)
      let mine = L.filter_map (fun b -> match matches false b with Some (t, _) -> Some t | None -> None) owned in
      let others = L.filter_map (fun b -> if b.owner <> meth then (match matches true b with Some (t, _) -> Some t | None -> None) else None) bs in
      (* the property's premise: every matching rule's captures convert to their fields' types (a rule
         whose capture does not convert cannot be served, so it cannot win either) *)
      let allconv = L.for_all (fun b -> match matches true b with
          | Some (_, caps) -> L.for_all (fun (fp, txt) -> okconv fp txt) caps | None -> true) bs in
      if not allconv then None else
      if L.exists (fun a -> not (L.exists (fun o -> Template.beats o.Template.t_segs a.Template.t_segs) others)) mine then None
      else Some (Printf.sprintf "dispatched to %s although another method spells a segment of %S literally where %s has a wildcard" meth path meth)
    end
  end else begin
    (* C02 completeness: when some rule matches strictly and every matching rule's captures are
       convertible (the property's premise), the request must be served *)
    let m = L.filter_map (fun b -> match matches true b with
        | Some (_, caps) -> Some (b.owner, L.for_all (fun (fp, txt) -> okconv fp txt) caps)
        | None -> None) bs in
    match m with
    | [] -> None
    | (o, _) :: _ when L.for_all snd m -> Some (Printf.sprintf "status %s: not dispatched although a rule of %s matches verb %s and path %S" status o verb path)
    | _ -> None
  end

let split3 s = match String.split_on_char ',' s with
  | [a; b; c] -> (a, b, c)
  | a :: b :: rest -> (a, b, String.concat "," rest)
  | _ -> failwith "result"

let judge cls ms verb path (reg, res) : string option * string option =
  (* verb "WS": a WebSocket handshake (GET + Upgrade: websocket), whose verb is the custom kind WEBSOCKET. The harness
     answers through a response writer that can be hijacked (an in-memory pipe; the client side sends one empty JSON
     message and a close frame), so a handshake reaches its method like any request and is judged in full: soundness,
     completeness and the model *)
  let ws = (verb = "WS") in
  let verb = if ws then "WEBSOCKET" else verb in
  let want_reg = spec_reg cls ms in
  if String.length res > 9 && String.sub res 0 9 = "unstable," then
    (Some (Printf.sprintf "the same request (%s %S) was answered differently the second time on one mux: %s" verb path res), None)
  else if reg = "panic" then (Some "registration panicked", None)
  else if reg <> want_reg then (Some (Printf.sprintf "registration %s, the template specification says %s" reg want_reg), None)
  else begin
    let (_, dispatched, _) = split3 res in
    let spec = if reg = "acc" then spec_route cls ms verb path (split3 res) else None in
    let (root, mreg) = model_build cls ms in
    let mres = if mreg = "acc" then model_route cls root verb path else res in
    let model = if mreg <> reg then Some (Printf.sprintf "model: registration %s, implementation %s" mreg reg)
      else if reg = "acc" && mres <> res then Some (Printf.sprintf "model routes to %s, implementation answered %s" mres res) else None in
    (spec, model)
  end

let perm_of ms p = L.map (fun i -> L.nth ms (int_of_string i)) (String.split_on_char '.' p)

let run inp obs : string option * string option =
  match inp, obs with
  | ["RT"; rs; verb; path; cls], [reg; st; m; fl] ->
    judge cls (dec_ruleset rs) verb (string_of_hexfield path) (reg, st ^ "," ^ m ^ "," ^ fl)
  | ["RTP"; rs; perms; verb; path; cls], [results] ->
    let ms = dec_ruleset rs and path = string_of_hexfield path in
    let rs = String.split_on_char '|' results and ps = String.split_on_char '|' perms in
    let each = L.map2 (fun p r ->
        let i = String.index r ',' in
        judge cls (perm_of ms p) verb path (String.sub r 0 i, String.sub r (i + 1) (String.length r - i - 1))) ps rs in
    let first_some f = L.find_map f each in
    (match first_some fst with
     | Some e -> (Some e, None)
     | None ->
       (* a rejected set leaves whatever was registered before the failing service: only the
          verdict itself must be the same in every order; an accepted set must route identically *)
       let key r = if String.length r >= 3 && String.sub r 0 3 = "rej" then "rej" else r in
       if L.exists (fun r -> key r <> key (L.hd rs)) rs
       then (Some (Printf.sprintf "the outcome depends on the registration order: %s" results), None)
       else (None, first_some snd))
  | ["RD"; rs; drops; verb; path; cls], [reg; oks; res] ->
    (* C11: path.delRule on the registered trie; judged as "removal = never having registered" *)
    let ms = dec_ruleset rs and path = string_of_hexfield path in
    (* verb WS: a WebSocket handshake, judged like any request (see judge) *)
    let ws = (verb = "WS") in
    let verb = if ws then "WEBSOCKET" else verb in
    let dropped = if drops = "-" then [] else L.map int_of_string (String.split_on_char '.' drops) in
    let names = L.map (fun i -> full (L.nth ms i)) dropped in
    if reg = "panic" then (Some "registration panicked", None)
    else if oks = "panic" then (Some "delRule panicked", None)
    else
    let want_reg = spec_reg cls ms in
    if reg <> want_reg then (Some (Printf.sprintf "registration %s, the template specification says %s" reg want_reg), None)
    else if reg <> "acc" then (None, None)
    else begin
      let ms' = L.filter (fun m -> not (L.mem (full m) names)) ms in
      let (st, meth, _) = split3 res in
      let spec =
        if st = "panic" then Some "the mux panicked on a request after delRule"
        else if L.mem meth names then Some (Printf.sprintf "the request was routed to %s, whose rules were removed (a stale route)" meth)
        else match (spec_route cls ms' verb path (split3 res)) with
          | Some e -> Some ("after removing [" ^ String.concat " " names ^ "] (judged against the rule set without them): " ^ e)
          | None ->
            (* every method has at least its implicit binding: delRule reports true the first time, false after *)
            let rec want seen = function [] -> [] | n :: r -> (if L.mem n seen then "0" else "1") :: want (n :: seen) r in
            let w = if names = [] then "-" else String.concat "," (want [] names) in
            if w <> oks then Some (Printf.sprintf "delRule reported [%s] for [%s]; every method had rules exactly until it was removed: [%s]" oks (String.concat " " names) w)
            else None in
      let (root, mreg) = model_build cls ms in
      let model =
        if mreg <> "acc" then Some (Printf.sprintf "model: registration %s, implementation acc" mreg)
        else begin
          let (root', moks) = L.fold_left (fun (nd, acc) n ->
              let (nd', ok) = TrieDel.del_rule (str_of_string n) nd in (nd', acc @ [if ok then "1" else "0"])) (root, []) names in
          let moks = if moks = [] then "-" else String.concat "," moks in
          let mres = model_route cls root' verb path in
          if moks <> oks then Some (Printf.sprintf "model of delRule reports [%s], implementation [%s]" moks oks)
          else if mres <> res then Some (Printf.sprintf "after removal the model routes to %s, implementation answered %s" mres res)
          else None
        end in
      (spec, model)
    end
  | ["RG"; base; rs; cls], [reg; probe] ->
    let base_ms = [ { svc = "B0"; name = "Get"; bindings = [ { verb = "GET"; tmpl = "/base/{s1}"; body = ""; resp = ""; nested = false } ]; config = [] };
                    { svc = "B0"; name = "Put"; bindings = [ { verb = "PUT"; tmpl = "/base/{s1}/sub/{s2=aa/*}:act"; body = "*"; resp = ""; nested = false } ]; config = [] } ] in
    let ms = (if base = "1" then base_ms else []) @ dec_ruleset rs in
    let want = spec_reg cls ms in
    let (_, mreg) = model_build cls ms in
    let want_probe = if base = "1" then "200,/verif.rt.B0/Get,s1=x76|200,/verif.rt.B0/Put,s1=x76,s2=x61612f77|200,/verif.rt.B0/Get,-" else "-" in
    if reg = "panic" then (Some "registration panicked", None)
    else if reg <> want then (Some (Printf.sprintf "registration %s, the template specification says %s" reg want), None)
    else if probe <> want_probe then (Some (Printf.sprintf "previously registered routes changed: %s" probe), None)
    else if mreg <> reg then (None, Some (Printf.sprintf "model: registration %s, implementation %s" mreg reg))
    else (None, None)
  | _ -> (Some "unparsable routing case", None)

let () = Evalreg.register "RT" run; Evalreg.register "RG" run; Evalreg.register "RD" run
