(* shared by c03.ml and c07.ml: the line protocol of harness/c03.go <-> the extracted model
   (Schema, Params, Transcode) *)
open Util
module L = Stdlib.List

(* ---------- trees ---------- *)
type cur = { s : string; mutable i : int }
let peek c = if c.i < String.length c.s then c.s.[c.i] else '\000'
let adv c = c.i <- c.i + 1
let expect c ch = if peek c <> ch then failwith (Printf.sprintf "tree: expected %c at %d in %s" ch c.i c.s); adv c
let take_while c p = let b = c.i in while c.i < String.length c.s && p c.s.[c.i] do adv c done; String.sub c.s b (c.i - b)
let is_dig ch = ch >= '0' && ch <= '9'
let is_hexc ch = is_dig ch || (ch >= 'a' && ch <= 'f')

let hexbytes h = bytes_of_hex ("x" ^ h)
let n_of_hex h =
  let acc = ref BinNums.N0 in
  String.iter (fun ch -> acc := BinNat.N.add (BinNat.N.mul !acc (n_of_int 16)) (n_of_int (hexval ch))) h; !acc

let parse_scalar c : Schema.scalar =
  let k = peek c in adv c;
  match k with
  | 'b' -> let d = take_while c is_dig in Schema.SBool (d = "1")
  | 'i' -> let d = take_while c (fun ch -> is_dig ch || ch = '-') in Schema.SInt (z_of_string d)
  | 'e' -> let d = take_while c (fun ch -> is_dig ch || ch = '-') in Schema.SEnum (z_of_string d)
  | 'f' -> Schema.SFlt (n_of_hex (take_while c is_hexc))
  | 's' -> Schema.SStr (hexbytes (take_while c is_hexc))
  | 'y' -> Schema.SByt (hexbytes (take_while c is_hexc))
  | _ -> failwith ("tree: bad scalar in " ^ c.s)

let rec parse_entries c : (BinNums.coq_N list * Schema.entry) list =
  if peek c = '-' then (adv c; []) else
  if not (is_dig (peek c)) then [] else
  let e = parse_entry c in
  if peek c = '+' then (adv c; e :: parse_entries c) else [e]
and parse_entry c =
  let rec path () =
    let d = take_while c is_dig in
    let n = n_of_string d in
    if peek c = '.' then (adv c; n :: path ()) else [n] in
  let p = path () in
  expect c ':';
  let ent =
    match peek c with
    | 'P' -> adv c; Schema.EPresent
    | 'L' -> adv c; expect c '[';
      let rec items () =
        if peek c = ']' then [] else
        let it = if peek c = 'M' then (adv c; expect c '('; let t = parse_entries c in expect c ')'; Schema.IMsg t)
          else Schema.IScalar (parse_scalar c) in
        if peek c = '/' then (adv c; it :: items ()) else [it] in
      let l = items () in expect c ']'; Schema.EList l
    | _ -> Schema.ELeaf (parse_scalar c) in
  (p, ent)

let tree_of_string s = let c = { s; i = 0 } in let t = parse_entries c in
  if c.i <> String.length s then failwith ("tree: trailing input in " ^ s); t

let hex_plain l = let h = hex_of_bytes l in String.sub h 1 (String.length h - 1)
let rec string_of_z z =  (* decimal of an extracted Z *)
  let ten = z_of_int 10 in
  match z with
  | BinNums.Z0 -> "0"
  | BinNums.Zneg p -> "-" ^ string_of_z (BinNums.Zpos p)
  | _ ->
    let rec go z acc = if z = BinNums.Z0 then acc else
        let q = BinInt.Z.div z ten and r = BinInt.Z.modulo z ten in go q (string_of_int (int_of_z r) ^ acc) in
    go z ""
let hex_of_n n =
  let sixteen = n_of_int 16 in
  let rec go n acc = if n = BinNums.N0 then acc else
      go (BinNat.N.div n sixteen) (Printf.sprintf "%x" (int_of_n (BinNat.N.modulo n sixteen)) ^ acc) in
  if n = BinNums.N0 then "0" else go n ""
let string_of_scalar = function
  | Schema.SBool b -> if b then "b1" else "b0"
  | Schema.SInt z -> "i" ^ string_of_z z
  | Schema.SEnum z -> "e" ^ string_of_z z
  | Schema.SFlt n -> "f" ^ hex_of_n n
  | Schema.SStr s -> "s" ^ hex_plain s
  | Schema.SByt s -> "y" ^ hex_plain s

(* canonical order: by path, numerically; nested trees likewise *)
let rec canon (t : (BinNums.coq_N list * Schema.entry) list) =
  let key (p, _) = L.map int_of_n p in
  let t = L.map (fun (p, e) -> (p, match e with
      | Schema.EList l -> Schema.EList (L.map (function Schema.IMsg t -> Schema.IMsg (canon t) | it -> it) l)
      | e -> e)) t in
  L.sort (fun a b -> compare (key a) (key b)) t
let rec string_of_tree t =
  if t = [] then "-" else
  String.concat "+" (L.map (fun (p, e) ->
      String.concat "." (L.map (fun n -> string_of_int (int_of_n n)) p) ^ ":" ^
      (match e with
       | Schema.EPresent -> "P"
       | Schema.ELeaf v -> string_of_scalar v
       | Schema.EList l -> "L[" ^ String.concat "/" (L.map (function
           | Schema.IScalar v -> string_of_scalar v
           | Schema.IMsg t -> "M(" ^ (if t = [] then "" else string_of_tree t) ^ ")") l) ^ "]")) t)

(* ---------- schema ---------- *)
let wkt_of = function
  | "0" -> Schema.WNone | "ts" -> Schema.WTimestamp | "du" -> Schema.WDuration | "wb" -> Schema.WBoolValue
  | "wi32" -> Schema.WInt32Value | "wi64" -> Schema.WInt64Value | "wu32" -> Schema.WUInt32Value
  | "wu64" -> Schema.WUInt64Value | "wf" -> Schema.WFloatValue | "wd" -> Schema.WDoubleValue
  | "wy" -> Schema.WBytesValue | "ws" -> Schema.WStringValue | "fm" -> Schema.WFieldMask
  | s -> failwith ("wkt " ^ s)
let wkt_code = function
  | Schema.WNone -> "0" | Schema.WTimestamp -> "ts" | Schema.WDuration -> "du" | Schema.WBoolValue -> "wb"
  | Schema.WInt32Value -> "wi32" | Schema.WInt64Value -> "wi64" | Schema.WUInt32Value -> "wu32"
  | Schema.WUInt64Value -> "wu64" | Schema.WFloatValue -> "wf" | Schema.WDoubleValue -> "wd"
  | Schema.WBytesValue -> "wy" | Schema.WStringValue -> "ws" | Schema.WFieldMask -> "fm"
let kind_of s =
  let idx k = nat_of_int (int_of_string (String.sub s k (String.length s - k))) in
  match s with
  | "b" -> Schema.KBool | "i32" -> Schema.KInt32 | "s32" -> Schema.KSint32 | "sf32" -> Schema.KSfixed32
  | "i64" -> Schema.KInt64 | "s64" -> Schema.KSint64 | "sf64" -> Schema.KSfixed64 | "u32" -> Schema.KUint32
  | "f32" -> Schema.KFixed32 | "u64" -> Schema.KUint64 | "f64" -> Schema.KFixed64 | "fl" -> Schema.KFloat
  | "db" -> Schema.KDouble | "st" -> Schema.KString | "by" -> Schema.KBytes
  | _ -> (match s.[0] with
      | 'e' -> Schema.KEnum (idx 1) | 'm' -> Schema.KMessage (idx 1) | 'g' -> Schema.KGroup (idx 1)
      | _ -> failwith ("kind " ^ s))
let field_of s =
  match String.split_on_char '.' s with
  | [num; name; json; kind; card; oneof; pres] ->
    { Schema.f_num = n_of_string num; f_name = str_bytes name; f_json = str_bytes json; f_kind = kind_of kind;
      f_card = (match card with "s" -> Schema.Singular | "r" -> Schema.Repeated | _ -> Schema.MapField);
      f_oneof = (if oneof = "-" then None else Some (nat_of_int (int_of_string oneof)));
      f_pres = (pres = "1") }
  | _ -> failwith ("field " ^ s)
let schema_cache : (string, Schema.schema) Hashtbl.t = Hashtbl.create 4
let schema_of s =
  match Hashtbl.find_opt schema_cache s with Some x -> x | None ->
  let x = match String.split_on_char '~' s with
  | [ms; es] ->
    let msgs = L.map (fun m ->
        let i = String.index m ':' in
        let w = String.sub m 0 i and fs = String.sub m (i + 1) (String.length m - i - 1) in
        { Schema.m_wkt = wkt_of w; m_fields = (if fs = "" then [] else L.map field_of (String.split_on_char ',' fs)) })
        (String.split_on_char '|' ms) in
    let enums = if es = "" then [] else L.map (fun e ->
        let i = String.index e ':' in
        let nl = String.sub e 0 i and vs = String.sub e (i + 1) (String.length e - i - 1) in
        { Schema.e_null = (nl = "1");
          e_vals = (if vs = "" then [] else L.map (fun v ->
              let j = String.index v '=' in
              (str_bytes (String.sub v 0 j), z_of_string (String.sub v (j + 1) (String.length v - j - 1))))
              (String.split_on_char ',' vs)) }) (String.split_on_char '|' es) in
    { Schema.s_msgs = msgs; s_enums = enums }
  | _ -> failwith "schema" in
  Hashtbl.replace schema_cache s x; x

(* ---------- a case ---------- *)
type case = {
  sch : Schema.schema; rule : Transcode.rule; vars : BinNums.coq_N list list;  (* numeric paths of the variables *)
  caps : BinNums.coq_N list list; query : (BinNums.coq_N list * BinNums.coq_N list list) list;
  body : (string * int * string) option;   (* codec, gz, decoded *)
  ofloat : bool -> BinNums.coq_N list -> BinNums.coq_N option;
  owkt : Schema.wkt -> bool -> BinNums.coq_N list -> (BinNums.coq_N list * Schema.entry) list option;
}

let resolve sch root dotted =
  match Params.field_path sch (Schema.msg_fields sch root) (Params.split_dots [] (str_bytes dotted)) with
  | Some fds -> fds | None -> failwith ("rule path does not resolve: " ^ dotted)

let group_query pairs =
  let keys = ref [] and tbl = Hashtbl.create 8 in
  L.iter (fun (k, v) ->
      if not (Hashtbl.mem tbl k) then (keys := k :: !keys; Hashtbl.replace tbl k [v])
      else Hashtbl.replace tbl k (Hashtbl.find tbl k @ [v])) pairs;
  L.map (fun k -> (k, Hashtbl.find tbl k)) (L.rev !keys)

let parse_case schema rule caps query body oracles : case =
  let sch = schema_of schema in
  let (input, bodysel, vars) = match String.split_on_char '!' rule with
    | [_; inp; b; v] -> (nat_of_int (int_of_string inp), b, if v = "-" then [] else String.split_on_char ',' v)
    | _ -> failwith "rule" in
  let rvars = L.map (resolve sch input) vars in
  let rbody = match bodysel with "-" -> Transcode.BNone | "*" -> Transcode.BStar | s -> Transcode.BField (resolve sch input s) in
  let pairs = L.map (fun p -> let i = String.index p '=' in
                      (bytes_of_hex (String.sub p 0 i), bytes_of_hex (String.sub p (i + 1) (String.length p - i - 1))))
      (split_on ',' query) in
  let body = if body = "-" then None else
      match String.split_on_char ':' body with
      | c :: gz :: _raw :: rest -> Some (c, int_of_string gz, String.concat ":" rest)
      | _ -> failwith "body" in
  let ftab = Hashtbl.create 8 and wtab = Hashtbl.create 8 in
  L.iter (fun o ->
      let i = String.rindex o '=' in
      let lhs = String.sub o 0 i and rhs = String.sub o (i + 1) (String.length o - i - 1) in
      match String.split_on_char ':' lhs with
      | ["F32"; t] -> Hashtbl.replace ftab (true, t) rhs
      | ["F64"; t] -> Hashtbl.replace ftab (false, t) rhs
      | [w; q; t] -> Hashtbl.replace wtab (String.sub w 1 (String.length w - 1), q = "1", t) rhs
      | _ -> failwith ("oracle " ^ o)) (split_on ',' oracles);
  let ofloat is32 txt =
    match Hashtbl.find_opt ftab (is32, hex_of_bytes txt) with
    | Some "E" -> None
    | Some r -> (match parse_scalar { s = r; i = 0 } with Schema.SFlt n -> Some n | _ -> failwith "float oracle")
    | None -> failwith ("no float oracle value for " ^ bytes_str txt) in
  let owkt w q txt =
    match Hashtbl.find_opt wtab (wkt_code w, q, hex_of_bytes txt) with
    | Some "E" -> None
    | Some r -> Some (tree_of_string (String.sub r 1 (String.length r - 2)))
    | None -> failwith ("no well-known-type oracle value for " ^ bytes_str txt) in
  { sch; rule = { Transcode.r_input = input; r_vars = rvars; r_body = rbody };
    vars = L.map (fun fds -> L.map (fun st -> (snd st).Schema.f_num) fds) rvars;
    caps = hexs_of caps; query = group_query pairs; body; ofloat; owkt }

type result = ROk of (BinNums.coq_N list * Schema.entry) list | RErr of int | RPanic
let string_of_result = function
  | ROk t -> "ok:" ^ string_of_tree t | RErr c -> "err:" ^ string_of_int c | RPanic -> "panic"

let run_model (c : case) (q : (BinNums.coq_N list * BinNums.coq_N list list) list) : result =
  let unmarshal _ _ _ = match c.body with
    | Some (_, _, "E") | Some (_, _, "Z") | None -> None
    | Some (_, _, t) -> Some (tree_of_string t) in
  let inflate b = match c.body with Some (_, _, "Z") -> None | _ -> Some b in
  let rq = { Transcode.q_caps = c.caps; q_query = q;
             q_body = (match c.body with None -> None | Some _ -> Some []);
             q_codec = (match c.body with Some (("j" | "p"), _, _) -> Some Datatypes.O | _ -> None);
             q_gzip = (match c.body with Some (_, g, _) -> g <> 0 | None -> false) } in
  match Transcode.decode_request c.ofloat c.owkt unmarshal inflate c.sch c.rule rq with
  | GoSem.Ok m -> ROk (canon m)
  | GoSem.Err GoSem.EInvalid -> RErr 400
  | GoSem.Err GoSem.ENotFound -> RErr 404
  | GoSem.Err _ -> RErr 500
  | GoSem.Panic _ -> RPanic
  | GoSem.OutOfFuel -> failwith "fuel"

let rec perms = function
  | [] -> [[]]
  | l -> L.concat_map (fun x -> L.map (fun p -> x :: p) (perms (L.filter (fun y -> y != x) l))) l

(* the results the model allows: one per order in which Go's map iteration may deliver the keys *)
let model_orders (c : case) =
  (* url.Values is a map from key to its values in order of appearance: the order between KEYS is Go's map order *)
  let keys = L.fold_left (fun acc kv -> if L.mem (fst kv) acc then acc else acc @ [fst kv]) [] c.query in
  let of_keys ks = L.concat_map (fun k -> L.filter (fun kv -> fst kv = k) c.query) ks in
  let orders =
    if L.length keys <= 6 then L.map of_keys (perms keys)
    else begin
      (* too many keys to enumerate: the given order, its reverse and 300 shuffles from a fixed generator *)
      let st = ref 88172645463325252 in
      let next n = st := !st lxor (!st lsl 13); st := !st lxor (!st lsr 7); st := !st lxor (!st lsl 17); (!st land max_int) mod n in
      let shuffle l = let a = Array.of_list l in
        for i = Array.length a - 1 downto 1 do let j = next (i + 1) in let t = a.(i) in a.(i) <- a.(j); a.(j) <- t done; Array.to_list a in
      of_keys keys :: of_keys (L.rev keys) :: L.init 300 (fun _ -> of_keys (shuffle keys))
    end in
  orders
let model_results (c : case) : result list = L.sort_uniq compare (L.map (run_model c) (model_orders c))

let parse_obs (obs : string) : result =
  if obs = "panic" then RPanic
  else if String.length obs >= 3 && String.sub obs 0 3 = "ok:" then ROk (canon (tree_of_string (String.sub obs 3 (String.length obs - 3))))
  else if String.length obs >= 4 && String.sub obs 0 4 = "err:" then RErr (int_of_string (String.sub obs 4 (String.length obs - 4)))
  else failwith ("observation " ^ obs)

let tie (c : case) (got : result) : string option =
  (* lazily: most requests give the same message in every order, so the first order already agrees *)
  if L.exists (fun o -> run_model c o = got) (model_orders c) then None
  else let rs = model_results c in Some (Printf.sprintf "model of serveHTTP/RecvMsg predicts %s, implementation gave %s"
               (String.concat " | " (L.map string_of_result rs)) (string_of_result got))

let is_prefix p q =
  let rec go p q = match p, q with [], _ -> true | a :: p', b :: q' -> a = b && go p' q' | _ -> false in go p q
let under p t = L.filter (fun (q, _) -> is_prefix p q) t
