(* C20: NewServer mount prefixes.  Case lines (see harness/c20.go):
     C20 <nilmux> <opts> <kind> <hexpath> ; err | panic | srv <status> <class> <arg> <eq> <rec>
   spec: MountSpec.spec_ok on what the server did; model: Mount.run_case compared exactly. *)
open Util

let parse_opts (s : string) : Mount.server_option list =
  if s = "-" || s = "" then [] else
  Stdlib.List.map (fun o ->
      let n = String.length o in
      if o = "t" || o = "T" then Mount.OTLS
      else if o = "m" then Mount.OMux None
      else if o = "m0" then Mount.OMux (Some [])
      else if n >= 2 && String.sub o 0 2 = "m:" then
        Mount.OMux (Some (Stdlib.List.map bytes_of_hex (String.split_on_char ',' (String.sub o 2 (n - 2)))))
      else if n >= 2 && String.sub o 0 2 = "h:" then Mount.OHandler (bytes_of_hex (String.sub o 2 (n - 2)), false)
      else if n >= 2 && String.sub o 0 2 = "x:" then Mount.OHandler (bytes_of_hex (String.sub o 2 (n - 2)), true)
      else failwith ("bad option " ^ o))
    (* "L" (always last) is not an option: the services are registered after NewServer *)
    (Stdlib.List.filter (fun o -> o <> "L") (String.split_on_char '+' s))

let rec drop n l = if n <= 0 then l else match l with [] -> [] | _ :: t -> drop (n - 1) t

let show_resp = function
  | Mount.ToMux x -> Printf.sprintf "mux(%S)" (bytes_str x)
  | Mount.ToExtra (i, x) -> Printf.sprintf "extra#%d(%S)" (int_of_nat i) (bytes_str x)
  | Mount.NotFound -> "404-not-found"
  | Mount.Redirect l -> Printf.sprintf "redirect(%S)" (bytes_str l)
  | Mount.RedirectClean -> "redirect-to-clean-path"

let run_case (loose : bool) inp obs : string option * string option =
  match inp with
  | ["C20"; nilmux; opts; _kind; hpath] ->
    let opts = parse_opts opts and path = bytes_of_hex hpath in
    let model = Mount.run_case (nilmux = "1") opts path in
    (* MuxHandleOption refuses to run once an earlier MuxHandleOption has left a non-nil pattern slice *)
    let dup = MountSpec.mux_dup false opts in
    let validation =
      match obs with
      | "srv" :: _ when nilmux = "1" -> Some "NewServer accepted a nil mux"
      | "panic" :: _ when nilmux = "1" -> Some "NewServer panicked on a nil mux instead of returning an error"
      | "srv" :: _ when dup -> Some "NewServer accepted a second MuxHandleOption after one that set patterns (must be refused as a duplicate)"
      | "err" :: _ when nilmux = "0" && not dup -> Some "NewServer refused a configuration with a mux and no repeated MuxHandleOption"
      | _ -> None in
    if validation <> None then (validation, None) else
    (match model, obs with
     | Mount.ObsUnmodelled, _ -> (None, Some "configuration outside the modelled pattern language was generated")
     | _, ["panic"] ->
       (* Handle's documented panic on a bad / duplicate pattern is what the code does; the model must say so *)
       ((None : string option), (if model = Mount.ObsPanic then None else Some "NewServer panicked, the model does not"))
     | _, ["err"] ->
       (None, (if model = Mount.ObsErr then None else Some "NewServer returned an error, the model does not"))
     | _, ["srv"; status; cls; arg; eq; _rec] ->
       let mounts = MountSpec.opt_mounts opts and extras = MountSpec.opt_extras opts O in
       let ok r = MountSpec.spec_ok mounts extras path r in
       let describe () = Printf.sprintf "request %S" (bytes_str path) in
       (* the observation as a response value; for a mux response, the stripped paths x for which the
          bare mux answers identically are the candidates *)
       let spec, observed =
         match cls with
         | "panic" -> (Some "serving the request panicked", None)
         | "extra+mux" -> (Some "an extra handler and the mux both ran", None)
         | "mux" | "nf?" ->
           let cands = Stdlib.List.map (fun o -> Mount.ToMux (drop o path)) (ints_of eq) in
           (* an HTTP 404 seen by the gRPC client is net/http's or the mux's own: both readings are candidates *)
           let cands = if cls = "nf?" then Mount.NotFound :: cands else cands in
           (match Stdlib.List.find_opt ok cands with
            | Some r -> (None, Some (cands, r))
            | None ->
              let why =
                if ok Mount.NotFound || ok (Mount.Redirect []) then "the mux answered a request that lies under none of its mount prefixes"
                else if cands = [] then "the response equals the bare mux's response for no suffix of the path"
                else "the response equals the bare mux's response only for other paths than the one with the owning mount prefix removed" in
              (Some (Printf.sprintf "%s: %s (status %s; bare mux agrees at offsets [%s])" (describe ()) why status eq), None))
         | "nf" | "redir" | "extra" ->
           let r = match cls with
             | "nf" -> Mount.NotFound
             | "redir" -> Mount.Redirect (if arg = "-" then [] else bytes_of_hex arg)
             | _ ->
               (match String.split_on_char '&' arg with
                | [one] ->
                  (match String.split_on_char ':' one with
                   | [i; p] -> Mount.ToExtra (nat_of_int (int_of_string i), bytes_of_hex p)
                   | _ -> failwith "bad extra arg")
                | _ -> Mount.ToExtra (nat_of_int 999999, [])) in
           if ok r then (None, Some ([r], r))
           else (Some (Printf.sprintf "%s: observed %s violates the mount specification" (describe ()) (show_resp r)), None)
         | _ -> (Some ("unknown class " ^ cls), None) in
       (match spec, observed with
        | Some why, _ -> (Some why, None)
        | None, None -> (Some "no observation", None)
        | None, Some (cands, _) ->
          (* exact comparison with the model's prediction *)
          let agrees =
            match model with
            | Mount.ObsResp Mount.RedirectClean ->
              (match cands with [Mount.Redirect _] -> loose || status = "301" | _ -> false)
            | Mount.ObsResp (Mount.Redirect l) ->
              (* the gRPC client does not show the Location: only the fact of the redirect is compared *)
              if loose && cls = "redir" && arg = "-" then true else cands = [Mount.Redirect l] && status = "301"
            | Mount.ObsResp r -> Stdlib.List.mem r cands
            | _ -> false in
          if agrees then (None, None)
          else (None, Some (Printf.sprintf "%s: model predicts %s, the server did %s %s [%s] (status %s)" (describe ())
                              (match model with Mount.ObsResp r -> show_resp r | Mount.ObsErr -> "NewServer error" | Mount.ObsPanic -> "NewServer panic" | _ -> "?")
                              cls arg eq status)))
     | _ -> (Some "unparsable C20 observation", None))
  | _ -> (Some "unparsable C20 case", None)
let run inp obs =
  match inp with
  | ["C20L"; opts; client; kind; hpath] -> run_case (client = "grpc") ["C20"; "0"; opts; kind; hpath] obs
  | _ -> run_case false inp obs
let () = Evalreg.register "C20" run
