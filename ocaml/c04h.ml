(* C04H: a unary handler that sends its header metadata before returning the reply gets the same
   response labelling (status, Content-Type, Content-Encoding) and the same body as one that does not *)
let run inp obs : string option * string option =
  match obs with
  | ["same"] -> (None, None)
  | "diff" :: what :: _ -> (Some ("the response differs when the handler sends its header metadata before the reply: " ^ what), None)
  | _ -> (None, None)   (* the C04 twin of a replayed C04H case *)
let () = Evalreg.register "C04H" run
