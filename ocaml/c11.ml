(* C11: histories of register / drop operations.
   input  : C11 <catalogue> <ops>          observation: one field per step  <result>|<probes>
   The specification side uses only the implementation's own observations: the table of live
   registrations is folded from the observed return values (Registry.live_step), every answer must
   come from a live backend of the method, a method with a live backend is never Unimplemented /
   NotFound, small live sets are covered, the safe operations succeed.
   The model side runs Registry.step and compares results and answer sets exactly. *)
open Util
open Registry

let split c s = if s = "-" || s = "" then [] else String.split_on_char c s
let nat s = nat_of_int (int_of_string s)

type cat = { methods : (int * mdesc) list; descs : (int * mdesc list) list }

let parse_key s =
  match String.split_on_char '.' s with
  | [n; v; ok] -> { knode = nat n; kverb = nat v; kvalid = (ok = "1") }
  | _ -> failwith "key"
let parse_cat s : cat =
  let ms = ref [] and ds = ref [] and vs = ref [] in
  Stdlib.List.iter (fun part ->
      if part.[0] = 'M' then begin
        match String.split_on_char ':' (String.sub part 1 (String.length part - 1)) with
        | [id; node; rules] ->
          let rs = if rules = "-" then [] else
              Stdlib.List.map (fun r -> match Stdlib.List.map parse_key (String.split_on_char '>' r) with
                  | k :: adds -> { rmain = k; radd = adds } | [] -> failwith "rule") (String.split_on_char '_' rules) in
          ms := (int_of_string id, { mname = nat id; mnode = nat node; mrules = rs }) :: !ms
        | _ -> failwith "method"
      end else if part.[0] = 'V' then begin
        (* a variant of a method: the same name with other rules (a newer deployment) *)
        match String.split_on_char ':' (String.sub part 1 (String.length part - 1)) with
        | [vid; id; node; rules] ->
          let rs = Stdlib.List.map (fun r -> match Stdlib.List.map parse_key (String.split_on_char '>' r) with
              | k :: adds -> { rmain = k; radd = adds } | [] -> failwith "rule") (String.split_on_char '_' rules) in
          vs := (int_of_string vid, { mname = nat id; mnode = nat node; mrules = rs }) :: !vs
        | _ -> failwith "variant"
      end else if part.[0] = 'D' then begin
        match String.split_on_char '=' (String.sub part 1 (String.length part - 1)) with
        | [id; l] -> ds := (int_of_string id, Stdlib.List.map (fun m ->
            if m.[0] = 'v' then Stdlib.List.assoc (int_of_string (String.sub m 1 (String.length m - 1))) !vs
            else Stdlib.List.assoc (int_of_string m) !ms) (split '+' l)) :: !ds
        | _ -> failwith "desc"
      end else failwith "catalogue") (String.split_on_char '|' s);
  { methods = Stdlib.List.rev !ms; descs = Stdlib.List.rev !ds }

let parse_op cat s : op * bool =
  let probe = s.[String.length s - 1] = '!' in
  let s = if probe then String.sub s 0 (String.length s - 1) else s in
  (* '~': the backend's reflection stream ends with an error status after the answers -- the same operation *)
  let s = if s.[String.length s - 1] = '~' then String.sub s 0 (String.length s - 1) else s in
  let rest = String.sub s 1 (String.length s - 1) in
  let two () = match String.split_on_char '.' rest with [a; b] -> (int_of_string a, int_of_string b) | _ -> failwith "op" in
  (match s.[0] with
   | 'R' -> let (c, d) = two () in RegConn (nat_of_int c, { dhash = nat_of_int d; dmethods = Stdlib.List.assoc d cat.descs })
   | 'L' -> let (l, d) = two () in RegLocal (nat_of_int l, Stdlib.List.assoc d cat.descs)
   | 'D' -> DropConn (nat rest)
   | _ -> failwith "op"), probe

let result_of = function "ok" -> ROk | "err" -> RErr | "panic" -> RPanic | "true" -> RTrue | "false" -> RFalse | _ -> failwith "result"
let string_of_result = function ROk -> "ok" | RErr -> "err" | RPanic -> "panic" | RTrue -> "true" | RFalse -> "false"
let string_of_owner = function OLocal l -> "l" ^ string_of_int (int_of_nat l) | OConn c -> "c" ^ string_of_int (int_of_nat c)
let string_of_reply = function Served o -> string_of_owner o | Unimplemented -> "U" | NotFound -> "N"
let uniq l = Stdlib.List.sort_uniq compare l
let show l = if l = [] then "{}" else "{" ^ String.concat "," l ^ "}"
let subset a b = Stdlib.List.for_all (fun x -> Stdlib.List.mem x b) a

let parse_probes s : (string * string list) list =
  Stdlib.List.map (fun p -> match String.split_on_char '=' p with
      | [k; v] -> (k, uniq (String.split_on_char '+' v)) | _ -> failwith "probe") (split ',' s)

let first_some l = Stdlib.List.find_map (fun f -> f ()) l

let run inp obs : string option * string option =
  match inp with
  | ["C11"; cats; opss] ->
    let cat = parse_cat cats in
    let ops = Stdlib.List.map (parse_op cat) (String.split_on_char ',' opss) in
    if Stdlib.List.length ops <> Stdlib.List.length obs then (Some "unparsable C11 case: steps and operations differ in number", None) else
    let steps = Stdlib.List.map (fun o -> match String.split_on_char '|' o with
        | [r; p] -> (result_of r, parse_probes p) | _ -> failwith "step") obs in
    let is_conn c (o, _) = owner_eqb o (OConn c) in
    (* ---- specification on the observations ---- *)
    let spec = ref None and t = ref ([] : ltable) and i = ref 0 in
    let fail s = if !spec = None then spec := Some (Printf.sprintf "step %d: %s" !i s) in
    Stdlib.List.iter2 (fun (op, probe) (res, probes) ->
        incr i;
        let opname = Stdlib.List.nth (String.split_on_char ',' opss) (!i - 1) in
        if res = RPanic then fail (opname ^ " panicked");
        (match op with
         | DropConn c ->
           let known = Stdlib.List.exists (is_conn c) !t in
           if known && res <> RTrue then fail (opname ^ ": DropConn of a registered connection returned " ^ string_of_result res);
           if (not known) && res <> RFalse then fail (opname ^ ": DropConn of an unknown connection returned " ^ string_of_result res)
         | RegConn (c, d) ->
           let same = Stdlib.List.exists (fun (o, ds) -> owner_eqb o (OConn c) && ds = d.dmethods) !t in
           let others = Stdlib.List.filter (fun e -> not (is_conn c e)) !t in
           if same && res <> ROk then fail (opname ^ ": re-registration of an unchanged connection returned " ^ string_of_result res)
           else if unobstructed others d.dmethods && res <> ROk then
             fail (opname ^ ": RegisterConn was refused although its rules are valid and meet no rule of a live method")
         | RegLocal (_, ds) ->
           if unobstructed !t ds && res <> ROk then
             fail (opname ^ ": RegisterService was refused although its rules are valid and meet no rule of a live method"));
        t := live_step !t (op, res);
        Stdlib.List.iter (fun (k, seen) ->
            let errs = Stdlib.List.filter (fun s -> s.[0] = 'E') seen in
            if errs <> [] then fail (Printf.sprintf "%s: request failed with %s" k (show errs));
            let judge what livel =
              let l = uniq (Stdlib.List.map string_of_owner livel) in
              let tags = Stdlib.List.filter (fun s -> s <> "U" && s <> "N" && s.[0] <> 'E') seen in
              let stray = Stdlib.List.filter (fun s -> not (Stdlib.List.mem s l)) tags in
              if stray <> [] then fail (Printf.sprintf "%s: %s answered by %s, live backends are %s" k what (show stray) (show l))
              else if l <> [] && (Stdlib.List.mem "U" seen || Stdlib.List.mem "N" seen) then
                fail (Printf.sprintf "%s: %s has live backends %s but was answered %s" k what (show l) (show seen))
              else if l <> [] && Stdlib.List.length l <= 2 && not (subset l tags) then
                fail (Printf.sprintf "%s: live backends %s, only %s ever answered" k (show l) (show tags)) in
            if k.[0] = 'g' then begin
              let m = nat (String.sub k 1 (String.length k - 1)) in
              judge (Printf.sprintf "method %d" (int_of_nat m)) (live_in !t m)
            end else begin
              match String.split_on_char '.' (String.sub k 1 (String.length k - 1)) with
              | [n; v] ->
                let key = { knode = nat n; kverb = nat v; kvalid = true } in
                (* live methods one of whose live descriptors declares a key that this request meets *)
                let ms = uniq (Stdlib.List.concat_map (fun (_, ds) ->
                    Stdlib.List.filter_map (fun d ->
                        if Stdlib.List.exists (fun k' -> k'.kvalid && k'.knode = key.knode && (k'.kverb = key.kverb || k'.kverb = O)) (mkeys d)
                        then Some d.mname else None) ds) !t) in
                (match ms with
                 | [m] -> judge (Printf.sprintf "binding of method %d" (int_of_nat m)) (live_in !t m)
                 | [] -> judge "binding of no live method" []
                 | _ -> ())
              | _ -> failwith "probe key"
            end) probes) ops steps;
    (* ---- model ---- *)
    let mism = ref None and mx = ref mux0 and j = ref 0 in
    let diff s = if !mism = None then mism := Some (Printf.sprintf "step %d: %s" !j s) in
    Stdlib.List.iter2 (fun (op, _) (res, probes) ->
        incr j;
        let (m', r) = step !mx op in
        mx := m';
        if r <> res then diff (Printf.sprintf "model of the registry returns %s, implementation %s" (string_of_result r) (string_of_result res));
        Stdlib.List.iter (fun (k, seen) ->
            let want =
              if k.[0] = 'g' then grpc_replies !mx (nat (String.sub k 1 (String.length k - 1)))
              else match String.split_on_char '.' (String.sub k 1 (String.length k - 1)) with
                | [n; v] -> http_replies !mx (nat n) (nat v) | _ -> failwith "probe key" in
            let want = uniq (Stdlib.List.map string_of_reply want) in
            if not (subset seen want) || (Stdlib.List.length want <= 2 && not (subset want seen)) then
              diff (Printf.sprintf "%s: model predicts answers %s, implementation gave %s" k (show want) (show seen))) probes) ops steps;
    (!spec, !mism)
  | _ -> (Some "unparsable C11 case", None)

let () = Evalreg.register "C11" run
