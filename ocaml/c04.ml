(* C04: unary response fidelity and truthful response headers.
   Specification predicates come from the extracted Spec/AcceptSpec.v (choice_ok = admitted and
   best, or the default), the model from Model/Negotiate.v and Model/Response.v. Messages are
   abstract in the model: here a message is its position on the response_body path and
   marshalling returns a symbolic body of the length the independent protobuf-go encoding has. *)
open Util
module L = Stdlib.List

let q_of_milli (m : int) : QArith_base.coq_Q = { QArith_base.coq_Qnum = z_of_int m; coq_Qden = pos_of_int 1000 }
let hex_opt = function None -> "-" | Some b -> hex_of_bytes b
let rec split_bar acc = function
  | [] -> (L.rev acc, [])
  | "|" :: r -> (L.rev acc, r)
  | x :: r -> split_bar (x :: acc) r

let show_specs specs =
  String.concat "," (L.map (fun (s : Negotiate.spec) ->
      Printf.sprintf "%S q=%d/%d" (bytes_str s.Negotiate.sval) (int_of_z s.Negotiate.sq.QArith_base.coq_Qnum) (int_of_pos s.Negotiate.sq.QArith_base.coq_Qden)) specs)

(* observed specs "hexval:milli,..." *)
let obs_specs s : (BinNums.coq_N list * string) list =
  L.map (fun p -> match String.index_opt p ':' with
      | Some i -> (bytes_of_hex (String.sub p 0 i), String.sub p (i + 1) (String.length p - i - 1))
      | None -> failwith "spec") (split_on ',' s)

let parse hdr = match Negotiate.parse_accept hdr with
  | GoSem.Ok specs -> Ok specs
  | GoSem.Panic _ -> Error "the model of parseAccept panics"
  | GoSem.OutOfFuel -> Error "the model of parseAccept runs out of fuel"
  | GoSem.Err _ -> Error "the model of parseAccept fails"

let codec_of_kind = function
  | "json" -> Response.CJSON | "proto" -> Response.CProto | "body" -> Response.CBody
  | "xa" -> Response.CUser (n_of_int 1) | "xb" -> Response.CUser (n_of_int 2)
  | k -> failwith ("codec kind " ^ k)
let kind_of_codec = function
  | Response.CJSON -> "json" | Response.CProto -> "proto" | Response.CBody -> "body"
  | Response.CUser n -> if int_of_n n = 1 then "xa" else "xb"
let fkind_of = function
  | "m" -> Response.KMessage | "s" -> Response.KScalar | "r" -> Response.KRepeated | _ -> Response.KMissing

let rep n x = L.init (max n 0) (fun _ -> x)

let run inp obs : string option * string option =
  match inp, obs with
  | "C04N" :: accept :: offers :: def :: [], [res; ospecs] ->
    if res = "panic" then (Some "negotiateContentType panicked", None) else
    let accept = hexs_of accept and offers = hexs_of offers and def = bytes_of_hex def and res = bytes_of_hex res in
    let seen = obs_specs ospecs in
    (* specification on the implementation's own parse and choice *)
    if L.exists (fun (_, q) -> q = "nan") seen then (None, Some "q-value outside the generator's domain (more than three fractional digits)") else
    let ispecs = L.map (fun (v, q) -> { Negotiate.sval = v; sq = q_of_milli (int_of_string q) }) seen in
    (* T7, evaluated separately and only on request (VERIF_C04_T7=1): the stricter RFC 7231 reading *)
    if Sys.getenv_opt "VERIF_C04_T7" = Some "1" && AcceptSpec.mem res offers && AcceptSpec.most_specific_q0 ispecs res then
      (Some (Printf.sprintf "T7-strict: %S chosen although its most specific range has q=0 (%s)" (bytes_str res) (show_specs ispecs)), None) else
    if not (AcceptSpec.choice_ok ispecs offers def res) then
      (Some (Printf.sprintf "Accept %s over offers [%s], default %S: chose %S, which is not an admitted best offer (or not the default when nothing is admitted); ranges as parsed: %s"
               (String.concat " | " (L.map (fun b -> Printf.sprintf "%S" (bytes_str b)) accept))
               (String.concat "," (L.map bytes_str offers)) (bytes_str def) (bytes_str res) (show_specs ispecs)), None)
    else begin
      match parse accept with
      | Error e -> (None, Some e)
      | Ok specs ->
        let same = L.length specs = L.length ispecs &&
                   L.for_all2 (fun (a : Negotiate.spec) (b : Negotiate.spec) -> a.Negotiate.sval = b.Negotiate.sval && QArith_base.coq_Qeq_bool a.Negotiate.sq b.Negotiate.sq) specs ispecs in
        if not same then (None, Some (Printf.sprintf "model of parseAccept gives [%s], implementation [%s]" (show_specs specs) (show_specs ispecs)))
        else
          let want = Negotiate.negotiate_content_type specs offers def in
          if want = res then (None, None)
          else (None, Some (Printf.sprintf "model of negotiateContentType chooses %S, implementation %S" (bytes_str want) (bytes_str res)))
    end
  | "C04E" :: accept :: offers :: [], [res] ->
    if res = "panic" then (Some "negotiateContentEncoding panicked", None) else
    let accept = hexs_of accept and offers = hexs_of offers and res = bytes_of_hex res in
    if not (AcceptSpec.mem res offers || res = Negotiate.identity || res = []) then
      (Some (Printf.sprintf "content encoding %S is neither offered nor identity" (bytes_str res)), None)
    else (match parse accept with
        | Error e -> (None, Some e)
        | Ok specs ->
          let want = Negotiate.negotiate_encoding specs offers in
          if want = res then (None, None)
          else (None, Some (Printf.sprintf "model of negotiateContentEncoding chooses %S, implementation %S" (bytes_str want) (bytes_str res))))
  | "C04" :: _variant :: maxsend :: meth :: reqct :: accept :: aenc :: _reqbody :: _reply :: [], _ ->
    let (o, oracle) = split_bar [] obs in
    (match o, oracle with
     | [status; ct; ce; ceok; blen; raw; dec; errcode],
       [codecs; kinds; selname; ishb; hbct; hblen; lenj; lenp; lenx; hasbody; reqname; comps] ->
       let maxsend = let m = int_of_string maxsend in if m = 0 then 2147483647 else m in
       let codecs = L.map (fun p -> match String.index_opt p ':' with
           | Some i -> (bytes_of_hex (String.sub p 0 i), codec_of_kind (String.sub p (i + 1) (String.length p - i - 1)))
           | None -> failwith "codecs") (split_on ',' codecs) in
       let kinds = split_on ',' kinds in
       let all_m = L.for_all (fun k -> k = "m") kinds in
       let ishb = ishb = "1" and hasbody = hasbody = "1" in
       let lenj = int_of_string lenj and lenp = int_of_string lenp and lenx = int_of_string lenx in
       let hblen = if ishb then int_of_string hblen else 0 in
       let reqct_o = if reqct = "-" then None else Some (bytes_of_hex reqct) in
       let accept = hexs_of accept and aenc = hexs_of aenc in
       let def = match reqct_o with Some (_ :: _ as c) -> c | _ -> Response.json_type in
       let offers = L.filter (fun k -> k <> Response.http_body_name) (L.map fst codecs) in
       let codec_for t = if t = Response.http_body_name then None else L.assoc_opt t codecs in
       let len_of c = match c with Response.CJSON -> lenj | Response.CProto -> lenp | Response.CUser _ -> lenx | Response.CBody -> -1 in
       (* ---------- specification, on the implementation's observation ---------- *)
       let spec =
         if status = "panic" then Some "the server panicked while answering a unary call"
         else if status = "regpanic" then Some "registration of the rule panicked"
         else if status = "rej" then (if all_m then Some (Printf.sprintf "method %s: a response_body naming a message field of the response type was rejected at registration" meth) else None)
         else match parse accept with
           | Error e -> Some e
           | Ok specs ->
             let acceptable = if L.exists (AcceptSpec.admitsb specs) offers then L.filter (fun o -> AcceptSpec.choice_ok specs offers def o) offers else [def] in
             if status = "200" then begin
               if ceok <> "1" then Some (Printf.sprintf "Content-Encoding %s does not describe the bytes sent" ce)
               else if int_of_string blen > maxsend then Some (Printf.sprintf "a reply of %s bytes was sent although the send limit is %d" blen maxsend)
               else if ishb then begin
                 if raw <> "1" then Some "an HttpBody reply was not delivered as its raw data bytes"
                 else if ct <> hbct then Some (Printf.sprintf "an HttpBody reply with content type %s was delivered under Content-Type %s" hbct ct)
                 else None
               end else begin
                 if ct = "-" then Some "a reply was sent without a Content-Type"
                 else
                   let ctb = bytes_of_hex ct in
                   if not (String.length dec > 2 && String.sub dec (String.length dec - 2) 2 = ":1") then
                     Some (Printf.sprintf "the body does not decode, with the codec named by Content-Type %S, to the %s of the reply (%s)"
                             (bytes_str ctb) (if kinds = [] then "whole message" else "selected response_body field") dec)
                   else if not (AcceptSpec.choice_ok specs offers def ctb) then
                     Some (Printf.sprintf "Content-Type %S is not what Accept [%s] admits over the registered codecs (default %S)"
                             (bytes_str ctb) (String.concat " | " (L.map bytes_str accept)) (bytes_str def))
                   else None
               end
             end else begin
               if errcode = "?" then Some (Printf.sprintf "the error body (status %s) does not decode as a Status with the codec named by Content-Type %s" status ct)
               else
                 let req_excuse = hasbody && codec_for def = None in
                 let excused =
                   req_excuse ||
                   (if ishb then hblen > maxsend
                    else lenj < 0 || lenp < 0 ||
                         L.for_all (fun t -> codec_for t = None) acceptable ||
                         L.exists (fun t -> match codec_for t with Some c -> len_of c > maxsend | None -> false) acceptable) in
                 if excused then None
                 else Some (Printf.sprintf "the handler's reply was not delivered: status %s code %s although a codec is available and the send limit %d is not exceeded" status errcode maxsend)
             end in
       (match spec with Some e -> (Some e, None) | None ->
       (* ---------- model ---------- *)
       if status = "rej" then (None, if Response.resp_path_ok (L.map fkind_of kinds) then Some "model of addRule accepts this response_body" else None) else
       let npath = L.length kinds in
       let selname = if selname = "-" then [] else bytes_of_hex selname in
       let used = ref "" in
       let get_msg fd m = if fd = "m" then Some (m + 1) else None in
       let full_name m = if m < 0 then bytes_of_hex reqname else if m = npath then selname else str_bytes "(intermediate)" in
       let body_ct _ = if hbct = "-" then [] else bytes_of_hex hbct in
       let body_data _ = used := "raw"; rep hblen (n_of_int 3) in
       let marshal c _ =
         match c with
         | Response.CBody -> GoSem.Panic GoSem.PExplicit
         | _ -> used := kind_of_codec c;
           let n = len_of c in if n < 0 then GoSem.Err GoSem.EOther else GoSem.Ok (rep n (n_of_int 1)) in
       let marshal_status c _ = match c with Response.CBody -> GoSem.Panic GoSem.PExplicit | _ -> used := kind_of_codec c; GoSem.Ok [n_of_int 1] in
       let compress _ b = n_of_int 9 :: b in
       let cfg = { Response.codecs = codecs; compressors = hexs_of comps; max_send = n_of_int maxsend } in
       let r = Response.serve_unary get_msg full_name body_ct body_data marshal marshal_status compress cfg reqct_o accept aenc hasbody (-1) kinds 0 in
       let mism fmt = Printf.ksprintf (fun s -> (None, Some ("model of the response path: " ^ s))) fmt in
       (match r with
        | GoSem.Panic _ -> if status = "panic" then (None, None) else mism "predicts a panic, implementation answered %s" status
        | GoSem.OutOfFuel | GoSem.Err _ -> mism "did not produce a response"
        | GoSem.Ok r ->
          let mstatus = string_of_int (int_of_n r.Response.r_status) in
          if mstatus <> status then mism "predicts status %s, implementation %s (code %s)" mstatus status errcode
          else if hex_opt r.Response.r_ct <> ct then mism "predicts Content-Type %s, implementation %s" (hex_opt r.Response.r_ct) ct
          else if hex_opt r.Response.r_ce <> ce then mism "predicts Content-Encoding %s, implementation %s" (hex_opt r.Response.r_ce) ce
          else if status = "200" then begin
            let n = L.length r.Response.r_wire in
            if !used = "raw" then (if raw = "1" && n = int_of_string blen then (None, None) else mism "predicts the raw HttpBody data (%d bytes), implementation sent %s bytes (raw=%s)" n blen raw)
            else if dec <> !used ^ ":1" then mism "predicts a body marshalled by the %s codec, independent decoding says %s" !used dec
            else if !used <> "json" && n <> int_of_string blen then mism "predicts %d body bytes, implementation %s" n blen
            else (None, None)
          end else begin
            if string_of_int (int_of_n r.Response.r_code) <> errcode then mism "predicts error code %d, implementation %s" (int_of_n r.Response.r_code) errcode
            else (None, None)
          end))
     | _ -> (Some "unparsable C04 observation", None))
  | "C04R" :: _sel :: _body :: _reply :: [], _ ->
    let (o, oracle) = split_bar [] obs in
    let kinds = match oracle with [k] -> split_on ',' k | _ -> failwith "C04R oracle" in
    let valid = L.for_all (fun k -> k = "m") kinds in
    let model_acc = kinds = [] || Response.resp_path_ok (L.map fkind_of kinds) in
    (match o with
     | ["regpanic"] -> (Some "registration of a response_body rule panicked", None)
     | ["rej"] -> if valid then (Some "a response_body naming a message field of the response type was rejected at registration", None)
       else (None, if model_acc then Some "model of addRule accepts, implementation rejects" else None)
     | ["acc"; status; dec] ->
       if status = "panic" then (Some "a registered response_body rule panics when a reply is sent", None)
       else if valid && not (status = "200" && String.length dec > 2 && String.sub dec (String.length dec - 2) 2 = ":1") then
         (Some (Printf.sprintf "response_body: the body is not the selected field of the reply (status %s, %s)" status dec), None)
       else (None, if model_acc then None else Some "model of addRule rejects, implementation accepts")
     | _ -> (Some "unparsable C04R observation", None))
  | _ -> (Some "unparsable C04 case", None)

let () = Evalreg.register "C04" run
