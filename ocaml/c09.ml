(* C09: robustness of Mux.ServeHTTP.
   SPECFAIL: the implementation panicked, hung, or answered with something that is not a
   well-formed response of the protocol the request arrived on.
   MISMATCH: the extracted models (Model/Serve.v entry dispatch and pre-handler checks,
   Model/Lexer.v lexPath, Model/Negotiate.v for the error body's media type, Model/Timeout.v
   through Serve.grpc_pre) predict something else than the implementation did. *)
open Util
module L = Stdlib.List

let lower s = String.lowercase_ascii s
(* hexkey=hexval|hexval;...  -> (key, values) in order *)
let dec_hdrs s : (string * string list) list =
  if s = "-" || s = "" then [] else
  L.map (fun p ->
      match String.index_opt p '=' with
      | Some i ->
        let k = String.sub p 0 i and vs = String.sub p (i + 1) (String.length p - i - 1) in
        (bytes_str (bytes_of_hex ("x" ^ k)), L.map (fun v -> bytes_str (bytes_of_hex ("x" ^ v))) (String.split_on_char '|' vs))
      | None -> (bytes_str (bytes_of_hex ("x" ^ p)), [])) (String.split_on_char ';' s)
let values h k = L.concat (L.filter_map (fun (k', vs) -> if lower k' = lower k then Some vs else None) h)
let first h k = match values h k with v :: _ -> v | [] -> ""

let is_ascii s = let ok = ref true in String.iter (fun c -> if Char.code c >= 128 then ok := false) s; !ok
let ascii_letter r = let r = int_of_n r in (r >= 65 && r <= 90) || (r >= 97 && r <= 122)
let ascii_number r = let r = int_of_n r in r >= 48 && r <= 57

let is_number s = s <> "" && (let ok = ref true in String.iter (fun c -> if c < '0' || c > '9' then ok := false) s; !ok)

let entry_name = function Serve.EWeb -> "gRPC-web" | Serve.EGrpc -> "gRPC" | Serve.EWs -> "WebSocket" | Serve.EHttp -> "HTTP"

let run inp obs : string option * string option =
  match inp, obs with
  | "C09" :: _, ["bad-case"] -> (Some "unparsable C09 case", None)
  | "C09" :: _ :: _, "panic" :: where -> (Some ("the server panicked: " ^ String.concat " " where), None)
  | "C09" :: _ :: _, "hang" :: where -> (Some ("the request did not return within the watchdog: " ^ String.concat " " where), None)
  | ["C09"; _cfg; via; major; meth; path; _query; hdrs; _body; _cl; _rd], ["ok"; status; gs; ct; reached; frames; known] ->
    let h = dec_hdrs hdrs in
    let meth = bytes_str (bytes_of_hex meth) and path = bytes_str (bytes_of_hex path) in
    let status = int_of_string status and ct = bytes_str (bytes_of_hex ct) in
    let rq = { Serve.q_major = n_of_int (int_of_string major); q_method = str_bytes meth;
               q_ctype = str_bytes (first h "Content-Type"); q_upgrade = L.map str_bytes (values h "Upgrade");
               q_encoding = str_bytes (first h "Grpc-Encoding"); q_timeout = str_bytes (first h "Grpc-Timeout");
               q_known = (known = "1") } in
    let entry = Serve.dispatch rq in
    (* ---- specification ---- *)
    let spec =
      if status < 100 || status > 599 then Some (Printf.sprintf "no well-formed HTTP response (status %d)" status)
      else if via = "rec" && (entry = Serve.EGrpc || entry = Serve.EWeb) && status = 200 && not (is_number gs) then
        Some (Printf.sprintf "%s request answered 200 without a grpc-status (%s)" (entry_name entry) gs)
      else if via = "rec" && entry = Serve.EWeb && status = 200 && frames = "bad" then
        Some "gRPC-web response body is not a sequence of frames ending in one trailer frame"
      else None in
    if spec <> None then (spec, None) else
    if via <> "rec" then (None, None) else
    (* ---- models ---- *)
    let mm =
      match Serve.serve_pre Serve.default_cfg rq with
      | Serve.Refuse s ->
        let s = int_of_n s in
        if status <> s || reached <> "-" then
          Some (Printf.sprintf "model of the %s entry refuses with %d before any handler; implementation: status %d, handler %s" (entry_name entry) s status reached)
        else None
      | Serve.ReachGrpc _ ->
        if status <> 200 || not (reached = "-" || reached = "grpc") then
          Some (Printf.sprintf "model of the %s entry hands the request to the method's handler on a gRPC stream; implementation: status %d, handler %s" (entry_name entry) status reached)
        else None
      | Serve.Transcode ws ->
        if not (reached = "-" || reached = "http") then
          Some (Printf.sprintf "model: transcoding path; the handler ran on a %s stream" reached)
        else
        let lex =
          if is_ascii path then
            (match Lexer.lex_path ascii_letter ascii_number (Match.normalise (str_bytes path)) with
             | GoSem.Ok _ -> None
             | GoSem.Err _ -> if status <> 404 || reached <> "-" then Some (Printf.sprintf "model of lexPath refuses the path (NotFound); implementation: status %d, handler %s" status reached) else None
             | GoSem.Panic _ -> Some "the model of lexPath panics"
             | GoSem.OutOfFuel -> Some "the model of lexPath runs out of fuel")
          else None in
        if lex <> None then lex else
        (* the media type of an error body written by encError before any handler ran *)
        (* expectQuality accumulates the fraction of a q-value in Go ints: beyond 18 digits it wraps, and
           the model's exact rationals no longer describe it (RFC 7231 allows three digits; C04's domain) *)
        let long_digits v =
          let run = ref 0 and mx = ref 0 in
          String.iter (fun c -> if c >= '0' && c <= '9' then (incr run; if !run > !mx then mx := !run) else run := 0) v; !mx > 15 in
        if (not ws) && reached = "-" && status >= 400 && first h "Twirp-Version" = ""
           && not (L.exists long_digits (values h "Accept")) then
          (match Negotiate.parse_accept (L.map str_bytes (values h "Accept")) with
           | GoSem.Ok specs ->
             let want = bytes_str (Negotiate.negotiate_content_type specs (Response.content_type_offers Response.default_config) Response.json_type) in
             if want <> ct then Some (Printf.sprintf "model of encError answers with Content-Type %S, implementation %S" want ct) else None
           | _ -> Some "the model of parseAccept does not return")
        else None in
    (None, mm)
  | _ -> (Some "unparsable C09 case", None)
let () = Evalreg.register "C09" run
