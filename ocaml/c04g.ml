(* C04G: replies of a generated message type from a handler that keeps and refreshes one reply object:
   every call must answer 200 with a body that decodes to the reply as it was when the handler returned *)
let run _inp obs : string option * string option =
  match obs with
  | [res] ->
    let bad = Stdlib.List.filter (fun s -> s <> "200:1") (String.split_on_char ',' res) in
    (match bad with
     | [] -> (None, None)
     | b :: _ -> (Some (Printf.sprintf "a reply kept and refreshed in place by its handler did not reach the client as returned (status:decoded-equal = %s)" b), None))
  | _ -> (Some "unparsable C04G observation", None)
let () = Evalreg.register "C04G" run
