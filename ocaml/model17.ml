(* exact comparison of the extracted model of codec.go with what the implementation did;
   the schedule handed to the model is the trace of read sizes the scripted reader recorded *)
open Util

let codec_of = function "p" -> Frames.CProto | "j" -> Frames.CJSON | "b" -> Frames.CBody | s -> failwith s

let call inp obs : string option =
  match inp, obs with
  | ["C17"; c; limit; carry; data; _sched; e], [dst; n; ecls; unread; trace] ->
    let s = { Reader.rem = bytes_of_hex data; sched = nats_of trace; eofWithData = (e = "1") } in
    let got = Printf.sprintf "%s %s %s %s" dst n ecls unread in
    let want =
      match Codec.read_next (codec_of c) (bytes_of_hex carry) s (nat_of_int (int_of_string limit)) with
      | Codec.RRet (d, k, e, s') ->
        Printf.sprintf "%s %d %s %s" (hex_of_bytes d) (int_of_nat k)
          (match e with None -> "nil" | Some e -> string_of_err e) (hex_of_bytes s'.Reader.rem)
      | Codec.RPanic -> "x 0 panic"
      | Codec.RFuel -> "model-out-of-fuel" in
    if want = got then None else Some (Printf.sprintf "model predicts [%s], implementation gave [%s]" want got)
  | _ -> Some "unparsable"

let string_of_rend = function
  | Codec.EndClean -> "clean" | Codec.EndErr e -> string_of_err e | Codec.EndLost -> "lost"
  | Codec.EndPanic -> "panic" | Codec.EndFuel -> "fuel"

(* for sequences the harness does not record per-call traces, so the model runs on the
   requested schedule; the result must agree because the outcome is schedule independent *)
let seq inp obs : string option =
  match inp, obs with
  | "C17S" :: c :: limit :: data :: sched :: e :: _, [msgs; fin] ->
    let l = bytes_of_hex data in
    let s = { Reader.rem = l; sched = nats_of sched; eofWithData = (e = "1") } in
    let (ms, fe) = Codec.recv_all (nat_of_int (Stdlib.List.length l + 3)) (codec_of c) (nat_of_int (int_of_string limit)) [] s in
    let want = string_of_hexs ms ^ " " ^ string_of_rend fe and got = msgs ^ " " ^ fin in
    if want = got then None else Some (Printf.sprintf "model predicts [%s], implementation gave [%s]" want got)
  | _ -> Some "unparsable"
