#!/bin/sh
# build modelrun from the extracted modules (in $1) and the hand-written driver
set -e
HERE=$(cd "$(dirname "$0")" && pwd)
EX="$1"; OUT="$2"
EX=$(cd "$EX" && pwd); cd "$EX"
cp "$HERE"/*.ml .
# modelrun.ml (the main loop) must be linked last: the per-property modules register themselves
FILES=$(ocamlfind ocamldep -sort $(ls *.mli *.ml | grep -v '^modelrun.ml$'))
ocamlfind ocamlopt -O2 -w -a -package str -linkpkg $FILES modelrun.ml -o "$OUT" 2>/dev/null || \
ocamlfind ocamlopt -w -a -package str -linkpkg $FILES modelrun.ml -o "$OUT"
