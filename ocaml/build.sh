#!/bin/sh
# build modelrun from the extracted modules (in $1) and the hand-written driver
set -e
EX="$1"; OUT="$2"
EX=$(cd "$EX" && pwd); cd "$EX"
cp /verif/ocaml/*.ml .
FILES=$(ocamlfind ocamldep -sort *.mli *.ml)
ocamlfind ocamlopt -O2 -w -a -package str -linkpkg $FILES -o "$OUT" 2>/dev/null || \
ocamlfind ocamlopt -w -a -package str -linkpkg $FILES -o "$OUT"
