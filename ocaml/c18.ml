(* C18: interceptor calls and stats events of one RPC.
   input : C18 proto shape routed rulebody reqs hk acts reply code imode icpt stats
   obs   : valid panic calls ev hlog dlv iret hs gs body bpanic bhlog bdlv bhs bgs bbody
   The specification predicates (EventsSpec.trace_ok, calls_ok) are evaluated on what the recording
   interceptors / stats handler / client saw; the model (Events.serve) must predict the same record. *)
open Util
module L = Stdlib.List
module S = Stdlib.String

let nat = nat_of_int
let blen (b : BinNums.coq_N list) = L.length b
let split_list s = if s = "-" || s = "" then [] else S.split_on_char ',' s
let hexs s = L.map bytes_of_hex (split_list s)

let parse_act a : Events.action =
  match a.[0] with
  | 'r' -> Events.ARecv
  | 's' -> Events.ASend (bytes_of_hex (S.sub a 1 (S.length a - 1)))
  | 'h' -> Events.AHeader
  | 'c' -> Events.ACancel
  | _ -> failwith ("bad action " ^ a)

let parse_imode s : Events.imode =
  let n () = nat (int_of_string (S.sub s 1 (S.length s - 1))) in
  match s.[0] with
  | 'p' -> Events.IPass | 'j' -> Events.IReject (n ()) | 'o' -> Events.IOverride (n ())
  | 'r' -> Events.IReplace (bytes_of_hex (S.sub s 1 (S.length s - 1)))
  | 'k' -> Events.IAnswer (bytes_of_hex (S.sub s 1 (S.length s - 1)))
  | _ -> failwith "bad imode"

(* ---- printing the model's record in the harness' notation ---- *)
let show_ev (e : EventsSpec.ev) = match e with
  | EventsSpec.ETag m -> "T:" ^ hex_of_bytes m
  | EventsSpec.EInHeader m -> "H:" ^ hex_of_bytes m
  | EventsSpec.EBegin (c, s) -> Printf.sprintf "B:%d%d" (if c then 1 else 0) (if s then 1 else 0)
  | EventsSpec.EInPayload (n, w) -> Printf.sprintf "I:%d:%d" (int_of_nat n) (int_of_nat w)
  | EventsSpec.EOutHeader -> "OH"
  | EventsSpec.EOutPayload (n, w) -> Printf.sprintf "O:%d:%d" (int_of_nat n) (int_of_nat w)
  | EventsSpec.EOutTrailer -> "OT"
  | EventsSpec.EEnd c -> Printf.sprintf "E:%d" (int_of_nat c)
let show_call (c : EventsSpec.icall) = match c with
  | EventsSpec.IUnary m -> "u:" ^ hex_of_bytes m
  | EventsSpec.IStream (m, c, s) -> Printf.sprintf "s:%s:%d%d" (hex_of_bytes m) (if c then 1 else 0) (if s then 1 else 0)
let show_res (r : Events.opres) = match r with
  | Events.ROk -> "k" | Events.REof -> "f" | Events.RErr c -> Printf.sprintf "e%d" (int_of_nat c)
let join f l = if l = [] then "-" else S.concat "," (L.map f l)

(* ---- parsing the recorded events back into the specification's vocabulary ---- *)
let parse_ev s : EventsSpec.ev =
  let f = S.split_on_char ':' s in
  let b c = c = '1' in
  match f with
  | ["T"; m] -> EventsSpec.ETag (bytes_of_hex m)
  | ["H"; m] -> EventsSpec.EInHeader (bytes_of_hex m)
  | ["B"; x] when S.length x = 2 -> EventsSpec.EBegin (b x.[0], b x.[1])
  | ["I"; n; w] -> EventsSpec.EInPayload (nat (int_of_string n), nat (int_of_string w))
  | ["OH"] -> EventsSpec.EOutHeader
  | ["O"; n; w] -> EventsSpec.EOutPayload (nat (int_of_string n), nat (int_of_string w))
  | ["OT"] -> EventsSpec.EOutTrailer
  | ["E"; c] -> EventsSpec.EEnd (nat (int_of_string c))
  | _ -> failwith ("event " ^ s)
let parse_call s : EventsSpec.icall =
  match S.split_on_char ':' s with
  | ["u"; m] -> EventsSpec.IUnary (bytes_of_hex m)
  | ["s"; m; x] when S.length x = 2 -> EventsSpec.IStream (bytes_of_hex m, x.[0] = '1', x.[1] = '1')
  | _ -> failwith ("call " ^ s)

(* ---- the client's side of each protocol ---- *)
let varint n = (* protowire.AppendVarint for n < 2^28 *)
  let rec go n = if n < 128 then [n] else (n land 127 lor 128) :: go (n lsr 7) in
  L.map n_of_int (go n)
let rec is_prefix a b = match a, b with [], _ -> true | x :: a', y :: b' -> x = y && is_prefix a' b' | _ -> false
let rec drop n l = if n <= 0 then l else match l with [] -> [] | _ :: r -> drop (n - 1) r
let rec take n l = if n <= 0 then [] else match l with [] -> [] | x :: r -> x :: take (n - 1) r

(* gRPC / gRPC-web body: data frames; a frame with the MSB of the flag set is the gRPC-web trailer frame *)
let grpc_frames (body : BinNums.coq_N list) : BinNums.coq_N list list option =
  let rec go b acc =
    match b with
    | [] -> Some (L.rev acc)
    | fl :: a :: bb :: c :: d :: rest ->
      let n = (int_of_n a lsl 24) lor (int_of_n bb lsl 16) lor (int_of_n c lsl 8) lor int_of_n d in
      if L.length rest < n then None
      else if int_of_n fl land 128 <> 0 then go (drop n rest) acc
      else go (drop n rest) (take n rest :: acc)
    | _ -> None in
  go body []

(* google.rpc.Status in binary: field 1 (code) first; an empty tail is "no error" *)
let status_code_of_tail tail =
  match tail with
  | [] -> Some 0
  | t :: c :: _ when int_of_n t = 8 && int_of_n c < 128 -> Some (int_of_n c)
  | _ -> None

let eval (proxied : bool) (svc : string) inp obs : string option * string option =
  match inp, obs with
  | [_; proto; shape; routed; rulebody; reqs; hk; acts; reply; code; imode; icpt; stats],
    [valid; panic; calls; ev; hlog; dlv; iret; hs; gs; body; bpanic; bhlog; bdlv; bhs; bgs; bbody] ->
    let cs = shape = "c" || shape = "b" and ss = shape = "s" || shape = "b" in
    let routed = routed = "1" and icpt = icpt = "1" and stats = stats = "1" and unary = hk = "U" in
    let name = str_bytes ("/verif." ^ svc ^ ".Svc/M" ^ shape) in
    let reqs = hexs reqs in
    let valid = L.map (fun v -> v = "1") (split_list valid) in
    if L.length valid <> L.length reqs then (Some "oracle list does not match the request list", None) else
    let acts_s = split_list acts in
    let acts = L.map parse_act acts_s in
    let code = int_of_string code and reply = bytes_of_hex reply in
    let md = parse_imode imode in
    let icode = match md with Events.IReject c | Events.IOverride c -> Some (int_of_nat c) | _ -> None in
    (* a unary interceptor that answers with a message of its own (r: after the handler succeeded, k: instead of calling it) *)
    let own = if unary && icpt then (match md with Events.IReplace m | Events.IAnswer m -> Some m | _ -> None) else None in
    let sc : Events.scenario = {
      Events.s_proto = (match proto with "http" -> Events.PHttp | "grpc" -> Events.PGrpc | "web" -> Events.PWeb | _ -> failwith "proto");
      s_cs = cs; s_ss = ss; s_name = name; s_routed = routed; s_rule_body = (rulebody = "1");
      s_reqs = L.combine reqs valid;
      s_hs = (if unary then Events.HUnary (acts, reply, nat code) else Events.HStream (acts, nat code));
      s_imode = md; s_icpt = icpt; s_stats = stats } in
    let panicked = panic = "1" in
    let model = Events.serve false sc in
    (* an interceptor that returns (nil, nil) for a unary method is outside the property's hypothesis;
       only the model's Panic is compared there *)
    let misuse = unary && icpt && icode = Some 0 in
    let hlog_l = split_list hlog in
    let has_cancel = L.mem "c" acts_s in
    (* ---------- specification on the implementation's record ---------- *)
    let spec : string option =
      if misuse then None
      else if panicked then Some "the server panicked"
      else if bpanic = "1" then Some "the server panicked without interceptors and stats handler"
      else
      try
        let evs = L.map (fun s ->
            if S.contains s '!' then failwith ("server-side stats event reports IsClient() = true: " ^ s)
            else if S.contains s '?' then failwith ("stats event delivered with a context that did not come from TagRPC: " ^ s)
            else parse_ev s) (split_list ev) in
        let calls_l = L.map parse_call (split_list calls) in
        if not routed then
          (if evs <> [] then Some "stats events for a request that matched no handler"
           else if calls_l <> [] then Some "interceptor called for a request that matched no handler" else None)
        else begin
          let body_b = bytes_of_hex body in
          (* messages the handler sent successfully (streams), from its own log *)
          let sent_h =
            if proxied then
              (* the backend handler sends every scripted reply unless the interceptor kept the call from it *)
              (match md with Events.IReject _ -> [] | Events.IAnswer _ when unary && icpt -> [] | _ -> L.filter_map (fun a -> match a with Events.ASend p -> Some p | _ -> None) acts)
            else
            let rec go acts logs = match acts, logs with
              | a :: ar, l :: lr -> (match a with Events.ASend p when l = "k" -> p :: go ar lr | _ -> go ar lr)
              | _, _ -> [] in
            go (if unary then L.filter Events.unary_act acts else acts) (if unary then (match hlog_l with _ :: r -> r | [] -> []) else hlog_l) in
          (* client view: replies and status code *)
          let client : (BinNums.coq_N list list * int option, string) result =
            match proto with
            | "http" ->
              if unary then
                (if hs = "200" then Ok ([body_b], Some 0)
                 else (match status_code_of_tail body_b with Some c when c <> 0 -> Ok ([], Some c) | _ -> Error "HTTP error body is not a google.rpc.Status"))
              else begin
                let framed = L.concat (L.map (fun p -> if ss then varint (blen p) @ p else p) sent_h) in
                if not (is_prefix framed body_b) then Error "the HTTP response body does not start with the messages the handler sent"
                else match status_code_of_tail (drop (L.length framed) body_b) with
                  | Some c -> Ok (sent_h, Some c)
                  | None -> Error "bytes after the handler's messages are not a google.rpc.Status"
              end
            | _ ->
              (match grpc_frames body_b with
               | None -> Error "response body is not a sequence of gRPC frames"
               | Some fr -> Ok (fr, (if gs = "-" then None else Some (int_of_string gs)))) in
          match client with
          | Error e -> Some e
          | Ok (replies, cstatus) ->
            let dlv_b = hexs dlv in
            let decode_ok = proxied || (not unary) || (match hlog_l with "k" :: _ -> true | _ -> false) in
            let chk_calls =
              if not icpt then (if calls_l <> [] then Some "interceptor recorded although none is installed" else None)
              else if decode_ok then
                (if EventsSpec.calls_ok unary name cs ss calls_l then None
                 else Some (Printf.sprintf "interceptor calls [%s]: expected exactly one call %s" calls (show_call (EventsSpec.expected_call unary name cs ss))))
              else (if calls_l <> [] then Some "interceptor called although the unary request could not be decoded" else None) in
            let chk_status = match cstatus with None -> Some "no grpc-status reached the client" | Some _ -> None in
            let chk_sent = if (not unary) && replies <> sent_h then Some "the client did not receive exactly the messages the handler sent" else None in
            let chk_trace =
              if not stats then (if evs <> [] then Some "stats events recorded although no handler is installed" else None)
              else match cstatus with
                | None -> None
                | Some c ->
                  if EventsSpec.trace_ok name cs ss (L.map (fun b -> nat (blen b)) dlv_b) (L.map (fun b -> nat (blen b)) replies) (nat c) evs then None
                  else Some (Printf.sprintf "stats trace [%s] is not Tag.InHeader.Begin.(payloads).OutTrailer?.End with one InPayload per received message (sizes %s), one OutPayload per sent message (sizes %s) and End carrying code %d"
                               ev (S.concat "," (L.map (fun b -> string_of_int (blen b)) dlv_b)) (S.concat "," (L.map (fun b -> string_of_int (blen b)) replies)) c) in
            let chk_iret =
              if icpt && iret <> "-" && not has_cancel then
                (match cstatus with
                 | Some c when string_of_int c <> iret -> Some (Printf.sprintf "the interceptor returned code %s, the client got %d" iret c)
                 | _ ->
                   let want = match own with Some m -> m | None -> reply in
                   if unary && iret = "0" && replies <> [want] && icode = None then
                     Some (if own = None then "the client did not get the reply the interceptor returned"
                           else "the interceptor returned a message of its own, the client got another reply")
                   else None)
              else None in
            let chk_transparent =
              if (icode = None && own = None) || not icpt then
                (if (hs, gs, body) <> (bhs, bgs, bbody) then Some (Printf.sprintf "installing the options changed the client-visible result: %s/%s/%s vs %s/%s/%s" hs gs body bhs bgs bbody)
                 else if (not proxied) && (hlog <> bhlog || dlv <> bdlv) then Some "installing the options changed what the handler saw" else None)
              else None in
            L.fold_left (fun acc x -> match acc with Some _ -> acc | None -> x) None
              [chk_calls; chk_trace; chk_status; chk_sent; chk_iret; chk_transparent]
        end
      with Failure m -> Some m in
    (* ---------- model = implementation ---------- *)
    let mism : string option =
      match model with
      | GoSem.Panic _ -> if panicked then None else Some "model predicts a panic, the server did not panic"
      | GoSem.Ok r ->
        if panicked then Some "the server panicked, the model does not" else begin
          let m_calls = join show_call r.Events.r_calls and m_ev = join show_ev r.Events.r_events
          and m_hlog = join show_res r.Events.r_hlog and m_dlv = string_of_hexs r.Events.r_dlv
          and m_iret = (match r.Events.r_iret with Some c when icpt -> string_of_int (int_of_nat c) | _ -> "-") in
          let body_b = bytes_of_hex body in
          let m_body_ok, m_status_ok =
            match proto with
            | "http" ->
              let ml = r.Events.r_replies in
              let framed = L.concat (L.map (fun p -> if ss then varint (blen p) @ p else p) ml) in
              let st = (match r.Events.r_status with Some c -> int_of_nat c | None -> -1) in
              (is_prefix framed body_b,
               (match status_code_of_tail (drop (L.length framed) body_b) with Some c -> c = st | None -> false))
            | _ ->
              ((match grpc_frames body_b with Some fr -> fr = r.Events.r_replies | None -> r.Events.r_replies = [] && not routed),
               (match r.Events.r_status with Some c -> gs = string_of_int (int_of_nat c) | None -> gs = "-")) in
          let diff what a b = if a = b then None else Some (Printf.sprintf "%s: model %s, implementation %s" what a b) in
          L.fold_left (fun acc x -> match acc with Some _ -> acc | None -> x) None
            [diff "interceptor calls" m_calls calls; diff "stats events" m_ev ev;
             (if proxied then None else diff "handler log" m_hlog hlog);
             (if proxied then None else diff "delivered messages" m_dlv dlv); diff "interceptor result" m_iret iret;
             (if m_body_ok then None else Some (Printf.sprintf "response messages: model [%s], body %s" (string_of_hexs r.Events.r_replies) body));
             (if m_status_ok then None else Some (Printf.sprintf "status: model %s, implementation hs=%s gs=%s" (match r.Events.r_status with Some c -> string_of_int (int_of_nat c) | None -> "none") hs gs))]
        end
      | _ -> Some "model returned Err / OutOfFuel" in
    (spec, mism)
  | _ -> (Some "unparsable C18 case", None)

(* C18P proto shape req replies code imode icpt stats ; panic calls ev iret hs gs body bpanic bhs bgs bbody
   -- proxied handlers (RegisterConn): the backend receives the request and sends the scripted replies *)
let run inp obs : string option * string option =
  match inp, obs with
  | "C18" :: _, _ -> eval false "c18" inp obs
  | ["C18P"; proto; shape; req; replies; code; imode; icpt; stats],
    [panic; calls; ev; iret; hs; gs; body; bpanic; bhs; bgs; bbody] ->
    let unary = shape = "u" in
    let reps = split_list replies in
    let acts = if unary then "-" else S.concat "," ("r" :: L.map (fun p -> "s" ^ p) reps) in
    let reply = if unary then (match reps with p :: _ -> p | [] -> "x") else "x" in
    (* the front Mux receives the one request message, unless a stream interceptor rejects the call first *)
    let rejected = S.length imode > 0 && imode.[0] = 'j' && icpt = "1" in
    let dlv = if unary || not rejected then req else "-" in
    eval true "c18p" ["C18"; proto; shape; "1"; "1"; req; (if unary then "U" else "S"); acts; reply; code; imode; icpt; stats]
      ["1"; panic; calls; ev; "*"; dlv; iret; hs; gs; body; bpanic; "*"; dlv; bhs; bgs; bbody]
  | _ -> (Some "unparsable C18 case", None)

(* C18B kind sizes ; ev hs bodylen -- HTTP replies that are google.api.HttpBody messages (sent as their data bytes):
   the same trace predicate, one out-payload event per reply carrying the length of what was sent *)
let run_b inp obs : string option * string option =
  match inp, obs with
  | ["C18B"; _; _], ["panic"; _; _] -> (Some "the server panicked", None)
  | ["C18B"; kind; sizes], [ev; hs; blen_] ->
    let sizes = L.map int_of_string (S.split_on_char ',' sizes) in
    let ss = kind = "down" in
    let name = str_bytes ("/verif.c18b.Svc/M" ^ kind) in
    (try
       let evs = L.map (fun s ->
           if S.contains s '!' || S.contains s '?' then failwith ("stats event with a wrong context or IsClient(): " ^ s) else parse_ev s) (split_list ev) in
       if hs <> "200" then (Some (Printf.sprintf "an HttpBody reply was answered with status %s" hs), None)
       else if (not ss) && int_of_string blen_ <> L.hd sizes then (Some "the HttpBody reply was not delivered as its data bytes", None)
       else if EventsSpec.trace_ok name false ss [nat 0] (L.map nat sizes) (nat 0) evs then (None, None)
       else (Some (Printf.sprintf "stats trace [%s] of an HTTP call answered with HttpBody data of sizes %s is not Tag.InHeader.Begin.InPayload.OutHeader.(one OutPayload per reply with that length).End"
                     ev (S.concat "," (L.map string_of_int sizes))), None)
     with Failure m -> (Some m, None))
  | _ -> (Some "unparsable C18B case", None)

(* C18Q shape n1 n2 ; ev gs late -- a proxied stream whose backend ends before the client has finished: the trace is
   complete at End (one in-payload for the message the backend took, one out-payload for its answer), nothing after *)
let run_q inp obs : string option * string option =
  match inp, obs with
  | ["C18Q"; _; _; _], ["panic"; _; _] -> (Some "the server panicked", None)
  | ["C18Q"; shape; n1; _n2], [ev; gs; late] ->
    let name = str_bytes ("/verif.c18q.Svc/M" ^ shape) in
    (try
       let evs = L.map (fun s ->
           if S.contains s '!' || S.contains s '?' then failwith ("stats event with a wrong context or IsClient(): " ^ s) else parse_ev s) (split_list ev) in
       let n1 = nat (int_of_string n1) in
       if gs <> "0" then (Some (Printf.sprintf "the proxied call ended with grpc-status %s, the backend returned OK" gs), None)
       else if late = "1" then (Some (Printf.sprintf "stats events were still reported after the request had been served: [%s]" ev), None)
       else if EventsSpec.trace_ok name true (shape = "bi") [n1] [n1] (nat 0) evs then (None, None)
       else (Some (Printf.sprintf "stats trace [%s] of a proxied stream the backend ended early is not Tag.InHeader.Begin.InPayload.OutHeader.OutPayload.OutTrailer.End (nothing after End)" ev), None)
     with Failure m -> (Some m, None))
  | _ -> (Some "unparsable C18Q case", None)

let () = Evalreg.register "C18" run; Evalreg.register "C18B" run_b; Evalreg.register "C18Q" run_q
