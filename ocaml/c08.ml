open Util
open BinNums
(* C08: size limits. The specification predicates (SizeLimit.recv_ok / send_ok, extracted) judge
   the implementation's own observation; the extracted gates (Limits.recv_run / send_run /
   body_chunks) predict it and are compared exactly.
     C08R <path> <maxRecv> <maxSend> <enc> <shape> <msgs> ; <got> <end> <csizes>
     C08S <path> <maxRecv> <maxSend> <enc> <shape> <sizes> ; <att> <res> <arr> <end> *)

let zs = z_of_string
let z = z_of_int
let zle a b = BinInt.Z.leb a b
let rec zstr (x : coq_Z) : string =
  (* decimal printing without overflow: values here fit 63 bits except declared prefixes, which are never printed from Z *)
  string_of_int (int_of_z x)
let show_zs l = if l = [] then "-" else String.concat "," (Stdlib.List.map zstr l)

let codec_of path = match path with
  | "hu-json" | "hs-json" | "ws" -> "json"
  | "hu-body" | "hs-body" -> "body"
  | _ -> "proto"
let grpc_fam path = path = "grpc" || path = "web" || path = "webtext"

type desc = { kind : char; size : string; prefix : string }
let parse_descs s =
  Stdlib.List.map (fun f ->
      let k = f.[0] and body = String.sub f 1 (String.length f - 1) in
      if k = 'p' then
        match String.index_opt body ':' with
        | Some i -> { kind = k; prefix = String.sub body 0 i; size = String.sub body (i + 1) (String.length body - i - 1) }
        | None -> failwith "bad p descriptor"
      else
        let body = if String.length body > 0 && body.[String.length body - 1] = 'r' then String.sub body 0 (String.length body - 1) else body in
        let body = match String.index_opt body 'b' with Some i -> String.sub body 0 i | None -> body in
        { kind = k; size = body; prefix = body }) (split_on ',' s)

(* is an m-message of this size a decodable message in this codec? (what the generator of payloads can build) *)
let m_valid codec size =
  match codec with
  | "json" -> size >= 2 || size = 0
  | "body" -> true
  | _ -> size <> 1

let run inp obs : string option * string option =
  match inp, obs with
  | _, ["panic"] -> (Some "the server panicked", None)
  | ["C08R"; path; recv; send; enc; _shape; msgs], [got; endc; csizes] ->
    let limit = zs recv in
    let cfg = { Limits.maxRecv = limit; Limits.maxSend = zs send } in
    let codec = codec_of path and gz = enc = "gzip" in
    let gzf = gz && grpc_fam path in
    let ds = parse_descs msgs in
    let got = Stdlib.List.map (fun g -> if g = "bad" then z (-1) else zs g) (split_on ',' got) in
    let ended_ok = endc = "ok" in
    if path = "hs-body" then begin
      (* one upload; the handler receives chunks *)
      let total = Stdlib.List.fold_left (fun a d -> a + int_of_string d.size) 0 ds in
      let sum = Stdlib.List.fold_left (fun a g -> a + int_of_z g) 0 got in
      let over = Stdlib.List.exists (fun g -> not (zle g limit)) got in
      let empty = Stdlib.List.exists (fun g -> zle g (z 0)) got in
      if over then (Some (Printf.sprintf "an HttpBody chunk larger than the receive limit %s reached the handler (chunks %s)" recv (show_zs got)), None)
      else if not ended_ok then (Some (Printf.sprintf "an HttpBody upload of %d bytes was refused under the receive limit %s: chunking never needs to refuse" total recv), None)
      else if sum <> total || empty then (Some (Printf.sprintf "HttpBody chunks %s do not add up to the upload of %d bytes" (show_zs got) total), None)
      else
        let want = Limits.body_chunks (nat_of_int (total + 1)) limit (z total) in
        if want = got then (None, None)
        else (None, Some (Printf.sprintf "model of codecHTTPBody.ReadNext predicts chunks %s, handler saw %s" (show_zs want) (show_zs got)))
    end else begin
      let cs = ref (Stdlib.List.map zs (split_on ',' csizes)) in
      let next_c () = match !cs with c :: r -> cs := r; c | [] -> failwith "missing compressed size" in
      (* per message: what was sent (for the specification) and what the gates see (for the model) *)
      let items = Stdlib.List.map (fun d ->
          let size = zs d.size in
          let isz = int_of_string d.size in
          match d.kind with
          | 'm' | 'g' | 'z' ->
            let valid = (d.kind = 'm' || d.kind = 'z') && m_valid codec isz || (d.kind = 'g' && (codec = "body" || (codec = "proto" && isz = 0) || (codec = "json" && isz = 2))) in
            if gzf then
              let c = next_c () in
              ({ SizeLimit.s_size = size; s_wire = c; s_ok = valid },
               { Limits.w_prefix = c; w_flag = true; w_avail = c; w_inflate = Some size; w_valid = valid })
            else if codec = "json" && isz = 1 then
              (* "{" : an object that never closes *)
              ({ SizeLimit.s_size = size; s_wire = size; s_ok = valid },
               { Limits.w_prefix = BinInt.Z.add size (z 1); w_flag = false; w_avail = size; w_inflate = None; w_valid = valid })
            else
              ({ SizeLimit.s_size = size; s_wire = size; s_ok = valid },
               { Limits.w_prefix = size; w_flag = false; w_avail = size; w_inflate = None; w_valid = valid })
          | 'u' ->
            ({ SizeLimit.s_size = size; s_wire = size; s_ok = m_valid codec isz },
             { Limits.w_prefix = size; w_flag = false; w_avail = size; w_inflate = None; w_valid = m_valid codec isz })
          | 'x' ->
            ({ SizeLimit.s_size = size; s_wire = size; s_ok = false },
             { Limits.w_prefix = size; w_flag = true; w_avail = size; w_inflate = None; w_valid = false })
          | 'p' ->
            let p = zs d.prefix in
            let whole = d.prefix = d.size && not gzf && m_valid codec isz in
            ({ SizeLimit.s_size = p; s_wire = p; s_ok = whole },
             { Limits.w_prefix = p; w_flag = gzf; w_avail = size; w_inflate = None; w_valid = whole })
          | _ -> failwith "bad descriptor") ds in
      let sents = Stdlib.List.map fst items and wires = Stdlib.List.map snd items in
      let what = Printf.sprintf "%s enc=%s maxRecv=%s msgs=%s: handler received [%s], call %s" path enc recv msgs (show_zs got) endc in
      if Stdlib.List.exists (fun g -> not (zle g limit)) got then
        (Some ("a message larger than the receive limit reached the handler: " ^ what), None)
      else if not (SizeLimit.recv_ok limit sents got ended_ok) then
        (Some ("size limit specification violated (a message within the limit refused, one over it delivered or not failed, or a message never sent delivered): " ^ what), None)
      else begin
        let rp = match path with
          | "hu-json" | "hu-proto" | "hu-body" ->
            (* the sizes the body's Read calls return: all at once, or 3 bytes at a time *)
            let total = Stdlib.List.fold_left (fun a w -> a + int_of_z w.Limits.w_avail) 0 wires in
            let rec chunks n = if n <= 0 then [] else if n <= 3 then [z n] else z 3 :: chunks (n - 3) in
            Limits.RHttpUnary (if _shape = "chunks" then chunks total else [z total])
          | "hs-json" -> Limits.RHttpJSON
          | "hs-proto" -> Limits.RHttpProto
          | "grpc" -> Limits.RGrpc gz
          | "web" | "webtext" -> Limits.RGrpcWeb gz
          | "ws" -> Limits.RWebSocket
          | _ -> failwith "bad path" in
        let (want, wend) = Limits.recv_run rp cfg wires in
        let end_agrees = match wend with
          | Limits.EndOk -> endc = "ok"
          | Limits.EndSize -> endc = "size" || endc = "refused"
          | Limits.EndOther -> endc = "refused" in
        if want = got && end_agrees then (None, None)
        else (None, Some (Printf.sprintf "model of the receive gates predicts [%s] end=%s; %s" (show_zs want)
                            (match wend with Limits.EndOk -> "ok" | Limits.EndSize -> "size" | Limits.EndOther -> "other") what))
      end
    end
  | ["C08S"; path; _recv; send; enc; _shape; sizes], [att_s; res_str; arr_str; _endc] ->
    let limit = zs send in
    let cfg = { Limits.maxRecv = zs _recv; Limits.maxSend = limit } in
    let att = Stdlib.List.map zs (split_on ',' att_s) in
    let res_s = split_on ',' res_str in
    let res = Stdlib.List.map (fun r -> r = "ok") res_s in
    let arr_s = split_on ',' arr_str in
    let nsizes = Stdlib.List.length (split_on ',' sizes) in
    let what = Printf.sprintf "%s enc=%s maxRecv=%s maxSend=%s: replies of [%s] bytes -> [%s], arrived [%s]" path enc _recv send (show_zs att) res_str arr_str in
    if Stdlib.List.exists (fun a -> String.length a > 0 && (a.[0] = 'b' || a.[0] = 't' || a.[0] = 'u')) arr_s then
      (Some ("the client received bytes that are not the replies: " ^ what), None)
    else begin
      let arr = Stdlib.List.map zs arr_s in
      (* HttpBody server streams are written without framing: the client sees the total *)
      let arr = if path = "hs-body" then begin
          let okd = Stdlib.List.filteri (fun i _ -> i < Stdlib.List.length res && Stdlib.List.nth res i) att in
          let total = Stdlib.List.fold_left (fun a x -> a + int_of_z x) 0 okd in
          match arr with
          | [t] when int_of_z t = total -> okd
          | [] when total = 0 -> okd
          | _ -> arr
        end else arr in
      if Stdlib.List.exists (fun a -> not (zle a limit)) arr then
        (Some ("a reply larger than the send limit reached the client: " ^ what), None)
      else if att = [] && nsizes > 0 then
        (Some ("the request, which is within the receive limit, did not reach the handler: " ^ what), None)
      else if Stdlib.List.length att < nsizes && (res = [] || Stdlib.List.nth res (Stdlib.List.length res - 1)) then
        (Some ("the handler could not attempt all its replies although none was refused: " ^ what), None)
      else if not (SizeLimit.send_ok limit att res arr) then
        (Some ("size limit specification violated on the send side (a reply within the limit refused or lost, or one over it accepted): " ^ what), None)
      else begin
        let sp = match path with
          | "hu-json" | "hu-proto" | "hu-body" -> Limits.SHttpUnary
          | "hs-json" | "hs-proto" | "hs-body" -> Limits.SHttpStream
          | "grpc" -> Limits.SGrpc
          | "web" | "webtext" -> Limits.SGrpcWeb
          | "ws" -> Limits.SWebSocket
          | _ -> failwith "bad path" in
        let (wres, warr) = Limits.send_run sp cfg att in
        if wres = res && warr = arr then (None, None)
        else (None, Some (Printf.sprintf "model of the send gates predicts [%s] arrived [%s]; %s"
                            (String.concat "," (Stdlib.List.map (fun b -> if b then "ok" else "refused") wres)) (show_zs warr) what))
      end
    end
  | _ -> (Some "unparsable C08 case", None)
let () = Evalreg.register "C08" run
