(* modelrun: reads case lines "<input> ; <observation>" and prints one verdict line per case:
     OK | SPECFAIL <why> | MISMATCH <why>
   SPECFAIL: the implementation's observation fails the extracted specification predicate.
   MISMATCH: the extracted model of the code predicts a different observation. *)
let split_case line =
  let re = Str.regexp_string " ; " in
  match Str.bounded_split_delim re line 2 with
  | [a; b] -> (Util.fields a, Util.fields b)
  | [a] -> (Util.fields a, [])
  | _ -> ([], [])

let dispatch inp obs =
  match inp with
  | k :: _ -> (match Evalreg.find k with Some f -> f inp obs | None -> (Some ("unknown case kind " ^ k), None))
  | [] -> (Some "empty case", None)

let () =
  try
    while true do
      let line = input_line stdin in
      if String.length line > 0 && line.[0] <> '#' then begin
        let (inp, obs) = split_case line in
        let verdict =
          try
            match dispatch inp obs with
            | (Some why, _) -> "SPECFAIL " ^ why
            | (None, Some why) -> "MISMATCH " ^ why
            | (None, None) -> "OK"
          with e -> "SPECFAIL driver exception " ^ Printexc.to_string e
        in
        print_endline verdict
      end
    done
  with End_of_file -> ()
