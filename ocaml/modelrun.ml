(* modelrun: reads case lines "<input> ; <observation>" and prints one verdict line per case:
     OK | SPECFAIL <why> | MISMATCH <why>
   SPECFAIL: the implementation's observation fails the extracted specification predicate.
   MISMATCH: the extracted model of the code predicts a different observation. *)
let split_case line =
  let re = Str.regexp_string " ; " in
  match Str.bounded_split_delim re line 2 with
  | [a; b] -> (Util.fields a, Util.fields b)
  | [a] -> (Util.fields a, [])
  | _ -> ([], [])

let dispatch inp obs =
  match inp with
  | k :: _ when String.length k >= 3 && String.sub k 0 3 = "C17" -> C17.run inp obs
  | k :: _ when String.length k >= 3 && String.sub k 0 3 = "C15" -> C15.run inp obs
  | "C05" :: _ -> C05.run inp obs
  | ("C14I" | "C14O") :: _ -> C14.run inp obs
  | _ -> (Some "unknown case kind", None)

let () =
  try
    while true do
      let line = input_line stdin in
      if String.length line > 0 && line.[0] <> '#' then begin
        let (inp, obs) = split_case line in
        let verdict =
          try
            match dispatch inp obs with
            | (Some why, _) -> "SPECFAIL " ^ why
            | (None, Some why) -> "MISMATCH " ^ why
            | (None, None) -> "OK"
          with e -> "SPECFAIL driver exception " ^ Printexc.to_string e
        in
        print_endline verdict
      end
    done
  with End_of_file -> ()
