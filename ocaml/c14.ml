open Util
(* maps:  hexkey=hexval|hexval;...  *)
let dec_map s : (BinNums.coq_N list * BinNums.coq_N list list) list =
  if s = "-" || s = "" then [] else
  Stdlib.List.map (fun p ->
    match String.index_opt p '=' with
    | Some i ->
      let k = String.sub p 0 i and vs = String.sub p (i + 1) (String.length p - i - 1) in
      (bytes_of_hex k, if vs = "" then [] else Stdlib.List.map bytes_of_hex (String.split_on_char '|' vs))
    | None -> (bytes_of_hex p, [])) (String.split_on_char ';' s)

let show_map m = String.concat ";" (Stdlib.List.map (fun (k, vs) -> Printf.sprintf "%S=[%s]" (bytes_str k) (String.concat "|" (Stdlib.List.map (fun v -> Printf.sprintf "%S" (bytes_str v)) vs))) m)
let sort_map m = Stdlib.List.sort compare (Stdlib.List.map (fun (k, vs) -> (bytes_str k, Stdlib.List.map bytes_str vs)) m)
let get m k = Stdlib.List.assoc_opt (bytes_str (Metadata.lower k)) (Stdlib.List.map (fun (k, v) -> (bytes_str (Metadata.lower k), v)) m)
let protected_key k = Metadata.is_reserved (Metadata.lower k) || Metadata.is_framing (Metadata.lower k)

let run inp obs : string option * string option =
  match inp, obs with
  | _, ["panic"] -> (Some "the server panicked", None)
  | ["C14I"; _proto; hdrs], [seen] ->
    let h = dec_map hdrs and seen = dec_map seen in
    (* model: newIncomingContext on exactly these headers *)
    let want = Metadata.incoming h in
    (* specification: for -bin keys either spelling of valid base64 must decode to the bytes *)
    let spec_fail = Stdlib.List.find_map (fun (k, vs) ->
        let lk = Metadata.lower k in
        if Metadata.is_reserved lk && not (Metadata.is_whitelisted lk) then
          (if get seen k <> None then Some (Printf.sprintf "reserved header %S reached the handler's metadata" (bytes_str k)) else None)
        else match get seen k with
          | None -> Some (Printf.sprintf "header %S did not reach the handler" (bytes_str k))
          | Some got ->
            if Stdlib.List.length got <> Stdlib.List.length vs then Some (Printf.sprintf "header %S: %d values sent, %d seen" (bytes_str k) (Stdlib.List.length vs) (Stdlib.List.length got))
            else if Metadata.is_bin lk then
              Stdlib.List.find_map (fun (v, g) ->
                  match Metadata.decode_any v with
                  | Some b when b <> g -> Some (Printf.sprintf "-bin header value %S reached the handler as %S, not as its decoded bytes %S" (bytes_str v) (bytes_str g) (bytes_str b))
                  | _ -> None) (Stdlib.List.combine vs got)
            else if got <> vs then Some (Printf.sprintf "header %S values changed or reordered" (bytes_str k)) else None) h in
    let extra = Stdlib.List.find_opt (fun (k, _) -> get h k = None) seen in
    (match spec_fail, extra with
     | Some e, _ -> (Some e, None)
     | None, Some (k, _) -> (Some (Printf.sprintf "metadata key %S was never sent" (bytes_str k)), None)
     | None, None ->
       if sort_map want = sort_map seen then (None, None)
       else (None, Some (Printf.sprintf "model of newIncomingContext predicts {%s}, handler saw {%s}" (show_map want) (show_map seen))))
  | ["C14O"; proto; _st; hmd; tmd], [h1; t1; h0; t0] ->
    let hmd = dec_map hmd and tmd = dec_map tmd and h1 = dec_map h1 and t1 = dec_map t1 and h0 = dec_map h0 and t0 = dec_map t0 in
    (* a gRPC-web trailers-only response has one block for headers and trailers: values of a key
       set in both are concatenated, header values first *)
    let merged = (proto = "web" && _st = "fail") in
    let rec is_prefix a b = match a, b with [], _ -> true | x :: a', y :: b' -> x = y && is_prefix a' b' | _ -> false in
    let check_present where resp (k, vs) =
      if protected_key k then None else
      match get resp k with
      | None -> Some (Printf.sprintf "%s %S set by the handler did not reach the client" where (bytes_str k))
      | Some got ->
        let want = Metadata.out_vals k vs in
        (* a value with a line break cannot travel as it is: arriving with CR / LF replaced by spaces is the safe reading
           (what net/http does); what matters for such values is the protected-key comparison below *)
        let nl c = Util.int_of_n c = 10 || Util.int_of_n c = 13 in
        let sanitized = Stdlib.List.map (Stdlib.List.map (fun c -> if nl c then Util.n_of_int 32 else c)) want in
        if got = want || got = sanitized then None
        else if merged && where = "header" && is_prefix want got then None
        else if merged && where = "trailer" && is_prefix (Stdlib.List.rev want) (Stdlib.List.rev got) then None
        else if Metadata.is_bin (Metadata.lower k) && Stdlib.List.length got = Stdlib.List.length vs
                && Stdlib.List.for_all2 (fun g v -> Metadata.decode_any g = Some v) got vs then None
        else Some (Printf.sprintf "%s %S arrived as [%s], handler set [%s]" where (bytes_str k)
                     (String.escaped (String.concat "|" (Stdlib.List.map bytes_str got))) (String.escaped (String.concat "|" (Stdlib.List.map bytes_str vs)))) in
    let prot = Metadata.reserved_keys @ Metadata.framing_keys @ [str_bytes "grpc-status-details-bin"] in
    let forged =
      Stdlib.List.find_map (fun k ->
          if get h1 k <> get h0 k then Some (Printf.sprintf "response header %S differs from the baseline call: handler metadata changed a protected key" (bytes_str k))
          else if get t1 k <> get t0 k then Some (Printf.sprintf "response trailer %S differs from the baseline call: handler metadata changed a protected key" (bytes_str k))
          else None) prot in
    let r1 = Stdlib.List.find_map (check_present "header" h1) hmd in
    let r2 = if proto = "http" || proto = "twirp" || proto = "bodywriter" then None else Stdlib.List.find_map (check_present "trailer" t1) tmd in
    (match forged, r1, r2 with
     | Some e, _, _ | None, Some e, _ | None, None, Some e -> (Some e, None)
     | None, None, None -> (None, None))
  | ["C14S"; proto; _st; steps], [h1; h2; changed] ->
    (* header metadata accumulated by SetHeader calls and a final SendHeader: per key, the values of all
       steps in the order of the calls (grpc-go's contract), for this call only, and the application's
       own metadata objects are left alone *)
    let steps = Stdlib.List.map (fun st -> dec_map (String.sub st 1 (String.length st - 1))) (String.split_on_char '+' steps) in
    let keys = Stdlib.List.sort_uniq compare (Stdlib.List.concat_map (fun m -> Stdlib.List.map (fun (k, _) -> bytes_str k) m) steps) in
    let want k = Stdlib.List.concat_map (fun m -> match Stdlib.List.find_opt (fun (k', _) -> bytes_str k' = k) m with Some (_, vs) -> Stdlib.List.map bytes_str vs | None -> []) steps in
    let check which h =
      let h = dec_map h in
      Stdlib.List.find_map (fun k ->
          let got = match Stdlib.List.find_opt (fun (k', _) -> bytes_str k' = k) h with Some (_, vs) -> Stdlib.List.map bytes_str vs | None -> [] in
          if got = want k then None
          else Some (Printf.sprintf "%s call over %s: header %S arrived as [%s]; the handler's SetHeader / SendHeader calls gave [%s] in this order" which proto k
                       (String.concat "|" got) (String.concat "|" (want k)))) keys in
    (match check "first" h1, check "second" h2 with
     | Some e, _ | None, Some e -> (Some e, None)
     | None, None ->
       if changed = "1" then (Some "the server modified a metadata object that belongs to the handler (passed to SetHeader / SendHeader)", None)
       else (None, None))
  | _ -> (Some "unparsable C14 case", None)
let () = Evalreg.register "C14" run

(* C14B <trailer md> ; <raw trailer block hex>: the bytes a gRPC-web client parses.
   spec  = every line of the block is a field (no stray line), and the x- fields it carries are exactly the trailer values the
           handler set, each on one line, CR / LF replaced and blank space trimmed (TrailerBlock.wire_value): nothing forged
   model = the x- lines of the block are, byte for byte, TrailerBlock.write_block of the sorted metadata *)
let run_b inp obs : string option * string option =
  match inp, obs with
  | ["C14B"; tmd], [raw] when raw <> "none" && raw <> "panic" ->
    let md = Stdlib.List.sort (fun (a, _) (b, _) -> compare (bytes_str a) (bytes_str b)) (dec_map tmd) in   (* Header.Write sorts by key *)
    let block = bytes_of_hex raw in
    let fields = TrailerBlock.parse_block block in
    let what = Printf.sprintf "gRPC-web trailer block %S for trailer metadata {%s}" (String.escaped (bytes_str block)) (String.escaped (show_map md)) in
    if Stdlib.List.exists (fun f -> f = None) fields then (Some (what ^ ": a line that is not a field"), None) else
    let is_x k = match k with a :: b :: _ -> Util.int_of_n a = 120 && Util.int_of_n b = 45 | _ -> false in
    let got = Stdlib.List.filter_map (function Some (k, v) when is_x k -> Some (k, v) | _ -> None) fields in
    let want = Stdlib.List.concat_map (fun (k, vs) -> Stdlib.List.map (fun v -> (k, TrailerBlock.wire_value v)) vs) md in
    if Stdlib.List.sort compare got <> Stdlib.List.sort compare want then
      (Some (what ^ ": the client reads fields that are not the values set (each on one line, line breaks as spaces, trimmed)"), None)
    else begin
      (* the model writes the same bytes: compare the x- part of the block *)
      let model = TrailerBlock.write_block (Stdlib.List.concat_map (fun (k, vs) -> Stdlib.List.map (fun v -> (k, v)) vs) md) in
      let s = bytes_str block and m = bytes_str model in
      let contains hay needle =
        let n = String.length needle and h = String.length hay in
        let rec go i = i + n <= h && (String.sub hay i n = needle || go (i + 1)) in n = 0 || go 0 in
      if contains s m then (None, None)
      else (None, Some (what ^ Printf.sprintf ": the model writes %S for the x- keys" (String.escaped m)))
    end
  | ["C14B"; _], [r] -> (Some ("no trailer frame in the gRPC-web response (" ^ r ^ ")"), None)
  | _ -> (Some "unparsable C14B case", None)
let () = Evalreg.register "C14B" run_b
