open Util
(* C15T <hex string> ; refused|ok|nodeadline <http status> <lo ns> <hi ns> *)
let run inp obs : string option * string option =
  match inp, obs with
  | "C15T" :: s :: (([] | ["s"] | ["w"] | ["p"] | ["x"] | ["d"]) as variant), [kind; _code; lo; hi] ->
    let s = bytes_of_hex s in
    let refused = (kind = "refused") in
    let spec =
      if kind = "expired" then
        (* a legal, very short timeout may pass before the handler can be called: then the
           client must be told DEADLINE_EXCEEDED (4); "short" = below 100 ms (below 500 ms when a backend
           on loopback has to be reached first, variant p) *)
        (match Timeout.decode_timeout s with
         | None -> Some "malformed grpc-timeout was not refused (answered 200)"
         | Some ns -> if int_of_z ns >= (if variant = ["p"] then 500_000_000 else 100_000_000) then Some "handler not invoked although the deadline was far away"
                      else if _code = "4" then None
                      else Some (Printf.sprintf "deadline expired before the handler ran but grpc-status is %s, not 4" _code))
      else if kind = "nodeadline" then
        (match Timeout.decode_timeout s with None -> Some "handler invoked for a malformed grpc-timeout" | Some _ -> Some "handler ran without a deadline")
      else if Timeout.timeout_obs_ok s refused (z_of_string lo) (z_of_string hi) then
        (* variant x: the upload arrives 400 ms after the request; a deadline counted from the end of the upload lies 400 ms
           late (300 ms of slack for the scheduler) *)
        (match variant, Timeout.decode_timeout s with
         | ["x"], Some ns when kind = "ok" && int_of_z ns < 1_000_000_000_000_000 && int_of_string hi - int_of_z ns > 300_000_000 ->
           Some (Printf.sprintf "grpc-timeout %S on a gRPC-web-text request whose body arrived 400 ms after the request: the handler's deadline lies %d ms after receipt + T -- it was counted from the end of the upload"
                   (bytes_str s) ((int_of_string hi - int_of_z ns) / 1_000_000))
         | _ -> None)
      else Some (Printf.sprintf "grpc-timeout %S: implementation %s (time left between %s and %s ns), grammar says %s"
                   (bytes_str s) kind lo hi
                   (match Timeout.decode_timeout s with None -> "malformed: refuse" | Some ns -> "legal: " ^ string_of_int (int_of_z ns) ^ " ns")) in
    (* the model of decodeTimeout is the grammar's decision procedure (proved equivalent), so a
       model mismatch and a spec failure coincide here *)
    (spec, None)
  | ["C15C"; front; shape; point], [kind; _ms] ->
    (* cancellation is observed, not modelled: the handler must be released after the client cancels *)
    if kind = "released" then (None, None)
    else (Some (Printf.sprintf "client cancelled (%s, %s, handler waiting on %s) but the handler was not released: %s" front shape point kind), None)
  | _ -> (Some "unparsable C15 case", None)
let () = Evalreg.register "C15" run

(* C15E <d ns> ; <grpc-timeout header hex>: what a grpc-go client writes for a context with d ns left.
   The time left when the header is written is a little below d, so the value is compared as an interval, and the
   choice of unit through the model: the observed (value, unit) is what TimeoutForward.encode_duration gives for value x unit *)
let run_e inp obs : string option * string option =
  match inp, obs with
  | ["C15E"; d], [h] when h <> "none" ->
    let s = bytes_str (bytes_of_hex h) in
    let n = String.length s in
    let unit_of = function 'n' -> Some 1 | 'u' -> Some 1_000 | 'm' -> Some 1_000_000 | 'S' -> Some 1_000_000_000
                         | 'M' -> Some 60_000_000_000 | 'H' -> Some 3_600_000_000_000 | _ -> None in
    let what = Printf.sprintf "a grpc-go client with %s ns left wrote grpc-timeout %S" d s in
    if n < 2 || n > 9 then (Some (what ^ ": not 1..8 digits and a unit"), None) else
    let digits = String.sub s 0 (n - 1) in
    let all_digits = digits <> "" && Stdlib.String.for_all (fun c -> c >= '0' && c <= '9') digits in
    (match unit_of s.[n - 1] with
     | Some u when all_digits ->
       let module Z = BinInt.Z in
       let zi i = z_of_string (string_of_int i) in
       let dz = z_of_string d and vz = z_of_string digits and uz = zi u in
       let prod = Z.mul vz uz in
       let (mv, mu) = TimeoutForward.encode_duration prod in
       (* two seconds of slack below: the header is written some time after the context was made *)
       if not (Z.leb prod (Z.add dz uz)) || not (Z.leb (Z.sub dz (zi 2_000_000_000)) prod) then
         (None, Some (what ^ ": outside [d - 2 s, d + one unit] (model: the time left rounded up in the unit chosen)"))
       else if mv <> vz || mu <> uz then
         (None, Some (what ^ Printf.sprintf ": the model of EncodeDuration writes %d x %d ns for that duration" (int_of_z mv) (int_of_z mu)))
       else (None, None)
     | _ -> (Some (what ^ ": not a legal timeout"), None))
  | ["C15E"; d], ["none"] -> (Some ("no request reached the recording server for a call with " ^ d ^ " ns left"), None)
  | _ -> (Some "unparsable C15E case", None)
let () = Evalreg.register "C15E" run_e
