(* C18T: the client's view with a (no-op) stats handler installed equals the view without it *)
let run inp obs : string option * string option =
  match inp, obs with
  | "C18T" :: _, ["same"] -> (None, None)
  | "C18T" :: proto :: oc :: _, "diff" :: what :: _ ->
    (Some (Printf.sprintf "installing a stats handler changed the %s response of a handler that sets header and trailer metadata (%s): %s" proto oc what), None)
  | _ -> (Some "unparsable C18T case", None)
let () = Evalreg.register "C18T" run
