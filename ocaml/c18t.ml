(* C18T: the client's view with a (no-op) stats handler installed equals the view without it *)
let run inp obs : string option * string option =
  match inp, obs with
  | "C18T" :: _, ["same"] -> (None, None)
  | "C18T" :: proto :: oc :: _, "diff" :: what :: _ ->
    (Some (Printf.sprintf "installing a stats handler changed the %s response of a handler that sets header and trailer metadata (%s): %s" proto oc what), None)
  | _ -> (Some "unparsable C18T case", None)

(* C18Z: the events of one HTTP-transcoded call with a Content-Encoding are one well-formed sequence
   (EventsSpec.accepts: tag, in-header, begin, payloads, ..., exactly one end), or there are none *)
let run_z inp obs : string option * string option =
  match inp, obs with
  | "C18Z" :: _, ["-"; _] -> (None, None)
  | "C18Z" :: v :: _, [evs; status] ->
    (try
       let l = Stdlib.List.map C18.parse_ev (Stdlib.String.split_on_char ',' evs) in
       let what = Printf.sprintf "HTTP call (%s), answered %s: the stats handler saw %s" v status evs in
       if not (EventsSpec.accepts l) then (Some (what ^ ", which is not one complete event sequence (tag, in-header, begin, ..., exactly one end)"), None)
       else
         (* the end event carries the error the client was told about *)
         let codes = Stdlib.List.map Util.int_of_nat (EventsSpec.end_codes l) in
         let failing_handler = String.length v > 5 && String.sub v 0 5 = "herr-" in
         let over_grpc = Stdlib.String.contains v '@' in
         match codes with
         | [0] when failing_handler -> (Some (what ^ ": the handler returned an error, the End event carries none"), None)
         | [_] when failing_handler && (not over_grpc) && status = "200" -> (Some (what ^ ": the handler returned an error, the client was answered 200"), None)
         | [_] when failing_handler && over_grpc -> (None, None)   (* gRPC: the HTTP status is 200 also for an error *)
         | [c] when (status = "200") = (c = 0) -> (None, None)
         | [_] when String.length v > 8 && String.sub v 0 8 = "timeout:" -> (None, None)   (* gRPC: the HTTP status is 200 also for an error *)
         | _ -> (Some (what ^ ": the End event does not say what the client was told (an error iff the status is not 200)"), None)
     with Failure e -> (Some ("HTTP call with Content-Encoding: " ^ e), None))
  | _ -> (Some "unparsable C18Z case", None)
let () = Evalreg.register "C18T" run; Evalreg.register "C18Z" run_z
