open Util
(* C10: transcripts of a call made directly and through Mux.RegisterConn.
   spec  = the two observed transcripts are equal (field by field; "*" = not observable on that front)
   model = Model/Proxy.v run to a stuck state under several schedules predicts both transcripts *)

let dec_md s : (BinNums.coq_N list * BinNums.coq_N list list) list =
  if s = "-" || s = "" then [] else
  Stdlib.List.map (fun p ->
    match String.index_opt p '=' with
    | Some i ->
      let k = String.sub p 0 i and vs = String.sub p (i + 1) (String.length p - i - 1) in
      (bytes_of_hex k, if vs = "" then [] else Stdlib.List.map bytes_of_hex (String.split_on_char '|' vs))
    | None -> (bytes_of_hex p, [])) (String.split_on_char ';' s)
let enc_md m =
  if m = [] then "-" else
  String.concat ";" (Stdlib.List.map (fun (k, vs) -> hex_of_bytes k ^ "=" ^ String.concat "|" (Stdlib.List.map hex_of_bytes vs)) m)
let enc_msgs l = if l = [] then "-" else String.concat "," (Stdlib.List.map hex_of_bytes l)

type tr = { brecv : string; beof : string; bmd : string; crecv : string; code : string; msg : string; det : string;
            hdr : string; trl : string; flag : string }
let tr_of = function
  | [a; b; c; d; e; f; g; h; i; j] -> { brecv = a; beof = b; bmd = c; crecv = d; code = e; msg = f; det = g; hdr = h; trl = i; flag = j }
  | _ -> failwith "transcript"
let show t = String.concat " " [t.brecv; t.beof; t.bmd; t.crecv; t.code; t.msg; t.det; t.hdr; t.trl; t.flag]

(* first difference of two transcripts; a hanging call has no status *)
let diff (a : tr) (b : tr) : string option =
  let fields = [ "messages received by the backend", a.brecv, b.brecv; "end-of-stream seen by the backend", a.beof, b.beof;
                 "request metadata seen by the backend", a.bmd, b.bmd; "messages received by the client", a.crecv, b.crecv;
                 "outcome (ok/hang/nocall)", a.flag, b.flag ]
             @ (if a.flag = "hang" || b.flag = "hang" then [] else
                [ "status code", a.code, b.code; "status message", a.msg, b.msg; "status details", a.det, b.det;
                  "header metadata", a.hdr, b.hdr; "trailer metadata", a.trl, b.trl ]) in
  Stdlib.List.find_map (fun (what, x, y) -> if x = y || x = "*" || y = "*" then None else Some (Printf.sprintf "%s: %s vs %s" what x y)) fields

let of_transcript (t : Proxy.transcript) : tr =
  let base = { brecv = enc_msgs t.Proxy.t_brecv; beof = (if t.Proxy.t_beof then "1" else "0"); bmd = enc_md t.Proxy.t_bmd;
               crecv = enc_msgs t.Proxy.t_crecv; code = "4"; msg = "x"; det = "-"; hdr = "-"; trl = "-"; flag = "hang" } in
  match t.Proxy.t_cfin with
  | None -> base
  | Some f -> { base with code = string_of_int (int_of_n f.Proxy.f_code); msg = hex_of_bytes f.Proxy.f_msg;
                          det = (if f.Proxy.f_det = [] then "-" else hex_of_bytes (Stdlib.List.tl f.Proxy.f_det));
                          hdr = enc_md f.Proxy.f_hdr; trl = enc_md f.Proxy.f_trl; flag = "ok" }

let parse_cops s = Stdlib.List.map (fun f ->
    if f.[0] = 's' then Proxy.CSend (bytes_of_hex ("x" ^ String.sub f 1 (String.length f - 1)))
    else if f = "r" then Proxy.CRecv else if f = "c" then Proxy.CClose else failwith "cop") (split_on ',' s)
let parse_bops s = Stdlib.List.map (fun f ->
    if f.[0] = 's' then Proxy.BSend (bytes_of_hex ("x" ^ String.sub f 1 (String.length f - 1)))
    else if f = "r" then Proxy.BRecv else if f = "e" then Proxy.BDrain else failwith "bop") (split_on ',' s)

let orders = Proxy.[ [PClient; PBackend; PMain; PPump]; [PPump; PMain; PBackend; PClient]; [PMain; PMain; PClient; PPump; PPump; PBackend];
                     [PBackend; PBackend; PBackend; PMain; PPump; PClient; PClient; PClient] ]

let run inp obs : string option * string option =
  match inp with
  | ["C10"; shape; front; cops; bops; code; msg; det; reqmd; hmd; tmd] when Stdlib.List.length obs = 20 ->
    let d = tr_of (Stdlib.List.filteri (fun i _ -> i < 10) obs) and p = tr_of (Stdlib.List.filteri (fun i _ -> i >= 10) obs) in
    if p.flag = "panic" then (Some "the server panicked", None) else
    let spec = match diff d p with Some w -> Some ("direct vs proxied (" ^ front ^ " front): " ^ w) | None -> None in
    (* the model *)
    let sh = (match shape with "un" -> Proxy.Un | "cs" -> Proxy.Cs | "ss" -> Proxy.Ss | "bi" -> Proxy.Bi | _ -> failwith "shape") in
    let cl = parse_cops cops in
    let req = (match Stdlib.List.find_opt (function Proxy.CSend _ -> true | _ -> false) cl with Some (Proxy.CSend m) -> m | _ -> []) in
    let codeN = n_of_int (int_of_string code) in
    let okst = int_of_string code = 0 in
    (* details: a leading marker byte keeps "one empty detail" apart from "no detail" *)
    let fin = { Proxy.f_code = codeN; f_msg = (if okst then [] else bytes_of_hex msg);
                f_det = (if okst || det = "-" then [] else n_of_int 1 :: bytes_of_hex det);
                f_hdr = dec_md hmd; f_trl = dec_md tmd } in
    let sc = { Proxy.s_shape = sh; s_req = req; s_cops = cl; s_bops = parse_bops bops; s_fin = fin; s_reqmd = dec_md reqmd } in
    let rec drive_p order n s = if Proxy.is_stuck_p sc s then Some s else if n = 0 then None else drive_p order (n - 1) (Proxy.run_p sc order s) in
    let rec drive_d n s = if Proxy.is_stuck_d sc s then Some s else if n = 0 then None else drive_d (n - 1) (Proxy.run_d sc [Proxy.DClient; Proxy.DBackend] s) in
    let mism =
      match drive_d 100000 (Proxy.init_d sc) with
      | None -> Some "the direct model does not come to rest"
      | Some ds ->
        let md_ = of_transcript (Proxy.transcript_d sc ds) in
        (match diff md_ d with
         | Some w -> Some ("model of the direct call vs observed direct call: " ^ w)
         | None ->
           let res = Stdlib.List.map (fun o -> drive_p o 100000 (Proxy.init_p sc)) orders in
           if Stdlib.List.exists (fun r -> r = None) res then Some "the proxied model does not come to rest" else
           let ts = Stdlib.List.map (function Some s -> of_transcript (Proxy.transcript_p s) | None -> failwith "") res in
           let t0 = Stdlib.List.hd ts in
           if Stdlib.List.exists (fun t -> t <> t0) ts then Some "the proxied model gives different transcripts under different schedules" else
           let p' = if front = "http" then { p with bmd = p.bmd } else p in
           (match diff t0 p' with
            | Some w -> Some ("model of the proxied call vs observed proxied call: " ^ w)
            | None -> None)) in
    (spec, mism)
  | _ -> (Some "unparsable C10 case", None)
(* C10X: a proxied client stream the client does not complete *)
let run_x inp obs : string option * string option =
  match inp, obs with
  | ["C10X"; shape; k; how], [msgs; bend; flag] ->
    let k = int_of_string k in
    let want = Stdlib.List.init k (fun i -> Printf.sprintf "m%d" i) in
    let got = if msgs = "-" then [] else String.split_on_char ',' msgs in
    let rec is_prefix a b = match a, b with [], _ -> true | x :: a', y :: b' -> x = y && is_prefix a' b' | _ -> false in
    let what = Printf.sprintf "proxied %s stream, %d messages then %s: the backend received [%s] and its stream ended with %s (%s)" shape k how msgs bend flag in
    if flag = "panic" then (Some ("the server panicked: " ^ what), None)
    else if flag = "hang" || flag = "backend-stuck" then (Some ("the call did not end: " ^ what), None)
    else if not (is_prefix got want) then (Some ("messages that were not sent: " ^ what), None)
    else if how = "close" then
      (if got = want && bend = "eof" then (None, None) else (Some ("a completed client stream did not reach the backend completely: " ^ what), None))
    else if bend = "eof" then (Some ("the backend was told the client finished sending although the stream was reset (a direct call ends with an error): " ^ what), None)
    else (None, None)
  | _ -> (Some "unparsable C10X case", None)
let () = Evalreg.register "C10" run; Evalreg.register "C10X" run_x
