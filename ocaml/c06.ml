(* C06: stream sequence fidelity.
   C06 <tr> <shape> <codec> <gz> <limit> <cl> <body> <sched> <eofwd> <out> <code> <sent> <ztab>
     ; <hseq> <end> <bad> <oc> <trace> <hstatus> <gstatus> <sframes> <mc> <respbody> <rztab> <ct> <senderr>
   C06W <shape> <texts> <fin> <recvn> <out> <code> ; <htexts> <end> <ctexts> <ccodes> <junk>
   run returns (failure of the specification on what the implementation did, model <> implementation). *)
open Util

let codec_of shape c = if shape = "up" then Frames.CBody else
  (match c with "p" -> Frames.CProto | "j" -> Frames.CJSON | s -> failwith s)

let err_name = function
  | GoSem.EEOF -> "eof" | GoSem.EUnexpectedEOF -> "ueof" | GoSem.ETooLarge -> "large"
  | GoSem.EVarint -> "varint" | GoSem.EUnbalanced -> "unbal" | GoSem.EInvalid -> "invalid" | _ -> "other"
let send_name = function Frames.SClean -> "eof" | Frames.SErr e -> err_name e | Frames.SFuel -> "spec-out-of-fuel"
let rend_name = function
  | Codec.EndClean -> "eof" | Codec.EndErr e -> err_name e | Codec.EndLost -> "lost"
  | Codec.EndPanic -> "panic" | Codec.EndFuel -> "model-out-of-fuel"
let send_of_name = function
  | "eof" -> Frames.SClean | "ueof" -> Frames.SErr GoSem.EUnexpectedEOF | "large" -> Frames.SErr GoSem.ETooLarge
  | "varint" -> Frames.SErr GoSem.EVarint | "unbal" -> Frames.SErr GoSem.EUnbalanced
  | "invalid" -> Frames.SErr GoSem.EInvalid | _ -> Frames.SErr GoSem.EOther

(* comp=plain,comp=plain tables of gzip values supplied by the harness (oracle values) *)
let table s = Stdlib.List.map (fun p -> match String.split_on_char '=' p with
  | [a; b] -> (bytes_of_hex a, bytes_of_hex b) | _ -> failwith "ztab") (split_on ',' s)

let seq_str l = if l = [] then "-" else String.concat "," l
let len = Stdlib.List.length
let fuel_for l = nat_of_int (len l + 3)

(* "grpc-status: N" of a trailer block *)
let trailer_status (block : string) : string option =
  let lines = Str.split (Str.regexp "\r\n") block in
  Stdlib.List.fold_left (fun acc l ->
    match String.index_opt l ':' with
    | Some i when String.lowercase_ascii (String.sub l 0 i) = "grpc-status" ->
      Some (String.trim (String.sub l (i + 1) (String.length l - i - 1)))
    | _ -> acc) None lines

let run_c06 inp obs : string option * string option =
  match inp, obs with
  | _, ["panic"] -> (Some "the server panicked", None)
  | ["C06"; tr; shape; codec; gz; limit; cl; body; _sched; eofwd; out; code; sent; ztab],
    [hseq; hend; bad; oc; trace; hstatus; gstatus; sframes; mc; respbody; rztab; _ct; senderr] ->
    let fail s = (Some s, None) in
    if oc <> "1" then fail "a message the handler received is not what the codec makes of the frame it was given" else
    if mc <> "1" then fail "the frames marshalled for the replies do not decode to the handler's replies" else
    let gz = (gz = "1") and limit_i = int_of_string limit in
    let limit = nat_of_int limit_i in
    let bodyb = bytes_of_hex body in
    let is_http = (tr = "http") in
    let text = (tr = "webtext" || tr = "webtext2") in
    let c = codec_of shape codec in
    let streaming_client = (shape = "bidi" || shape = "client" || shape = "up") in
    let server_stream = (shape = "bidi" || shape = "server" || shape = "down") in
    let with_body = not is_http || cl = "u" || bodyb <> [] in
    let valid m = not (bad <> "-" && m = bytes_of_hex bad) in
    let zt = table ztab in
    let gunzip = if gz then Some (fun p -> Stdlib.List.assoc_opt p zt) else None in
    let got = split_on ',' hseq in
    let got_frames = Stdlib.List.filter_map (fun h -> if h = "P" then None else Some (bytes_of_hex h)) got in
    (* ---- what the pure parser says the handler must see ---- *)
    let (l, tail) = if text then StreamSpec.web_text_decode bodyb else (bodyb, StreamSpec.TClean) in
    let (want, wend) =
      if is_http then
        if not with_body then (["P"], Frames.SClean)
        else if streaming_client then
          let (ms, e) = StreamSpec.http_stream (fuel_for l) c limit valid l in (Stdlib.List.map hex_of_bytes ms, e)
        else
          let (ms, e) = StreamSpec.single_request limit valid l in (Stdlib.List.map hex_of_bytes ms, e)
      else
        let (ms, e) = StreamSpec.grpc_stream (fuel_for l) limit gunzip valid tail l in (Stdlib.List.map hex_of_bytes ms, e) in
    if hend = "nocall" then fail (Printf.sprintf "the call was refused before the handler ran (HTTP %s)" hstatus) else
    (* on gRPC the class of a framing error is not part of the claim (a cut inside the 5-byte header is
       reported as a Canceled status): clean end versus error is *)
    let same_end = if is_http then send_name wend = hend else (wend = Frames.SClean) = (hend = "eof") in
    if seq_str want <> hseq || not same_end then
      fail (Printf.sprintf "the handler received [%s] ending in %s; the stream parses to [%s] ending in %s" hseq hend (seq_str want) (send_name wend)) else
    (* ---- equality with what the client sent ---- *)
    let e_obs = send_of_name hend in
    let sent_fail =
      if sent = "?" then None
      else if sent.[0] = '=' then
        let s = hexs_of (String.sub sent 1 (String.length sent - 1)) in
        if StreamSpec.delivered_ok s got_frames e_obs then None
        else Some (Printf.sprintf "the client sent [%s] and ended the stream; the handler received [%s] ending in %s" (string_of_hexs s) hseq hend)
      else
        (match String.split_on_char ':' (String.sub sent 1 (String.length sent - 1)) with
         | [fs; j] ->
           let s = hexs_of fs in
           if StreamSpec.truncated_ok s (nat_of_int (int_of_string j)) got_frames e_obs then None
           else Some (Printf.sprintf "the body was cut inside message %s of [%s]; the handler received [%s] ending in %s" j fs hseq hend)
         | _ -> Some "bad sent field") in
    if sent_fail <> None then (sent_fail, None) else
    if is_http && shape = "up" && with_body && not (StreamSpec.chunks_ok limit l got_frames e_obs) then
      fail (Printf.sprintf "upload chunks [%s] ending in %s are not the upload cut every %d bytes" hseq hend limit_i) else
    (* ---- what the client got ---- *)
    let sf = hexs_of sframes and rb = bytes_of_hex respbody and outs = hexs_of out in
    let rz = table rztab in
    let clean = (hend = "eof" && senderr = "none") in
    let payload_ok want_flag (flag, p) f =
      let fl = int_of_n flag in
      fl = want_flag && (if fl = 1 then Stdlib.List.assoc_opt p rz = Some f else p = f) in
    let frames_ok fs = len fs = len sf && Stdlib.List.for_all2 (payload_ok (if gz then 1 else 0)) fs sf in
    let resp_fail =
      if not clean then
        (if is_http then (if hstatus = "200" && sf = [] then Some "the stream failed but the client got a plain 200" else None)
         else if gstatus = "none" || gstatus = "0" then Some (Printf.sprintf "the stream ended in %s at the handler but the client got grpc-status %s" hend gstatus)
         else None)
      else if is_http then
        if hstatus <> "200" then Some ("HTTP status " ^ hstatus ^ " for a call that succeeded")
        else if shape = "down" then (if rb = Stdlib.List.concat outs then None else Some "the downloaded bytes are not the handler's chunks in order")
        else if not server_stream then (if rb = Stdlib.List.concat sf then None else Some "the response body is not the marshalled reply")
        else
          let (ms, e) = Frames.parse_all (fuel_for rb) (codec_of "" codec) (nat_of_int (len rb + 1)) rb in
          if ms = sf && e = Frames.SClean then None
          else Some (Printf.sprintf "the response body parses to [%s] ending in %s; the handler sent [%s]" (string_of_hexs ms) (send_name e) sframes)
      else if hstatus <> "200" then Some ("HTTP status " ^ hstatus)
      else if tr = "grpc" then
        (match StreamSpec.parse_grpc_resp (fuel_for rb) rb with
         | Some fs when frames_ok fs -> if gstatus = code then None else Some (Printf.sprintf "grpc-status %s, the handler returned %s" gstatus code)
         | Some _ -> Some "the reply frames are not the handler's replies in order"
         | None -> Some "the response body is not a sequence of gRPC frames")
      else
        let raw = if text then B64.b64_decode false true rb else Some rb in
        (match raw with
         | None -> Some "the text-mode response body is not one base64 stream"
         | Some [] -> if sf <> [] then Some "replies were lost: empty body"
                      else if gstatus = code then None else Some (Printf.sprintf "trailers-only response with grpc-status %s, the handler returned %s" gstatus code)
         | Some raw ->
           (match StreamSpec.parse_web_resp (fuel_for raw) raw with
            | Some (fs, tb) when frames_ok fs ->
              (match trailer_status (bytes_str tb) with
               | Some st when st = code -> None
               | Some st -> Some (Printf.sprintf "trailer frame carries grpc-status %s, the handler returned %s" st code)
               | None -> Some "the trailer frame carries no grpc-status")
            | Some _ -> Some "the reply frames are not the handler's replies in order"
            | None -> Some "the response body is not data frames followed by exactly one trailer frame")) in
    if resp_fail <> None then (resp_fail, None) else
    (* ---- the extracted model of the code, run on the schedule the reader actually served ---- *)
    let sch = nats_of trace and eofwd = (eofwd = "1") in
    let (mseq, mend) =
      if is_http then
        let cf = { StreamHTTP.hcodec = c; hlimit = limit; streamingClient = streaming_client; withBody = with_body } in
        let st = StreamHTTP.hst0 { Reader.rem = l; sched = sch; eofWithData = eofwd } in
        let (ms, e) = StreamHTTP.http_recv_all (fuel_for l) cf valid st in
        (Stdlib.List.map (function StreamHTTP.RFrame b -> hex_of_bytes b | StreamHTTP.RParams -> "P") ms, e)
      else
        let x = GrpcFrame.web_src text bodyb sch eofwd in
        let (ms, e) = GrpcFrame.grpc_recv_all (fuel_for l) limit gunzip valid x in
        (Stdlib.List.map hex_of_bytes ms, e) in
    (* gRPC: io.ErrUnexpectedEOF and the errors of the decompressor / base64 decoder are one class *)
    let norm e = if not is_http && (e = "ueof" || e = "other") then "err" else e in
    let m1 = if seq_str mseq = hseq && norm (rend_name mend) = norm hend then None
      else Some (Printf.sprintf "model predicts the handler receives [%s] ending in %s, implementation gave [%s] ending in %s" (seq_str mseq) (rend_name mend) hseq hend) in
    let m2 =
      if not clean then None
      else if is_http then
        let want = if shape = "down" then StreamHTTP.http_send Frames.CBody true outs
          else StreamHTTP.http_send (codec_of "" codec) server_stream sf in
        if want = rb then None else Some (Printf.sprintf "model predicts response body %s, implementation wrote %s" (hex_of_bytes want) respbody)
      else
        let inv = Stdlib.List.map (fun (a, b) -> (b, a)) rz in
        let gzip = if gz then Some (fun m -> match Stdlib.List.assoc_opt m inv with Some z -> z | None -> []) else None in
        let want =
          if tr = "grpc" then GrpcFrame.grpc_send gzip sf
          else
            let raw = if text then (match B64.b64_decode false true rb with Some r -> r | None -> []) else rb in
            let tb = match StreamSpec.parse_web_resp (fuel_for raw) raw with Some (_, tb) -> tb | None -> [] in
            GrpcFrame.web_resp text gzip sf (sf <> []) tb in
        if want = rb then None else Some (Printf.sprintf "model predicts response body %s, implementation wrote %s" (hex_of_bytes want) respbody) in
    (None, (match m1 with Some _ -> m1 | None -> m2))
  | _ -> (Some "unparsable C06 case", None)

let run_ws inp obs : string option * string option =
  match inp, obs with
  | ["C06W"; _shape; texts; fin; recvn; out; code], [htexts; hend; ctexts; ccodes; junk] ->
    let fail s = (Some s, None) in
    let texts_l = hexs_of texts in
    let recvn = int_of_string recvn in
    let norm e = if String.length e > 6 && String.sub e 0 6 = "closed" then "other" else e in
    if fin = "none" then begin
      let want = Stdlib.List.filteri (fun i _ -> i < recvn) texts_l in
      if hexs_of htexts <> want || hend <> "none" then fail (Printf.sprintf "the handler received [%s] (%s); the client sent [%s]" htexts hend texts)
      else
        let wcode = match Status.ws_status_code (z_of_string code) with GoSem.Ok z -> int_of_z z | _ -> -1 in
        if junk <> "0" then fail "frames that are not whole data frames before the close frame, or frames after it"
        else if ctexts <> out then fail (Printf.sprintf "the client received [%s]; the handler sent [%s]" ctexts out)
        else if ints_of ccodes <> [wcode] then fail (Printf.sprintf "close frames [%s]; expected exactly one with status %d" ccodes wcode)
        else
          let evs = GrpcFrame.ws_send (hexs_of out) (n_of_int wcode) in
          let got = Stdlib.List.map (fun m -> StreamSpec.WData m) (hexs_of ctexts) @ Stdlib.List.map (fun c -> StreamSpec.WClose (n_of_int c)) (ints_of ccodes) in
          (None, if evs = got then None else Some "model predicts other frames from the server")
    end else begin
      if hexs_of htexts <> texts_l then fail (Printf.sprintf "the handler received [%s]; the client sent [%s]" htexts texts)
      else if fin = "c1000" && hend <> "eof" then fail (Printf.sprintf "a normal close by the client reached the handler as %s, not as the end of the stream" hend)
      else if fin <> "c1000" && hend = "eof" then fail (Printf.sprintf "the client's stream ended with %s and the handler saw a clean end of stream" fin)
      else
        let ev = if fin = "abort" then StreamSpec.WAbort
          else if fin = "c0" then StreamSpec.WClose (n_of_int 1005)
          else StreamSpec.WClose (n_of_int (int_of_string (String.sub fin 1 (String.length fin - 1)))) in
        let (ms, e) = GrpcFrame.ws_recv_all (fun _ -> true) (Stdlib.List.map (fun m -> StreamSpec.WData m) texts_l @ [ev]) in
        (None, if ms = hexs_of htexts && rend_name e = norm hend then None
               else Some (Printf.sprintf "model predicts [%s] ending in %s, implementation gave [%s] ending in %s" (string_of_hexs ms) (rend_name e) htexts hend))
    end
  | ("C06W" :: _), [what] -> (Some ("WebSocket exchange failed: " ^ what), None)
  | _ -> (Some "unparsable C06W case", None)

let run inp obs = match inp with "C06W" :: _ -> run_ws inp obs | _ -> run_c06 inp obs

(* C06Z: an HTTP client stream whose gzip body is damaged after the last complete message *)
let run_z inp obs : string option * string option =
  match inp, obs with
  | _, ["panic"] -> (Some "the server panicked", None)
  | ["C06Z"; codec; damage; n], [texts; hend; status] ->
    let n = int_of_string n in
    let want = Stdlib.List.init n (fun i -> Printf.sprintf "message-%d-%s" i (String.make (i * 7) 'x')) in
    let got = if texts = "-" then [] else Stdlib.List.map (fun h -> bytes_str (bytes_of_hex h)) (split_on ',' texts) in
    let rec is_prefix a b = match a, b with [], _ -> true | x :: a', y :: b' -> x = y && is_prefix a' b' | _ -> false in
    let what = Printf.sprintf "HTTP client stream, Content-Encoding gzip (%s, damage %s): the handler received %d of %d messages, the stream ended with %s, HTTP %s" codec damage (Stdlib.List.length got) n hend status in
    if not (is_prefix got want) then (Some ("messages that were not sent or out of order: " ^ what), None)
    else if damage = "none" then
      (if got = want && hend = "eof" && status = "200" then (None, None) else (Some ("an intact stream was not delivered completely: " ^ what), None))
    else if hend = "eof" then (Some ("a body the client did not complete ended like a complete one: " ^ what), None)
    else if status = "200" then (Some ("a damaged body was answered 200: " ^ what), None)
    else (None, None)
  | _ -> (Some "unparsable C06Z case", None)
let () = Evalreg.register "C06" run; Evalreg.register "C06Z" run_z
