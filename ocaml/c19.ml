open Util
(* C19: selector trie, service-config rules through the Mux with the annotation twin, healthz *)
module L = Stdlib.List

let show s = Printf.sprintf "%S" (bytes_str s)
let model_select (sels : BinNums.coq_N list list) name : string =
  let rules = L.mapi (fun i s -> (i, s)) sels in
  match Selector.select snd rules name with
  | GoSem.Ok l -> if l = [] then "-" else String.concat "," (L.map (fun (i, _) -> string_of_int i) l)
  | GoSem.Panic _ -> "panic"
  | GoSem.Err _ -> "err"
  | GoSem.OutOfFuel -> "outoffuel"
let model_bound sels name : int list =
  let rules = L.mapi (fun i s -> (i, s)) sels in
  match Selector.select snd rules name with
  | GoSem.Ok l -> L.sort_uniq compare (L.map fst l)
  | _ -> [-1]

let count x l = L.length (L.filter (fun y -> y = x) l)
let starts_with p s = String.length s >= String.length p && String.sub s 0 (String.length p) = p

(* judge one rule token (parts joined by '+') against "must be answered by meth" / "must not answer" *)
let judge_token ~covered ~meth tok : string option =
  let parts = String.split_on_char '+' tok in
  if covered then
    if L.for_all (fun p -> starts_with (hex_of_bytes meth ^ ":") p) parts then None
    else Some (Printf.sprintf "is not answered by the method %s it selects (saw %s)" (show meth) tok)
  else if L.for_all (fun p -> p = "s404") parts then None
  else Some (Printf.sprintf "answers for method %s which it does not select (saw %s)" (show meth) tok)
let token_bound tok = L.exists (fun p -> String.length p > 0 && p.[0] = 'x') (String.split_on_char '+' tok)
(* shape 4 = a rule on the verb and path of the method's own annotation (POST /c19/own) without a body
   mapping; its request carries the JSON body {"text":"posted4"}: when the own annotation (body "*")
   answers, that text is in the message, when the config rule answers it is not *)
let contains_sub s sub =
  let n = String.length s and m = String.length sub in
  let rec go i = i + m <= n && (String.sub s i m = sub || go (i + 1)) in go 0
let clash_bound tok = token_bound tok && not (contains_sub tok "706f7374656434")
let judge_clash ~covered ~meth tok : string option =
  if not (starts_with (hex_of_bytes meth ^ ":") tok) then
    Some (Printf.sprintf "(same verb and path as the own annotation of %s) is not answered by that method (saw %s)" (show meth) tok)
  else if covered && not (clash_bound tok) then
    Some (Printf.sprintf "selects %s and shares verb and path with its own annotation, but the annotation's body mapping answers instead of the rule's (saw %s)" (show meth) tok)
  else if (not covered) && clash_bound tok then
    Some (Printf.sprintf "does not select %s but its body mapping answers on the path of the method's own annotation (saw %s)" (show meth) tok)
  else None

let run inp obs : string option * string option =
  match inp, obs with
  | ["C19S"; sels; name], [o] ->
    let sels = hexs_of sels and name = bytes_of_hex name in
    let all_wf = L.for_all SelectorSpec.wf_sel sels in
    let spec =
      if o = "panic" then (if all_wf then Some "setRules/getRules panicked on well-formed selectors" else None)
      else if not (SelectorSpec.wf_name name) then None
      else begin
        let idx = ints_of o in
        if L.exists (fun i -> i < 0 || i >= L.length sels) idx then Some "getRules returned a rule that was never set" else
        L.find_map (fun (i, s) ->
            if not (SelectorSpec.wf_sel s) then None else
            let c = count i idx and cov = SelectorSpec.covers_b s name in
            if cov && c = 0 then Some (Printf.sprintf "selector %s covers %s but its rule is not returned" (show s) (show name))
            else if cov && c > 1 then Some (Printf.sprintf "the rule with selector %s is returned %d times for %s" (show s) c (show name))
            else if (not cov) && c > 0 then Some (Printf.sprintf "selector %s does not cover %s but its rule is returned" (show s) (show name))
            else None) (L.mapi (fun i s -> (i, s)) sels)
      end in
    (match spec with
     | Some e -> (Some e, None)
     | None ->
       let want = model_select sels name in
       if want = o then (None, None)
       else (None, Some (Printf.sprintf "model of setRules/getRules predicts [%s], implementation returned [%s]" want o)))
  | "C19M" :: _, ["config-modified"] ->
    (Some "building a mux from two ServiceConfigOption values modified the configuration object it was handed: a later mux built from that configuration alone binds rules it was never given", None)
  | "C19M" :: rules :: methods :: rest, obs ->
    let own = (rest = ["own"]) in
    let rules = L.map (fun f -> match String.split_on_char '@' f with
        | [h; sh] -> (bytes_of_hex h, int_of_string sh) | _ -> failwith "rule") (split_on ',' rules) in
    let sels = L.map fst rules in
    let shapes = L.map snd rules in
    let methods = hexs_of methods in
    if L.length obs <> L.length methods then (Some "unparsable C19M observation", None) else
    let res = L.map2 (fun meth o ->
        match String.split_on_char '|' o with
        | [cfg; ann] ->
          let unbindable = L.exists (fun (s, sh) -> sh = 5 && SelectorSpec.covers_b s meth) rules in
          if unbindable then
            (if cfg = "panic" then (Some (Printf.sprintf "registering %s with the service config panicked" (show meth)), None)
             else if cfg <> "regerr" then
               (Some (Printf.sprintf "a config rule that selects %s cannot be bound to it (unknown field), yet the registration succeeded (the same rule as annotation: %s)" (show meth) ann), None)
             else (None, None))
          else
          if cfg = "panic" then (Some (Printf.sprintf "registering %s with the service config panicked" (show meth)), None)
          else if cfg = "regerr" then (Some (Printf.sprintf "registering %s with the service config failed" (show meth)), None)
          else begin
            let toks = if cfg = "-" then [] else String.split_on_char '/' cfg in
            if L.length toks <> L.length rules + (if own then 1 else 0) then (Some "unparsable C19M tokens", None) else
            let own_tok = if own then Some (L.nth toks (L.length rules)) else None in
            let toks = L.filteri (fun i _ -> i < L.length rules) toks in
            let spec = match own_tok with
              | Some t when judge_token ~covered:true ~meth t <> None ->
                Some (Printf.sprintf "the own annotation of %s stopped working beside the service config (saw %s)" (show meth) t)
              | _ -> None in
            let spec = if spec <> None then spec else L.find_map (fun ((i, s), tok) ->
                match (if own && L.nth shapes i = 4 then judge_clash else judge_token) ~covered:(SelectorSpec.covers_b s meth) ~meth tok with
                | Some e -> Some (Printf.sprintf "config rule %d with selector %s %s" i (show s) e)
                | None -> None) (L.combine (L.mapi (fun i s -> (i, s)) sels) toks) in
            match spec with
            | Some e -> (Some e, None)
            | None ->
              if cfg <> ann then (Some (Printf.sprintf "for %s the config rules behave as [%s], the same rules as annotation as [%s]" (show meth) cfg ann), None)
              else
                let seen = L.filter_map (fun (i, t) -> if (if own && L.nth shapes i = 4 then clash_bound t else token_bound t) then Some i else None) (L.mapi (fun i t -> (i, t)) toks) in
                let want = model_bound sels meth in
                if seen = want then (None, None)
                else (None, Some (Printf.sprintf "model binds rules [%s] to %s, implementation [%s]"
                                    (String.concat "," (L.map string_of_int want)) (show meth) (String.concat "," (L.map string_of_int seen))))
          end
        | _ -> (Some "unparsable C19M observation", None)) methods obs in
    (match L.find_opt (fun (s, _) -> s <> None) res with
     | Some r -> r
     | None -> (match L.find_opt (fun (_, m) -> m <> None) res with Some r -> r | None -> (None, None)))
  | ["C19H"; extra; _sets; _query], [got; want] ->
    let extra = hexs_of extra in
    (match String.split_on_char '/' got with
     | [] -> (Some "unparsable C19H observation", None)
     | ans :: ex ->
       if ans = "panic" then (Some "healthz: the server panicked", None)
       else if ans = "regerr" || ans = "muxerr" then (Some "healthz: registering the health service with AddHealthz's configuration failed", None)
       else if ans <> want then (Some (Printf.sprintf "GET /v1/healthz answered %s, the health server itself %s" ans want), None)
       else if L.length ex <> L.length extra then (Some "unparsable C19H observation", None)
       else
         let spec = L.find_map (fun (s, t) ->
             let cov = SelectorSpec.covers_b s Selector.healthz_check in
             if SelectorSpec.covers_b s Selector.healthz_watch then None (* not generated: streaming method *)
             else if cov && t <> "s200" then Some (Printf.sprintf "config rule with selector %s is not served by Health.Check (%s)" (show s) t)
             else if (not cov) && t <> "s404" then Some (Printf.sprintf "config rule with selector %s does not select a health method but its path answers %s" (show s) t)
             else None) (L.combine extra ex) in
         match spec with
         | Some e -> (Some e, None)
         | None ->
           (* model: the rules bound to Health.Check are AddHealthz's first rule and the covering extras *)
           let sels = extra @ [Selector.healthz_check; Selector.healthz_watch] in
           let want_b = model_bound sels Selector.healthz_check in
           let seen = (L.filter_map (fun (i, t) -> if t = "s200" then Some i else None) (L.mapi (fun i t -> (i, t)) ex)) @ [L.length extra] in
           if want_b = seen then (None, None)
           else (None, Some "model and implementation bind different rules to Health.Check"))
  | ["C19W"; _sets; name; _then], [got; want] ->
    if got = want then (None, None)
    else (Some (Printf.sprintf "websocket /v1/healthz for service %s reported statuses [%s], the health server's Watch [%s]" (show (bytes_of_hex name)) got want), None)
  | _ -> (Some "unparsable C19 case", None)
let () = Evalreg.register "C19" run
