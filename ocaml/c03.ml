(* C03: transcoded request reconstruction.  Specification: the handler's message is exactly the
   message the client split (expect M:<tree>), text that is invalid for its field is refused
   (expect E); the tie compares with the extracted model in every case. *)
open Util
module L = Stdlib.List
open Model03

let run inp obs : string option * string option =
  match inp, obs with
  | ["C03"; schema; rule; caps; query; body; oracles; expect], [o] ->
    let c = parse_case schema rule caps query body oracles in
    let got = parse_obs o in
    let spec =
      if got = RPanic then Some "the server panicked" else
      if expect = "E" then
        (match got with ROk m -> Some ("text that is not valid for its field was accepted; the handler received " ^ string_of_tree m) | _ -> None)
      else if expect = "?" then None
      else if String.length expect >= 2 && String.sub expect 0 2 = "M:" then
        let want = canon (tree_of_string (String.sub expect 2 (String.length expect - 2))) in
        (match got with
         | ROk m when m = want -> None
         | ROk m -> Some (Printf.sprintf "the handler received %s, the client sent %s" (string_of_tree m) (string_of_tree want))
         | r -> Some (Printf.sprintf "an expressible message was refused (%s)" (string_of_result r)))
      else Some "bad expectation" in
    (match spec with
     | Some e -> (Some e, None)
     | None -> (None, tie c got))
  | _ -> (Some "unparsable C03 case", None)
let () = Evalreg.register "C03" run
