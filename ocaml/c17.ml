open Util

let codec_of = function "p" -> Frames.CProto | "j" -> Frames.CJSON | "b" -> Frames.CBody | s -> failwith s

let string_of_send = function
  | Frames.SClean -> "clean" | Frames.SErr e -> string_of_err e | Frames.SFuel -> "fuel"

(* returns (spec verdict, model verdict) *)
let run inp obs : string option * string option =
  match inp, obs with
  | ["C17"; c; limit; carry; data; _sched; _e], [dst; n; ecls; unread; _trace] ->
    if ecls = "panic" then (Some "implementation panicked", None) else
    let c = codec_of c and limit = nat_of_int (int_of_string limit) in
    let l = bytes_of_hex carry @ bytes_of_hex data in
    let o = { Frames.o_dst = bytes_of_hex dst; o_n = z_of_string n; o_err = err_of_string ecls } in
    let spec = if Frames.obs_ok c limit l (bytes_of_hex unread) o then None
      else Some (Printf.sprintf "ReadNext result (n=%s err=%s) is not what the pure parser says for this stream" n ecls) in
    (spec, Model17.call inp obs)
  | "C17S" :: c :: limit :: data :: _sched :: _e :: _, [msgs; fin] ->
    let c = codec_of c and limit = nat_of_int (int_of_string limit) in
    let l = bytes_of_hex data in
    let (ms, e) = Frames.parse_all (nat_of_int (Stdlib.List.length l + 2)) c limit l in
    let want = string_of_hexs ms ^ " " ^ string_of_send e in
    let got = msgs ^ " " ^ fin in
    let spec = if want = got then None else Some (Printf.sprintf "sequence: implementation gave [%s], the parser gives [%s]" got want) in
    (spec, Model17.seq inp obs)
  | _ -> (Some "unparsable C17 case", None)
let () = Evalreg.register "C17" run
