open Util

let codec_of = function "p" -> Frames.CProto | "j" -> Frames.CJSON | "b" -> Frames.CBody | s -> failwith s

let string_of_send = function
  | Frames.SClean -> "clean" | Frames.SErr e -> string_of_err e | Frames.SFuel -> "fuel"

(* returns (spec verdict, model verdict) *)
let run inp obs : string option * string option =
  match inp, obs with
  | ["C17"; c; limit; carry; data; _sched; _e], [dst; n; ecls; unread; _trace] ->
    if ecls = "panic" then (Some "implementation panicked", None) else
    let c = codec_of c and limit = nat_of_int (int_of_string limit) in
    let l = bytes_of_hex carry @ bytes_of_hex data in
    let o = { Frames.o_dst = bytes_of_hex dst; o_n = z_of_string n; o_err = err_of_string ecls } in
    let spec = if Frames.obs_ok c limit l (bytes_of_hex unread) o then None
      else Some (Printf.sprintf "ReadNext result (n=%s err=%s) is not what the pure parser says for this stream" n ecls) in
    (spec, Model17.call inp obs)
  | "C17S" :: c :: limit :: data :: _sched :: _e :: _, [msgs; fin] ->
    let c = codec_of c and limit = nat_of_int (int_of_string limit) in
    let l = bytes_of_hex data in
    let (ms, e) = Frames.parse_all (nat_of_int (Stdlib.List.length l + 2)) c limit l in
    let want = string_of_hexs ms ^ " " ^ string_of_send e in
    let got = msgs ^ " " ^ fin in
    let spec = if want = got then None else Some (Printf.sprintf "sequence: implementation gave [%s], the parser gives [%s]" got want) in
    (spec, Model17.seq inp obs)
  | ["C17W"; c; size; fill; fail_at], [written; st] ->
    let c = codec_of c and size = int_of_string size and fill = int_of_string fill in
    let msg = Stdlib.List.init size (fun i -> n_of_int ((fill + i) land 255)) in
    let w = bytes_of_hex written in
    let frame = Codec.write_next c msg in
    if st = "panic" then (Some "WriteNext panicked", None)
    else if st = "clobbered" then (Some "WriteNext modified the caller's message", None)
    else if fail_at <> "0" then
      ((if st = "err" || w = frame then None
        else Some "the writer refused a Write, WriteNext returned nil and the frame is incomplete"), None)
    else begin
      let spec =
        if st <> "nil" then Some "WriteNext failed on a writer that accepts everything"
        else match c with
          | Frames.CProto ->
            let (ms, e) = Frames.parse_all (nat_of_int 4) c (nat_of_int (size + 1)) w in
            if ms = [msg] && e = Frames.SClean then None
            else Some (Printf.sprintf "the frame written for a %d-byte message does not read back as that message" size)
          | _ -> if w = msg then None else Some (Printf.sprintf "the bytes written for a %d-byte message are not the message" size) in
      (spec, if w = frame then None else Some "model predicts another frame")
    end
  | _ -> (Some "unparsable C17 case", None)
let () = Evalreg.register "C17" run
