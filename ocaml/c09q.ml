(* C09Q: histories of requests on one mux (one goroutine, one P): no request of the history may crash or wedge the server *)
let run inp obs : string option * string option =
  match inp, obs with
  | ["C09Q"; _cfg; steps], [toks] ->
    let steps = String.split_on_char ',' steps and toks = String.split_on_char ',' toks in
    let rec go i ss ts =
      match ss, ts with
      | _, t :: _ when String.length t >= 5 && String.sub t 0 5 = "panic" ->
        Some (Printf.sprintf "request %d of the history (%s) crashed the server: %s" (i + 1) (match ss with s :: _ -> s | [] -> "?") t)
      | _, "hang" :: _ -> Some (Printf.sprintf "the history did not finish: stuck at request %d (%s)" (i + 1) (match ss with s :: _ -> s | [] -> "?"))
      | _ :: ss', _ :: ts' -> go (i + 1) ss' ts'
      | [], [] -> None
      | _ -> Some "unparsable C09Q observation" in
    (go 0 steps toks, None)
  | _ -> (Some "unparsable C09Q case", None)
let () = Evalreg.register "C09Q" run
