open Util
(* C13 evaluator.
   C13G: the gzip request-reader pool; the model is Pools.grun (the fixed compress.go), the
         specification is echo equality: a reader yields its own payload or nothing, never
         another request's bytes, never an error.
   C13M: request A must receive its own body although request B started in between.
   C13S: the concurrent echo stress must report no mismatch. *)
let gop_of s =
  let r = nat_of_int (int_of_string (String.sub s 1 (String.length s - 1))) in
  match s.[0] with
  | 'o' -> Pools.GOpen r
  | 'a' -> Pools.GReadAll r
  | _ -> Pools.GReadMore r

let show_gobs = function Pools.GNone -> "n" | Pools.GOwn -> "own" | Pools.GEof -> "eof"

let starts p s = String.length s >= String.length p && String.sub s 0 (String.length p) = p

let text_of_hex h = try bytes_str (bytes_of_hex h) with _ -> h

let run inp obs : string option * string option =
  match inp, obs with
  | ["C13G"; ops], [o] ->
    let ops = split_on ',' ops and got = split_on ',' o in
    let bad = Stdlib.List.find_opt (fun (_, g) -> starts "other:" g || g = "err" || g = "panic")
        (try Stdlib.List.combine ops got with _ -> [("?", "panic")]) in
    (match bad with
     | Some (op, g) ->
       let what = if starts "other:" g then Printf.sprintf "read bytes that are not its payload: %S"
             (text_of_hex ("x" ^ String.sub g 6 (String.length g - 6))) else g in
       (Some (Printf.sprintf "gzip reader pool: operation %s %s (a reader obtained from Decompress must yield its own request's bytes only)" op what), None)
     | None ->
       let want = Stdlib.List.map show_gobs (Pools.grun Pools.g_init (Stdlib.List.map gop_of ops)) in
       if want = got then (None, None)
       else (None, Some (Printf.sprintf "model of the reader pool predicts %s, implementation did %s" (String.concat "," want) (String.concat "," got))))
  | ["C13M"; codec], [o] ->
    if o = "own" then (None, None)
    else (Some (Printf.sprintf "HTTP client-streaming upload (%s, gzip body): the handler of request A received %s instead of its own body after request B started" codec
                  (if o = "other-request" then "request B's message" else o)), None)
  | ["C13B"; variant], [o] ->
    if o = "own" then (None, None)
    else (Some (Printf.sprintf "gRPC unary calls with gzip frames, one after the other (first call: %s): the second call %s" variant
                  (if o = "other-request" then "received the first call's message"
                   else if starts "handler-saw-other:" o then "reached its handler with a message that is not its own: " ^ text_of_hex ("x" ^ String.sub o 18 (String.length o - 18))
                   else o)), None)
  | "C13S" :: kind :: _, res :: rest ->
    if res = "ok" then (None, None)
    else
      let sample = match rest with _ :: h :: _ -> text_of_hex h | _ -> "" in
      (Some (Printf.sprintf "concurrent %s requests: per-request echo equality failed (%s): %s" kind (String.concat " " (res :: (match rest with n :: _ -> [n] | [] -> []))) sample), None)
  | _ -> (Some "unparsable C13 case", None)

let () = Evalreg.register "C13" run
