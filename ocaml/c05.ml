open Util
(* C05 <proto> <code> <msg hex> <details> <k> <shape> ; protocol-specific observation *)

let u32 s = let z = z_of_string s in z
let ok_z = function GoSem.Ok z -> Some z | _ -> None

let find_sub s sub =
  let n = String.length s and m = String.length sub in
  let rec go i = if i + m > n then None else if String.sub s i m = sub then Some i else go (i + 1) in go 0

(* parse "key: value\r\n" lines of a gRPC-web trailer block *)
let trailer_fields (block : string) : (string * string) list =
  let lines = Str.split (Str.regexp_string "\r\n") block in
  Stdlib.List.filter_map (fun l ->
    match find_sub l ": " with
    | Some i -> Some (String.lowercase_ascii (String.sub l 0 i), String.sub l (i + 2) (String.length l - i - 2))
    | None -> (match find_sub l ":" with Some i -> Some (String.lowercase_ascii (String.sub l 0 i), String.sub l (i + 1) (String.length l - i - 1)) | None -> None)) lines

let printable l = Stdlib.List.for_all (fun b -> let v = int_of_n b in v >= 32 && v <= 126) l

(* optional whitespace around a header field value is not part of the value (RFC 7230) *)
let trim_ows l =
  let is_sp b = (int_of_n b = 32) in
  let rec dropl = function x :: r when is_sp x -> dropl r | l -> l in
  Stdlib.List.rev (dropl (Stdlib.List.rev (dropl l)))

let judge_grpc_message msg (raw : BinNums.coq_N list option) =
  match raw with
  | None -> if msg = [] then None else Some "grpc-message is missing"
  | Some raw ->
    if not (printable raw) then Some "grpc-message contains bytes outside printable ASCII"
    else if trim_ows (Pct.pct_decode raw) = trim_ows msg then None
    else Some (Printf.sprintf "grpc-message %S decodes to %S, not to the handler's message %S" (bytes_str raw) (bytes_str (Pct.pct_decode raw)) (bytes_str msg))

let run inp obs : string option * string option =
  match inp with
  | ["C05"; proto; code; msg; details; k; _shape] ->
    (* "^<flags>" behind the shape: handler modes (explicit SendHeader first, a detail of an unknown type, its own status after the
       deadline) -- the status the client must be told is the same *)
    let _shape = (match String.index_opt _shape '^' with Some i -> String.sub _shape 0 i | None -> _shape) in
    let codez = z_of_string code and msgb = bytes_of_hex msg and k = int_of_string k and details = (details = "1") in
    let code_i = int_of_string code in
    let is_ok = (code_i = 0) in
    let fail s = (Some s, None) in
    (match obs with
     | ["panic"] -> fail "the server panicked instead of producing a response"
     | _ ->
    (match proto, obs with
     | ("http-json" | "http-proto"), [st; c; m; nd; n; _ct] ->
       let want_status = if is_ok || k > 0 then 200 else (match ok_z (Status.http_status_code codez) with Some z -> int_of_z z | None -> -1) in
       if int_of_string st <> want_status then fail (Printf.sprintf "HTTP status %s, expected %d for code %s" st want_status code)
       else if is_ok then (if int_of_string n = max k 1 || int_of_string n = k then (None, None) else fail "reply count")
       else if c <> string_of_int (code_i land 0xFFFFFFFF) then fail (Printf.sprintf "Status body carries code %s, handler returned %s" c code)
       else if bytes_of_hex m <> msgb then fail "Status body carries a different message"
       else if int_of_string nd <> (if details then 1 else 0) then fail "Status body lost or invented details"
       else if int_of_string n <> k then fail (Printf.sprintf "%s replies decoded before the Status, handler sent %d" n k)
       else (None, None)
     | ("http-json" | "http-proto"), (st :: "undecodable" :: _) -> fail ("response body is not decodable (HTTP " ^ st ^ ")")
     | "twirp", [st; name; m] ->
       if is_ok then (if st = "200" then (None, None) else fail "twirp success not 200")
       else
       let want = Status.twirp_name codez in
       if bytes_of_hex name <> want then fail (Printf.sprintf "Twirp code %S, expected %S" (bytes_str (bytes_of_hex name)) (bytes_str want))
       else if bytes_of_hex m <> msgb then fail "Twirp msg differs from the handler's message"
       else if int_of_string st < 400 && code_i <> 0 then fail "Twirp error answered with a success status"
       else (None, None)
     | "twirp", (st :: "undecodable" :: _) -> fail ("twirp body undecodable (HTTP " ^ st ^ ")")
     | ("grpc" | "grpc-json"), [st; gs; gm; det; n] ->
       if st <> "200" then fail ("gRPC answered HTTP " ^ st)
       else if gs = "none" then fail "no grpc-status reached the client"
       else if bytes_str (bytes_of_hex gs) <> code then fail (Printf.sprintf "grpc-status %s, handler returned %s" (bytes_str (bytes_of_hex gs)) code)
       else (match judge_grpc_message (if is_ok then [] else msgb) (if gm = "none" then None else Some (bytes_of_hex gm)) with
           | Some e -> fail e
           | None when (not is_ok) && msgb <> [] && gm <> hex_of_bytes (Pct.pct_encode msgb) ->
             (None, Some (Printf.sprintf "model of encodeGrpcMessage predicts %s, implementation sent %s" (hex_of_bytes (Pct.pct_encode msgb)) gm))
           | None ->
             if details && not is_ok then
               (let want = Printf.sprintf "%d,%s,1" (code_i land 0xFFFFFFFF) msg in
                if det = want then (if int_of_string n = (if is_ok && k = 0 then 1 else k) then (None, None) else fail "reply frame count") else fail (Printf.sprintf "grpc-status-details-bin decodes to %s, expected %s" det want))
             else if int_of_string n <> (if is_ok && _shape = "unary" then 1 else k) then fail (Printf.sprintf "%s reply frames, handler sent %d" n k)
             else (None, None))
     | ("web" | "web-text"), [st; _ct; body; hgs; hgm; hdet] ->
       if st <> "200" then fail ("gRPC-web answered HTTP " ^ st) else
       (match Status.web_body_frames (proto = "web-text") (bytes_of_hex body) with
        | None -> fail "gRPC-web body does not parse as frames (lost bytes or bad base64)"
        | Some frames ->
          let data = Stdlib.List.filter (fun (f, _) -> int_of_n f land 0x80 = 0) frames
          and trailers = Stdlib.List.filter (fun (f, _) -> int_of_n f land 0x80 <> 0) frames in
          let want_data = if is_ok && _shape = "unary" then 1 else k in
          let judge gs gm det =
            (match gs with
             | None -> fail "no grpc-status reached the gRPC-web client"
             | Some gs when gs <> code -> fail (Printf.sprintf "gRPC-web grpc-status %s, handler returned %s" gs code)
             | Some _ ->
               (match judge_grpc_message (if is_ok then [] else msgb) (Option.map str_bytes gm) with
                | Some e -> fail e
                | None ->
                  if details && not is_ok && det = None then fail "gRPC-web response lost the status details"
                  else (None, None))) in
          if Stdlib.List.length data <> want_data then fail (Printf.sprintf "%d data frames, handler sent %d" (Stdlib.List.length data) want_data)
          else (match trailers, Stdlib.List.rev frames with
            | [(_, t)], ((lf, _) :: _) when int_of_n lf land 0x80 <> 0 ->
              let fields = trailer_fields (bytes_str t) in
              judge (Stdlib.List.assoc_opt "grpc-status" fields) (Stdlib.List.assoc_opt "grpc-message" fields) (Stdlib.List.assoc_opt "grpc-status-details-bin" fields)
            | [], _ when frames = [] ->
              (* trailers-only response: the status travels in the HTTP headers *)
              let h x = if x = "none" then None else Some (bytes_str (bytes_of_hex x)) in
              judge (h hgs) (h hgm) (h hdet)
            | _ -> fail "gRPC-web body does not end in exactly one trailer frame"))
     | "ws", ["close"; wc; reason; n; valid] ->
       let want = match ok_z (Status.ws_status_code codez) with Some z -> int_of_z z | None -> -1 in
       let r = bytes_of_hex reason in
       let lm = Stdlib.List.length msgb and lr = Stdlib.List.length r in
       let is_prefix = lr <= lm && Stdlib.List.filteri (fun i _ -> i < lr) msgb = r in
       if int_of_string wc <> want then fail (Printf.sprintf "close code %s, expected %d for code %s" wc want code)
       else if is_ok then (None, None)
       else if not is_prefix then fail "close reason is not a prefix of the handler's message"
       else if lm <= 123 && lr <> lm then fail "close reason dropped part of a message that fits"
       else if lm > 123 && lr < 120 then fail "close reason cropped more than needed"
       else if valid <> "1" then fail "close reason is not valid UTF-8"
       else if int_of_string n <> k then fail (Printf.sprintf "%s messages before the close frame, handler sent %d" n k)
       else (None, None)
     | "ws", (kind :: _) -> fail ("WebSocket client did not get a well-formed close frame: " ^ kind)
     | _ -> fail "unparsable C05 observation"))
  | _ -> (Some "unparsable C05 case", None)
let () = Evalreg.register "C05" run
