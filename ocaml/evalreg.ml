(* per-property evaluators register themselves under the case-kind prefixes they handle *)
let table : (string * (string list -> string list -> string option * string option)) list ref = ref []
let register (prefix : string) f = table := (prefix, f) :: !table
let find (kind : string) =
  let ok (p, _) = String.length kind >= String.length p && String.sub kind 0 (String.length p) = p in
  (* longest registered prefix wins *)
  let cands = Stdlib.List.filter ok !table in
  match Stdlib.List.sort (fun (a, _) (b, _) -> compare (String.length b) (String.length a)) cands with
  | (_, f) :: _ -> Some f
  | [] -> None
