(* C07: path-bound fields are authoritative.  Specification (independent of the model): in the
   message the handler received, the entries at and under every path-bound field are exactly those
   of the captured value (given by the harness, which chose the value and spelled it). *)
open Util
module L = Stdlib.List
open Model03

let run inp obs : string option * string option =
  match inp, obs with
  | ["C07"; schema; rule; caps; query; body; oracles; expect], [o] ->
    let c = parse_case schema rule caps query body oracles in
    let got = parse_obs o in
    let spec =
      match got with
      | RPanic -> Some "the server panicked"
      | RErr code -> Some (Printf.sprintf "a request whose captures are valid for their fields was refused (%d)" code)
      | ROk m ->
        L.find_map (fun pe ->
            let i = String.index pe '=' in
            let p = L.map n_of_string (String.split_on_char '.' (String.sub pe 0 i)) in
            let want = canon (tree_of_string (String.sub pe (i + 1) (String.length pe - i - 1))) in
            let have = under p m in
            if have = want then None
            else Some (Printf.sprintf "path-bound field %s: the URL path captured %s, the handler received %s"
                         (String.sub pe 0 i) (string_of_tree want) (string_of_tree have)))
          (split_on ',' expect) in
    (match spec with
     | Some e -> (Some e, None)
     | None -> (None, tie c got))
  | ["C07X"; _schema; _rule; _caps; _query; _body; _oracles; expect], [o] ->
    (* the query also carries a key that cannot be applied: refusing the request is fine, but a handler
       that is reached sees the captures in the path-bound fields *)
    (match parse_obs o with
     | RPanic -> (Some "the server panicked", None)
     | RErr _ -> (None, None)
     | ROk m ->
       (L.find_map (fun pe ->
            let i = String.index pe '=' in
            let p = L.map n_of_string (String.split_on_char '.' (String.sub pe 0 i)) in
            let want = canon (tree_of_string (String.sub pe (i + 1) (String.length pe - i - 1))) in
            let have = under p m in
            if have = want then None
            else Some (Printf.sprintf "path-bound field %s (request with an inapplicable query key or a form-encoded body): the URL path captured %s, the handler received %s"
                         (String.sub pe 0 i) (string_of_tree want) (string_of_tree have)))
          (split_on ',' expect), None))
  | _ -> (Some "unparsable C07 case", None)

(* C07W: the path-bound field on a WebSocket call; first message = capture, whatever query and frame say *)
let run_w inp obs : string option * string option =
  match inp, obs with
  | ["C07W"; capture; q; body], [o] ->
    let cap = bytes_str (bytes_of_hex capture) in
    let what = Printf.sprintf "WebSocket /c07w/{user_id} with capture %S, query key %s, competing fields in the first frame %s" cap q body in
    (match String.split_on_char ',' o with
     | [m1; m2] ->
       let f m = match String.split_on_char '/' m with [u; t] -> (bytes_str (bytes_of_hex u), bytes_str (bytes_of_hex t)) | _ -> ("?", "?") in
       let (u1, t1) = f m1 and (u2, t2) = f m2 in
       if u1 <> cap then (Some (Printf.sprintf "%s: the first message reached the handler with user_id %S" what u1), None)
       else if (q <> "text" && t1 <> "one") || t2 <> "two" then   (* a query key naming a field the path does not bind is not this property's subject *) (Some (Printf.sprintf "%s: texts %S, %S" what t1 t2), None)
       else if u2 <> "second-frame" then (Some (Printf.sprintf "%s: the second message carries user_id %S, its frame said \"second-frame\"" what u2), None)
       else (None, None)
     | _ -> (Some (Printf.sprintf "%s: the handler did not receive the two messages (%s)" what o), None))
  | ["C07W"; capture; q; body; lead], [o] ->
    let cap = bytes_str (bytes_of_hex capture) in
    (* "-": no message reached the handler; write-error: the server had already ended the call when the client wrote on *)
    if o = "-" || o = "write-error" then (None, None)
    else if o = "dial-error" || o = "handler-timeout" then
      (Some (Printf.sprintf "WebSocket /c07w/{user_id} after an empty %s frame: %s" (if lead = "B" then "binary" else "text") o), None) else
    (match String.split_on_char ',' o with
     | m1 :: _ ->
       let u1 = match String.split_on_char '/' m1 with [u; _] -> bytes_str (bytes_of_hex u) | _ -> "?" in
       if u1 <> cap then
         (Some (Printf.sprintf "WebSocket /c07w/{user_id} with capture %S, query key %s, competing fields %s, after an empty %s frame: the first message reached the handler with user_id %S"
                  cap q body (if lead = "B" then "binary" else "text") u1), None)
       else (None, None)
     | [] -> (None, None))
  | _ -> (Some "unparsable C07W case", None)
(* C07H: a path variable binding a field inside an HttpBody body: the captured value wins over the Content-Type header *)
let run_h inp obs : string option * string option =
  match inp, obs with
  | ["C07H"; rd; capt; hdr; name], [ct; fn; status] ->
    let what = Printf.sprintf "upload with /c07h/{file.content_type=*/*}/{filename}, capture %S, Content-Type header %S, first message read with %s"
        (bytes_str (bytes_of_hex capt)) (bytes_str (bytes_of_hex hdr)) (if rd = "a" then "AsHTTPBodyReader" else "RecvMsg") in
    if status = "panic" then (Some (what ^ ": the server panicked"), None)
    else if ct = "-" then (None, None)       (* refused before the handler saw a message: not this property's subject *)
    else if ct <> capt then (Some (Printf.sprintf "%s: the handler saw file.content_type %S" what (bytes_str (bytes_of_hex ct))), None)
    else if fn <> name then (Some (Printf.sprintf "%s: the handler saw filename %S" what (bytes_str (bytes_of_hex fn))), None)
    else (None, None)
  | _ -> (Some "unparsable C07H case", None)
let () = Evalreg.register "C07H" run_h
let () = Evalreg.register "C07" run; Evalreg.register "C07X" run; Evalreg.register "C07W" run_w

(* C07I: two requests with one query string, the first held after routing while the second is served *)
let run_i inp obs : string option * string option =
  match inp, obs with
  | ["C07I"; nq; ca; cb], [a1; b1; a2; b2] ->
    let cap s = match String.split_on_char '/' s with u :: _ -> u | [] -> "" in
    let what = Printf.sprintf "GET /c07i/{user_id} with %s query values: request A (capture %s) held after routing while request B (capture %s, same query string) was served: " nq ca cb in
    if a1 = "-" || b1 = "-" || a2 = "-" || b2 = "-" then (Some (what ^ "a handler was not reached (" ^ String.concat " " obs ^ ")"), None)
    else if cap a1 <> ca || cap b1 <> cb then (Some (what ^ "served alone, the path-bound field does not carry the capture (" ^ a1 ^ " " ^ b1 ^ ")"), None)
    else if cap a2 <> ca then (Some (what ^ "A's handler received user_id " ^ cap a2 ^ ", not its own capture"), None)
    else if cap b2 <> cb then (Some (what ^ "B's handler received user_id " ^ cap b2 ^ ", not its own capture"), None)
    else if a2 <> a1 || b2 <> b1 then (Some (what ^ "the messages differ from those of the same requests served alone (" ^ String.concat " " obs ^ ")"), None)
    else (None, None)
  | _ -> (Some "unparsable C07I case", None)
let () = Evalreg.register "C07I" run_i
