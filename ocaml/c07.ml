(* C07: path-bound fields are authoritative.  Specification (independent of the model): in the
   message the handler received, the entries at and under every path-bound field are exactly those
   of the captured value (given by the harness, which chose the value and spelled it). *)
open Util
module L = Stdlib.List
open Model03

let run inp obs : string option * string option =
  match inp, obs with
  | ["C07"; schema; rule; caps; query; body; oracles; expect], [o] ->
    let c = parse_case schema rule caps query body oracles in
    let got = parse_obs o in
    let spec =
      match got with
      | RPanic -> Some "the server panicked"
      | RErr code -> Some (Printf.sprintf "a request whose captures are valid for their fields was refused (%d)" code)
      | ROk m ->
        L.find_map (fun pe ->
            let i = String.index pe '=' in
            let p = L.map n_of_string (String.split_on_char '.' (String.sub pe 0 i)) in
            let want = canon (tree_of_string (String.sub pe (i + 1) (String.length pe - i - 1))) in
            let have = under p m in
            if have = want then None
            else Some (Printf.sprintf "path-bound field %s: the URL path captured %s, the handler received %s"
                         (String.sub pe 0 i) (string_of_tree want) (string_of_tree have)))
          (split_on ',' expect) in
    (match spec with
     | Some e -> (Some e, None)
     | None -> (None, tie c got))
  | _ -> (Some "unparsable C07 case", None)
let () = Evalreg.register "C07" run
