(* conversions between the line protocol and the extracted inductives *)
open Datatypes
open BinNums

let nat_of_int n = let rec go acc k = if k <= 0 then acc else go (S acc) (k - 1) in go O n
let int_of_nat n = let rec go acc = function O -> acc | S m -> go (acc + 1) m in go 0 n

let rec pos_of_int n =
  if n <= 1 then Coq_xH
  else if n land 1 = 0 then Coq_xO (pos_of_int (n lsr 1))
  else Coq_xI (pos_of_int (n lsr 1))
let n_of_int n = if n <= 0 then N0 else Npos (pos_of_int n)
let rec int_of_pos = function Coq_xH -> 1 | Coq_xO p -> 2 * int_of_pos p | Coq_xI p -> 2 * int_of_pos p + 1
let int_of_n = function N0 -> 0 | Npos p -> int_of_pos p
let z_of_int n = if n = 0 then Z0 else if n > 0 then Zpos (pos_of_int n) else Zneg (pos_of_int (- n))
let int_of_z = function Z0 -> 0 | Zpos p -> int_of_pos p | Zneg p -> - (int_of_pos p)

(* arbitrary-size decimal -> Z (values such as -2^63 or 2^64 do not fit an OCaml int) *)
let z_of_string s =
  let neg = String.length s > 0 && s.[0] = '-' in
  let ds = if neg then String.sub s 1 (String.length s - 1) else s in
  let ten = z_of_int 10 in
  let acc = ref Z0 in
  String.iter (fun c -> acc := BinInt.Z.add (BinInt.Z.mul !acc ten) (z_of_int (Char.code c - 48))) ds;
  if neg then BinInt.Z.opp !acc else !acc
let n_of_string s = match z_of_string s with Zpos p -> Npos p | _ -> N0

let hexval c = match c with
  | '0'..'9' -> Char.code c - 48 | 'a'..'f' -> Char.code c - 87 | 'A'..'F' -> Char.code c - 55
  | _ -> failwith "hex"
let bytes_of_hex s =
  if String.length s = 0 || s.[0] <> 'x' then failwith ("bad hex field " ^ s);
  let n = (String.length s - 1) / 2 in
  Stdlib.List.init n (fun i -> n_of_int (hexval s.[1 + 2*i] * 16 + hexval s.[2 + 2*i]))
let hex_of_bytes l =
  let b = Buffer.create 16 in
  Buffer.add_char b 'x';
  Stdlib.List.iter (fun x -> Buffer.add_string b (Printf.sprintf "%02x" (int_of_n x))) l;
  Buffer.contents b
let split_on c s = if s = "-" || s = "" then [] else String.split_on_char c s
let ints_of s = Stdlib.List.map int_of_string (split_on ',' s)
let nats_of s = Stdlib.List.map nat_of_int (ints_of s)
let hexs_of s = Stdlib.List.map bytes_of_hex (split_on ',' s)
let string_of_hexs l = if l = [] then "-" else String.concat "," (Stdlib.List.map hex_of_bytes l)
let fields s = Stdlib.List.filter (fun x -> x <> "") (String.split_on_char ' ' s)
let str_bytes s = Stdlib.List.init (String.length s) (fun i -> n_of_int (Char.code s.[i]))
let bytes_str l = String.concat "" (Stdlib.List.map (fun x -> String.make 1 (Char.chr (int_of_n x land 255))) l)

let err_of_string = function
  | "eof" -> Some GoSem.EEOF | "ueof" -> Some GoSem.EUnexpectedEOF | "large" -> Some GoSem.ETooLarge
  | "varint" -> Some GoSem.EVarint | "unbal" -> Some GoSem.EUnbalanced | "nil" -> None
  | _ -> Some GoSem.EOther
let string_of_err = function
  | GoSem.EEOF -> "eof" | GoSem.EUnexpectedEOF -> "ueof" | GoSem.ETooLarge -> "large"
  | GoSem.EVarint -> "varint" | GoSem.EUnbalanced -> "unbal" | _ -> "other"
