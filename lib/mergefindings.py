#!/usr/bin/env python3
"""mergefindings.py <workspace-id> [<findings-file-id>...]: merge findings/<id>.json of a builder into
KNOWN_FINDINGS.json, translating commit hashes of the builder's branch to the cherry-picked commits in /repo
(matched by subject)."""
import sys, json, subprocess, os
ROOT = os.path.dirname(os.path.dirname(os.path.abspath(__file__)))
ws = sys.argv[1]
ids = sys.argv[2:] or [ws]
def sh(*a): return subprocess.run(a, stdout=subprocess.PIPE, stderr=subprocess.DEVNULL).stdout.decode().strip()
main = {}
for line in sh("git", "-C", "/repo", "log", "--format=%h\t%s").splitlines():
    h, _, s = line.partition("\t"); main.setdefault(s, h)
kf = json.load(open(os.path.join(ROOT, "KNOWN_FINDINGS.json")))
have = {f["id"] for f in kf["findings"]}
for i in ids:
    p = os.path.join(ROOT, "findings", i + ".json")
    if not os.path.exists(p): print("no", p); continue
    for f in json.load(open(p)):
        fid = f["id"] if f["id"].startswith(f.get("property", i)) else "%s-%s" % (f.get("property", i), f["id"])
        f["id"] = fid
        c = f.get("commit")
        if c:
            subj = sh("git", "-C", "/var/tmp/b-%s/repo" % ws, "log", "-1", "--format=%s", c)
            nh = main.get(subj)
            if nh:
                f["commit"] = nh
                if "line" in f: f["line"] = f["line"].replace(c, nh)
            else:
                print("WARNING: commit", c, "(", subj, ") not found in /repo")
        if fid in have:
            kf["findings"] = [f if x["id"] == fid else x for x in kf["findings"]]
        else:
            kf["findings"].append(f)
        print("merged", fid, f.get("status"), f.get("commit", ""))
json.dump(kf, open(os.path.join(ROOT, "KNOWN_FINDINGS.json"), "w"), indent=1)
