module barrierskel

go 1.21
