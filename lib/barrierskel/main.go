// barrierskel: for every struct type of larking/*.go that owns a sync.WaitGroup, emit where that WaitGroup is
// Add-ed to and Wait-ed on and whether those sites follow the discipline that Model/Barrier.v proves safe:
//
//	Add  only after, in the same function, <recv>.mu.Lock() and a test of <recv>.closed that returns;
//	Wait only after, in the same function, <recv>.closed = true between <recv>.mu.Lock() and <recv>.mu.Unlock().
//
// Output: Coq source for coq/theories/Gen/BarrierSkeleton.v on stdout.
package main

import (
	"fmt"
	"go/ast"
	"go/parser"
	"go/token"
	"os"
	"path/filepath"
	"sort"
	"strings"
)

func sel(e ast.Expr) string {
	switch x := e.(type) {
	case *ast.Ident:
		return x.Name
	case *ast.SelectorExpr:
		return sel(x.X) + "." + x.Sel.Name
	case *ast.CallExpr:
		return sel(x.Fun) + "()"
	case *ast.StarExpr:
		return sel(x.X)
	}
	return "?"
}

func codes(s string) string {
	var p []string
	for _, c := range []byte(s) {
		p = append(p, fmt.Sprint(c))
	}
	return "[" + strings.Join(p, ";") + "]"
}

type site struct {
	fn   string
	line int
	ok   bool
}

func main() {
	dir := os.Args[1]
	files, _ := filepath.Glob(filepath.Join(dir, "*.go"))
	sort.Strings(files)
	fset := token.NewFileSet()
	var parsed []*ast.File
	wgField := map[string]string{} // struct type -> name of its sync.WaitGroup field
	for _, f := range files {
		if strings.HasSuffix(f, "_test.go") {
			continue
		}
		src, err := os.ReadFile(f)
		if err != nil {
			panic(err)
		}
		if n := len(src); strings.Contains(string(src[:min(n, 200)]), "//go:build verif") {
			continue
		}
		af, err := parser.ParseFile(fset, f, src, 0)
		if err != nil {
			panic(err)
		}
		parsed = append(parsed, af)
		ast.Inspect(af, func(n ast.Node) bool {
			ts, ok := n.(*ast.TypeSpec)
			if !ok {
				return true
			}
			st, ok := ts.Type.(*ast.StructType)
			if !ok {
				return true
			}
			for _, fl := range st.Fields.List {
				if sel(fl.Type) == "sync.WaitGroup" {
					for _, nm := range fl.Names {
						wgField[ts.Name.Name] = nm.Name
					}
				}
			}
			return true
		})
	}
	adds, waits := map[string][]site{}, map[string][]site{}
	for _, af := range parsed {
		for _, d := range af.Decls {
			fd, ok := d.(*ast.FuncDecl)
			if !ok || fd.Body == nil {
				continue
			}
			// variables of a WaitGroup-owning type in scope: receiver and parameters
			vars := map[string]string{}
			for _, fl := range []*ast.FieldList{fd.Recv, fd.Type.Params} {
				if fl == nil {
					continue
				}
				for _, f := range fl.List {
					t := sel(f.Type)
					if _, ok := wgField[t]; ok {
						for _, nm := range f.Names {
							vars[nm.Name] = t
						}
					}
				}
			}
			// local variables assigned from a composite literal of such a type: x := &T{...}
			ast.Inspect(fd.Body, func(n ast.Node) bool {
				as, ok := n.(*ast.AssignStmt)
				if !ok || len(as.Lhs) != 1 || len(as.Rhs) != 1 {
					return true
				}
				id, ok := as.Lhs[0].(*ast.Ident)
				if !ok {
					return true
				}
				r := as.Rhs[0]
				if u, ok := r.(*ast.UnaryExpr); ok {
					r = u.X
				}
				if cl, ok := r.(*ast.CompositeLit); ok {
					if _, ok := wgField[sel(cl.Type)]; ok {
						vars[id.Name] = sel(cl.Type)
					}
				}
				return true
			})
			if len(vars) == 0 {
				continue
			}
			// linear scan of the function body in source order (closures included: a deferred func literal counts as
			// part of the function it is written in)
			type ev struct {
				kind string
				v    string
				pos  token.Pos
			}
			var evs []ev
			ast.Inspect(fd.Body, func(n ast.Node) bool {
				switch x := n.(type) {
				case *ast.CallExpr:
					name := sel(x.Fun)
					for v, t := range vars {
						w := wgField[t]
						switch name {
						case v + "." + w + ".Add":
							evs = append(evs, ev{"add", v, x.Pos()})
						case v + "." + w + ".Wait":
							evs = append(evs, ev{"wait", v, x.Pos()})
						case v + ".mu.Lock":
							evs = append(evs, ev{"lock", v, x.Pos()})
						case v + ".mu.Unlock":
							evs = append(evs, ev{"unlock", v, x.Pos()})
						}
					}
				case *ast.IfStmt:
					// if v.closed { ... return ... }
					for v := range vars {
						if sel(x.Cond) == v+".closed" {
							ret := false
							ast.Inspect(x.Body, func(m ast.Node) bool {
								if _, ok := m.(*ast.ReturnStmt); ok {
									ret = true
								}
								return true
							})
							if ret {
								evs = append(evs, ev{"test", v, x.Pos()})
							}
						}
					}
				case *ast.AssignStmt:
					for v := range vars {
						if len(x.Lhs) == 1 && sel(x.Lhs[0]) == v+".closed" && len(x.Rhs) == 1 && sel(x.Rhs[0]) == "true" {
							evs = append(evs, ev{"close", v, x.Pos()})
						}
					}
				}
				return true
			})
			sort.Slice(evs, func(i, j int) bool { return evs[i].pos < evs[j].pos })
			for i, e := range evs {
				t := vars[e.v]
				switch e.kind {
				case "add":
					// guarded: a lock and then a closed-test of the same variable earlier in the function, no unlock between
					// the lock and the Add other than a deferred one (deferred unlocks are written before the test)
					locked, tested := false, false
					for _, p := range evs[:i] {
						if p.v != e.v {
							continue
						}
						switch p.kind {
						case "lock":
							locked = true
						case "test":
							if locked {
								tested = true
							}
						}
					}
					adds[t] = append(adds[t], site{fd.Name.Name, fset.Position(e.pos).Line, locked && tested})
				case "wait":
					// closing: lock, closed = true, unlock of the same variable earlier in the function, in this order
					st := 0
					for _, p := range evs[:i] {
						if p.v != e.v {
							continue
						}
						switch {
						case p.kind == "lock" && st == 0:
							st = 1
						case p.kind == "close" && st == 1:
							st = 2
						case p.kind == "unlock" && st == 2:
							st = 3
						}
					}
					waits[t] = append(waits[t], site{fd.Name.Name, fset.Position(e.pos).Line, st == 3})
				}
			}
		}
	}
	fmt.Println("(* GENERATED by lib/barrierskel from larking/*.go on every run of ./check C13 -- do not edit.")
	fmt.Println("   Per struct type that owns a sync.WaitGroup: the functions that Add to it (guarded = after <v>.mu.Lock() and a")
	fmt.Println("   returning test of <v>.closed) and the functions that Wait on it (closing = after <v>.closed = true under <v>.mu). *)")
	fmt.Println("From Larking Require Import Model.Barrier.")
	fmt.Println("Require Import List.\nImport ListNotations.")
	var ts []string
	for t := range wgField {
		ts = append(ts, t)
	}
	sort.Strings(ts)
	pr := func(ss []site) string {
		var p []string
		for _, s := range ss {
			p = append(p, fmt.Sprintf("(* %s:%d *) BSite %s %v", s.fn, s.line, codes(s.fn), s.ok))
		}
		return "[" + strings.Join(p, ";\n     ") + "]"
	}
	fmt.Println("Definition barrier_types : list btype := [")
	for i, t := range ts {
		sep := ";"
		if i == len(ts)-1 {
			sep = ""
		}
		fmt.Printf("  (* %s.%s *) BType %s\n    %s\n    %s%s\n", t, wgField[t], codes(t), pr(adds[t]), pr(waits[t]), sep)
	}
	fmt.Println("].")
	fmt.Println("Lemma barrier_types_ok : forallb btype_ok barrier_types = true.")
	fmt.Println("Proof. vm_compute. reflexivity. Qed.")
}
