"""C04 -- unary response fidelity and truthful response headers."""


def _nontrivial(line):
    f = line.split(" ; ")[0].split()
    if f[0] in ("C04N", "C04E"):
        return f[1] not in ("-", "x")           # some Accept / Accept-Encoding header bytes
    if f[0] == "C04":
        # an Accept / Accept-Encoding / Content-Type header or a non-empty reply
        return f[4] != "-" or f[5] != "-" or f[6] != "-" or len(f[8]) > 1
    return True                                  # C04R: every selector case registers a rule


CFG = dict(
    rule="C04N/C04E: negotiateContentType / negotiateContentEncoding / parseAccept called directly (verif hook) on Accept headers "
         "from a grammar (0-4 ranges over 22 media ranges incl. */*, type/*, registered codec keys, the internal google.api.HttpBody key, "
         "near-miss and wrong-case names; 33 q spellings incl. 0, 0.001, 0.5, 1, 1.5, junk, other parameters; odd separators and white space; "
         "1-2 header lines), every single range x every q spelling, all ordered pairs of 7 core ranges x 5 q-values, byte junk, 3-5 kB headers; "
         "9 offer lists (empty, duplicates, prefix look-alikes) x 5 defaults. The implementation's own parse and choice are judged by the "
         "extracted decision procedure choice_ok (admitted and best, or the default) and compared exactly with the model. "
         "C04: unary calls through Mux.ServeHTTP on 11 methods (no response_body, message / nested / well-known-type / HttpBody selectors, "
         "HttpBody reply, POST with body * and body field) x 2 codec configurations (default; two extra user codecs) x request content types "
         "(absent, JSON, protobuf, octet-stream, unknown, parameterised, internal key, empty) x Accept x Accept-Encoding x replies over all "
         "field kinds of testpb.ComplexRequest (empty, sparse, dense, large) and HttpBody values (0, 1, ~300, 1e5 bytes; 10 content types + random); "
         "send limits at, just below and just above the encoded length. Observed: status, Content-Type, Content-Encoding, body decoded by "
         "protojson / proto chosen by the response Content-Type and compared with the independently selected field by proto.Equal; raw bytes for HttpBody. "
         "C04R: 27 response_body selectors x 4 body settings registered on a fresh mux (accepted / rejected / panics, then one call). "
         "non-trivial = a case with some negotiation header, a non-empty reply, or a selector registration; distinct = distinct input line",
    nontrivial=_nontrivial,
    assumptions=[
        "q-values carry at most three fractional digits (the generators cap every digit run at 3): the model computes q as an exact rational, "
        "the code as float64(n)/float64(d) with Go ints; beyond 15 digits the float (and beyond 18 the int) arithmetic differs and is not claimed",
        "'admits' is read on the header as larking parses it: a range with a parameter other than a leading q (e.g. ';charset=utf-8') ends "
        "the parse of that header line and is dropped; media types are compared byte-wise (case-sensitive); noted in design/C04.md, not claimed",
        "when nothing offered is admitted and the request's own content type has no codec (or a request body cannot be decoded), "
        "the 500 Status response is the expected outcome, not a lost reply",
        "marshal/unmarshal of each codec and compress/decompress are inverse pairs (protobuf-go, gzip): hypotheses of the theorems",
        "no codec is registered under a message's own full name other than the internal google.api.HttpBody one",
        "noted, not a violation: response compression is unreachable as the code stands (NewMux builds the encoding offers from the codec "
        "keys; theorem C04_compression_unreachable): every observed Content-Encoding is checked against the bytes, but a compressed reply "
        "occurs in the model only (C04_encoding_truthful covers every configuration there)",
        "request bodies are well-formed for their content type (request decoding is C03's subject); no Twirp-Version header (C05)",
    ],
    trusted=[
        "protojson / proto of protobuf-go as the independent decoders and as the oracle for the encoded lengths used only by the send-limit check",
        "httptest.ResponseRecorder as the client-side view (status and headers as committed at the first write or flush)",
        "larking/verif_hooks_c04.go (build tag verif, add-only): direct access to parseAccept and the two negotiate functions",
    ],
    timeout=900,
)

CFG["rule"] += " C04G: replies of a generated (fast-path) message type with sub-messages (grpc-go's channelz GetServerResponse through its implicit rule) from a handler that keeps one reply object and refreshes it in place between calls, binary and JSON. Variants 2-4 of C04: three muxes created one after the other (one custom codec / another custom codec sorting before every built-in type / none), each judged against its own codecs."
