"""C13 -- concurrent requests are isolated; serving paths are race-free (PARTIAL).

translator: harness/c13gen re-emits the pool scripts of REPO/larking/*.go, the regenerated lemma
            `forallb well_bracketed all_scripts = true` is recompiled; on success the file is installed as
            coq/theories/Gen/PoolScripts.v (so Properties/C13.v is about the code as it is now).
extra:      the harness is rebuilt with -race and runs the concurrent echo stress (supporting search, not a proof).
"""
import os, re, json, fcntl, filecmp, shutil, time


def _nontrivial(line):
    f = line.split(" ; ")[0].split()
    if f[0] == "C13G":
        return f[1].count(",") >= 2          # at least three pool operations
    return True


def _pools_translator(ROOT, REPO, BUILD, log, sh):
    t0 = time.time()
    coq = os.path.join(ROOT, "coq")
    out = os.path.join(BUILD, "c13gen")
    os.makedirs(out, exist_ok=True)
    gen = os.path.join(out, "PoolScripts.v")
    js = os.path.join(out, "scripts.json")
    for p in (gen, js):
        if os.path.exists(p):
            os.remove(p)
    rc, o = sh(["go", "run", "./c13gen", "-repo", REPO, "-out", gen, "-json", js], 300, cwd=os.path.join(ROOT, "harness"))
    log.write("== c13gen (rc=%s) ==\n%s\n" % (rc, o[-6000:]))
    if rc != 0 or not os.path.exists(gen):
        return dict(ok=False, detail="the translator harness/c13gen failed on %s/larking: %s" % (REPO, o[-600:]),
                    replay="translator harness/c13gen failed\n" + o[-3000:])
    bad = [l for l in o.splitlines() if l.startswith("NOT-WELL-BRACKETED")]
    m = re.search(r"scripts=(\d+) functions=(\d+) bad=(\d+)", o)
    info = dict(scripts=int(m.group(1)) if m else 0, functions=int(m.group(2)) if m else 0)
    os.makedirs(BUILD, exist_ok=True)
    lock = open(os.path.join(BUILD, ".coq.lock"), "w")
    fcntl.flock(lock, fcntl.LOCK_EX)
    try:
        pv = os.path.join(coq, "theories", "Model", "Pools.v")
        pvo = pv + "o"
        if not os.path.exists(pvo) or os.path.getmtime(pvo) < os.path.getmtime(pv):
            rc, o2 = sh(["coqc", "-Q", "theories", "Larking", "theories/Model/Pools.v"], 600, cwd=coq)
            log.write("== coqc Model/Pools.v ==\n%s\n" % o2[-2000:])
        for ext in (".vo", ".glob", ".vok", ".vos"):
            try: os.remove(gen[:-2] + ext)
            except OSError: pass
        rc, o2 = sh(["coqc", "-Q", os.path.join(coq, "theories"), "Larking", "-Q", ".", "C13tmp", "PoolScripts.v"], 900, cwd=out)
        log.write("== coqc regenerated PoolScripts.v (rc=%s) ==\n%s\n" % (rc, o2[-2000:]))
        if rc == 0 and not bad and info["scripts"] > 0:
            dst = os.path.join(coq, "theories", "Gen", "PoolScripts.v")
            os.makedirs(os.path.dirname(dst), exist_ok=True)
            if not os.path.exists(dst) or not filecmp.cmp(gen, dst, shallow=False):
                shutil.copyfile(gen, dst)
                info["installed"] = "changed"
            else:
                info["installed"] = "unchanged"
    finally:
        fcntl.flock(lock, fcntl.LOCK_UN)
        lock.close()
    info["wall_s"] = round(time.time() - t0, 1)
    if rc == 0 and not bad and info["scripts"] > 0:
        info.update(ok=True, detail="%d scripts of %d functions regenerated from %s/larking; forallb well_bracketed all_scripts = true recompiled"
                    % (info["scripts"], info["functions"], REPO))
        return info
    uniq = []
    for l in bad:
        key = re.sub(r"event \d+ ", "", l)
        if key not in [k for k, _ in uniq]:
            uniq.append((key, l))
    what = "; ".join(l for _, l in uniq[:4]) or ("no script was extracted" if info["scripts"] == 0 else o2[-400:])
    info.update(ok=False,
                detail="the regenerated pool scripts of %s/larking are not all well-bracketed, so C13_larking_isolated no longer applies to the code: %s"
                       % (REPO, what),
                replay="regenerated lemma `forallb well_bracketed all_scripts = true` (Gen/PoolScripts.v from %s/larking) fails\n"
                       "regenerate: cd harness && go run ./c13gen -repo %s -out /tmp/PoolScripts.v\n%s\n%s\n"
                       % (REPO, REPO, "\n".join(l for _, l in uniq[:40]), o2[-1500:]))
    return info


def _barrier_translator(ROOT, REPO, BUILD, log, sh):
    """lib/barrierskel: where the WaitGroups of larking's stream types are Add-ed to and Wait-ed on, and whether those
    sites follow the guarded discipline that Proofs/BarrierProofs.v proves safe (Gen/BarrierSkeleton.v)."""
    coq = os.path.join(ROOT, "coq")
    out = os.path.join(BUILD, "c13gen")
    os.makedirs(out, exist_ok=True)
    gen = os.path.join(out, "BarrierSkeleton.v")
    rc, o = sh(["go", "run", ".", os.path.join(REPO, "larking")], 300, cwd=os.path.join(ROOT, "lib", "barrierskel"),
               env=dict(os.environ, GOFLAGS="-mod=mod", GOPROXY="off", GOSUMDB="off", GOTOOLCHAIN="local"))
    if rc != 0 or "barrier_types" not in o:
        return dict(ok=False, detail="the translator lib/barrierskel failed on %s/larking: %s" % (REPO, o[-400:]),
                    replay="translator lib/barrierskel failed\n" + o[-2000:])
    src = o[o.index("(* GENERATED"):]
    open(gen, "w").write(src)
    lock = open(os.path.join(BUILD, ".coq.lock"), "w")
    fcntl.flock(lock, fcntl.LOCK_EX)
    try:
        bv = os.path.join(coq, "theories", "Model", "Barrier.v")
        if not os.path.exists(bv + "o") or os.path.getmtime(bv + "o") < os.path.getmtime(bv):
            sh(["coqc", "-Q", "theories", "Larking", "theories/Model/Barrier.v"], 600, cwd=coq)
        for ext in (".vo", ".glob", ".vok", ".vos"):
            try: os.remove(gen[:-2] + ext)
            except OSError: pass
        rc, o2 = sh(["coqc", "-Q", os.path.join(coq, "theories"), "Larking", "-Q", ".", "C13tmp", "BarrierSkeleton.v"], 300, cwd=out)
        log.write("== coqc regenerated BarrierSkeleton.v (rc=%s) ==\n%s\n" % (rc, o2[-1500:]))
        if rc == 0:
            dst = os.path.join(coq, "theories", "Gen", "BarrierSkeleton.v")
            if not os.path.exists(dst) or not filecmp.cmp(gen, dst, shallow=False):
                shutil.copyfile(gen, dst)
    finally:
        fcntl.flock(lock, fcntl.LOCK_UN)
        lock.close()
    sites = re.findall(r"\(\* (\w+:\d+) \*\) BSite \[[\d;]*\] (true|false)", src)
    if rc == 0:
        return dict(ok=True, barrier_sites=len(sites),
                    detail="%d Add / Wait sites of WaitGroup-owning types regenerated from %s/larking; forallb btype_ok barrier_types = true recompiled" % (len(sites), REPO))
    bad = [s for s, ok in sites if ok == "false"]
    return dict(ok=False,
                detail="a sync.WaitGroup of a stream type is Add-ed to or Wait-ed on outside the guarded discipline (Add only under the mutex after "
                       "testing closed; Wait only after closed was set under the mutex) at %s, so C13_barrier_never_misused no longer applies to "
                       "the code: an Add at counter zero can run concurrently with Wait (a data race)" % ", ".join(bad),
                replay="regenerated lemma `forallb btype_ok barrier_types = true` (Gen/BarrierSkeleton.v from %s/larking) fails\n"
                       "regenerate: cd lib/barrierskel && go run . %s/larking\nsites off the discipline: %s\n%s\n" % (REPO, REPO, ", ".join(bad), o2[-800:]))


def translator(ROOT, REPO, BUILD, log, sh):
    info = _pools_translator(ROOT, REPO, BUILD, log, sh)
    if not info.get("ok"):
        return info
    b = _barrier_translator(ROOT, REPO, BUILD, log, sh)
    if not b.get("ok"):
        return b
    info["barrier_sites"] = b.get("barrier_sites")
    info["detail"] = info.get("detail", "") + "; " + b["detail"]
    return info


def extra(ROOT, REPO, BUILD, log, sh, tier, seed, build_harness):
    res = dict(problems=[], violation=None, evaluations=0, coverage={}, samples=[])
    t0 = time.time()
    ok, why = build_harness(log, race=True)
    if not ok:
        res["problems"].append(("build", "the harness does not build with -race: " + why[-400:], why))
        return res
    outp = os.path.join(BUILD, "run", "c13-race-%d.txt" % os.getpid())
    os.makedirs(os.path.dirname(outp), exist_ok=True)
    env = dict(os.environ, GORACE="halt_on_error=0 exitcode=0", GOFLAGS="-mod=mod", GOPROXY="off", GOSUMDB="off", GOTOOLCHAIN="local")
    rtier = "race-thorough" if tier == "thorough" else "race-quick"
    rc, o = sh([os.path.join(BUILD, "verifh-race"), "C13", "gen", "-seed", str(seed), "-tier", rtier, "-out", outp],
               2400 if tier == "thorough" else 240, env=env)
    log.write("== race run (rc=%s, %.1fs) ==\n%s\n" % (rc, time.time() - t0, o[-8000:]))
    lines = [l.strip() for l in open(outp)] if os.path.exists(outp) else []
    try: os.remove(outp)
    except OSError: pass
    races = o.count("WARNING: DATA RACE")
    reqs, leaks = 0, []
    for l in lines:
        inp, _, ob = l.partition(" ; ")
        f = ob.split()
        if f and f[0] == "ok":
            reqs += int(f[1])
        elif f:
            leaks.append(l)
    res["evaluations"] = reqs
    res["coverage"]["race_stress"] = dict(label="supporting search, not a proof", tier=rtier, requests=reqs, runs=len(lines),
                                          data_races=races, echo_failures=len(leaks), wall_s=round(time.time() - t0, 1))
    res["samples"] = lines[:2]
    cmd = "VERIF_REPO=%s; cd harness && go build -race -tags verif -o /tmp/verifh-race . && GORACE=halt_on_error=0 /tmp/verifh-race C13 gen -seed %d -tier %s -out /tmp/c13.txt" % (REPO, seed, rtier)
    if races:
        first = o[o.index("WARNING: DATA RACE"):][:6000]
        res["violation"] = ("# property C13: the race detector reported %d data race(s) on the serving paths during the concurrent echo stress\n"
                            "# reproduce: %s\n%s\n" % (races, cmd, "\n".join("# " + x for x in first.splitlines())))
    elif leaks:
        def txt(l):
            h = l.split()[-1]
            try: return bytes.fromhex(h[1:]).decode("utf-8", "replace")
            except ValueError: return h
        res["violation"] = ("# property C13: a response or a message seen by a handler was not a function of its own request (concurrent echo stress, -race binary)\n"
                            "# reproduce: %s   (or ./check C13 --replay <this file>: the C13S lines below are case lines)\n%s\n"
                            % (cmd, "\n".join("# %s\n%s" % (txt(l), l) for l in leaks[:5])))
    elif rc != 0 or not lines:
        res["problems"].append(("harness", "the -race stress run failed (rc=%s): %s" % (rc, o[-500:]), o[-3000:]))
    return res


CFG = dict(
    level="proof",
    rule="C13G: the gzip request-reader pool driven through CompressorGzip.Decompress by schedules of open / read-to-EOF / "
         "read-again-after-EOF over 2-5 requests (3 witnesses of the fixed finding, all sequences of length <=3 over two requests, "
         "random ones of 4-15 operations), compared exactly with the extracted model Pools.grun and judged by echo equality; "
         "C13M: through Mux.ServeHTTP, a gzip client-streaming upload read to EOF by a conforming handler, then request A whose "
         "handler lets request B start before reading its own body (json, proto); C13S: concurrent echo stress on a loopback "
         "server over 14 kinds (HTTP JSON / protobuf, gzip request bodies, HTTP client and server streams, gRPC identity / gzip "
         "unary and bidi, gRPC-web, HttpBody download / upload, client cancel mid-stream) with self-describing payloads of "
         "0 B - 70 KB, clients check the echo, handlers check well-formedness; the same stress again under -race (extra). "
         "non-trivial = at least three pool operations, or any Mux / stress case",
    nontrivial=_nontrivial,
    partial="the ownership argument is a Coq proof over all interleavings of the regenerated scripts; sync.Pool handing an object to "
            "one caller at a time, the library calls on the translator's whitelist (Write / Unmarshal / ReadFull / copy do not retain, "
            "append / MarshalAppend / bytes.NewReader / Buffer.Bytes alias), the translator's recognition of shapes, byte-level "
            "overwrite of a re-sliced buffer (b = b[:n] followed by ReadFull / copy), the Go memory model and actual data-race "
            "freedom are assumed; the -race stress is a supporting search, not a proof; proxied methods and the proxy's stream "
            "pumps are not modelled and only local methods are stressed",
    assumptions=[
        "a handler does not use its stream, or the reader / writer obtained from AsHTTPBodyReader / AsHTTPBodyWriter, after it returned (documented contract); inside the call it may read again after EOF",
        "sync.Pool.Get returns an object that was Put and not yet handed out again, or a new one",
        "a pooled gzip.Reader / gzip.Writer keeps a dead reference to its last source / sink until the next Reset, which happens before any use (compress/gzip)",
        "loops are unrolled twice and a lent reader is read three times by the translator; use-after-put and double-put patterns repeat with period one",
        "external callers of the exported CompressorGzip.Compress / Decompress close the writer once and are outside the claim",
    ],
    trusted=["harness/c13gen (go/ast translator: fixed set of shapes, whitelist of non-retaining library calls, inlining of package callees by name; anything else becomes Escape)",
             "the Go race detector and sync.Pool"],
    translator=translator,
    extra=extra,
    timeout=600,
)
CFG["rule"] += ' The quick race stage includes a gRPC bidi call whose handler returns while a goroutine it started keeps receiving (grpc-leftover) and proxied bidi calls whose backend fails while the client is sending.'
CFG["rule"] += ' Kind proxy-http-gzip-fail (echo and race stages): a proxied bidi method over plain HTTP with a streamed gzip body; the backend fails while the client is connected and silent; three gzip requests follow on the same mux while the first body goes on and ends.'
CFG["rule"] += ' Kind webtext-leftover (echo and race stages): a gRPC-web-text bidi call over a pipe the client keeps open, whose handler returns 30 ms after a goroutine it started went into RecvMsg; ServeHTTP must return within 5 s.'
