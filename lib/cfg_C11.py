"""C11 -- dispatch follows the live registration set (driver configuration)."""


def _nontrivial(line):
    f = line.split(" ; ")[0].split()
    # a history with at least one RegisterConn and one probed step
    return len(f) == 3 and "R" in f[2] and "!" in f[2]


CFG = dict(
    rule="histories of RegisterConn / DropConn / VerifRegisterService on a fresh Mux over 4 real loopback backends "
         "(grpc.Server + grpc-go's reflection service over a switchable descriptor set, catch-all handler tagging its "
         "replies) and 2 local implementations; alphabet of 15 operations (3 connections x overlapping / disjoint / changed / "
         "conflicting / invalid descriptor sets, drops incl. a never-registered connection, 2 local services); ALL histories "
         "of length <= 3 (quick) or <= 4 (thorough) + seeded random histories of length 4..12. After every step each of 7 "
         "methods is requested over gRPC and each of 13 HTTP bindings over HTTP transcoding (in-process ServeHTTP, the proxied "
         "ones travel over loopback), repeated until two distinct backends answered (cap 40+) when the snapshot holds >= 2 "
         "handlers. A prefix already probed by an earlier history is applied without probing again. "
         "non-trivial = history with a RegisterConn and a probed step; distinct = distinct input line",
    nontrivial=_nontrivial,
    assumptions=[
        "the descriptor hash (SHA-256 over the reflection response) identifies the descriptor set among those used in a history (hash_ok)",
        "the reflection exchange succeeds and is deterministic for a given descriptor set (grpc-go's reflection server; transport errors are not modelled)",
        "within one registration, methods are processed in descriptor order (one file per backend; Go's map order over files is irrelevant then)",
        "C11_safe_second_backend assumes every binding of the new backend's methods is already routed to that method (all_bound); "
        "route completeness for descriptor sets that disagree on a method's rules is C19's R9 and not claimed here",
    ],
    trusted=[
        "the routing trie is abstract in Model/Registry.v (finite map binding key -> method name with addRule's duplicate check as in rules.go (the node's '*' binding and, for a '*' key, every verb binding of the node), delRule removing every binding; proved to be refined by the concrete trie: Proofs/RefineProofs.v); "
        "lexer, variables and path search are other properties' models; the harness maps templates to keys by a fixed catalogue",
        "grpc-go client/server, its reflection service and httptest.ResponseRecorder as the client-side view",
        "VerifFingerprint is read only to budget the number of repeats per probe (never to decide)",
    ],
    timeout=900,
)

CFG["rule"] += " Besides the alphabet: descriptor set 9 ('*'-kind rules: one on another method's GET node, one '*' + GET pair of a single method; probed with DELETE and POST), set 10 (a service whose streaming method cannot be bound after its unary method was handled), set 11 (SvcA redeployed without one method: same service names, another method set), each in histories with every operation of the alphabet before / between / after, plus random histories over the extended alphabet."
CFG["rule"] += ' Also set 12 (a valid server-streaming method beside unary ones) and set 13 (a newer deployment whose method A1 has one more binding: variant entry V... of the catalogue), in dedicated histories.'
CFG["rule"] += ' Local registrations (L<impl>.<desc>) pass the same implementation object every time implementation <impl> is registered.'
