"""./check configuration of C08 -- message size limits hold on every protocol."""


def _nontrivial(line):
    f = line.split(" ; ")[0].split()
    if len(f) < 7:
        return False
    # at least one message whose size is not zero
    return any(ch.isdigit() and ch != "0" for ch in f[6])


CFG = dict(
    rule="C08R: a client puts messages on the wire (valid messages of an exact encoded size, 'a'-filled = highly "
         "compressible or pseudo-random; undecodable payloads; length prefixes that declare more than follows: 2^31, "
         "2^32-1 on gRPC frames, up to 2^64-1 as protobuf varints; compressed-flag games) under receive limits "
         "{1,5,64,128,4096} + random 1..300, sizes {limit-1, limit, limit+1, 10*limit} + random, 1 MiB under 128 bytes, "
         "on HTTP unary (JSON, protobuf, HttpBody), HTTP client streams (JSON, length-delimited protobuf, HttpBody "
         "chunks), each with and without Content-Encoding gzip, gRPC / gRPC-web / gRPC-web-text with and without "
         "per-message gzip, unary and streaming, WebSocket (whole and fragmented messages, loopback server). Observed: "
         "the encoded size after decompression of every message the handler received, whether the call failed. "
         "C08S: a handler replies with messages of sizes around the send limit (receive limit unrelated: smaller and "
         "larger) on the same protocols; observed: per reply accepted or refused, sizes that reached the client. Both are "
         "judged by the extracted specification predicates (never over / never under-refused) and compared exactly "
         "with the extracted gates. non-trivial = some message of non-zero size",
    nontrivial=_nontrivial,
    assumptions=[
        "limits are positive Go ints on a 64-bit platform (MaxReceiveMessageSizeOption(n), n >= 1)",
        "'within the limit' on a compressed gRPC stream means the compressed frame and the decompressed message are both "
        "within it: a frame longer than the limit is refused before it is inflated (as grpc-go does)",
        "a refusal is classified as size-class only when it is ResourceExhausted or a protodelim.SizeTooLargeError; other "
        "refusals are 'refused' (error text is never compared), so the model's size/other distinction is compared one-sidedly",
        "the handler reads exactly the messages the client sent (end-of-stream handling is C06's subject)",
        "gzip and proto/protojson (un)marshalling are oracles: the harness supplies compressed lengths and validity per case",
    ],
    trusted=[
        "httptest.ResponseRecorder stands for the HTTP client; gobwas/ws client framing on the loopback WebSocket cases",
        "the gates are modelled on sizes, not bytes; the byte-level stream codecs are the model of C17 (Model/Codec.v)",
    ],
    partial="memory use is not part of the model: gRPC and WebSocket messages are measured after they were read / inflated "
            "in full (a decompression bomb is refused, but only after inflation); AsHTTPBodyReader/Writer hand the raw "
            "stream to the handler and are outside the limits by design",
    timeout=900,
)
CFG["rule"] += ' z<size>b<cut>: one message compressed as two concatenated gzip members (large first member, last member of 3 or 12 bytes), sizes around and far above the limit, alone and between two small messages (gRPC family).'
CFG["rule"] += ' Receive limits 2^32, 2^32+16, 2^40, 2^31+5 with a 100-byte message on every path and encoding.'
