#!/bin/sh
# runall.sh [tier]: run every claimed check once; one summary line per check
cd "$(dirname "$0")/.."
T=${1:-quick}
for p in $(python3 -c "import json;print(' '.join(c['property_id'] for c in json.load(open('MANIFEST.json'))['checks']))"); do
  S=$(date +%s)
  OUT=$(./check $p --tier $T 2>&1 | tail -4)
  RC=$?
  echo "$OUT" | grep -q '^VIOLATION' && V="VIOLATION" || V="ok"
  echo "$p $V $(( $(date +%s) - S ))s :: $(echo "$OUT" | grep -v '^VIOLATION' | tail -1 | cut -c1-160)"
  echo "$OUT" | grep '^VIOLATION\|^KNOWN'
done
