"""C07 -- path-bound fields are authoritative."""


def _nontrivial(line):
    f = line.split(" ; ")[0].split()
    if f[0] == "C07H":
        return True
    if f[0] == "C07W":
        return f[2] != "-" or f[3] != "-"
    # a competing value is present: some query pair or a body
    return len(f) >= 6 and (f[4] != "-" or f[5] != "-")


CFG = dict(
    rule="requests to 14 rules of a run-time schema (variables on top-level, nested and three-deep fields, in a oneof, of string / "
         "all integer kinds / bool / bytes / enum / float / double / Duration / wrappers / FieldMask type, multi-segment capture; "
         "body '*', body field, no body) carrying, besides the capture, a competing value for every path-bound field through the "
         "query (proto spelling, JSON spelling, both spellings, the same key twice), through the body (JSON or protobuf, gzip or "
         "not; whole message or body field containing the field), through both, and a oneof sibling through the query; every "
         "permutation of the query keys when there are at most 4, otherwise two shuffles. Specification (independent of the "
         "model): in the handler's message the entries at and under each path-bound field are exactly those of the value the "
         "harness spelled into the path. Tie: handler's whole message / HTTP status = extracted decode_request for one of the "
         "key orders Go's map iteration may produce. non-trivial = a query or a body is present",
    nontrivial=_nontrivial,
    assumptions=[
        "the router is not part of this model: the captures of the matched rule are inputs; every template here starts with a literal "
        "segment, so a capture that does not convert is NotFound (path.search drops the error below a literal edge)",
        "the variables of one rule do not write into each other's fields (no variable path is a prefix of another, no two in one oneof): "
        "hypothesis vars_independent of C07_path_wins, checked by vm_compute for the example rule",
        "a path variable bound to a repeated field appends; the theorem is about singular field paths",
        "google.api.HttpBody bodies are outside the model",
    ],
    trusted=[
        "protobuf-go reflection (Set, Mutable, List.Append, Has/Range as used by the harness to flatten a message) is rendered by hand in "
        "Model/Schema.v on flattened field trees; validated by the exact comparison of every case",
        "encoding/json into bool and the integer types is modelled in full (Model/Params.v); json into float32/float64, protojson for "
        "well-known types, the body codecs and gzip are oracles whose values the harness supplies per case by calling the libraries",
        "net/url query parsing, httptest as the client",
    ],
    timeout=900,
)

CFG["rule"] += ' C07X: the same with, in addition, a query key that cannot be applied (through a repeated / map field): refusing is fine, a handler that is reached sees the captures. C07W also with an empty text / binary frame sent before the first message.'
CFG["rule"] += " C07H: a client-streaming upload whose rule binds a field inside the HttpBody body by a path variable (/c07h/{file.content_type=*/*}/{filename}, body file), Content-Type header absent / equal / different, first message read with AsHTTPBodyReader or with RecvMsg: the handler sees the captured values. C07 rules R17 / R18: variables below a message field that is a member of a oneof, with a sibling member set through the query."
CFG["rule"] += ' The mux under test registers one more service after the rules are bound (the routes are served from a copied routing state). C07I: GET /c07i/{user_id} with 0..9 query values, request A held at its stats Begin event while request B (same query string, another capture) is served: each handler must see its own capture and the message it sees when served alone.'
CFG["rule"] += ' Body mode f (rules with a body): the competing values for the path-bound fields as an application/x-www-form-urlencoded body (full field paths and, for a body field, paths relative to it), kind C07X: the request may be refused, but a handler that is reached sees the captures.'
