"""driver configuration of C19 (service-config rules bind exactly the selected methods)"""

def _nontrivial(line):
    f = line.split(" ; ")[0].split()
    if f[0] == "C19S":
        return f[1] != "-" and len(f[2]) > 1
    if f[0] == "C19M":
        return f[1] != "-"
    return True

CFG = dict(
    rule="C19S: selector lists handed to ruleSelector.setRules and one name looked up with getRules (hook VerifSelectRules): "
         "every selector of the universe (exact names at depth 1-3 of the tree {a,a.b,ab}x{S,Sv}x{Me,Met}, name.* at every depth "
         "incl. below a method, '*', unrelated/other-case/deeper/shallower names) alone and in pairs against every node of the tree, "
         "siblings and deeper names; random lists of up to 6 with repetitions; a malformed stream (empty components, '*' inside, "
         "trailing dots, '*.x') and malformed names -- returned positions compared exactly (order, multiplicity, panic) with the "
         "extracted model and judged by the extracted covers_b. C19M: selector sets of size <=3 (all of size <=2; a third of the "
         "size-3 multisets per seed in quick, all in thorough) with rule shapes GET+path variable, POST body *, PATCH, "
         "GET+additional DELETE binding, installed with ServiceConfigOption on a Mux per method of the tree and, as a twin, written "
         "as the method's annotation exactly where an independent Go reading of the selector says it is covered; observable: who "
         "answers on each rule's path with which request message; a variant where the method also carries its own annotation. C19H: health.AddHealthz merged into configurations with other "
         "rules, 12 service names x 4 statuses x set/unset/sibling, GET /v1/healthz[?service=] compared with health.Server.Check; C19W: websocket /v1/healthz?service= on a loopback server, "
         "first status and the status set afterwards compared with health.Server.Watch. "
         "non-trivial = at least one selector and a non-empty name",
    nontrivial=_nontrivial,
    assumptions=["method and selector names are well formed (non-empty components; '*' only as the whole last component): the theorems with "
                 "covers need it, C19_select_norm states what every other selector does",
                 "method names have at least two runes (a one-rune method name cannot be registered at all: finding R3, property C16)",
                 "a rule bound to two methods of one Mux is a registration error (duplicate rule), so the Mux cases register one method per Mux"],
    trusted=["grpc-go's health.Server (SetServingStatus/Check) is the reference for healthz",
             "httptest.ResponseRecorder as the client; protojson for decoding the healthz body",
             "the Go function c19Covers (8 lines) decides where the twin gets its annotation; a wrong reading would show as a spec failure, not hide one"],
    timeout=900,
)

CFG["rule"] += " In every C19M mux two more muxes are created between constructing the mux under test and registering on it (one with a decoy configuration '* -> POST /c19/decoy', one with none)."
CFG["rule"] += ' Shape 5: a config rule no method can take (unknown field): a method it selects must fail to register.'
CFG["rule"] += ' C19W: one handshake in three goes through the gobwas dialer, the others are written by hand with Connection: "keep-alive, Upgrade" and Connection: "upgrade".'
CFG["rule"] += ' C19M: before the muxes under test another mux is built from the same configuration object and the decoy configuration; neither object may have changed (observation config-modified).'
