"""Per-property configuration of ./check."""
import re

ALLOWED_AXIOMS = set()   # the development is axiom-free; nothing is tolerated silently

TRUSTED_BASE = [
    "Coq 8.16.1 kernel (coqc; coqchk in the thorough tier); vm_compute used in Examples and finite sweeps; native_compute not used",
    "axioms: none (every property theorem prints 'Closed under the global context')",
    "extraction: ExtrOcamlBasic only (bool, option, unit, list, prod, sumbool, sumor -> OCaml types; andb/orb inlined); nat, N, Z, positive stay extracted inductives; OCaml 4.13.1",
    "hand-written OCaml driver ocaml/*.ml (line parsing, hex, comparison of printed observations)",
    "Go correspondence harness harness/*.go (generators, scripted readers, recording handlers, classification of errors into classes) and lib/props.py, ./check",
    "the models in coq/theories/Model are hand-written; they are tied to /repo only by the differential run of this check",
]


def field(line, i):
    try:
        return line.split(" ; ")[0].split()[i]
    except IndexError:
        return ""


def c17_nontrivial(line):
    inp, _, obs = line.partition(" ; ")
    f = inp.split()
    if f[0] == "C17":
        return len(f[3]) + len(f[4]) > 2          # some byte in carry or data
    if f[0] == "C17W":
        return int(f[2]) > 0                       # a message of at least one byte
    return len(f[3]) > 1


def c15_nontrivial(line):
    f = line.split(" ; ")[0].split()
    return f[0] == "C15C" or len(f[1]) > 3      # at least two characters

def c05_nontrivial(line):
    f = line.split(" ; ")[0].split()
    return f[2] != "0"                             # the handler returns a non-OK status

def c14_nontrivial(line):
    f = line.split(" ; ")[0].split()
    return any(x != "-" for x in f[2:] if x not in ("ok", "fail"))

PROPS = {
    "C14": dict(
        rule="C14I: request header sets (10 names in mixed case, 1-3 values, -bin values = all byte strings of length <=2 over "
             "{00,01,7f,80,ff,'a'} + random up to 8 bytes, each in padded and unpadded base64, reserved names) on gRPC, gRPC-web, "
             "HTTP transcoding; the handler's metadata.FromIncomingContext is compared with the model and judged by the spec. "
             "C14O: handler SetHeader/SetTrailer sets incl. every reserved and framing name, OK and failing calls; response "
             "headers/trailers (recorder snapshot, trailer frame on gRPC-web) judged against the spec and against a baseline "
             "call without the protected keys. non-trivial = some header or metadata entry present",
        nontrivial=c14_nontrivial,
        assumptions=["request header keys are canonical as net/http delivers them",
                     "a gRPC-web trailers-only response has one block for header and trailer metadata (values of a key set in both are concatenated)",
                     "net/http sends keys under http.TrailerPrefix as trailers without announcement (library fact, modelled)"],
        trusted=["httptest.ResponseRecorder as the client-side view of headers and trailers"],
    ),
    "C05": dict(
        rule="a handler returning a scripted status (23 codes incl. 0, 17..20, 2^31, 2^32-1; ~80 messages: empty, ASCII, "
             "'%' in every position, control bytes, multi-byte UTF-8, 122..124 and 1500 bytes, all strings of length <=2 over "
             "{a,%,space,~,0x1f,0x7f,u-umlaut}; with/without details; before any reply or after k replies) on HTTP+JSON, "
             "HTTP+protobuf, Twirp, gRPC (proto and json codec), gRPC-web, gRPC-web-text (all in-process through ServeHTTP) "
             "and WebSocket (loopback). Bodies are decoded with protojson/proto; percent escapes, frames and base64 are decoded "
             "by the extracted Coq functions. non-trivial = non-OK status",
        nontrivial=c05_nontrivial,
        assumptions=["the HTTP status table of code.go at the pinned commit is the documented mapping",
                     "optional whitespace at either end of grpc-message is not part of a header value (RFC 7230) and is compared modulo trimming",
                     "an error before any reply on gRPC-web may be a trailers-only response (status in the HTTP headers)",
                     "messages are valid UTF-8 (status.New with invalid UTF-8 cannot be marshalled by protobuf-go)"],
        trusted=["grpc-go's decodeGrpcMessageUnchecked is modelled in Base/Pct.v; encoding/base64 in Base/B64.v (base64.NewEncoder+Close assumed equal to one-shot encoding)",
                 "gobwas/ws framing and net/http trailers are the libraries' (observed through a loopback client / ResponseRecorder)"],
    ),
    "C15": dict(
        rule="grpc-timeout strings sent through the real gRPC entry (every string of length <=3 over {0,1,9,+,-,space,H,S,m,x}; "
             "1..9 digits x 6 units + bad units with leading zeros / all nines / powers of ten; random strings); the handler's "
             "ctx.Deadline() bracketed by clock readings is judged by the extracted grammar decision procedure; plus 12 "
             "cancel/disconnect scenarios on a loopback server (observed only). non-trivial = string of >= 2 characters or a cancel scenario",
        nontrivial=c15_nontrivial,
        partial="cancellation: net/http's context cancellation and unblocking of body reads is observed on loopback, not proved",
        assumptions=["context.WithTimeout sets deadline = now + d (oracle)",
                     "a legal timeout below 100 ms may expire before the handler runs; then the client must get grpc-status 4",
                     "net/http does not watch an HTTP/1 connection with an unread request body; that scenario is not claimed"],
        trusted=["strconv.ParseUint base 10 is modelled (digits only) in Model/Timeout.v",
                 "grpc-go internal/grpcutil.EncodeDuration (what the mux's client connection writes into the backend call's grpc-timeout) is "
                 "transcribed in Model/TimeoutForward.v: a library function, modelled; tied to the grpc-go of /repo's go.mod by the C15E cases"],
    ),
    "C17": dict(
        rule="cases: single ReadNext calls (codec, limit, carry-over, data, read schedule, EOF style) and whole "
             "read loops over WriteNext output, truncations, malformed streams; all 2^(n-1) read partitions of short "
             "streams, every split into carry+data, all 1..11-byte length prefixes over a boundary alphabet; "
             "non-trivial = the logical stream has at least one byte; distinct = distinct input line",
        nontrivial=c17_nontrivial,
        assumptions=["limits are positive Go ints (the mux never passes 0); limit=0 is probed by nothing and claimed by nothing",
                     "a Reader returns at least one byte per call unless at EOF (io.Reader discourages 0,nil)",
                     "buffer capacity is not modelled: it only lowers a read size, which is another schedule"],
        trusted=["protowire.ConsumeVarint/AppendVarint are modelled in Base/Varint.v (validated by the exact comparison of every case)"],
    ),
}


PROPS["C17"]["rule"] += (" C17W: WriteNext of every codec on a message of every size 0..700 (4200 thorough) and at 1023..65536 (2^17, 2^21+-1 "
                          "thorough) into a recording writer: the bytes must read back as that message with the specification's parser / be the "
                          "message, the caller's slice stays untouched, a refused Write is reported.")
PROPS["C15"]["rule"] += " Every fifth grpc-timeout case is repeated on a mux with a stats handler and a unary interceptor (C15T <hex> s), another fifth on the gRPC-web entry (C15T <hex> w)."

# per-property configuration may also live in lib/cfg_<id>.py (a module defining CFG = dict(...))
import os as _os, glob as _glob, importlib.util as _ilu
for _p in sorted(_glob.glob(_os.path.join(_os.path.dirname(_os.path.abspath(__file__)), "cfg_C*.py"))):
    _spec = _ilu.spec_from_file_location(_os.path.basename(_p)[:-3], _p)
    _m = _ilu.module_from_spec(_spec)
    _spec.loader.exec_module(_m)
    PROPS[_os.path.basename(_p)[4:-3]] = _m.CFG

# later additions to the descriptions of what the cases cover
PROPS["C14"]["rule"] += (" Application keys that resemble protocol names (status, message, timeout, encoding, message-type; upgrade-insecure-requests, "
                          "connection-id, keep-alive-budget) in both directions; outgoing cases also on the Twirp protocol.")
for _p in ("C01", "C02", "C16"):
    PROPS[_p]["rule"] += (" Request verbs include WebSocket handshakes (GET + Upgrade: websocket = the custom kind WEBSOCKET; soundness only: the "
                          "recorder cannot be hijacked); rule sets include sibling variables whose patterns open with literals that are prefixes of "
                          "one another up to '-' / '.'.")
PROPS["C15"]["rule"] += " C15T <hex> p: every fifth case also on a mux whose method is served by a grpc-go backend behind RegisterConn (the deadline the backend handler runs under). C15T <hex> x: eight values on a gRPC-web-text request whose body arrives 400 ms after the request (the deadline must lie within 300 ms of receipt + T). C15C httpz: a client that goes away behind a chunked, gzip-encoded plain HTTP body."
PROPS["C14"]["rule"] += (" The stats-handler variant (+s) redacts its own view of the request header (InHeader.Header); a method Down is written through "
                          "larking.AsHTTPBodyWriter (proto bodywriter: no trailers on the wire); trailer values carrying CR / LF must arrive sanitised or not at all.")
PROPS["C15"]["rule"] += " C15E <d>: the grpc-timeout header a grpc-go client writes for a context with d ns left (around every change of unit, round values, log-uniform above 2 s), recorded by a cleartext HTTP/2 server; the model TimeoutForward.encode_duration must write the same (value, unit) for value x unit, and value x unit must lie in [d - 2 s, d + one unit]."
for _p in ("C01", "C02", "C16"):
    PROPS[_p]["rule"] += (" Since round 7 a WebSocket handshake is answered through a response writer that can be hijacked (an in-memory pipe; the client "
                          "side sends one empty JSON message and a close frame): it reaches its method and is judged in full (soundness, completeness, "
                          "model), also by the RD cases of C11; one rule verb in eight is the custom kind WEBSOCKET.")
PROPS["C14"]["rule"] += (" C14B <trailer md>: the raw trailer block of a gRPC-web response (the bytes a client parses) for trailer values with blank space at "
                          "their ends, tabs, CR / LF followed by forged fields, colons, non-ASCII bytes, empty values, several values per key and random "
                          "short values over {a b space tab CR LF : x -}: the extracted parser must read exactly the values set (wire_value) and nothing "
                          "else, and the extracted writer must produce the same bytes for the x- keys.")
PROPS["C14"]["trusted"] = list(PROPS["C14"].get("trusted", [])) + [
    "net/http Header.Write (sorted keys, CR / LF -> space, TrimString) is transcribed in Model/TrailerBlock.v: a library function, modelled; tied to "
    "the real bytes by the C14B cases"]
PROPS["C05"]["rule"] += " Shape flags ^h (the handler sends its header explicitly before it returns), ^u (http-proto: the detail is an Any of a type the server does not know; the binary report carries it), ^t (grpc / web / web-text with Grpc-Timeout 30m: the handler waits for the end of its context and returns its own status)."
PROPS["C15"]["rule"] += " C15T <hex> d: every fifth case on a request whose context already carries a deadline 2^62 ns away."
PROPS["C14"]["rule"] += " Proto grpc+l: the call carries Grpc-Timeout 20m and the handler sets its metadata after its context has ended."
