#!/usr/bin/env python3
"""Regenerates /verif/MANIFEST.json from the entries below (one place to edit)."""
import json, os
ROOT = os.path.dirname(os.path.dirname(os.path.abspath(__file__)))
ALL = ["C%02d" % i for i in range(1, 21)]

def chk(pid, text, note, tech, ref=None):
    return {"property_id": pid, "quick_cmd": "./check %s --tier quick" % pid, "thorough_cmd": "./check %s --tier thorough" % pid,
            "evidence_file": "/verif/evidence/%s.json" % pid, "replay_cmd_template": "./check %s --replay {path}" % pid,
            "engine": "coq-proof+correspondence",
            "level_claimed": {"category": "proof", "text": text, "design_ref": ref or "DESIGN.md §6 " + pid},
            "level_note": note, "technique": tech}

COMMON_NOTE = ("Trusted: Coq 8.16.1 kernel, extraction with ExtrOcamlBasic only, the OCaml driver, the Go harness and ./check; "
               "the Gallina model is hand-written and tied to /repo only by the differential run on every check. ")

CHECKS = [
 chk("C17",
  "Coq theorems (Properties/C17.v, axiom-free) prove on a Gallina model of codec.go that every ReadNext call of the three stream codecs refines a schedule-free parser of the logical stream for every carry-over, read schedule and EOF style, that WriteNext/ReadNext round-trips, that over-limit and >=2^63 prefixes are refused, never a panic. The model is tied to /repo on every run by exact differential comparison (dst, n, error class, unread bytes) on ~19k generated calls/loops, and the extracted specification predicate is evaluated on the implementation's own results.",
  COMMON_NOTE + "Limits positive; readers return >=1 byte unless at EOF; buffer capacity abstracted into the schedule.",
  "Coq proof of refinement to a pure stream parser (induction over reads) + extracted-model differential run"),
 chk("C15",
  "Coq theorems (Properties/C15.v) prove that the model of decodeTimeout accepts exactly the gRPC wire grammar (1-8 digits + unit), computes value x unit clamped to MaxInt64 without int64 wrap, and refuses every other string. Tie: every string of length <=3 over a boundary alphabet, all digit counts x units, random strings are sent through the real gRPC entry; the handler's observed ctx.Deadline (bracketed by clock readings) is judged by the extracted decision procedure. PARTIAL for cancellation: that net/http cancels the request context and unblocks reads is the run-time's doing; 12 cancel/disconnect scenarios on a loopback h2c/HTTP1 server are observed, not proved.",
  COMMON_NOTE + "context.WithTimeout is an oracle; clock bracketing tolerance; cancellation only observed.",
  "Coq proof that the timeout decoder is the decision procedure of the wire grammar + differential run through serveGRPC; cancellation observed on loopback (partial)"),
 chk("C05",
  "Coq theorems (Properties/C05.v, 7, axiom-free): HTTP status and WebSocket close-code lookups are total over all uint32 codes and equal the reference table (finite sweep lifted + range lemma); grpc-message percent-encoding decodes back exactly with grpc-go's decoder for every byte string and is printable ASCII; gRPC-web frames parse back to exactly the written frames; base64 (4 variants) decodes to exactly the encoded bytes; close reason is a prefix within 123 bytes. Tie: ~1.7k scripted-status calls on 8 protocol/codec combinations through the real Mux; the client-side view is judged with the extracted decoders and tables, and the grpc-message header is compared exactly with the model.",
  COMMON_NOTE + "Reference status table = code.go at the pinned commit; header OWS trimming; trailers-only gRPC-web responses accepted; protojson/proto/gobwas as independent decoders.",
  "Coq proofs of codec laws (percent-encoding, base64, frames, total table lookups) + extracted decoders applied to the real responses"),
 chk("C14",
  "Coq theorems (Properties/C14.v, 7, axiom-free) on a model of newIncomingContext / setOutgoingHeader / decodeBinHeader: the handler's metadata is exactly the non-reserved request headers (lower-cased, all values in order), -bin values decode to the client's bytes in the padded and the unpadded spelling, -bin response values are byte-exact, no handler metadata can change a reserved or net/http-framing response key (for every metadata and every base header map), every other key arrives with all values, trailers under TrailerPrefix are delivered unannounced. Tie: ~1.5k header/metadata cases on gRPC, gRPC-web and HTTP transcoding through the real Mux; incoming metadata compared exactly with the model, outgoing judged by the spec and a baseline call.",
  COMMON_NOTE + "net/http's trailer delivery rule and header canonicalisation are modelled library facts; ResponseRecorder stands for the client.",
  "Coq proof over association-list header maps (no-forgery, completeness, base64 both spellings) + differential run through ServeHTTP"),
]

def main():
    claimed = [c["property_id"] for c in CHECKS]
    m = {"version": 1, "setup_cmd": "./setup.sh",
         "hooks": {"guard": "verif", "enable": "go build -tags verif (harness module with replace larking.io => /repo)",
                   "baseline_off_cmd": "cd /repo && GOFLAGS=-mod=mod GOPROXY=off GOSUMDB=off GOTOOLCHAIN=local go test -vet=off -count=1 ./...",
                   "source_commits": ["195d7ed"], "add_only": True},
         "engines": [{"name": "coq-proof+correspondence", "path": "/verif/check", "serves_properties": claimed,
                      "kind_free_text": "Coq 8.16.1 development (coq/), OCaml program extracted from it (ocaml/), Go harness built from /repo with -tags verif (harness/), Python driver (check, lib/props.py)"}],
         "checks": CHECKS,
         "notes": "Fix commits in /repo and recorded findings: KNOWN_FINDINGS.json. Properties listed under not_applicable with 'under construction' are not claimed yet.",
         "not_applicable": [{"property_id": i, "reason": "check under construction (planned: Coq model + theorems + correspondence, DESIGN.md §6); not yet claimed"}
                            for i in ALL if i not in claimed]}
    json.dump(m, open(os.path.join(ROOT, "MANIFEST.json"), "w"), indent=1)

if __name__ == "__main__":
    main()
