#!/usr/bin/env python3
"""Assemble /verif/MANIFEST.json from lib/manifest/<id>.json fragments (level_claimed, level_note,
technique per claimed property) and lib/manifest/not_applicable.json (reasons for the rest)."""
import json, os, glob
ROOT = os.path.dirname(os.path.dirname(os.path.abspath(__file__)))
ids = [json.loads(l)["id"] for l in open(os.path.join(ROOT, "properties.jsonl"))]
frags = {}
for p in glob.glob(os.path.join(ROOT, "lib", "manifest", "C*.json")):
    frags[os.path.basename(p)[:-5]] = json.load(open(p))
na = {}
nap = os.path.join(ROOT, "lib", "manifest", "not_applicable.json")
if os.path.exists(nap):
    na = json.load(open(nap))
hooks = json.load(open(os.path.join(ROOT, "lib", "manifest", "hooks.json")))
claimed = [i for i in ids if i in frags]
m = {
 "version": 1, "setup_cmd": "./setup.sh", "hooks": hooks,
 "engines": [{"name": "coq-proof+correspondence", "path": "/verif/check", "serves_properties": claimed,
              "kind_free_text": "Coq 8.16.1 development (coq/), OCaml program extracted from it (ocaml/), Go harness built from /repo with -tags verif (harness/), Python driver (check, lib/)"}],
 "checks": [], "notes": "Fix commits in /repo and recorded findings: KNOWN_FINDINGS.json. Seeded changes used to test the checks: seeded/. Properties listed under not_applicable with 'under construction' are not claimed yet.",
 "not_applicable": [],
}
for i in claimed:
    f = frags[i]
    c = {"property_id": i, "quick_cmd": "./check %s --tier quick" % i, "thorough_cmd": "./check %s --tier thorough" % i,
         "evidence_file": "/verif/evidence/%s.json" % i, "replay_cmd_template": "./check %s --replay {path}" % i,
         "engine": "coq-proof+correspondence"}
    c.update(f)
    m["checks"].append(c)
for i in ids:
    if i not in frags:
        m["not_applicable"].append({"property_id": i, "reason": na.get(i, "check under construction (planned: Coq model + theorems + correspondence, DESIGN.md section 6); not yet claimed")})
json.dump(m, open(os.path.join(ROOT, "MANIFEST.json"), "w"), indent=1)
print("claimed:", " ".join(claimed))
