"""driver configuration of C01 (routing core)"""
def _nontrivial(line):
    f = line.split(' ; ')
    return len(f) > 1 and (' 200 ' in f[1] or f[0].count('~') >= 6)

CFG = dict(
    rule="RT cases: 500 generated rule sets (1-5 methods x 0-2 bindings over literals incl. one-rune and non-ASCII, *, **, {f}, {f=sub/*}, {f=sub/**}, nested field paths, JSON names, :verb suffixes; verbs GET/POST/PUT/DELETE/PATCH/custom/'*'; families sharing prefixes; the implicit /Service/Method binding) x 8 paths each: instantiations of every template with fillers of every admitted shape and near misses (each '/' <-> ':', segment dropped/added/duplicated, verb added/removed, ':' inserted anywhere, trailing '/', missing leading '/', junk bytes, invalid UTF-8), paths of 57-69 tokens. Registered as dynamic services through the verif hook, requested through Mux.ServeHTTP; observation = registration verdict, status, dispatched method, fields of the received message. Compared exactly with the extracted model (lexer + trie + search); judged by the extracted template specification (Spec/Template.v). non-trivial = the request was dispatched or a rule set of >= 2 bindings was consulted",
    nontrivial=_nontrivial,
    assumptions=["unicode.IsLetter / IsNumber are parameters of model and theorems; the completeness theorems assume Sane (the grammar's delimiters * . / : = { } are neither letters nor numbers), which holds for Go's unicode tables; the harness ships, per case, which non-ASCII runes of the case are letters / numbers (computed by Go's unicode package)", 'the protobuf schema is an oracle: which field paths of the request type resolve, which name singular messages (fixed test message verif.rt.Msg, transcribed in ocaml/c01.ml)', 'typed conversion of a capture (parseParam) is an oracle okconv; the routing harness uses string fields and one int32 field', 'a template in which one field is bound by two variables is not generated (Go applies the deepest capture first, so the first variable would win)'],
    trusted=["ocaml/c01.ml transcribes the test message's schema (resolves / body_ok) and Go's int32 text grammar by hand", 'Spec/Template.v (the string-level reading of templates and instances used as SPECFAIL oracle) is not connected by a theorem to Spec/Route.v (the token-level relation the theorems use); both are run against the implementation on every case'],
    timeout=900,
)
