"""C03 -- transcoded request reconstruction."""


def _nontrivial(line):
    f = line.split(" ; ")[0].split()
    return len(f) >= 8 and (f[3] != "-" or f[4] != "-" or f[5] != "-")


CFG = dict(
    rule="a run-time schema (all 15 scalar kinds, enum with negative and maximal numbers, NullValue, bytes, repeated scalars of 8 kinds, "
         "repeated Timestamp, nested messages three deep, two oneofs, proto3 optional, 9 wrappers, Timestamp, Duration, FieldMask, "
         "Struct, a repeated message field and a map) under 17 rules (body '*', body field one and two deep, no body; up to 8 "
         "variables on top-level / nested fields; multi-segment capture). Streams: (1) round trip: a random message over boundary "
         "values (integer extremes and extremes+-1, 0..8-byte bytes incl. the ones spelling ++++ //// ---- ____, empty strings, "
         "repeated keys, max-nanos timestamps, negative durations, -0.0, float32/64 extremes) is split by an independent encoder "
         "(strconv / protojson leaf text, every base64 spelling, enum by name or number, JSON or proto key spelling, shuffled keys; "
         "JSON or protobuf body, gzip on/off) and must arrive proto-equal (expect M:); (2) malformed: one text of a valid request "
         "replaced by text invalid for its field, in the path or the query (1e2, 1.0, 2147483648, TRUE, -1 for unsigned, mixed "
         "base64 alphabets, bad padding, unknown enum names, bad timestamps ...) must be refused (expect E); (3) keys through "
         "repeated/map fields, unknown keys, message-typed keys must be refused; (4) lenient texts (white space, null, -0, "
         "non-canonical base64, quoted wrapper text, NaN/Infinity) and (5) broken / mistyped / wrongly compressed bodies: tie only. "
         "Tie in every case: handler's whole message or HTTP status = extracted decode_request for one of the possible key orders. "
         "non-trivial = some capture, query pair or body present",
    nontrivial=_nontrivial,
    partial="C03_roundtrip covers singular leaves (scalars, enums, bytes, well-known types at singular fields) with one value per key, "
            "any key order; it states the received message at every leaf, at every parent of a leaf and everywhere no parameter "
            "writes (the body part) -- absence of entries under oneof siblings of a leaf and repeated keys (Append order) are "
            "checked by the differential run only. float/double text and the message-typed well-known types are library oracles. "
            "NaN / Infinity text for float/double is refused by larking (json.Unmarshal): messages with such values are outside "
            "'expressible' (judgement T6, see design/C03.md)",
    assumptions=[
        "two spellings of one field (JSON and proto name) in one query race on Go's map iteration order: not generated in the round-trip "
        "and lenient streams; where several keys touch one field the model result for every key order is admitted",
        "the router is not part of this model: captures are inputs; a capture that does not convert is NotFound (every template starts "
        "with a literal segment)",
        "a StringValue / BytesValue text that itself begins and ends with '\"' is read as quoted JSON by larking; the round-trip generator "
        "does not produce such strings (they are in the lenient stream)",
        "Content-Encoding is only sent with a body; an empty protobuf body is no body (ContentLength 0)",
        "google.api.HttpBody bodies and maps in the query are outside the model (a map key is refused; asserted by stream 3)",
    ],
    trusted=[
        "protobuf-go reflection rendered by hand in Model/Schema.v; base64 in Base/B64.v (+ Go's decoder skipping CR/LF, modelled in "
        "Params.parse_bytes); encoding/json for bool and integers modelled in full and proved equal to the grammar Spec/Json3.v",
        "oracles supplied per case by calling the libraries: json.Unmarshal into float32/float64, protojson.Unmarshal of the well-known "
        "types (with and without strconv.Quote), protojson / proto Unmarshal of the body, gzip",
        "the independent client-side encoder of the harness (strconv, protojson.Marshal, encoding/base64, url.QueryEscape / PathEscape)",
    ],
    timeout=900,
)
CFG["rule"] += ' The mux under test registers one more service after the rules are bound (the routes are served from a copied routing state).'
