"""C06 -- stream sequence fidelity on every streaming transport (driver configuration)."""


def _nontrivial(line):
    f = line.split(" ; ")[0].split()
    if f[0] == "C06Z":
        return True                            # every damaged-gzip case carries at least one message
    if f[0] == "C06W":
        return f[2] != "-" or f[5] != "-"      # the client or the handler sends at least one message
    return len(f[7]) > 1 or f[10] != "-"       # a non-empty request body or at least one reply


CFG = dict(
    rule="C06: a recording streaming handler (bidi / client / server streaming on a dynamic service; HttpBody upload and "
         "download methods) is driven through Mux.ServeHTTP in-process with the request body served by a scripted "
         "fragmenting reader: client sequences of 0..6 messages incl. empty ones and messages at limit-1/limit/limit+1; "
         "HttpBody uploads of every length in {0,1,k*limit-1,k*limit,k*limit+1} for limits 1,2,3,4,8; ALL 2^(n-1) read "
         "partitions of bodies <= 12 bytes (14 thorough), seeded partitions beyond, both EOF styles; EVERY truncation "
         "offset of every well-formed body; malformed streams (JSON garbage, varint prefixes, flags 2/0x80, compressed "
         "flag without/with decompressor, corrupt gzip, oversize lengths, corrupt/truncated base64, random frame soups); "
         "transports HTTP(JSON, length-delimited protobuf, HttpBody chunks; Content-Encoding gzip; known / unknown / zero "
         "Content-Length) x gRPC(proto,json; per-message gzip) x gRPC-web binary and base64-text, each over HTTP/1.1 and "
         "HTTP/2. Observed: the frames handed to the codec's Unmarshal (recording codec wrappers around CodecJSON / "
         "CodecProto, HttpBody data), the class of the error ending RecvMsg, the frames marshalled for the replies, "
         "response body, HTTP status, grpc-status (trailer, trailer frame or trailers-only header). Judged by the "
         "extracted pure parsers (http_stream / single_request / grpc_stream / parse_grpc_resp / parse_web_resp), by "
         "equality with what was sent (delivered_ok / truncated_ok / chunks_ok), and compared exactly with the extracted "
         "models (http_recv_all, grpc_recv_all, http_send, grpc_send, web_resp) run on the schedule the reader actually "
         "served. C06W: WebSocket exchanges through a loopback server (42 x 3..6 exchanges quick): client sequences of "
         "0..6 text frames ended by close 1000 / 1001 / no-status / TCP abort, or the handler ending the call after k "
         "replies with a status. non-trivial = non-empty request body or at least one reply",
    nontrivial=_nontrivial,
    assumptions=[
        "limits are positive and below 2^63 (the mux passes MaxReceiveMessageSize); message lengths on gRPC are below 2^32",
        "a Reader returns at least one byte per call unless at EOF; buffer capacity is not modelled (it only lowers a read size, which is another schedule)",
        "a JSON message of a client stream is an object starting with '{' (what protojson emits); bytes at depth 0 between objects are skipped by the brace scanner (C17's reading)",
        "a chunked request with an empty body is a stream of zero messages; a request without a body (Content-Length 0) is one message built from the parameters (http.go's no-body path, as written)",
        "an HttpBody upload has no framing of its own: its truncation is not detectable at this layer and is not claimed",
        "gRPC-web-text request bodies are ONE base64 stream (padding only at the end); concatenated padded groups are decoded by Go's streaming decoder in a read-size dependent way and are not generated",
        "on gRPC the class of a framing error is not part of the claim (a cut inside the 5-byte header is reported as a Canceled status by isStreamError): clean end versus error is; on HTTP the class is compared exactly",
        "WebSocket: when the client closes first, gobwas' control handler echoes the client's close code before the handler has returned; the status frame larking writes afterwards is a second close frame. The final status is claimed only when the server ends the call (recorded as W2 in design/C06.md)",
    ],
    trusted=[
        "Unmarshal/Marshal of the codecs (proto, protojson) are oracles: the harness records the frames handed to / produced by them through wrapper codecs registered with CodecOption and checks the handler's messages against the plain library codecs",
        "gzip is an oracle (inverse pair): per-case tables of compressed=plain values computed with compress/gzip are handed to the extracted functions",
        "encoding/base64's streaming decoder is modelled (Spec/StreamSpec.v b64_stream: whole quanta, then clean / cut / corrupt) and validated only by the exact comparison; B64.v's one-shot decoder judges text-mode responses",
        "gobwas/ws framing and close handshake (wsutil.ReadClientData, ControlFrameHandler) are the library's; larking's use of them is modelled and tied through a loopback server",
        "httptest.ResponseRecorder as the client-side view of body, headers and trailers",
    ],
    timeout=900,
)
CFG["rule"] += ' Plain HTTP uploads (shape up) are sent as "Application/Vnd.C06+Bin; charset=utf-8; boundary=xYz": the first HttpBody message must carry exactly that content_type.'
