"""./check configuration of C10 (proxying through RegisterConn is transparent)."""


def _nontrivial(line):
    # a call in which at least one message travels in each direction or the backend fails
    f = line.split(" ; ")[0].split()
    if len(f) < 11:
        return False
    return ("s" in f[3] and "s" in f[4]) or f[5] != "0"


CFG = dict(
    rule="call scripts run over loopback gRPC, once directly against a scripted grpc-go backend (reflection registered) and once "
         "through larking (Mux.RegisterConn + NewServer; gRPC client on the front for all four method shapes, HTTP/JSON client for "
         "unary): client = sends / waits for one reply / half-close in any order (0..4 messages), backend = receive one / receive "
         "to end-of-stream / send in any order (0..4 replies, also before reading), final status OK or one of 10 failing statuses "
         "(message with '%' and non-ASCII, with and without details) before the first reply, after k replies, after half-close, "
         "before the client's half-close; request, header and trailer metadata (text, multi-valued, -bin, empty). Structured "
         "families + random scripts; scripts on which the direct call itself hangs are kept to 2 per run. The two observed "
         "transcripts (backend: messages, end-of-stream, request metadata; client: messages, code, message, details, header and "
         "trailer metadata, or 'hang' after the 2 s deadline) must be equal (SPECFAIL) and equal to what Model/Proxy.v predicts "
         "under four different schedules (MISMATCH). non-trivial = messages in both directions or a failing status",
    nontrivial=_nontrivial,
    assumptions=[
        "a gRPC call is a pair of FIFO channels with half-close marker and final status; SendMsg never blocks (messages are small, grpc-go's flow control does not engage)",
        "non-client-streaming calls carry exactly one request; a backend of a non-server-streaming method sends at most one reply (gRPC protocol; more is an Internal error on either path and not generated)",
        "faults are the backend's (status at any point of its script); a client that sends undecodable messages or cancels is outside the property",
        "metadata is compared on keys starting with x- (transport keys such as :authority, user-agent, content-type legitimately differ); trailer metadata is not read on the HTTP front",
        "a call that has not ended 2 s after it began is observed as 'hang' (one-sided bound; every non-hanging call on loopback ends within milliseconds)",
    ],
    trusted=[
        "grpc-go as client, as backend server and as reflection server; its transport (ordering of DATA and trailers, RST_STREAM, flow control) is the oracle the channel model abstracts",
        "the Go simulation c10Live only selects which scripts are run (keeps deadlocking scripts rare); it decides nothing",
    ],
    partial="transcript equality, absence of added deadlock and termination are proved for every script and every interleaving of the "
            "modelled steps (client, backend, handler main loop, pump); grpc-go's transport timing and flow control, cancellation "
            "by the client, and malformed client messages are not modelled (the loopback run observes the first, nothing claims the others)",
    timeout=900,
)

CFG["rule"] += " Also: application metadata under grpc-* names the protocol does not reserve (grpc-tenant, grpc-retry-pushback-ms, grpc-previous-rpc-attempts) in request, header and trailer position; front 'grpcl' = a second mux over the same backend with MaxReceiveMessageSize 96 (send limit default), replies of 90 / 97 / 200 / 5000 bytes on all four shapes."
CFG["rule"] += ' Request / header / trailer metadata also under names that only begin like hop-by-hop headers and the bare tails of the grpc-* names.'
CFG["rule"] += ' Front web: the proxied call made as a gRPC-web client makes it (application/grpc-web+proto over HTTP/1.1; unary and server streaming, every status, 0..2 replies before it): messages, status code, message and details from the trailer frame or -- a reply without any message -- from the response header (header and trailer metadata are then not told apart: *).'
