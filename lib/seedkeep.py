#!/usr/bin/env python3
"""seedkeep.py <property> <srcdir> <name> <caught|missed> [note]: keep a confirmed seeded change under seeded/<name>/"""
import sys, os, json, shutil
pid, src, name, verdict = sys.argv[1:5]
note = sys.argv[5] if len(sys.argv) > 5 else ""
dst = os.path.join(os.path.dirname(os.path.dirname(os.path.abspath(__file__))), "seeded", name)
os.makedirs(dst, exist_ok=True)
for f in ("patch.diff", "demo_test.go"):
    shutil.copy(os.path.join(src, f), os.path.join(dst, f))
try:
    meta = json.load(open(os.path.join(src, "meta.json")))
except Exception:
    meta = {}
meta["property"] = pid
meta["confirmed"] = ["scratch worktree of /repo HEAD: demo test passes without the change; with the change `go build ./...` ok, pinned suite `go test -vet=off -count=1 ./...` passes, demo test fails (lib/seedtest.sh)"]
meta["check_result"] = {"check": "./check %s --tier quick" % pid, "verdict": verdict, "note": note}
json.dump(meta, open(os.path.join(dst, "meta.json"), "w"), indent=1)
print("kept", dst)
