#!/usr/bin/env python3
"""Rewrite the generated tables of DESIGN.md (between <!-- BEGIN x --> / <!-- END x --> markers):
seeded changes (from seeded/*/meta.json), findings (KNOWN_FINDINGS.json), theorem counts (Properties/*.v)."""
import json, glob, os, re
ROOT = os.path.dirname(os.path.dirname(os.path.abspath(__file__)))
def esc(s): return s.replace("|", "\\|").replace("\n", " ")
seeds = ["| seed | change | needs | check | how it was reported |", "|---|---|---|---|---|"]
for d in sorted(glob.glob(os.path.join(ROOT, "seeded", "C*"))):
    m = json.load(open(os.path.join(d, "meta.json")))
    cr = m.get("check_result", {})
    seeds.append("| %s | %s | %s | `%s` | **%s** — %s |" % (os.path.basename(d), esc(m.get("summary", ""))[:260], esc(str(m.get("needs", "")))[:200],
                 cr.get("check", ""), cr.get("verdict", ""), esc(cr.get("note", ""))))
k = json.load(open(os.path.join(ROOT, "KNOWN_FINDINGS.json")))
fnd = ["| id | property | status | commit | what failed |", "|---|---|---|---|---|"]
for f in k["findings"]:
    fnd.append("| %s | %s | %s | %s | %s |" % (f["id"], f["property"], f["status"], f.get("commit", ""), esc(f["what"])[:300]))
thm = ["| property | theorems in Properties/Cxx.v | names |", "|---|---|---|"]
for p in sorted(glob.glob(os.path.join(ROOT, "coq", "theories", "Properties", "C*.v"))):
    s = open(p).read()
    names = re.findall(r"^\s*Theorem\s+([A-Za-z0-9_']+)", s, re.M)
    thm.append("| %s | %d | %s |" % (os.path.basename(p)[:-2], len(names), ", ".join("`%s`" % n for n in names)))
p = os.path.join(ROOT, "DESIGN.md")
s = open(p).read()
for tag, rows in (("SEEDS", seeds), ("FINDINGS", fnd), ("THEOREMS", thm)):
    b, e = "<!-- BEGIN %s -->" % tag, "<!-- END %s -->" % tag
    if b in s and e in s:
        s = s[:s.index(b) + len(b)] + "\n" + "\n".join(rows) + "\n" + s[s.index(e):]
open(p, "w").write(s)
print("tables:", len(seeds) - 2, "seeds,", len(fnd) - 2, "findings,", len(thm) - 2, "property files")
