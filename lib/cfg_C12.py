"""C12 -- registration is atomic with respect to concurrent serving (driver configuration).
translator: regenerates coq/theories/Gen/SyncSkeleton.v from the Go source (lib/syncskel, go/ast).
extra: supporting search -- the histories replayed with concurrent request streams under -race."""
import os, re


def _nontrivial(line):
    f = line.split(" ; ")[0].split()
    return len(f) == 3 and "R" in f[2]


def translator(ROOT, REPO, BUILD, log, sh):
    out = os.path.join(ROOT, "coq", "theories", "Gen", "SyncSkeleton.v")
    rc, txt = sh(["go", "run", ".", os.path.join(REPO, "larking")], 300, cwd=os.path.join(ROOT, "lib", "syncskel"))
    log.write("== syncskel (rc=%s) ==\n%s\n" % (rc, txt[-3000:]))
    if rc != 0 or "Definition skeleton_ok" not in txt:
        return dict(ok=False, detail="the go/ast translator failed on larking/*.go: " + txt[-400:],
                    replay="translator lib/syncskel failed\n" + txt[-2000:])
    txt = txt[txt.index("(* GENERATED"):]
    old = open(out).read() if os.path.exists(out) else ""
    if old != txt:
        # keep the last version that was in place, so that a skeleton that no longer proves does not
        # stay behind and break the build of the other properties (restored in extra())
        os.makedirs(BUILD, exist_ok=True)
        open(os.path.join(BUILD, "SyncSkeleton.prev"), "w").write(old)
        open(out, "w").write(txt)
    writers = re.findall(r"\(\* (\w+) \*\) SkFn", txt)
    unknown = txt.count("KUnknown")
    return dict(ok=True, detail="regenerated Gen/SyncSkeleton.v from %s/larking: functions %s; %d unclassified shapes; changed=%s"
                % (REPO, ",".join(writers), unknown, old != txt))


def _restore_if_broken(ROOT, BUILD, log, sh):
    out = os.path.join(ROOT, "coq", "theories", "Gen", "SyncSkeleton.v")
    prev = os.path.join(BUILD, "SyncSkeleton.prev")
    rc, txt = sh(["coqc", "-Q", "theories", "Larking", "theories/Gen/SyncSkeleton.v"], 300, cwd=os.path.join(ROOT, "coq"))
    if rc != 0 and os.path.exists(prev) and open(prev).read().strip():
        log.write("== regenerated SyncSkeleton.v does not prove; previous version restored for the other properties ==\n")
        open(out, "w").write(open(prev).read())
        sh(["coqc", "-Q", "theories", "Larking", "theories/Gen/SyncSkeleton.v"], 300, cwd=os.path.join(ROOT, "coq"))


def extra(ROOT, REPO, BUILD, log, sh, tier, seed, build_harness):
    _restore_if_broken(ROOT, BUILD, log, sh)
    ok, why = build_harness(log, race=True)
    if not ok:
        return dict(problems=[("build", "race build of the harness failed: " + why, why)])
    env = dict(os.environ, GORACE="halt_on_error=1 exitcode=66", GOFLAGS="-mod=mod", GOPROXY="off", GOSUMDB="off", GOTOOLCHAIN="local")
    outp = os.path.join(BUILD, "run", "c12race-%d.txt" % os.getpid())
    os.makedirs(os.path.dirname(outp), exist_ok=True)
    rc, txt = sh([os.path.join(BUILD, "verifh-race"), "C12R", "gen", "-seed", str(seed), "-tier", tier, "-out", outp],
                 1500 if tier == "thorough" else 400, env=env)
    log.write("== race replay (rc=%s) ==\n%s\n" % (rc, txt[-4000:]))
    try:
        os.remove(outp)
    except OSError:
        pass
    m = re.search(r"C12R histories=(\d+) requests=(\d+) bad=(\d+) first=(.*)", txt)
    cov = {"race_search": {"label": "supporting search, not a proof: histories replayed with 4 concurrent request streams under the race detector",
                           "histories": int(m.group(1)) if m else 0, "requests": int(m.group(2)) if m else 0,
                           "failed_requests": int(m.group(3)) if m else None, "exit": rc}}
    if "DATA RACE" in txt or rc == 66:
        i = txt.find("WARNING: DATA RACE")
        return dict(violation="property C12: the race detector reports a data race while histories of register/drop operations "
                              "run against concurrent requests (seed %d)\n%s\n" % (seed, txt[i:i + 3000]), coverage=cov)
    if rc != 0 or not m:
        return dict(problems=[("harness", "race replay failed (rc=%s): %s" % (rc, txt[-600:]), txt[-2000:])], coverage=cov)
    if int(m.group(3)) > 0:
        return dict(violation="property C12: %s requests failed or panicked while registrations ran concurrently (seed %d); first: %s\n"
                              % (m.group(3), seed, m.group(4)), coverage=cov)
    return dict(coverage=cov,
                samples=["race search: %s histories, %s concurrent requests, 0 failures, no race reported" % (m.group(1), m.group(2))])


CFG = dict(
    rule="C11's histories (all of length 3 over 15 operations in the quick tier, length 4 thorough, + seeded random histories of "
         "length 4..12) on a fresh Mux with real loopback backends; after every step the published snapshot pointer is captured "
         "(VerifSnapshot) and the structural fingerprint (VerifFingerprint) of EVERY earlier captured snapshot is recomputed and "
         "compared with its value at capture; failing steps must leave the published pointer untouched. non-trivial = history "
         "with a RegisterConn. Plus (extra, supporting search) random histories with 4 concurrent request streams under -race.",
    nontrivial=_nontrivial,
    translator=translator,
    extra=extra,
    partial="atomicity, immutability and linearizability are proved on the heap model (Model/Snapshot.v) under all interleavings of "
            "its events; the Go memory model, atomic.Value and sync.Mutex are trusted primitives; data-race freedom of the real "
            "binary is only searched for with the race detector (labelled supporting search); the heap model's clone is an arena "
            "copy (equal to the recursive deep copy on a tree) and delRule's pruning of emptied nodes is not modelled",
    assumptions=[
        "the lock / load / clone / store discipline of the events (EBegin = Lock + loadState().clone(), EStore last, EAbort before "
        "the store, readers load once) is the one Gen/SyncSkeleton.v re-derives from larking/*.go on every run (skeleton_ok = true)",
        "atomic.Value Load/Store are atomic and sequentially consistent; sync.Mutex excludes; a defer runs at return",
        "the routing trie is a tree (each node is created by one addPath / addVariable and has one parent), so path.clone's recursion "
        "copies exactly the nodes reachable from the root",
        "handler values and descriptor values stored in the maps are immutable (RO in the source)",
    ],
    trusted=[
        "lib/syncskel (go/ast translator, ~250 lines): recognises Lock / defer Unlock / loadState().clone() / loadState() / storeState / "
        "returns / uses of the cloned variable; anything else touching Mux.mu or Mux.state becomes KUnknown, which fails skeleton_ok",
        "VerifSnapshot / VerifFingerprint of larking/verif_hooks.go (the fingerprint covers the trie's String(), the handler pointers per "
        "method and the conns map; it does not print '*'-kind bindings)",
        "the Go race detector (finds only races that happen in the explored schedules)",
    ],
    timeout=900,
)

CFG["rule"] += ' Also the histories around descriptor sets 9 / 10 (see C11) and registrations from a backend whose reflection stream ends with an error status after everything was answered (R<c>.<d>~): a call that returns an error must not have published.'
CFG["rule"] += " Race stage (C12R): after every operation, with the 4 concurrent request streams held, every probe of the mux must be a possible answer of a reference mux that went through the same operations alone; 24 random histories plus 6 register / drop churn histories with the streams on the fixed paths; the streams' requests carry 20000 Upgrade values (longer between loading the state and routing)."
CFG["rule"] += ' Local registrations pass the same implementation object every time that implementation is registered (a registration of an implementation that is already serving must not touch a published snapshot either).'
