#!/bin/sh
# seedtest.sh <property> <dir with patch.diff demo_test.go meta.json> [check ids...]
# 1. confirms in a scratch worktree: demo passes without the change; with it the code builds, the
#    pinned suite passes and the demo fails.  2. applies the change to /repo, runs the checks, reverts.
export GOFLAGS=-mod=mod GOPROXY=off GOSUMDB=off GOTOOLCHAIN=local
P="$1"; D=$(cd "$2" && pwd); shift 2
CHECKS="${*:-$P}"
WT=/tmp/st-$$
git -C /repo worktree add -q --detach $WT HEAD || exit 2
trap 'git -C /repo worktree remove --force $WT >/dev/null 2>&1; git -C /repo checkout -q -- .
rm -f /tmp/st-$$.patch ' EXIT
cp "$D/demo_test.go" $WT/larking/zz_mutdemo_test.go
( cd $WT && go test -vet=off -count=1 -run 'TestMutDemo' ./larking/ >/tmp/st-$$.a 2>&1 ); A=$?
rm $WT/larking/zz_mutdemo_test.go
git -C $WT apply "$D/patch.diff" 2>/dev/null || git -C $WT apply --3way "$D/patch.diff" >/dev/null 2>&1 || { echo "SEED $P $D: patch does not apply"; exit 2; }
git -C $WT diff HEAD > /tmp/st-$$.patch   # the change against the current HEAD (refreshed if it had drifted)
( cd $WT && go build ./... >/tmp/st-$$.b 2>&1 ); B=$?
( cd $WT && go test -vet=off -count=1 ./... >/tmp/st-$$.s 2>&1 ); S=$?
cp "$D/demo_test.go" $WT/larking/zz_mutdemo_test.go
( cd $WT && go test -vet=off -count=1 -run 'TestMutDemo' ./larking/ >/tmp/st-$$.c 2>&1 ); C=$?
echo "SEED $P $(basename $D): demo-without-change rc=$A (want 0) build rc=$B (want 0) suite rc=$S (want 0) demo-with-change rc=$C (want !=0)"
[ $S -ne 0 ] && tail -15 /tmp/st-$$.s
rm -f /tmp/st-$$.a /tmp/st-$$.b /tmp/st-$$.c /tmp/st-$$.s
git -C /repo worktree remove --force $WT >/dev/null 2>&1
git -C /repo apply /tmp/st-$$.patch || exit 2
cp /tmp/st-$$.patch "$D/patch.diff"
for c in $CHECKS; do
  OUT=$(cd /verif && VERIF_NOEVIDENCE=1 ./check $c --tier quick 2>&1 | tail -4)
  echo "$OUT" | grep -q '^VIOLATION' && echo "  check $c: CAUGHT  $(echo "$OUT" | grep '^VIOLATION')" || echo "  check $c: MISSED"
  echo "$OUT" | grep -v '^VIOLATION' | tail -2 | sed 's/^/    /'
done
git -C /repo checkout -q -- .
rm -f /tmp/st-$$.patch
