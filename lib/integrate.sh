#!/bin/sh
# integrate.sh <workspace-id e.g. C20>: copy the files a builder created in /var/tmp/b-<id>/verif into /verif
# (untracked files and files added in the builder's own commits; modified shared files are listed for manual merging)
W=/var/tmp/b-$1/verif
cd $W || exit 1
BASE=""
for h in $(git log --format=%H); do if git -C /verif cat-file -e $h 2>/dev/null; then BASE=$h; break; fi; done
{ git status --porcelain --untracked-files=all | awk '{print $1" "$2}'; [ -n "$BASE" ] && git diff --name-status $BASE HEAD | awk '{s=$1; if (s=="A") s="??"; print s" "$2}'; } | sort -u | while read st f; do
  case "$f" in
    _build/*|harness/go.sum|*.vo|*.vok|*.vos|*.glob|*.aux|coq/Makefile*|coq/.*) continue;;
  esac
  [ -e "$f" ] || continue
  if [ "$st" = "??" ]; then
    mkdir -p "/verif/$(dirname "$f")"; cp -a "$f" "/verif/$f"; echo "new  $f"
  else
    echo "MOD  $st $f   (merge by hand)"
  fi
done
echo "--- repo commits on b-$1:"
git -C /var/tmp/b-$1/repo log --oneline main..b-$1 2>/dev/null | head -20
