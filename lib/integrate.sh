#!/bin/sh
# integrate.sh <workspace-id e.g. C20>: copy the files a builder created in /var/tmp/b-<id>/verif into /verif
# (untracked files only; modified tracked files are listed for manual merging)
W=/var/tmp/b-$1/verif
cd $W || exit 1
git status --porcelain --untracked-files=all | while read st f; do
  case "$f" in
    _build/*|harness/go.sum|*.vo|*.vok|*.vos|*.glob|*.aux|coq/Makefile*|coq/.*) continue;;
  esac
  if [ "$st" = "??" ]; then
    mkdir -p "/verif/$(dirname "$f")"; cp -a "$f" "/verif/$f"; echo "new  $f"
  else
    echo "MOD  $st $f   (merge by hand)"
  fi
done
echo "--- repo commits on b-$1:"
git -C /var/tmp/b-$1/repo log --oneline main..b-$1 2>/dev/null || git -C /var/tmp/b-$1/repo log --oneline -5
