"""driver configuration of C16 (routing core)"""
def _nontrivial(line):
    f = line.split(' ; ')
    return '~' in f[0]

CFG = dict(
    rule="RG cases: registration of one generated rule (or a small rule set) onto an empty mux and onto a mux that already serves a base service: 58 hand-picked templates (single-rune literals, dotted/hyphenated literals, nested field paths, verbs, '**' in the middle, nested variables, empty segments, digits first, unbalanced braces, non-ASCII letters, the implicit path of the own and of another method), 12 body selectors, additional bindings (fine, failing, nested), templates of 57-69 tokens, 160 grammar-derived templates each with 12 single-edit mutations (delete / insert / replace at a seeded position from '/ { } = * . : a A 1 - _ e-acute space'), and generated colliding rule sets. Observation: accepted / rejected / panicked, and three probes of the previously registered routes. Judged by the independent template parser of Spec/Template.v (accepted iff every template parses, fields resolve, selectors usable, no two methods collide); compared with the extracted model of registration. non-trivial = the rule set has a binding",
    nontrivial=_nontrivial,
    assumptions=["unicode.IsLetter / IsNumber are parameters of model and theorems; the completeness theorems assume Sane (the grammar's delimiters * . / : = { } are neither letters nor numbers), which holds for Go's unicode tables; the harness ships, per case, which non-ASCII runes of the case are letters / numbers (computed by Go's unicode package)", 'the protobuf schema is an oracle: which field paths of the request type resolve, which name singular messages (fixed test message verif.rt.Msg, transcribed in ocaml/c01.ml)', 'typed conversion of a capture (parseParam) is an oracle okconv; the routing harness uses string fields and one int32 field', 'a template in which one field is bound by two variables is not generated (Go applies the deepest capture first, so the first variable would win)'],
    trusted=["ocaml/c01.ml transcribes the test message's schema (resolves / body_ok) and Go's int32 text grammar by hand", 'Spec/Template.v (the string-level reading of templates and instances used as SPECFAIL oracle) is not connected by a theorem to Spec/Route.v (the token-level relation the theorems use); both are run against the implementation on every case'],
    timeout=900,
)
