"""C20: server mount prefixes are transparent (NewServer, MuxHandleOption, HTTPHandlerOption)."""


def _nontrivial(line):
    inp, _, obs = line.partition(" ; ")
    o = obs.split()
    # a handler of the configuration really ran (service call recorded / extra handler hit), or NewServer refused
    return o[:1] in (["err"], ["panic"]) or (len(o) >= 6 and (o[5] != "-" or o[2] == "extra"))


CFG = dict(
    rule="case = (nil mux?, ServerOption list, request kind, request path). Options: 16 fixed configurations "
         "(default, '/', with/without trailing slash, TestMuxHandleOption's '/', '/api/', '/pfx', nested /twirp + /twirp/v2 in "
         "both orders, '/v1' colliding with the service's own /v1 rules, '', extra handlers on exact and subtree patterns outside, "
         "inside and at the bare prefix of a mount) x 42 base requests (instantiations and near misses of every HTTP rule of "
         "testpb.Messaging, Twirp JSON/protobuf, gRPC proto/json, gRPC-web binary/text, unknown services and methods) x prefixes "
         "(every mount prefix p, p+'x', p minus its last byte, p+p, p+'/x', other mount-like words, none) + bare prefixes + "
         "the extra handlers' own patterns and neighbours; 23 validation configurations (nil mux, repeated / nil / empty "
         "MuxHandleOption, same prefix twice, handler pattern equal to a mount, nil handler, empty pattern) x nil/non-nil mux; "
         "2500 (thorough 60000) random configurations of 1-3 mounts from 24 and 0-2 extra handlers from 15 patterns, option "
         "order shuffled, 4 requests each incl. unclean paths, double prefixes, bare prefixes. The request goes through "
         "hs.Handler of the *http.Server NewServer returns (h2c wrapper -> ServeMux -> StripPrefix -> Mux) and, for every "
         "suffix of the path starting at '/', through the bare Mux; responses are compared field by field (status, all "
         "headers, trailers, body bytes) together with the call the recording testpb.Messaging service saw (method + "
         "decoded request); extra handlers record (index, URL.Path). spec_ok (Coq, Spec/MountSpec.v) judges the observation; "
         "the model's prediction (mux with stripped path / extra handler i with path / net/http 404 / 301 with Location / "
         "NewServer error / NewServer panic) is compared exactly. non-trivial = a service method or an extra handler really "
         "ran, or NewServer refused the configuration. C20L: ~480 (thorough ~7k) of the same requests against a real listener "
         "(NewServer on 127.0.0.1: HTTP/1.1 client without redirect following, grpc-go client over h2c with the prefix in the method "
         "string) compared with a second listener serving the bare mux",
    nontrivial=_nontrivial,
    assumptions=[
        "mount and handler patterns are plain clean absolute paths (start with '/', clean, no space/tab/'{'/'%'; '' means '/'): "
        "Go 1.22 pattern syntax (methods, hosts, wildcards, %-escapes, empty literal segments acting as wildcards) is outside the model "
        "and is never generated",
        "request paths are clean (cleanPath(p) == p; trailing slash allowed): net/http answers any other path with a 301 before a "
        "handler runs (that much is modelled and checked; the redirect target of an unclean path is not)",
        "URL.RawPath is empty (no %2F-style escapes) and the method is not CONNECT",
        "longest-pattern-wins and the '/p' -> '/p/' redirect are net/http's documented rules: with nested mounts or handlers inside a "
        "mount a path belongs to the longest matching pattern (hypotheses of C20_transparent, discharged by C20_transparent_unnested)",
        "ServeMux.Handle's panic on a duplicate / empty pattern or nil handler propagates out of NewServer; this is modelled as the "
        "code's behaviour, not judged",
    ],
    trusted=[
        "net/http ServeMux (Go 1.23.5, plain patterns) and http.StripPrefix are modelled in Model/Mount.v and validated by the exact "
        "comparison of every case; h2c.NewHandler is passed through by in-process requests and exercised by the C20L gRPC client",
        "httptest.ResponseRecorder as the client's view; 'the response was produced by the Mux' is inferred from: no extra handler "
        "hit, not net/http's '404 page not found', not a 3xx with Location",
    ],
    partial="the Location of the redirect for an unclean path is not modelled; over the real listener a grpc-go client cannot tell "
            "the Mux's own HTTP 404 (unknown method) from net/http's, so those loopback cases admit both readings (the in-process "
            "and HTTP/1 cases are exact)",
    timeout=900,
)

CFG["rule"] += " C20L also with a WebSocket client (testpb.ChatRoom's WEBSOCKET /v1/{name=rooms/*} under every mount prefix and its near misses: handshake status and the echoed frame)."
CFG["rule"] += ' Option T: TLSCredsOption with a non-nil *tls.Config (how the listener is wrapped, not what the handler serves) -- in the fixed configurations beside mounts and extra handlers, and in front of one random configuration in five.'
CFG["rule"] += ' Marker L (always last, not an option): the server is built on a mux that has nothing yet and the services are registered afterwards -- one random configuration in six and three fixed ones.'
