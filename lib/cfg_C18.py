"""C18 -- interceptors and stats handlers see every RPC exactly once."""


def _nontrivial(line):
    f = line.split(" ; ")[0].split()
    # routed, and some option installed (otherwise only the baseline is exercised)
    if f[0] == "C18P":
        return len(f) == 9 and (f[7] == "1" or f[8] == "1")
    return len(f) == 13 and f[3] == "1" and (f[11] == "1" or f[12] == "1")


CFG = dict(
    rule="one case = one RPC through Mux.ServeHTTP (in-process; gRPC: ProtoMajor 2 + application/grpc, gRPC-web: HTTP/1 + "
         "application/grpc-web+proto, HTTP transcoding: POST rule with body:'*' or GET rule without body, application/protobuf) on "
         "{unary, client-, server-, bidi-streaming} dynamic methods, with recording unary/stream interceptors and a recording "
         "stats.Handler installed or not (4 Mux instances). Product: 3 protocols x 4 shapes x 4 option combinations x request/reply "
         "sizes {0,2,...,10,16,64,129,130,131,300} bytes x OK / failing handler, body-less and message-less requests, unregistered "
         "names; random: scripts over {RecvMsg, SendMsg(p), SendHeader, cancel the context} of length <= 7, 0-3 request messages "
         "incl. payloads that do not unmarshal, final status, interceptor that passes / rejects / overrides. Recorded: interceptor "
         "calls (kind, FullMethod, flags), TagRPC + every HandleRPC event (kind, Length, WireLength, End code, IsClient, ctx from "
         "TagRPC), results of the handler's stream operations, messages delivered, code the interceptor returned, HTTP status / "
         "grpc-status / body; the same scenario is run on the option-less Mux. The record is compared exactly with Events.serve "
         "and judged by EventsSpec.trace_ok / calls_ok, status = interceptor's code, result = option-less result. C18P: the same "
         "recorders on a Mux whose handlers are proxied (RegisterConn to a grpc-go backend on loopback, found by reflection): unary "
         "and server-streaming methods x 3 protocols x 4 option combinations x sizes x OK/failing backend (calls, events, "
         "interceptor result and client view compared with the model; the backend's view is not recorded). "
         "non-trivial = routed and at least one option installed",
    nontrivial=_nontrivial,
    assumptions=[
        "no message compression (grpc-encoding) and default size limits: the compressed-payload branch of streamGRPC and the size checks are not exercised or modelled",
        "requests are well-framed (whole gRPC frames / varint-delimited messages); payloads may fail to unmarshal (oracle: proto.Unmarshal)",
        "a unary interceptor does not return (nil, nil): larking then calls SendMsg(nil), which panics (modelled as Panic PNil, compared, outside C18_no_crash's hypothesis)",
        "a unary RPC whose request message cannot be received never reaches the interceptor (as in grpc-go: the generated code decodes first); C18_once states the call count as 'one iff the first RecvMsg succeeded'",
        "cancellation is the request context being cancelled by the handler script (deterministic); deadlines are C15's",
        "HTTP client streams deliver one extra empty message at the end of the body (C06's finding F1, present in this tree); the model reproduces it, so InPayload/delivered counts include it",
        "WebSocket is outside the property's quantifier (findings E1, E6 are noted in design/C18.md only)",
        "proxied client- and bidi-streaming methods are not driven: their forwarding runs two goroutines, so the event order is a schedule (C10's domain)",
    ],
    trusted=[
        "the scripted handlers, recording interceptors and recording stats.Handler of harness/c18.go; httptest.ResponseRecorder as the client (trailers, trailer frame)",
        "oracle: proto.Unmarshal decides which request payloads are valid messages",
        "ocaml/c18.ml decodes the client view (gRPC frames, varint-delimited HTTP streams, google.rpc.Status code in an HTTP error body)",
    ],
    timeout=900,
)

CFG["rule"] += " imode also r<hex> / k<hex>: a unary interceptor that answers with a message of its own after / instead of calling the handler (local and proxied). C18B: HTTP replies that are google.api.HttpBody messages (unary, server stream, response_body selecting an HttpBody field), judged by trace_ok alone. C18Q: a proxied client-streaming / bidi call whose backend returns after the first message while the client's second message becomes readable exactly when the stats handler is told End (nothing may be reported after End), judged by trace_ok alone."
CFG["rule"] += ' C18Z also: failing handlers (io.EOF, context.Canceled, plain error, status) over gRPC and gRPC-web with the error required in End, and a request whose query is refused after routing.'
CFG["rule"] += ' The recording stats handler keeps every event object it is handed and formats each again after the RPC: an event that reads differently later (token R:<then>><now>) fails. It also masks its InHeader event (deletes x-c18-probe, plants x-c18-planted): interceptors and handlers must still see the request metadata as sent (tokens u!md / s!md / !md). C18Z also: handlers that SetHeader under a key that cannot be sent (hkey, +hkey) over gRPC and gRPC-web.'
