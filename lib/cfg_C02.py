"""driver configuration of C02 (routing core)"""
def _nontrivial(line):
    f = line.split(' ; ')
    return len(f) > 1 and ',200,' in f[1]

CFG = dict(
    rule="RTP cases: 220 generated rule sets (as C01, plus '*'-kind and specific-verb bindings on one node for the same and for different methods, the same template for two methods) each registered in ALL permutations of its methods when there are <= 3 and in 6 seeded ones otherwise; 4 paths per set; every permutation must give the same registration verdict and, when accepted, the same answer (status, method, fields); each answer is judged by the template specification (completeness on the strict reading: documented path characters, <= 64 tokens, convertible captures; literal-over-wildcard precedence) and compared with the model built in that order. non-trivial = some permutation dispatched",
    nontrivial=_nontrivial,
    assumptions=["unicode.IsLetter / IsNumber are parameters of model and theorems; the completeness theorems assume Sane (the grammar's delimiters * . / : = { } are neither letters nor numbers), which holds for Go's unicode tables; the harness ships, per case, which non-ASCII runes of the case are letters / numbers (computed by Go's unicode package)", 'the protobuf schema is an oracle: which field paths of the request type resolve, which name singular messages (fixed test message verif.rt.Msg, transcribed in ocaml/c01.ml)', 'typed conversion of a capture (parseParam) is an oracle okconv; the routing harness uses string fields and one int32 field', 'a template in which one field is bound by two variables is not generated (Go applies the deepest capture first, so the first variable would win)'],
    trusted=["ocaml/c01.ml transcribes the test message's schema (resolves / body_ok) and Go's int32 text grammar by hand", 'Spec/Template.v (the string-level reading of templates and instances used as SPECFAIL oracle) is not connected by a theorem to Spec/Route.v (the token-level relation the theorems use); both are run against the implementation on every case'],
    timeout=900,
)
CFG["rule"] += ' One rule verb in six is spelled as a custom kind in lower or mixed case (read as the upper-case verb).'
CFG["rule"] += ' Since round 8 every routing request is preceded, on the same mux, by requests for the same path under POST / GET / LIST (those that are not the request\'s own verb) and is sent twice; the two answers must be the same ("unstable" otherwise). Rule sets include one method with a verb-specific and a catch-all binding of one shape naming different fields.'
