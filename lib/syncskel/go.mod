module syncskel

go 1.22
