// syncskel <larking-dir>: prints Gen/SyncSkeleton.v, the lock / load / clone / store skeleton of the
// functions of package larking that touch Mux.state or Mux.mu, read off the source with go/ast.
// Shapes it does not recognise become KUnknown, which fails skeleton_ok instead of passing silently.
package main

import (
	"fmt"
	"go/ast"
	"go/parser"
	"go/token"
	"os"
	"path/filepath"
	"sort"
	"strings"
)

type fn struct {
	name   string
	events []string
}

func selName(e ast.Expr) string { // a.b.c -> "a.b.c"
	switch x := e.(type) {
	case *ast.Ident:
		return x.Name
	case *ast.SelectorExpr:
		return selName(x.X) + "." + x.Sel.Name
	case *ast.CallExpr:
		return selName(x.Fun) + "()"
	}
	return "?"
}

type walker struct {
	events   []string
	stateVar string
	raw      map[string]bool   // raw atomic accesses seen: "state.Load", "state.Store"
	types    map[string]string // receiver and parameters of the function: name -> named type (pointer dropped)
}

// foreign reports that a selector a.mu.X / a.state.X hangs off a variable whose declared type is known and is not
// Mux: another type's own mutex (e.g. a stream's) is not the routing state's lock. A base of unknown type stays in.
func (w *walker) foreign(name string) bool {
	base, _, _ := strings.Cut(name, ".")
	t, ok := w.types[base]
	return ok && t != "Mux"
}

func typeName(e ast.Expr) string {
	switch x := e.(type) {
	case *ast.StarExpr:
		return typeName(x.X)
	case *ast.Ident:
		return x.Name
	}
	return ""
}

// classify the calls inside one simple statement
func (w *walker) calls(n ast.Node, inLoop bool) (found bool) {
	ast.Inspect(n, func(x ast.Node) bool {
		if _, ok := x.(*ast.FuncLit); ok {
			// a closure must not touch the discipline
			if w.touches(x) {
				w.events = append(w.events, "KUnknown")
				found = true
			}
			return false
		}
		c, ok := x.(*ast.CallExpr)
		if !ok {
			return true
		}
		name := selName(c.Fun)
		if (strings.Contains(name, ".mu.") || strings.Contains(name, ".state.")) && w.foreign(name) {
			return true
		}
		switch {
		case strings.HasSuffix(name, ".loadState().clone"):
			w.events = append(w.events, "KLoadClone")
			found = true
			return false
		case strings.HasSuffix(name, ".loadState"):
			w.events = append(w.events, fmt.Sprintf("(KLoad %v)", inLoop))
			found = true
		case strings.HasSuffix(name, ".storeState"):
			w.events = append(w.events, fmt.Sprintf("(KStore %v)", inLoop))
			found = true
		case strings.HasSuffix(name, ".mu.Lock"):
			w.events = append(w.events, "KLock")
			found = true
		case strings.HasSuffix(name, ".mu.Unlock"):
			w.events = append(w.events, "KUnlock")
			found = true
		case strings.HasSuffix(name, ".state.Load"):
			w.raw["state.Load"] = true
			found = true
		case strings.HasSuffix(name, ".state.Store"):
			w.raw["state.Store"] = true
			found = true
		case strings.Contains(name, ".mu.") || strings.Contains(name, ".state."):
			w.events = append(w.events, "KUnknown")
			found = true
		}
		return true
	})
	return found
}

func (w *walker) touches(n ast.Node) bool {
	t := false
	ast.Inspect(n, func(x ast.Node) bool {
		if c, ok := x.(*ast.CallExpr); ok {
			name := selName(c.Fun)
			if strings.HasSuffix(name, ".loadState") || strings.HasSuffix(name, ".storeState") ||
				((strings.Contains(name, ".mu.") || strings.Contains(name, ".state.")) && !w.foreign(name)) {
				t = true
			}
		}
		return true
	})
	return t
}

func (w *walker) mentions(n ast.Node) bool {
	if w.stateVar == "" {
		return false
	}
	m := false
	ast.Inspect(n, func(x ast.Node) bool {
		if _, ok := x.(*ast.FuncLit); ok {
			return false
		}
		if id, ok := x.(*ast.Ident); ok && id.Name == w.stateVar {
			m = true
		}
		return true
	})
	return m
}

func (w *walker) simple(s ast.Stmt, inLoop bool) {
	n := len(w.events)
	if w.calls(s, inLoop) {
		// remember the variable the clone is assigned to
		if as, ok := s.(*ast.AssignStmt); ok && len(as.Lhs) == 1 && w.events[len(w.events)-1] == "KLoadClone" {
			if id, ok := as.Lhs[0].(*ast.Ident); ok {
				w.stateVar = id.Name
			}
		}
		_ = n
		return
	}
	if w.mentions(s) {
		w.events = append(w.events, "KUse")
	}
}

func (w *walker) block(stmts []ast.Stmt, cond, inLoop bool) {
	for _, s := range stmts {
		switch x := s.(type) {
		case *ast.ReturnStmt:
			w.simple(&ast.ExprStmt{X: &ast.CompositeLit{Elts: x.Results}}, inLoop)
			w.events = append(w.events, fmt.Sprintf("(KRet %v)", cond))
		case *ast.DeferStmt:
			if n := selName(x.Call.Fun); strings.HasSuffix(n, ".mu.Unlock") && w.foreign(n) {
				// another type's own mutex
			} else if strings.HasSuffix(n, ".mu.Unlock") {
				w.events = append(w.events, "KDeferUnlock")
			} else if w.touches(x) {
				w.events = append(w.events, "KUnknown")
			}
		case *ast.GoStmt:
			if w.touches(x) || w.mentions(x) {
				w.events = append(w.events, "KUnknown")
			}
		case *ast.IfStmt:
			if x.Init != nil {
				w.simple(x.Init, inLoop)
			}
			w.simple(&ast.ExprStmt{X: x.Cond}, inLoop)
			w.block(x.Body.List, true, inLoop)
			if x.Else != nil {
				w.block([]ast.Stmt{x.Else}, true, inLoop)
			}
		case *ast.BlockStmt:
			w.block(x.List, cond, inLoop)
		case *ast.ForStmt:
			if x.Init != nil {
				w.simple(x.Init, true)
			}
			w.block(x.Body.List, true, true)
		case *ast.RangeStmt:
			w.simple(&ast.ExprStmt{X: x.X}, true)
			w.block(x.Body.List, true, true)
		case *ast.SwitchStmt:
			for _, c := range x.Body.List {
				w.block(c.(*ast.CaseClause).Body, true, inLoop)
			}
		case *ast.TypeSwitchStmt:
			for _, c := range x.Body.List {
				w.block(c.(*ast.CaseClause).Body, true, inLoop)
			}
		case *ast.SelectStmt:
			for _, c := range x.Body.List {
				w.block(c.(*ast.CommClause).Body, true, inLoop)
			}
		default:
			w.simple(s, inLoop)
		}
	}
}

func codes(s string) string {
	var p []string
	for _, c := range []byte(s) {
		p = append(p, fmt.Sprint(int(c)))
	}
	return "[" + strings.Join(p, ";") + "]"
}

func main() {
	dir := os.Args[1]
	files, _ := filepath.Glob(filepath.Join(dir, "*.go"))
	sort.Strings(files)
	fset := token.NewFileSet()
	var writers, readers, others []fn
	var rawLoad, rawStore []string
	for _, f := range files {
		if strings.HasSuffix(f, "_test.go") {
			continue
		}
		src, err := os.ReadFile(f)
		if err != nil {
			panic(err)
		}
		if strings.Contains(string(src[:min(len(src), 200)]), "//go:build verif") {
			continue // the add-only accessor file is not part of the served code
		}
		af, err := parser.ParseFile(fset, f, src, 0)
		if err != nil {
			panic(err)
		}
		for _, d := range af.Decls {
			fd, ok := d.(*ast.FuncDecl)
			if !ok || fd.Body == nil {
				continue
			}
			w := &walker{raw: map[string]bool{}, types: map[string]string{}}
			for _, fl := range []*ast.FieldList{fd.Recv, fd.Type.Params} {
				if fl == nil {
					continue
				}
				for _, f := range fl.List {
					if tn := typeName(f.Type); tn != "" {
						for _, n := range f.Names {
							w.types[n.Name] = tn
						}
					}
				}
			}
			w.block(fd.Body.List, false, false)
			if w.raw["state.Load"] {
				rawLoad = append(rawLoad, fd.Name.Name)
			}
			if w.raw["state.Store"] {
				rawStore = append(rawStore, fd.Name.Name)
			}
			sync := false
			hasStore, hasLock, hasLoad := false, false, false
			for _, e := range w.events {
				switch {
				case strings.HasPrefix(e, "(KStore"):
					hasStore, sync = true, true
				case e == "KLock" || e == "KUnlock" || e == "KDeferUnlock":
					hasLock, sync = true, true
				case strings.HasPrefix(e, "(KLoad") || e == "KLoadClone":
					hasLoad, sync = true, true
				case e == "KUnknown":
					sync = true
				}
			}
			if !sync {
				continue
			}
			x := fn{fd.Name.Name, w.events}
			switch {
			case hasStore || hasLock:
				writers = append(writers, x)
			case hasLoad:
				readers = append(readers, x)
			default:
				others = append(others, x)
			}
		}
	}
	pr := func(name string, fs []fn) {
		fmt.Printf("Definition %s : list skfn := [\n", name)
		for i, f := range fs {
			sep := ";"
			if i == len(fs)-1 {
				sep = ""
			}
			fmt.Printf("  (* %s *) SkFn %s [%s]%s\n", f.name, codes(f.name), strings.Join(f.events, "; "), sep)
		}
		fmt.Println("].")
	}
	names := func(name string, ns []string) {
		sort.Strings(ns)
		var p []string
		for _, n := range ns {
			p = append(p, "(* "+n+" *) "+codes(n))
		}
		fmt.Printf("Definition %s : list (list nat) := [%s].\n", name, strings.Join(p, "; "))
	}
	sort.Slice(writers, func(i, j int) bool { return writers[i].name < writers[j].name })
	sort.Slice(readers, func(i, j int) bool { return readers[i].name < readers[j].name })
	fmt.Println("(* GENERATED by lib/syncskel from larking/*.go on every run of ./check C12 -- do not edit.")
	fmt.Println("   Per function: the synchronisation-relevant statements in source order. *)")
	fmt.Println("From Larking Require Import Base.GoSem Model.Snapshot.")
	fmt.Println("Local Open Scope nat_scope.")
	pr("sk_writers", writers)
	pr("sk_readers", readers)
	pr("sk_unclassified", others)
	names("sk_raw_load", rawLoad)
	names("sk_raw_store", rawStore)
	fmt.Println(`
(* expected: the three writers, the two reader entries, atomic.Value touched only by loadState / storeState *)
Definition skeleton_ok : bool :=
  names_eqb (map skname sk_writers) [ (* DropConn *) [68;114;111;112;67;111;110;110]; (* RegisterConn *) [82;101;103;105;115;116;101;114;67;111;110;110];
                                      (* registerService *) [114;101;103;105;115;116;101;114;83;101;114;118;105;99;101] ] &&
  forallb writer_ok sk_writers &&
  names_eqb (map skname sk_readers) [ (* serveGRPC *) [115;101;114;118;101;71;82;80;67]; (* serveHTTP *) [115;101;114;118;101;72;84;84;80] ] &&
  forallb reader_fn_ok sk_readers &&
  match sk_unclassified with [] => true | _ => false end &&
  names_eqb sk_raw_load [ (* loadState *) [108;111;97;100;83;116;97;116;101] ] &&
  names_eqb sk_raw_store [ (* storeState *) [115;116;111;114;101;83;116;97;116;101] ].
Lemma skeleton_ok_true : skeleton_ok = true.
Proof. vm_compute. reflexivity. Qed.`)
}
